#!/bin/sh
# usage: seedcheck_wt.sh <patch.diff (absolute)> <ID> [tier]
# Like seedcheck.sh but leaves /repo and /verif alone: the seeded change is applied in a scratch
# worktree of /repo HEAD and the check runs from a scratch copy of /verif whose harness module is
# pointed at that worktree. Several of these can run side by side. Prints "SEED-RESULT exit=<n>".
P="$1"; ID="$2"; TIER="${3:-quick}"
WT=/tmp/swt.$$; VF=/tmp/svf.$$
git -C /repo worktree add --detach -q "$WT" HEAD || exit 9
cleanup() { git -C /repo worktree remove --force "$WT" 2>/dev/null; rm -rf "$VF"; }
cd "$WT" || exit 9
if ! git apply "$P" 2>/dev/null; then echo "SEED-RESULT patch-does-not-apply"; cleanup; exit 8; fi
mkdir -p "$VF" && rsync -a --exclude .git --exclude .bin --exclude .gocache --exclude replays /verif/ "$VF"/
mkdir -p "$VF/replays"; [ -d /verif/replays/regression ] && cp -r /verif/replays/regression "$VF/replays/"
sed -i "s#=> /repo#=> $WT#" "$VF/harness/go.mod"
cd "$VF" && VERIF_ROOT="$VF" VERIF_REPO="$WT" VERIF_GOCACHE=/verif/.gocache VERIF_SEED="${VERIF_SEED:-1}" ./run "$ID" "$TIER" > "$VF/seed.log" 2>&1
rc=$?
grep -v "^KNOWN-FINDING" "$VF/seed.log" | tail -n ${SEED_TAIL:-4}
if [ -n "${SEED_KEEP:-}" ]; then mkdir -p "$SEED_KEEP"; cp "$VF"/replays/$ID/violation_*.json "$SEED_KEEP"/ 2>/dev/null; fi
cleanup
echo "SEED-RESULT exit=$rc"
