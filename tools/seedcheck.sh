#!/bin/sh
# usage: seedcheck.sh <patch.diff> <ID> [tier]   — apply a seeded change to /repo, run the check, undo.
# prints the check's tail and "SEED-RESULT exit=<n>"
P="$1"; ID="$2"; TIER="${3:-quick}"
cd /repo || exit 9
if [ -n "$(git status --porcelain)" ]; then echo "repo dirty"; exit 9; fi
if ! git apply "$P" 2>/dev/null; then
  if ! git apply --3way "$P" 2>/dev/null; then echo "SEED-RESULT patch-does-not-apply"; git reset -q; git checkout -- . ; exit 8; fi
  git reset -q
fi
( export GOFLAGS=-mod=mod GOPROXY=off GOSUMDB=off GOTOOLCHAIN=local; go build ./... ) || { echo "SEED-RESULT build-failed"; git checkout -- .; exit 7; }
cd /verif
rm -rf /tmp/seedcheck.$$.evidence; cp -r /verif/evidence /tmp/seedcheck.$$.evidence
./run "$ID" "$TIER" > /tmp/seedcheck.$$.log 2>&1
rc=$?
tail -n ${SEED_TAIL:-6} /tmp/seedcheck.$$.log
rm -f /tmp/seedcheck.$$.log
git -C /repo checkout -- .
git -C /repo status --porcelain
rm -rf /verif/evidence; mv /tmp/seedcheck.$$.evidence /verif/evidence
echo "SEED-RESULT exit=$rc"
