#!/usr/bin/env python3
"""Regenerates the tables of DESIGN.md §11.3 / §11.4 from known_findings.json and seeded/*/meta.json."""
import json, glob, os, re
root = os.path.dirname(os.path.dirname(os.path.abspath(__file__)))
d = json.load(open(os.path.join(root, 'known_findings.json')))
fx = ['| property | commit | what failed |', '|---|---|---|']
for x in d['fixed']:
    m = re.match(r'fixed: property=(\S+) (\S+) (.*)', x)
    fx.append('| %s | `%s` | %s |' % (m.group(1), m.group(2), m.group(3).replace('|', '/')))
fi = ['| id | what fails |', '|---|---|']
for f in d['findings']:
    fi.append('| `%s` | %s |' % (f['id'], re.sub(r'\s+', ' ', f['summary']).replace('|', '/')))
rows = ['| seeded change | first | now | how / what it took |', '|---|---|---|---|']
counts = {}
r2first = {'quick': 0, 'thorough': 0, 'no': 0}
r2now = {'quick': 0, 'thorough': 0, 'no': 0}
r3first = {'quick': 0, 'thorough': 0, 'no': 0}
r3now = {'quick': 0, 'thorough': 0, 'no': 0}
def natural(p):
    b = os.path.basename(p)
    m = re.match(r'(C\d+)-m(\d+)', b)
    return (m.group(1), int(m.group(2))) if m else (b, 0)
for p in sorted(glob.glob(os.path.join(root, 'seeded', '*')), key=natural):
    m = json.load(open(os.path.join(p, 'meta.json')))
    name = os.path.basename(p)
    short = re.sub(r'^(C\d+-m\d+).*', r'\1', name)
    num = int(re.sub(r'^C\d+-m(\d+).*', r'\1', name))
    res = m.get('verif_result') or m.get('detected_by') or ''
    if not isinstance(res, str):
        res = json.dumps(res)
    r = re.sub(r'\s+', ' ', res)
    if num <= 3:
        first = 'detected'
        now = 'detected'
        if r.startswith('NOT detected'):
            first = 'not detected'
            now = 'detected' if ('detected by' in r or 'detected at every' in r) else 'not detected'
        verdict = 'detected' if first == 'detected' else ('detected after strengthening' if now == 'detected' else 'not detected')
        counts[verdict] = counts.get(verdict, 0) + 1
    else:
        fr = m.get('first_result', '')
        first = 'quick' if 'quick tier' in fr and fr.startswith('detected') else ('thorough' if fr.startswith('detected') else 'not detected')
        (r2first if num <= 6 else r3first)['quick' if first == 'quick' else ('thorough' if first == 'thorough' else 'no')] += 1
        fin = m.get('final_result', '')
        now = 'quick' if fin.startswith('detected (quick') else ('thorough' if fin.startswith('detected (thorough') else ('not detected' if fin else '?'))
        (r2now if num <= 6 else r3now)['quick' if now == 'quick' else ('thorough' if now == 'thorough' else 'no')] += 1
        r = (fin + ('. ' + r if r else '')).strip()
    summ = re.sub(r'\s+', ' ', m.get('summary') or '')[:140].replace('|', '/')
    rows.append('| `%s` — %s | %s | %s | %s |' % (short, summ, first, now, r[:240].replace('|', '/')))
s = open(os.path.join(root, 'DESIGN.md')).read()
def put(s, tag, lines):
    a, b = '<!-- %s:begin -->' % tag, '<!-- %s:end -->' % tag
    i, j = s.index(a), s.index(b)
    return s[:i + len(a)] + '\n' + '\n'.join(lines) + '\n' + s[j:]
s = put(s, 'fixed', fx)
s = put(s, 'findings', fi)
s = put(s, 'seeded', rows)
s = re.sub(r'\*\*\d+ defects are repaired\*\*', '**%d defects are repaired**' % len(d['fixed']), s)
s = re.sub(r'\*\*\d+ are\s+listed\*\*', '**%d are\nlisted**' % len(d['findings']), s)
open(os.path.join(root, 'DESIGN.md'), 'w').write(s)
n2 = sum(r2first.values())
s2 = open(os.path.join(root, 'DESIGN.md')).read()
s2 = re.sub(r'<!-- round2first -->[^.]*?(?=\. That number)', '<!-- round2first -->%d of %d at the quick tier (seed 1), %d more at the thorough tier only, %d not at all' % (r2first['quick'], n2, r2first['thorough'], r2first['no']), s2)
s2 = re.sub(r'<!-- round2now -->[^\n]*', '<!-- round2now -->On the final tree: %d of %d at the quick tier, %d more at the thorough tier, %d not detected (each of those is discussed in §11.5).' % (r2now['quick'], n2, r2now['thorough'], r2now['no']), s2)
n3 = sum(r3first.values())
s2 = re.sub(r'<!-- round3 -->[^\n]*', '<!-- round3 -->first pass %d of %d at the quick tier, %d more at the thorough tier, %d not at all; after two generator additions %d quick, %d thorough, %d not detected.' % (r3first['quick'], n3, r3first['thorough'], r3first['no'], r3now['quick'], r3now['thorough'], r3now['no']), s2)
open(os.path.join(root, 'DESIGN.md'), 'w').write(s2)
print(len(d['fixed']), 'fixed;', len(d['findings']), 'listed;', counts, 'round2 first', r2first, 'now', r2now)
