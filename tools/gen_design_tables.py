#!/usr/bin/env python3
"""Regenerates the tables of DESIGN.md §11.3 / §11.4 from known_findings.json and seeded/*/meta.json."""
import json, glob, os, re
root = os.path.dirname(os.path.dirname(os.path.abspath(__file__)))
d = json.load(open(os.path.join(root, 'known_findings.json')))
fx = ['| property | commit | what failed |', '|---|---|---|']
for x in d['fixed']:
    m = re.match(r'fixed: property=(\S+) (\S+) (.*)', x)
    fx.append('| %s | `%s` | %s |' % (m.group(1), m.group(2), m.group(3).replace('|', '/')))
fi = ['| id | what fails |', '|---|---|']
for f in d['findings']:
    fi.append('| `%s` | %s |' % (f['id'], re.sub(r'\s+', ' ', f['summary']).replace('|', '/')))
rows = ['| seeded change | verdict | how / what it took |', '|---|---|---|']
counts = {}
for p in sorted(glob.glob(os.path.join(root, 'seeded', '*'))):
    m = json.load(open(os.path.join(p, 'meta.json')))
    name = os.path.basename(p)
    res = m.get('verif_result') or m.get('detected_by') or ''
    if not isinstance(res, str):
        res = json.dumps(res)
    r = re.sub(r'\s+', ' ', res)
    verdict = 'detected'
    if r.startswith('NOT detected'):
        verdict = 'detected after strengthening' if 'detected by' in r or 'detected at every' in r else 'not detected'
    counts[verdict] = counts.get(verdict, 0) + 1
    summ = re.sub(r'\s+', ' ', m.get('summary') or '')[:150].replace('|', '/')
    rows.append('| `%s` — %s | %s | %s |' % (name, summ, verdict, r[:260].replace('|', '/')))
s = open(os.path.join(root, 'DESIGN.md')).read()
def put(s, tag, lines):
    a, b = '<!-- %s:begin -->' % tag, '<!-- %s:end -->' % tag
    i, j = s.index(a), s.index(b)
    return s[:i + len(a)] + '\n' + '\n'.join(lines) + '\n' + s[j:]
s = put(s, 'fixed', fx)
s = put(s, 'findings', fi)
s = put(s, 'seeded', rows)
s = re.sub(r'\*\*\d+ defects are repaired\*\*', '**%d defects are repaired**' % len(d['fixed']), s)
s = re.sub(r'\*\*\d+ are\s+listed\*\*', '**%d are\nlisted**' % len(d['findings']), s)
open(os.path.join(root, 'DESIGN.md'), 'w').write(s)
print(len(d['fixed']), 'fixed;', len(d['findings']), 'listed;', counts)
