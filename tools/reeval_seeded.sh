#!/bin/sh
# usage: reeval_seeded.sh <outfile> <name:ID>...   — for each seeded change: quick at seeds 1 and 2, then thorough at seed 1;
# stops at the first tier that reports a VIOLATION. Appends "name|tier|seed|detected|summary line" to <outfile>.
OUT="$1"; shift
for item in "$@"; do
  name=${item%%:*}; id=${item##*:}
  found=""
  for try in "quick 1" "quick 2" "thorough 1"; do
    tier=${try% *}; seed=${try#* }
    res=$(VERIF_SEED=$seed VERIF_NOFUZZ=1 SEED_TAIL=2 /verif/tools/seedcheck_wt.sh /verif/seeded/$name/patch.diff $id $tier 2>&1 | tail -3 | tr '\n' ' ' | cut -c1-260)
    case "$res" in
      *"exit=1"*) echo "$name|$tier|$seed|yes|$res" >> "$OUT"; found=1; break;;
      *"exit=0"*) ;;
      *) echo "$name|$tier|$seed|error|$res" >> "$OUT";;
    esac
  done
  [ -z "$found" ] && echo "$name|all|-|no|$res" >> "$OUT"
done
