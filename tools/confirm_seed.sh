#!/bin/sh
# usage: confirm_seed.sh <agent-out-dir (holding patch.diff, demo*, meta.json)> <dest pkg dir inside repo> <go test -run regex> <seed-name>
# Confirms in a scratch worktree: patch applies, builds, full suite passes, demo fails with / passes without.
# On success copies the seed to /verif/seeded/<seed-name>/.
OUT="$1"; DEST="$2"; RUN="$3"; NAME="$4"
export GOFLAGS=-mod=mod GOPROXY=off GOSUMDB=off GOTOOLCHAIN=local
WT=/tmp/confirm.$$
git -C /repo worktree add --detach -q "$WT" HEAD || exit 9
cleanup() { git -C /repo worktree remove --force "$WT"; }
cd "$WT"
if ! git apply "$OUT/patch.diff" 2>/dev/null && ! git apply --3way "$OUT/patch.diff" 2>/dev/null; then echo "CONFIRM: patch does not apply"; cleanup; exit 1; fi
git reset -q
git diff > /tmp/confirm.$$.patch
if ! go build ./... ; then echo "CONFIRM: build fails"; cleanup; exit 1; fi
if ! go test -vet=off -count=1 ./... > /tmp/confirm.$$.log 2>&1; then echo "CONFIRM: suite fails with patch"; grep -v "^ok\|no test files" /tmp/confirm.$$.log | head; rm -f /tmp/confirm.$$.log; cleanup; exit 1; fi
rm -f /tmp/confirm.$$.log
mkdir -p "$WT/$DEST"; for f in "$OUT"/*_test.go; do cp "$f" "$WT/$DEST/zz_seed_$(basename "$f")"; done
if go test -vet=off -count=1 -run "$RUN" "./$DEST/" > /tmp/confirm.$$.d1 2>&1; then echo "CONFIRM: demo PASSES with the patch (should fail)"; rm -f /tmp/confirm.$$.d1; cleanup; exit 1; fi
grep -q "^--- FAIL\|^FAIL" /tmp/confirm.$$.d1 || { echo "CONFIRM: demo did not fail cleanly"; head -20 /tmp/confirm.$$.d1; }
rm -f /tmp/confirm.$$.d1
git checkout -q -- .
if ! go test -vet=off -count=1 -run "$RUN" "./$DEST/" > /tmp/confirm.$$.d2 2>&1; then echo "CONFIRM: demo FAILS on the clean tree"; head -20 /tmp/confirm.$$.d2; rm -f /tmp/confirm.$$.d2; cleanup; exit 1; fi
rm -f /tmp/confirm.$$.d2
cleanup; cd /
cd /; mkdir -p /verif/seeded/$NAME
cp /tmp/confirm.$$.patch /verif/seeded/$NAME/patch.diff; rm -f /tmp/confirm.$$.patch
for f in "$OUT"/*_test.go; do cp "$f" /verif/seeded/$NAME/$(basename "$f"); done
python3 - "$OUT/meta.json" "/verif/seeded/$NAME/meta.json" "$DEST" "$RUN" <<'PY'
import json,sys
m=json.load(open(sys.argv[1]))
m['confirmed']={'by':'tools/confirm_seed.sh in a scratch worktree of /repo HEAD','checks':['patch applies','go build ./...','go test -vet=off -count=1 ./... passes with the patch','demo fails with the patch','demo passes on the clean tree'],'demo_dest_dir':sys.argv[3],'demo_run_regex':sys.argv[4]}
json.dump(m,open(sys.argv[2],'w'),indent=1)
PY
echo "CONFIRM: ok -> /verif/seeded/$NAME"
