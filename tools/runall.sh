#!/bin/sh
# usage: runall.sh [tier] — runs every registered check once (VERIF_SEED from the environment), prints one line per check
TIER="${1:-quick}"
cd /verif || exit 9
for id in $(python3 -c "import json;print(' '.join(c['property_id'] for c in json.load(open('MANIFEST.json'))['checks']))"); do
  start=$(date +%s)
  ./run "$id" "$TIER" > /tmp/runall.$$.log 2>&1
  rc=$?
  echo "$id rc=$rc $(grep -c '^KNOWN-FINDING' /tmp/runall.$$.log) known  $(tail -n 1 /tmp/runall.$$.log)"
  [ $rc -ne 0 ] && grep "VIOLATION\|INCONCLUSIVE" /tmp/runall.$$.log | head -5
done
rm -f /tmp/runall.$$.log
