// Package walk is an independent, reflection-driven traversal of cog's IR
// values (ast.Schemas, ast.Builders, …). It visits every field of every struct,
// exported or not, so positions that cog's own visitors skip are still seen,
// and a field added to an IR struct is visited without editing the harness.
package walk

import (
	"fmt"
	"reflect"
	"sort"
	"strconv"
	"strings"
	"unsafe"
)

// Canon renders v as deterministic text. nil and empty slices/maps are
// identified (cog's hand-written copies normalise them), map keys are sorted,
// pointers are followed, interface values are tagged with their dynamic type.
func Canon(v any) string {
	var sb strings.Builder
	canon(&sb, reflect.ValueOf(v), 0)
	return sb.String()
}

func CanonValue(v reflect.Value) string {
	var sb strings.Builder
	canon(&sb, v, 0)
	return sb.String()
}

func canon(sb *strings.Builder, v reflect.Value, depth int) {
	if depth > 200 {
		sb.WriteString("<too deep>")
		return
	}
	if !v.IsValid() {
		sb.WriteString("nil")
		return
	}
	switch v.Kind() {
	case reflect.Bool:
		sb.WriteString(strconv.FormatBool(v.Bool()))
	case reflect.Int, reflect.Int8, reflect.Int16, reflect.Int32, reflect.Int64:
		sb.WriteString(strconv.FormatInt(v.Int(), 10))
	case reflect.Uint, reflect.Uint8, reflect.Uint16, reflect.Uint32, reflect.Uint64, reflect.Uintptr:
		sb.WriteString(strconv.FormatUint(v.Uint(), 10))
	case reflect.Float32, reflect.Float64:
		sb.WriteString(strconv.FormatFloat(v.Float(), 'g', -1, 64))
	case reflect.String:
		sb.WriteString(strconv.Quote(v.String()))
	case reflect.Interface:
		if v.IsNil() {
			sb.WriteString("nil")
			return
		}
		e := v.Elem()
		sb.WriteString("(" + e.Type().String() + ")")
		canon(sb, e, depth+1)
	case reflect.Ptr:
		if v.IsNil() {
			sb.WriteString("nil")
			return
		}
		sb.WriteString("&")
		canon(sb, v.Elem(), depth+1)
	case reflect.Slice, reflect.Array:
		sb.WriteString("[")
		for i := 0; i < v.Len(); i++ {
			if i > 0 {
				sb.WriteString(",")
			}
			canon(sb, v.Index(i), depth+1)
		}
		sb.WriteString("]")
	case reflect.Map:
		type kv struct {
			k string
			v reflect.Value
		}
		var kvs []kv
		iter := v.MapRange()
		for iter.Next() {
			var ks strings.Builder
			canon(&ks, iter.Key(), depth+1)
			kvs = append(kvs, kv{ks.String(), iter.Value()})
		}
		sort.Slice(kvs, func(i, j int) bool { return kvs[i].k < kvs[j].k })
		sb.WriteString("{")
		for i, e := range kvs {
			if i > 0 {
				sb.WriteString(",")
			}
			sb.WriteString(e.k + ":")
			canon(sb, e.v, depth+1)
		}
		sb.WriteString("}")
	case reflect.Struct:
		sb.WriteString(v.Type().Name() + "{")
		for i := 0; i < v.NumField(); i++ {
			if i > 0 {
				sb.WriteString(",")
			}
			sb.WriteString(v.Type().Field(i).Name + ":")
			canon(sb, v.Field(i), depth+1)
		}
		sb.WriteString("}")
	case reflect.Func:
		if v.IsNil() {
			sb.WriteString("nil")
		} else {
			sb.WriteString("func")
		}
	default:
		sb.WriteString("<" + v.Kind().String() + ">")
	}
}

// Diff reports the first position at which the canonical forms of a and b
// differ, as a type-level path such as "Builder.Options[].Default".
func Diff(a, b any) (path string, detail string, differs bool) {
	return diff(reflect.ValueOf(a), reflect.ValueOf(b), typeName(reflect.ValueOf(a)))
}

func typeName(v reflect.Value) string {
	if !v.IsValid() {
		return "nil"
	}
	t := v.Type()
	for t.Kind() == reflect.Ptr {
		t = t.Elem()
	}
	if t.Name() != "" {
		n := t.Name()
		if i := strings.IndexByte(n, '['); i >= 0 {
			n = n[:i]
		}
		return n
	}
	return t.String()
}

func short(s string) string {
	if len(s) > 160 {
		return s[:160] + "…"
	}
	return s
}

func isEmptyColl(v reflect.Value) bool {
	if !v.IsValid() {
		return true
	}
	switch v.Kind() {
	case reflect.Slice, reflect.Map:
		return v.Len() == 0
	case reflect.Interface, reflect.Ptr:
		return v.IsNil()
	}
	return false
}

func diff(a, b reflect.Value, path string) (string, string, bool) {
	if !a.IsValid() || !b.IsValid() {
		if a.IsValid() != b.IsValid() {
			return path, fmt.Sprintf("%s vs %s", short(CanonValue(a)), short(CanonValue(b))), true
		}
		return "", "", false
	}
	if a.Type() != b.Type() {
		return path, fmt.Sprintf("type %s vs %s", a.Type(), b.Type()), true
	}
	switch a.Kind() {
	case reflect.Interface:
		if a.IsNil() || b.IsNil() {
			if a.IsNil() != b.IsNil() {
				return path, fmt.Sprintf("%s vs %s", short(CanonValue(a)), short(CanonValue(b))), true
			}
			return "", "", false
		}
		if a.Elem().Type() != b.Elem().Type() {
			return path, fmt.Sprintf("dynamic type %s vs %s", a.Elem().Type(), b.Elem().Type()), true
		}
		return diff(a.Elem(), b.Elem(), path)
	case reflect.Ptr:
		if a.IsNil() || b.IsNil() {
			if a.IsNil() != b.IsNil() {
				return path, fmt.Sprintf("%s vs %s", short(CanonValue(a)), short(CanonValue(b))), true
			}
			return "", "", false
		}
		return diff(a.Elem(), b.Elem(), path)
	case reflect.Slice, reflect.Array:
		if a.Len() != b.Len() {
			return path, fmt.Sprintf("length %d vs %d: %s vs %s", a.Len(), b.Len(), short(CanonValue(a)), short(CanonValue(b))), true
		}
		for i := 0; i < a.Len(); i++ {
			if p, d, x := diff(a.Index(i), b.Index(i), path+"[]"); x {
				return p, d, true
			}
		}
		return "", "", false
	case reflect.Map:
		if a.Len() != b.Len() {
			return path, fmt.Sprintf("map size %d vs %d: %s vs %s", a.Len(), b.Len(), short(CanonValue(a)), short(CanonValue(b))), true
		}
		iter := a.MapRange()
		for iter.Next() {
			bv := b.MapIndex(iter.Key())
			if !bv.IsValid() {
				return path, fmt.Sprintf("key %s missing", CanonValue(iter.Key())), true
			}
			if p, d, x := diff(iter.Value(), bv, path+"{}"); x {
				return p, d, true
			}
		}
		return "", "", false
	case reflect.Struct:
		for i := 0; i < a.NumField(); i++ {
			fp := path + "." + a.Type().Field(i).Name
			if p, d, x := diff(a.Field(i), b.Field(i), fp); x {
				return p, d, true
			}
		}
		return "", "", false
	default:
		ca, cb := CanonValue(a), CanonValue(b)
		if ca != cb {
			return path, fmt.Sprintf("%s vs %s", short(ca), short(cb)), true
		}
		return "", "", false
	}
}

// Addrs collects the addresses of every mutable structure reachable from v:
// non-nil pointers, non-nil maps, slices with at least one element. The value
// is the type-level path at which the structure was first met.
func Addrs(v any) map[uintptr]string {
	out := map[uintptr]string{}
	rv := reflect.ValueOf(v)
	addrs(rv, typeName(rv), out, 0)
	return out
}

func addrs(v reflect.Value, path string, out map[uintptr]string, depth int) {
	if !v.IsValid() || depth > 200 {
		return
	}
	switch v.Kind() {
	case reflect.Interface:
		if !v.IsNil() {
			addrs(v.Elem(), path, out, depth+1)
		}
	case reflect.Ptr:
		if v.IsNil() {
			return
		}
		if v.Elem().Type().Size() > 0 {
			if _, seen := out[v.Pointer()]; seen {
				return
			}
			out[v.Pointer()] = path
		}
		addrs(v.Elem(), path, out, depth+1)
	case reflect.Slice:
		if v.Len() == 0 {
			return
		}
		if v.Type().Elem().Size() > 0 {
			out[v.Pointer()] = path
		}
		for i := 0; i < v.Len(); i++ {
			addrs(v.Index(i), path+"[]", out, depth+1)
		}
	case reflect.Array:
		for i := 0; i < v.Len(); i++ {
			addrs(v.Index(i), path+"[]", out, depth+1)
		}
	case reflect.Map:
		if v.IsNil() {
			return
		}
		out[v.Pointer()] = path
		iter := v.MapRange()
		for iter.Next() {
			addrs(iter.Value(), path+"{}", out, depth+1)
		}
	case reflect.Struct:
		for i := 0; i < v.NumField(); i++ {
			fp := path + "." + v.Type().Field(i).Name
			addrs(v.Field(i), fp, out, depth+1)
		}
	}
}

// Scrub overwrites every mutable location reachable from the addressable value
// v (slice elements are zeroed, map entries deleted, pointees zeroed), depth
// first, so that anything still shared with another value is visibly damaged.
func Scrub(ptr any) {
	v := reflect.ValueOf(ptr)
	if v.Kind() != reflect.Ptr || v.IsNil() {
		return
	}
	seen := map[uintptr]bool{}
	scrub(v.Elem(), seen, 0)
}

func settable(v reflect.Value) reflect.Value {
	if v.CanSet() {
		return v
	}
	if v.CanAddr() {
		return reflect.NewAt(v.Type(), unsafe.Pointer(v.UnsafeAddr())).Elem()
	}
	return v
}

func scrub(v reflect.Value, seen map[uintptr]bool, depth int) {
	if !v.IsValid() || depth > 200 {
		return
	}
	v = settable(v)
	switch v.Kind() {
	case reflect.Interface:
		if v.IsNil() {
			return
		}
		e := v.Elem()
		// the dynamic value of an interface is not addressable; reach through
		// reference kinds only.
		switch e.Kind() {
		case reflect.Ptr, reflect.Map, reflect.Slice:
			scrub(e, seen, depth+1)
		case reflect.Struct:
			// copy, scrub the copy's referenced structures (they are shared
			// with the boxed value)
			cp := reflect.New(e.Type()).Elem()
			cp.Set(e)
			scrubStructRefs(cp, seen, depth+1)
		}
	case reflect.Ptr:
		if v.IsNil() || seen[v.Pointer()] {
			return
		}
		seen[v.Pointer()] = true
		scrub(v.Elem(), seen, depth+1)
		if v.Elem().CanSet() {
			v.Elem().Set(reflect.Zero(v.Elem().Type()))
		}
	case reflect.Slice:
		for i := 0; i < v.Len(); i++ {
			scrub(v.Index(i), seen, depth+1)
			if v.Index(i).CanSet() {
				v.Index(i).Set(reflect.Zero(v.Type().Elem()))
			}
		}
	case reflect.Array:
		for i := 0; i < v.Len(); i++ {
			scrub(v.Index(i), seen, depth+1)
		}
	case reflect.Map:
		if v.IsNil() {
			return
		}
		for _, k := range v.MapKeys() {
			val := v.MapIndex(k)
			switch val.Kind() {
			case reflect.Ptr, reflect.Map, reflect.Slice, reflect.Interface:
				scrub(val, seen, depth+1)
			case reflect.Struct:
				cp := reflect.New(val.Type()).Elem()
				cp.Set(val)
				scrubStructRefs(cp, seen, depth+1)
			}
			v.SetMapIndex(k, reflect.Value{})
		}
	case reflect.Struct:
		for i := 0; i < v.NumField(); i++ {
			scrub(v.Field(i), seen, depth+1)
		}
	}
}

func scrubStructRefs(v reflect.Value, seen map[uintptr]bool, depth int) {
	for i := 0; i < v.NumField(); i++ {
		scrub(v.Field(i), seen, depth)
	}
}

// Each calls fn for every struct value reachable from v (pre-order), with a
// path made of field names, [] for slice elements and {} for map values.
// Interface values (e.g. hints holding types) are entered.
func Each(v any, fn func(path string, s reflect.Value)) {
	each(reflect.ValueOf(v), "", fn, 0)
}

func each(v reflect.Value, path string, fn func(path string, s reflect.Value), depth int) {
	if !v.IsValid() || depth > 300 {
		return
	}
	switch v.Kind() {
	case reflect.Interface, reflect.Ptr:
		if !v.IsNil() {
			each(v.Elem(), path, fn, depth+1)
		}
	case reflect.Slice, reflect.Array:
		for i := 0; i < v.Len(); i++ {
			each(v.Index(i), path+"[]", fn, depth+1)
		}
	case reflect.Map:
		iter := v.MapRange()
		for iter.Next() {
			each(iter.Value(), path+"{"+fmt.Sprint(iter.Key())+"}", fn, depth+1)
		}
	case reflect.Struct:
		fn(path, v)
		for i := 0; i < v.NumField(); i++ {
			each(v.Field(i), path+"."+v.Type().Field(i).Name, fn, depth+1)
		}
	}
}

// ZeroFields sets to its zero value every struct field reachable from the
// pointer ptr for which match returns true (unexported fields included).
func ZeroFields(ptr any, match func(structType reflect.Type, field reflect.StructField) bool) {
	v := reflect.ValueOf(ptr)
	if v.Kind() != reflect.Ptr || v.IsNil() {
		return
	}
	zeroFields(v.Elem(), match, 0)
}

func zeroFields(v reflect.Value, match func(reflect.Type, reflect.StructField) bool, depth int) {
	if !v.IsValid() || depth > 300 {
		return
	}
	v = settable(v)
	switch v.Kind() {
	case reflect.Ptr:
		if !v.IsNil() {
			zeroFields(v.Elem(), match, depth+1)
		}
	case reflect.Interface:
		if v.IsNil() {
			return
		}
		e := v.Elem()
		switch e.Kind() {
		case reflect.Ptr, reflect.Map, reflect.Slice:
			zeroFields(e, match, depth+1)
		case reflect.Struct:
			cp := reflect.New(e.Type()).Elem()
			cp.Set(e)
			zeroFields(cp, match, depth+1)
			if v.CanSet() {
				v.Set(cp)
			}
		}
	case reflect.Slice, reflect.Array:
		for i := 0; i < v.Len(); i++ {
			zeroFields(v.Index(i), match, depth+1)
		}
	case reflect.Map:
		if v.IsNil() {
			return
		}
		for _, k := range v.MapKeys() {
			val := v.MapIndex(k)
			switch val.Kind() {
			case reflect.Struct, reflect.Interface:
				cp := reflect.New(val.Type()).Elem()
				cp.Set(val)
				zeroFields(cp, match, depth+1)
				v.SetMapIndex(k, cp)
			default:
				zeroFields(val, match, depth+1)
			}
		}
	case reflect.Struct:
		for i := 0; i < v.NumField(); i++ {
			f := v.Field(i)
			if match(v.Type(), v.Type().Field(i)) {
				sf := settable(f)
				if sf.CanSet() {
					sf.Set(reflect.Zero(sf.Type()))
				}
				continue
			}
			zeroFields(f, match, depth+1)
		}
	}
}
