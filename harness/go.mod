module github.com/grafana/cog/verifharness

go 1.23

require (
	github.com/grafana/cog v0.0.0
	pgregory.net/rapid v1.3.0
)

require (
	github.com/google/go-cmp v0.7.0 // indirect
	github.com/huandu/xstrings v1.5.0 // indirect
	golang.org/x/text v0.22.0 // indirect
)

replace github.com/grafana/cog => /repo
