// Package cogx wraps the cog entry points the checks drive.
package cogx

import (
	"fmt"

	"github.com/grafana/cog/internal/ast"
	"github.com/grafana/cog/internal/codegen"
	"github.com/grafana/cog/internal/jennies/golang"
	"github.com/grafana/cog/internal/jennies/java"
	"github.com/grafana/cog/internal/jennies/jsonschema"
	"github.com/grafana/cog/internal/jennies/openapi"
	"github.com/grafana/cog/internal/jennies/php"
	"github.com/grafana/cog/internal/jennies/python"
	"github.com/grafana/cog/internal/jennies/typescript"
	"github.com/grafana/cog/internal/languages"
)

// CodeLanguages are the languages with a compiler-pass chain and builders.
var CodeLanguages = []string{"go", "java", "php", "python", "typescript"}

// AllLanguages are all seven outputs.
var AllLanguages = []string{"go", "java", "php", "python", "typescript", "jsonschema", "openapi"}

// NewLanguage returns a fresh language value (languages keep per-run state).
func NewLanguage(name string) languages.Language {
	switch name {
	case "go":
		return golang.New(golang.Config{PackageRoot: "example.com/gen"})
	case "java":
		return java.New(java.Config{PackagePath: "gen"})
	case "php":
		return php.New(php.Config{NamespaceRoot: "Gen"})
	case "python":
		return python.New(python.Config{})
	case "typescript":
		return typescript.New(typescript.Config{})
	case "jsonschema":
		return jsonschema.New(jsonschema.Config{})
	case "openapi":
		return openapi.New(openapi.Config{})
	}
	panic(fmt.Sprintf("unknown language %q", name))
}

// ContextFor runs the language's built-in pass chain (and, with builders,
// builder derivation + nil checks, no veneers) exactly as Pipeline.Run does.
func ContextFor(lang languages.Language, schemas ast.Schemas, builders bool) (languages.Context, error) {
	p, err := codegen.NewPipeline()
	if err != nil {
		return languages.Context{}, err
	}
	p.Output.Builders = builders
	p.Output.Types = true
	return p.ContextForLanguage(lang, schemas)
}
