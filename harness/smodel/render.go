package smodel

import (
	"encoding/json"
	"fmt"
	"sort"
	"strconv"
	"strings"
)

func rawAny(r *json.RawMessage) any {
	var v any
	dec := json.NewDecoder(strings.NewReader(string(*r)))
	dec.UseNumber()
	_ = dec.Decode(&v)
	return v
}

// ---------------------------------------------------------------- JSON Schema

// RenderJSONSchema renders the model as a draft-07 document: definitions plus
// a root $ref to the entry point (the layout of cog's own fixtures).
func RenderJSONSchema(m *Model) string {
	defs := map[string]any{}
	for _, d := range m.Defs {
		s := jsType(m, d.Type)
		if d.Comment != "" {
			s["description"] = d.Comment
		}
		defs[d.Name] = s
	}
	doc := map[string]any{
		"$schema":     "http://json-schema.org/draft-07/schema#",
		"$ref":        "#/definitions/" + m.Entry,
		"definitions": defs,
	}
	out, _ := json.MarshalIndent(doc, "", "  ")
	return string(out)
}

func jsType(m *Model, t T) map[string]any {
	s := jsTypeNoNull(m, t)
	// an unconstrained nullable scalar is written with a type array, the other
	// common spelling of nullability
	if t.Nullable && t.Const == nil && t.Default == nil && t.Min == nil && t.Max == nil && t.MinLen == nil && t.MaxLen == nil {
		switch t.Kind {
		case KInt, KString, KBool, KFloat:
			return map[string]any{"type": []any{s["type"], "null"}}
		}
	}
	if t.Nullable {
		return map[string]any{"anyOf": []any{s, map[string]any{"type": "null"}}}
	}
	return s
}

func jsTypeNoNull(m *Model, t T) map[string]any {
	s := map[string]any{}
	switch t.Kind {
	case KStruct:
		s["type"] = "object"
		props := map[string]any{}
		var required []string
		for _, f := range t.Fields {
			fs := jsType(m, f.Type)
			if f.Comment != "" {
				fs["description"] = f.Comment
			}
			props[f.Name] = fs
			if f.Required {
				required = append(required, f.Name)
			}
		}
		s["properties"] = props
		if len(required) > 0 {
			s["required"] = required
		}
		s["additionalProperties"] = false
	case KBool:
		s["type"] = "boolean"
	case KString:
		s["type"] = "string"
		if t.Format != "" {
			s["format"] = t.Format
		}
		if t.MinLen != nil {
			s["minLength"] = *t.MinLen
		}
		if t.MaxLen != nil {
			s["maxLength"] = *t.MaxLen
		}
	case KDateTime:
		s["type"] = "string"
		s["format"] = "date-time"
	case KInt:
		s["type"] = "integer"
		jsBounds(s, t)
	case KFloat:
		s["type"] = "number"
		jsBounds(s, t)
	case KEnum:
		if t.EnumKind == "int" {
			s["type"] = "integer"
		} else {
			s["type"] = "string"
		}
		var vals []any
		for i := range t.Members {
			vals = append(vals, rawAny(&t.Members[i]))
		}
		s["enum"] = vals
	case KArray:
		s["type"] = "array"
		s["items"] = jsType(m, *t.Elem)
	case KMap:
		s["type"] = "object"
		s["additionalProperties"] = jsType(m, *t.Elem)
	case KRef:
		s["$ref"] = "#/definitions/" + t.Ref
		return s // siblings of $ref are ignored in draft-07
	case KUScalars:
		if names, ok := typeListOf(t); ok {
			s["type"] = names
			break
		}
		var branches []any
		for _, b := range t.Branches {
			branches = append(branches, jsType(m, b))
		}
		s["anyOf"] = branches
	case KIntersection:
		var branches []any
		for _, r := range t.Refs {
			branches = append(branches, map[string]any{"$ref": "#/definitions/" + r})
		}
		if len(t.Fields) > 0 {
			inline := jsTypeNoNull(m, T{Kind: KStruct, Fields: t.Fields})
			delete(inline, "additionalProperties")
			branches = append(branches, inline)
		}
		s["allOf"] = branches
	case KUStructs:
		var branches []any
		for _, r := range t.Refs {
			branches = append(branches, map[string]any{"$ref": "#/definitions/" + r})
		}
		s["anyOf"] = branches
	case KAny:
	}
	if t.Const != nil {
		s["const"] = rawAny(t.Const)
	}
	if t.Default != nil {
		s["default"] = rawAny(t.Default)
	}
	return s
}

func numJSON(f float64, integer bool) any {
	if integer {
		return json.Number(strconv.FormatInt(int64(f), 10))
	}
	return json.Number(strconv.FormatFloat(f, 'g', -1, 64))
}

func jsBounds(s map[string]any, t T) {
	integer := t.Kind == KInt
	if t.Min != nil {
		if t.ExclMin {
			s["exclusiveMinimum"] = numJSON(*t.Min, integer)
		} else {
			s["minimum"] = numJSON(*t.Min, integer)
		}
	}
	if t.Max != nil {
		if t.ExclMax {
			s["exclusiveMaximum"] = numJSON(*t.Max, integer)
		} else {
			s["maximum"] = numJSON(*t.Max, integer)
		}
	}
}

// -------------------------------------------------------------------- OpenAPI

// RenderOpenAPI renders the model as an OpenAPI 3.0 document with the
// definitions under components.schemas.
func RenderOpenAPI(m *Model) string {
	schemas := map[string]any{}
	for _, d := range m.Defs {
		s := oaType(m, d.Type)
		if d.Comment != "" {
			if _, isRef := s["$ref"]; !isRef {
				s["description"] = d.Comment
			}
		}
		schemas[d.Name] = s
	}
	doc := map[string]any{
		"openapi":    "3.0.0",
		"info":       map[string]any{"title": m.Package, "version": "1.0.0"},
		"paths":      map[string]any{},
		"components": map[string]any{"schemas": schemas},
	}
	out, _ := json.MarshalIndent(doc, "", "  ")
	return string(out)
}

// MovableDefs returns the greatest set of definitions, not containing the
// entry point, that is closed under references: these can live in a second
// package without that package referring back to the first.
func (m *Model) MovableDefs() map[string]bool {
	set := map[string]bool{}
	for _, d := range m.Defs {
		if d.Name != m.Entry {
			set[d.Name] = true
		}
	}
	for changed := true; changed; {
		changed = false
		for _, d := range m.Defs {
			if !set[d.Name] {
				continue
			}
			ok := true
			dt := d.Type
			walkT(&dt, d.Name, "", func(_ string, _ string, t *T) {
				if t.Kind == KRef && !set[t.Ref] {
					ok = false
				}
				for _, r := range t.Refs {
					if !set[r] {
						ok = false
					}
				}
			})
			if !ok {
				delete(set, d.Name)
				changed = true
			}
		}
	}
	return set
}

// RenderOpenAPISplit renders the model as two OpenAPI documents: package
// m.Package holds the definitions not in moved and refers to the others as
// `<otherPkg>.json#/components/schemas/X`; package otherPkg holds the moved
// ones. moved must be closed under references.
func RenderOpenAPISplit(m *Model, otherPkg string, moved map[string]bool) (main string, other string) {
	var full map[string]any
	_ = json.Unmarshal([]byte(RenderOpenAPI(m)), &full)
	schemas := full["components"].(map[string]any)["schemas"].(map[string]any)
	a, b := map[string]any{}, map[string]any{}
	var rewrite func(v any) any
	rewrite = func(v any) any {
		switch x := v.(type) {
		case map[string]any:
			for k, e := range x {
				if str, ok := e.(string); ok && (k == "$ref" || strings.HasPrefix(str, "#/components/schemas/")) {
					name := strings.TrimPrefix(str, "#/components/schemas/")
					if name != str && moved[name] {
						x[k] = otherPkg + ".json#/components/schemas/" + name
					}
					continue
				}
				x[k] = rewrite(e)
			}
		case []any:
			for i := range x {
				x[i] = rewrite(x[i])
			}
		}
		return v
	}
	for name, sch := range schemas {
		if moved[name] {
			b[name] = sch
		} else {
			a[name] = rewrite(sch)
		}
	}
	mk := func(pkg string, sch map[string]any) string {
		doc := map[string]any{
			"openapi":    "3.0.0",
			"info":       map[string]any{"title": pkg, "version": "1.0.0"},
			"paths":      map[string]any{},
			"components": map[string]any{"schemas": sch},
		}
		out, _ := json.MarshalIndent(doc, "", "  ")
		return string(out)
	}
	return mk(m.Package, a), mk(otherPkg, b)
}

// typeListOf: the JSON type names of a union of plain scalars asked to be
// rendered as a type list.
func typeListOf(t T) ([]any, bool) {
	if !t.TypeList {
		return nil, false
	}
	var names []any
	for _, b := range t.Branches {
		if b.Nullable || b.Const != nil || b.Default != nil || b.Min != nil || b.Max != nil || b.MinLen != nil || b.MaxLen != nil || b.Format != "" {
			return nil, false
		}
		switch b.Kind {
		case KString:
			names = append(names, "string")
		case KBool:
			names = append(names, "boolean")
		case KInt:
			names = append(names, "integer")
		case KFloat:
			names = append(names, "number")
		default:
			return nil, false
		}
	}
	return names, true
}

func regexQuote(s string) string {
	var sb strings.Builder
	for _, r := range s {
		if strings.ContainsRune(`\.+*?()|[]{}^$`, r) {
			sb.WriteByte('\\')
		}
		sb.WriteRune(r)
	}
	return sb.String()
}

func oaType(m *Model, t T) map[string]any {
	s := map[string]any{}
	switch t.Kind {
	case KStruct:
		s["type"] = "object"
		props := map[string]any{}
		var required []string
		for _, f := range t.Fields {
			fs := oaType(m, f.Type)
			if f.Comment != "" {
				if _, isRef := fs["$ref"]; !isRef {
					fs["description"] = f.Comment
				}
			}
			props[f.Name] = fs
			if f.Required {
				required = append(required, f.Name)
			}
		}
		s["properties"] = props
		if len(required) > 0 {
			s["required"] = required
		}
		s["additionalProperties"] = false
	case KBool:
		s["type"] = "boolean"
	case KString:
		s["type"] = "string"
		if t.Format != "" {
			s["format"] = t.Format
		}
		if t.MinLen != nil {
			s["minLength"] = *t.MinLen
		}
		if t.MaxLen != nil {
			s["maxLength"] = *t.MaxLen
		}
		if t.Const != nil {
			var c string
			_ = json.Unmarshal(*t.Const, &c)
			s["pattern"] = "^" + regexQuote(c) + "$"
		}
	case KBytes:
		s["type"] = "string"
		s["format"] = "byte"
	case KDateTime:
		s["type"] = "string"
		s["format"] = "date-time"
	case KInt:
		s["type"] = "integer"
		if t.Width == "int32" {
			s["format"] = "int32"
		} else {
			s["format"] = "int64"
		}
		oaBounds(s, t)
	case KFloat:
		s["type"] = "number"
		if t.Width == "float32" {
			s["format"] = "float"
		} else {
			s["format"] = "double"
		}
		oaBounds(s, t)
	case KEnum:
		if t.EnumKind == "int" {
			s["type"] = "integer"
		} else {
			s["type"] = "string"
		}
		var vals []any
		for i := range t.Members {
			vals = append(vals, rawAny(&t.Members[i]))
		}
		s["enum"] = vals
	case KArray:
		s["type"] = "array"
		s["items"] = oaType(m, *t.Elem)
	case KMap:
		s["type"] = "object"
		s["additionalProperties"] = oaType(m, *t.Elem)
	case KRef:
		s["$ref"] = "#/components/schemas/" + t.Ref
		return s
	case KUScalars:
		if names, ok := typeListOf(t); ok {
			s["type"] = names
			break
		}
		var branches []any
		for _, b := range t.Branches {
			branches = append(branches, oaType(m, b))
		}
		s["anyOf"] = branches
	case KIntersection:
		var branches []any
		for _, r := range t.Refs {
			branches = append(branches, map[string]any{"$ref": "#/components/schemas/" + r})
		}
		if len(t.Fields) > 0 {
			inline := oaType(m, T{Kind: KStruct, Fields: t.Fields})
			delete(inline, "additionalProperties")
			branches = append(branches, inline)
		}
		s["allOf"] = branches
	case KUStructs:
		var branches []any
		mapping := map[string]any{}
		for _, r := range t.Refs {
			branches = append(branches, map[string]any{"$ref": "#/components/schemas/" + r})
			mapping[discriminatorValue(m, r, t.Discriminator)] = "#/components/schemas/" + r
		}
		s["oneOf"] = branches
		disc := map[string]any{"propertyName": t.Discriminator}
		if t.ExplicitMapping {
			disc["mapping"] = mapping
		}
		s["discriminator"] = disc
	case KAny:
	}
	if t.Nullable {
		s["nullable"] = true
	}
	if t.Default != nil {
		s["default"] = rawAny(t.Default)
	}
	return s
}

func oaBounds(s map[string]any, t T) {
	integer := t.Kind == KInt
	if t.Min != nil {
		s["minimum"] = numJSON(*t.Min, integer)
		if t.ExclMin {
			s["exclusiveMinimum"] = true
		}
	}
	if t.Max != nil {
		s["maximum"] = numJSON(*t.Max, integer)
		if t.ExclMax {
			s["exclusiveMaximum"] = true
		}
	}
}

// discriminatorValue returns the constant the branch struct fixes for the
// discriminator field.
func discriminatorValue(m *Model, ref string, field string) string {
	d := m.Def(ref)
	if d == nil {
		return strings.ToLower(ref)
	}
	for _, f := range d.Type.Fields {
		if f.Name == field && f.Type.Const != nil {
			var c string
			_ = json.Unmarshal(*f.Type.Const, &c)
			return c
		}
	}
	return strings.ToLower(ref)
}

// UnionBranch picks the branch struct of a union of structs that a value
// belongs to (by its discriminator).
func (m *Model) UnionBranch(t T, v any) (T, bool) {
	obj, ok := v.(map[string]any)
	if !ok || t.Kind != KUStructs {
		return T{}, false
	}
	dv, _ := obj[t.Discriminator].(string)
	for _, r := range t.Refs {
		if discriminatorValue(m, r, t.Discriminator) == dv {
			if d := m.Def(r); d != nil {
				return d.Type, true
			}
		}
	}
	return T{}, false
}

// ------------------------------------------------------------------------ CUE

// RenderCUE renders the model as one CUE file of definitions (#Name: …).
func RenderCUE(m *Model) string {
	var sb strings.Builder
	fmt.Fprintf(&sb, "package %s\n\n", m.Package)
	imports := map[string]bool{}
	var body strings.Builder
	for _, d := range m.Defs {
		if d.Comment != "" {
			fmt.Fprintf(&body, "// %s\n", d.Comment)
		}
		fmt.Fprintf(&body, "#%s: %s\n\n", d.Name, cueType(m, d.Type, 0, imports))
	}
	if len(imports) > 0 {
		var names []string
		for k := range imports {
			names = append(names, k)
		}
		sort.Strings(names)
		sb.WriteString("import (\n")
		for _, n := range names {
			fmt.Fprintf(&sb, "\t%q\n", n)
		}
		sb.WriteString(")\n\n")
	}
	sb.WriteString(body.String())
	return sb.String()
}

func cueLit(r *json.RawMessage) string {
	return string(*r) // JSON scalars, lists and objects are CUE literals
}

func cueLabel(name string) string {
	ident := true
	for i, r := range name {
		if !(r == '_' || r == '$' || (r >= 'a' && r <= 'z') || (r >= 'A' && r <= 'Z') || (i > 0 && r >= '0' && r <= '9')) {
			ident = false
		}
	}
	// a field named like a predeclared identifier or an imported package would
	// shadow it inside the struct: quoted labels can not be referenced
	switch name {
	case "string", "bytes", "bool", "int", "float", "number", "null", "len", "time", "strings", "true", "false",
		"int8", "int16", "int32", "int64", "uint", "uint8", "uint16", "uint32", "uint64", "float32", "float64",
		"close", "and", "or", "div", "mod", "quo", "rem", "rune", "import", "package", "for", "in", "if", "let", "func":
		ident = false
	}
	if ident && name != "" {
		return name
	}
	return strconv.Quote(name)
}

func cueNum(f float64, integer bool) string {
	if integer {
		return strconv.FormatInt(int64(f), 10)
	}
	s := strconv.FormatFloat(f, 'f', -1, 64)
	if !strings.Contains(s, ".") {
		s += ".0"
	}
	return s
}

// cueBound writes a bound. cog reads a number's type back from CUE's printed
// syntax, and CUE folds `float64 & >=0.5` into the bare bound: only bounds
// written as integer literals keep the type (the spelling cog's fixtures use).
func cueBound(f float64, integer bool) string {
	if integer || f == float64(int64(f)) {
		return strconv.FormatInt(int64(f), 10)
	}
	return cueNum(f, false)
}

func cueType(m *Model, t T, indent int, imports map[string]bool) string {
	base := cueTypeNoNull(m, t, indent, imports)
	if t.Default != nil && t.Kind != KEnum {
		base = "*" + cueLit(t.Default) + " | " + base
	}
	if t.Nullable {
		base = base + " | null"
	}
	return base
}

func cueTypeNoNull(m *Model, t T, indent int, imports map[string]bool) string {
	pad := strings.Repeat("\t", indent+1)
	switch t.Kind {
	case KStruct:
		var sb strings.Builder
		sb.WriteString("{\n")
		for _, f := range t.Fields {
			if f.Comment != "" {
				fmt.Fprintf(&sb, "%s// %s\n", pad, f.Comment)
			}
			opt := ""
			if !f.Required {
				opt = "?"
			}
			fmt.Fprintf(&sb, "%s%s%s: %s\n", pad, cueLabel(f.Name), opt, cueType(m, f.Type, indent+1, imports))
		}
		sb.WriteString(strings.Repeat("\t", indent) + "}")
		return sb.String()
	case KBool:
		if t.Const != nil {
			return cueLit(t.Const)
		}
		return "bool"
	case KString:
		if t.Const != nil {
			return cueLit(t.Const)
		}
		s := "string"
		if t.MinLen != nil {
			imports["strings"] = true
			s += fmt.Sprintf(" & strings.MinRunes(%d)", *t.MinLen)
		}
		if t.MaxLen != nil {
			imports["strings"] = true
			s += fmt.Sprintf(" & strings.MaxRunes(%d)", *t.MaxLen)
		}
		return s
	case KDateTime:
		imports["time"] = true
		return "time.Time"
	case KInt, KFloat:
		if t.Const != nil {
			return cueLit(t.Const)
		}
		w := t.Width
		if w == "" {
			if t.Kind == KInt {
				w = "int64"
			} else {
				w = "float64"
			}
		}
		s := w
		// with two bounds CUE folds `float64 & >=1 & <3` into bare bounds and
		// cog can no longer read the type back; `float` survives
		if w == "float64" && t.Min != nil && t.Max != nil {
			s = "float"
		}
		integer := t.Kind == KInt
		if t.Min != nil {
			op := ">="
			if t.ExclMin {
				op = ">"
			}
			s += " & " + op + cueBound(*t.Min, integer)
		}
		if t.Max != nil {
			op := "<="
			if t.ExclMax {
				op = "<"
			}
			s += " & " + op + cueBound(*t.Max, integer)
		}
		return s
	case KEnum:
		var parts []string
		for i := range t.Members {
			lit := cueLit(&t.Members[i])
			if t.Default != nil && string(*t.Default) == string(t.Members[i]) {
				lit = "*" + lit
			}
			parts = append(parts, lit)
		}
		s := strings.Join(parts, " | ")
		if t.EnumKind == "int" {
			s += fmt.Sprintf(" @cog(kind=\"enum\",memberNames=\"%s\")", strings.Join(t.MemberNames, "|"))
		} else if len(t.Members) == 1 {
			s += " @cog(kind=\"enum\")"
		}
		return s
	case KArray:
		return "[..." + wrapCue(cueType(m, *t.Elem, indent, imports)) + "]"
	case KMap:
		return "{[string]: " + cueType(m, *t.Elem, indent, imports) + "}"
	case KRef:
		return "#" + t.Ref
	case KUScalars:
		var parts []string
		for _, b := range t.Branches {
			parts = append(parts, cueType(m, b, indent, imports))
		}
		return strings.Join(parts, " | ")
	case KUStructs:
		var parts []string
		for _, r := range t.Refs {
			parts = append(parts, "#"+r)
		}
		return strings.Join(parts, " | ")
	case KAny:
		return "_"
	}
	return "_"
}

func wrapCue(s string) string {
	if strings.Contains(s, " | ") {
		return "(" + s + ")"
	}
	return s
}

// Render dispatches on the format.
func Render(f Format, m *Model) string {
	switch f {
	case JSONSchema:
		return RenderJSONSchema(m)
	case OpenAPI:
		return RenderOpenAPI(m)
	default:
		return RenderCUE(m)
	}
}
