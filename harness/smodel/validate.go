package smodel

import (
	"bytes"
	"context"
	"encoding/json"
	"fmt"
	"strings"

	"cuelang.org/go/cue"
	"cuelang.org/go/cue/cuecontext"
	"github.com/getkin/kin-openapi/openapi3"
	"github.com/santhosh-tekuri/jsonschema/v5"
)

// Validator judges documents against the *rendered source text* of a model
// with the schema language's own reference implementation.
type Validator struct {
	format Format
	// jsonschema
	js map[string]*jsonschema.Schema
	// openapi
	oa *openapi3.T
	// cue
	cueCtx *cue.Context
	cueVal cue.Value
}

// NewValidator compiles the rendered schema. An error means the rendering
// itself is not a valid document of its kind (a harness defect).
func NewValidator(f Format, m *Model, source string) (*Validator, error) {
	var names []string
	for _, d := range m.Defs {
		names = append(names, d.Name)
	}
	return NewValidatorFor(f, names, source)
}

// NewValidatorFor compiles any schema document of the format (e.g. one cog
// emitted) for the named definitions.
func NewValidatorFor(f Format, names []string, source string) (*Validator, error) {
	v := &Validator{format: f}
	switch f {
	case JSONSchema:
		v.js = map[string]*jsonschema.Schema{}
		for _, name := range names {
			c := jsonschema.NewCompiler()
			c.Draft = jsonschema.Draft7
			c.AssertFormat = true
			if err := c.AddResource("mem://schema.json", strings.NewReader(source)); err != nil {
				return nil, err
			}
			s, err := c.Compile("mem://schema.json#/definitions/" + jsonPointerEscape(name))
			if err != nil {
				return nil, err
			}
			v.js[name] = s
		}
	case OpenAPI:
		loader := openapi3.NewLoader()
		doc, err := loader.LoadFromData([]byte(source))
		if err != nil {
			return nil, err
		}
		if err := doc.Validate(context.Background()); err != nil {
			return nil, err
		}
		v.oa = doc
	case CUE:
		v.cueCtx = cuecontext.New()
		v.cueVal = v.cueCtx.CompileString(source)
		if err := v.cueVal.Err(); err != nil {
			return nil, err
		}
	}
	return v, nil
}

func jsonPointerEscape(s string) string {
	return strings.NewReplacer("~", "~0", "/", "~1", "%", "%25", " ", "%20").Replace(s)
}

// Validate returns nil when the reference validator accepts the document as an
// instance of definition def.
func (v *Validator) Validate(def string, docJSON string) error {
	switch v.format {
	case JSONSchema:
		s, ok := v.js[def]
		if !ok {
			return fmt.Errorf("no definition %s", def)
		}
		doc, err := ParseJSON(docJSON)
		if err != nil {
			return err
		}
		return s.Validate(doc)
	case OpenAPI:
		ref, ok := v.oa.Components.Schemas[def]
		if !ok || ref.Value == nil {
			return fmt.Errorf("no definition %s", def)
		}
		var doc any
		dec := json.NewDecoder(bytes.NewReader([]byte(docJSON)))
		if err := dec.Decode(&doc); err != nil {
			return err
		}
		return ref.Value.VisitJSON(doc, openapi3.EnableFormatValidation())
	default:
		defVal := v.cueVal.LookupPath(cue.ParsePath("#" + def))
		if err := defVal.Err(); err != nil {
			return err
		}
		docVal := v.cueCtx.CompileBytes([]byte(docJSON))
		if err := docVal.Err(); err != nil {
			return err
		}
		return defVal.Unify(docVal).Validate(cue.Concrete(true))
	}
}
