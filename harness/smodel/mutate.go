package smodel

import (
	"encoding/json"
	"sort"
	"strconv"
)

// Mutation is a document derived from another by changing exactly one leaf
// (a value, the presence of an optional property, a map key, the order or
// number of array elements). It need not be schema-valid, only decodable.
type Mutation struct {
	Class   string   `json:"class"`
	Path    string   `json:"path"`
	Depth   int      `json:"depth"`
	Context []string `json:"context"`
	JSON    string   `json:"json"`
}

type mutGen struct {
	m    *Model
	root any
	out  []Mutation
}

func (g *mutGen) emit(class string, steps []step, kinds []string, ctx []string, mutated any) {
	raw, _ := json.Marshal(mutated)
	g.out = append(g.out, Mutation{Class: class, Path: pathString(steps, kinds), Depth: len(steps), Context: append([]string(nil), ctx...), JSON: string(raw)})
}

func (g *mutGen) walk(v any, t T, steps []step, kinds []string, ctx []string) {
	if v == nil || t.Const != nil {
		return
	}
	replace := func(nv any) any {
		if len(steps) == 0 {
			return nv
		}
		return setAt(g.root, steps, func(parent any, last step) {
			if last.isK {
				parent.(map[string]any)[last.key] = nv
			} else {
				parent.([]any)[last.idx] = nv
			}
		})
	}
	switch t.Kind {
	case KStruct:
		obj, ok := v.(map[string]any)
		if !ok {
			return
		}
		for _, f := range t.Fields {
			fsteps := append(append([]step{}, steps...), step{key: f.Name, isK: true})
			fkinds := append(append([]string{}, kinds...), "field")
			fctx := ctx
			if !f.Required {
				fctx = append(append([]string{}, ctx...), "optional")
			}
			fv, present := obj[f.Name]
			if present && !f.Required && fv != nil {
				mutated := setAt(g.root, fsteps, func(parent any, last step) { delete(parent.(map[string]any), last.key) })
				g.emit("optional_removed", fsteps, fkinds, fctx, mutated)
			}
			if present {
				g.walk(fv, f.Type, fsteps, fkinds, fctx)
			}
		}
	case KString:
		if s, ok := v.(string); ok {
			g.emit("value_changed:string", steps, kinds, ctx, replace(s+"~"))
		}
	case KBytes:
		if s, ok := v.(string); ok {
			nv := "AAEC"
			if s == nv {
				nv = "aGVsbG8="
			}
			g.emit("value_changed:bytes", steps, kinds, ctx, replace(nv))
		}
	case KBool:
		if b, ok := v.(bool); ok {
			g.emit("value_changed:bool", steps, kinds, ctx, replace(!b))
		}
	case KDateTime:
		if s, ok := v.(string); ok {
			nv := dateTimes[0]
			if s == nv {
				nv = dateTimes[1]
			}
			g.emit("value_changed:datetime", steps, kinds, ctx, replace(nv))
		}
	case KInt:
		if n, ok := v.(json.Number); ok {
			i, err := strconv.ParseInt(string(n), 10, 64)
			if err == nil {
				lo, hi := widthRange(t.Width)
				nv := i + 1
				if float64(nv) > hi {
					nv = i - 1
				}
				if float64(nv) >= lo {
					g.emit("value_changed:int", steps, kinds, ctx, replace(json.Number(strconv.FormatInt(nv, 10))))
				}
			}
		}
	case KFloat:
		if n, ok := v.(json.Number); ok {
			f, err := strconv.ParseFloat(string(n), 64)
			if err == nil {
				g.emit("value_changed:float", steps, kinds, ctx, replace(json.Number(strconv.FormatFloat(f+0.5, 'f', -1, 64))))
			}
		}
	case KEnum:
		if len(t.Members) > 1 {
			cur, _ := json.Marshal(v)
			for i := range t.Members {
				if string(t.Members[i]) != string(cur) {
					g.emit("value_changed:enum", steps, kinds, ctx, replace(rawAny(&t.Members[i])))
					break
				}
			}
		}
	case KArray:
		arr, ok := v.([]any)
		if !ok {
			return
		}
		if len(arr) > 0 {
			g.emit("array_element_dropped", steps, kinds, ctx, replace(deepCopyJSON(arr[:len(arr)-1])))
		}
		if len(arr) > 1 {
			a0, _ := json.Marshal(arr[0])
			a1, _ := json.Marshal(arr[1])
			if string(a0) != string(a1) {
				sw := deepCopyJSON(arr).([]any)
				sw[0], sw[1] = sw[1], sw[0]
				g.emit("array_elements_swapped", steps, kinds, ctx, replace(sw))
			}
		}
		for i, e := range arr {
			g.walk(e, *t.Elem, append(append([]step{}, steps...), step{idx: i}), append(append([]string{}, kinds...), "index"), append(append([]string{}, ctx...), "array"))
		}
	case KMap:
		obj, ok := v.(map[string]any)
		if !ok {
			return
		}
		keys := make([]string, 0, len(obj))
		for k := range obj {
			keys = append(keys, k)
		}
		sort.Strings(keys)
		if len(keys) > 0 {
			// same value under another key
			ren := deepCopyJSON(obj).(map[string]any)
			ren["renamed key"] = ren[keys[0]]
			delete(ren, keys[0])
			g.emit("map_key_renamed", steps, kinds, ctx, replace(ren))
			drop := deepCopyJSON(obj).(map[string]any)
			delete(drop, keys[0])
			g.emit("map_entry_dropped", steps, kinds, ctx, replace(drop))
		}
		for _, k := range keys {
			g.walk(obj[k], *t.Elem, append(append([]step{}, steps...), step{key: k, isK: true}), append(append([]string{}, kinds...), "mapkey"), append(append([]string{}, ctx...), "map"))
		}
	case KRef:
		if d := g.m.Def(t.Ref); d != nil {
			tag := "ref"
			if d.Type.Kind == KArray || d.Type.Kind == KMap {
				tag = "namedcoll"
			}
			g.walk(v, d.Type, steps, kinds, append(append([]string{}, ctx...), tag))
		}
	case KUStructs:
		if obj, ok := v.(map[string]any); ok {
			dv, _ := obj[t.Discriminator].(string)
			for _, r := range t.Refs {
				if discriminatorValue(g.m, r, t.Discriminator) == dv {
					g.walk(v, g.m.Def(r).Type, steps, kinds, append(append([]string{}, ctx...), "union"))
				}
			}
		}
	case KUScalars:
		switch x := v.(type) {
		case string:
			g.emit("value_changed:union_scalar", steps, kinds, append(append([]string{}, ctx...), "union"), replace(x+"~"))
		case bool:
			g.emit("value_changed:union_scalar", steps, kinds, append(append([]string{}, ctx...), "union"), replace(!x))
		}
	case KAny:
		if s, ok := v.(string); ok {
			g.emit("value_changed:any", steps, kinds, ctx, replace(s+"~"))
		}
	}
}

// Mutations enumerates every single-leaf mutation of a document.
func Mutations(m *Model, def string, docJSON string) ([]Mutation, error) {
	root, err := ParseJSON(docJSON)
	if err != nil {
		return nil, err
	}
	d := m.Def(def)
	g := &mutGen{m: m, root: root}
	g.walk(root, d.Type, nil, nil, nil)
	return g.out, nil
}

// NormalizeEmpty removes object members whose value is null, an empty array or
// an empty object (recursively): the tolerance C13 grants between an absent /
// null collection and an empty one.
func NormalizeEmpty(v any) any {
	switch x := v.(type) {
	case map[string]any:
		out := map[string]any{}
		for k, e := range x {
			n := NormalizeEmpty(e)
			switch y := n.(type) {
			case nil:
				continue
			case []any:
				if len(y) == 0 {
					continue
				}
			case map[string]any:
				if len(y) == 0 {
					continue
				}
			}
			out[k] = n
		}
		return out
	case []any:
		out := make([]any, 0, len(x))
		for _, e := range x {
			out = append(out, NormalizeEmpty(e))
		}
		return out
	}
	return v
}
