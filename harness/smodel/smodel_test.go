package smodel

import (
	"fmt"
	"os"
	"testing"

	"pgregory.net/rapid"
)

// Self-test of the harness: every rendering compiles under its reference
// validator, valid documents are accepted, single-fault documents rejected.
func TestModelSelfConsistency(t *testing.T) {
	stats := map[string]int{}
	rapid.Check(t, func(rt *rapid.T) {
		f := rapid.SampledFrom(Formats).Draw(rt, "format")
		if only := os.Getenv("SMODEL_FORMAT"); only != "" {
			f = Format(only)
		}
		cfg := DefaultGenConfig(f)
		cfg.NestedCollections = rapid.Bool().Draw(rt, "nested")
		cfg.NamedUnions = rapid.Bool().Draw(rt, "namedunions")
		m := Draw(rt, cfg)
		src := Render(f, m)
		_ = os.WriteFile("/tmp/last_model_src.txt", []byte(src), 0o644)
		v, err := NewValidator(f, m, src)
		if err != nil {
			rt.Fatalf("%s rendering does not compile: %v\n%s", f, err, src)
		}
		for _, def := range m.DocDefs() {
			for i := 0; i < 3; i++ {
				d := DrawDoc(rt, m, def)
				_ = os.WriteFile("/tmp/last_model_doc.txt", []byte(def+"\n"+d.JSON), 0o644)
				stats["docs"]++
				if err := v.Validate(def, d.JSON); err != nil {
					rt.Fatalf("%s: valid-by-construction document rejected for %s: %v\ndoc: %s\n%s", f, def, err, d.JSON, src)
				}
				faults, err := Faults(f, m, def, d.JSON)
				if err != nil {
					rt.Fatalf("faults: %v", err)
				}
				for _, ft := range faults {
					stats["faults"]++
					stats["fault:"+ft.Class]++
					if ft.Class == "defaulted_removed" {
						// not a fault: valid where the schema language fills the default in
						continue
					}
					if err := v.Validate(def, ft.JSON); err == nil {
						rt.Fatalf("%s: %s fault at %s accepted by the reference validator for %s\ndoc: %s\nfaulty: %s\n%s", f, ft.Class, ft.Path, def, d.JSON, ft.JSON, src)
					}
				}
			}
		}
	})
	fmt.Println(stats)
}
