// Package smodel is a format-independent model of the schema constructs cog
// supports, with renderers to JSON Schema (draft-07), OpenAPI 3.0 and CUE,
// a generator of documents that are valid by construction, a generator of
// single-fault documents, and adapters to each schema language's reference
// validator.
package smodel

import (
	"encoding/json"
	"fmt"
	"sort"
	"strings"
)

type Format string

const (
	JSONSchema Format = "jsonschema"
	OpenAPI    Format = "openapi"
	CUE        Format = "cue"
)

var Formats = []Format{JSONSchema, OpenAPI, CUE}

// Kind of a model type.
const (
	KStruct   = "struct"
	KBool     = "bool"
	KString   = "string"
	KBytes    = "bytes"
	KInt      = "int"
	KFloat    = "float"
	KEnum     = "enum"
	KArray    = "array"
	KMap      = "map"
	KRef      = "ref"
	KUScalars = "union_scalars"
	KUStructs = "union_structs"
	KDateTime = "datetime"
	KAny      = "any"
	// KIntersection: allOf of references to struct definitions (Refs); only
	// JSON Schema and OpenAPI inputs, only generated for C02
	KIntersection = "intersection"
)

// T is a model type.
type T struct {
	Kind string `json:"kind"`
	// T | null
	Nullable bool `json:"nullable,omitempty"`

	Fields []Field `json:"fields,omitempty"` // struct

	// string: length bounds in runes; -1 = none
	MinLen *int `json:"min_len,omitempty"`
	MaxLen *int `json:"max_len,omitempty"`
	// Format: a JSON Schema / OpenAPI string format other than date-time (date,
	// uuid, email...): an annotation cog has no type for; the field stays a string
	Format string `json:"format,omitempty"`

	// int / float
	Width   string   `json:"width,omitempty"` // int8..int64, uint8..uint64, float32, float64
	Min     *float64 `json:"min,omitempty"`
	Max     *float64 `json:"max,omitempty"`
	ExclMin bool     `json:"excl_min,omitempty"`
	ExclMax bool     `json:"excl_max,omitempty"`

	// constant (bool, int, float, string) and default (JSON values)
	Const   *json.RawMessage `json:"const,omitempty"`
	Default *json.RawMessage `json:"default,omitempty"`

	// enum: "string" or "int"; members are JSON values
	EnumKind string            `json:"enum_kind,omitempty"`
	Members  []json.RawMessage `json:"members,omitempty"`
	// MemberNames: CUE needs explicit names for int enums
	MemberNames []string `json:"member_names,omitempty"`

	Elem *T `json:"elem,omitempty"` // array, map

	Ref string `json:"ref,omitempty"` // definition name

	Branches []T `json:"branches,omitempty"` // union of scalars
	// TypeList: render the union of plain scalars as a list of type names
	// (`"type": ["integer", "string"]`) instead of anyOf (JSON Schema, OpenAPI)
	TypeList bool `json:"type_list,omitempty"`

	// union of structs: referenced definitions, each carrying a constant
	// string field named Discriminator
	Refs          []string `json:"refs,omitempty"`
	Discriminator string   `json:"discriminator,omitempty"`
	// ExplicitMapping: render an explicit discriminator mapping (OpenAPI)
	ExplicitMapping bool `json:"explicit_mapping,omitempty"`
}

type Field struct {
	Name     string `json:"name"`
	Type     T      `json:"type"`
	Required bool   `json:"required,omitempty"`
	Comment  string `json:"comment,omitempty"`
}

type Def struct {
	Name    string `json:"name"`
	Type    T      `json:"type"`
	Comment string `json:"comment,omitempty"`
}

// Model is one schema (one package).
type Model struct {
	Package string `json:"package"`
	Defs    []Def  `json:"defs"`
	// Entry is the entry-point definition (JSON Schema root $ref).
	Entry string `json:"entry"`
	// Format the model was drawn for (documents avoid the values that only
	// that format's reference validator treats specially).
	Format Format `json:"format,omitempty"`
}

func Raw(v any) *json.RawMessage {
	b, err := json.Marshal(v)
	if err != nil {
		panic(err)
	}
	r := json.RawMessage(b)
	return &r
}

func IntPtr(i int) *int           { return &i }
func FloatPtr(f float64) *float64 { return &f }

func (m *Model) Def(name string) *Def {
	for i := range m.Defs {
		if m.Defs[i].Name == name {
			return &m.Defs[i]
		}
	}
	return nil
}

// Resolve follows refs.
func (m *Model) Resolve(t T) T {
	for hops := 0; hops < 32 && t.Kind == KRef; hops++ {
		d := m.Def(t.Ref)
		if d == nil {
			return t
		}
		nullable := t.Nullable
		t = d.Type
		t.Nullable = t.Nullable || nullable
	}
	return t
}

// Walk visits every type of the model (pre-order) with a textual path.
func (m *Model) Walk(fn func(def string, path string, t *T)) {
	for i := range m.Defs {
		walkT(&m.Defs[i].Type, m.Defs[i].Name, "", fn)
	}
}

func walkT(t *T, def, path string, fn func(def string, path string, t *T)) {
	fn(def, path, t)
	for i := range t.Fields {
		walkT(&t.Fields[i].Type, def, path+"."+t.Fields[i].Name, fn)
	}
	if t.Elem != nil {
		walkT(t.Elem, def, path+"[]", fn)
	}
	for i := range t.Branches {
		walkT(&t.Branches[i], def, fmt.Sprintf("%s|%d", path, i), fn)
	}
}

// Features lists the construct classes present in the model (for labels).
func (m *Model) Features() []string {
	set := map[string]bool{}
	m.Walk(func(def, path string, t *T) {
		set["kind:"+t.Kind] = true
		if t.Nullable {
			set["nullable:"+t.Kind] = true
		}
		if t.Const != nil {
			set["const:"+t.Kind] = true
		}
		if t.Default != nil {
			set["default:"+t.Kind] = true
		}
		if t.Min != nil || t.Max != nil || t.MinLen != nil || t.MaxLen != nil {
			set["constrained:"+t.Kind] = true
		}
		if t.Width != "" && t.Width != "int64" && t.Width != "float64" {
			set["width:"+t.Width] = true
		}
		if t.Kind == KRef && t.Ref == def {
			set["recursive_ref"] = true
		}
		if strings.Contains(path, "[]") && (t.Kind == KStruct || t.Kind == KRef) {
			set["object_in_collection"] = true
		}
		if strings.Count(path, ".") >= 2 {
			set["depth>=3"] = true
		}
	})
	out := make([]string, 0, len(set))
	for k := range set {
		out = append(out, k)
	}
	sort.Strings(out)
	return out
}

// HasNestedCollections tells whether some collection sits directly inside
// another collection, or a named collection definition exists.
func (m *Model) HasNestedCollections() bool {
	found := false
	for _, d := range m.Defs {
		if d.Type.Kind == KArray || d.Type.Kind == KMap {
			found = true
		}
	}
	m.Walk(func(_ string, _ string, t *T) {
		if (t.Kind == KArray || t.Kind == KMap) && t.Elem != nil && (t.Elem.Kind == KArray || t.Elem.Kind == KMap) {
			found = true
		}
	})
	return found
}

// RenameDef renames a definition and every reference to it.
func (m *Model) RenameDef(old, name string) {
	if old == name {
		return
	}
	if m.Def(name) != nil {
		m.RenameDef(name, name+"Inner")
	}
	for i := range m.Defs {
		if m.Defs[i].Name == old {
			m.Defs[i].Name = name
		}
	}
	if m.Entry == old {
		m.Entry = name
	}
	m.Walk(func(_ string, _ string, t *T) {
		if t.Kind == KRef && t.Ref == old {
			t.Ref = name
		}
		for i, r := range t.Refs {
			if r == old {
				t.Refs[i] = name
			}
		}
	})
}

// HasBytes tells whether the model holds a bytes field.
func (m *Model) HasBytes() bool {
	found := false
	m.Walk(func(_ string, _ string, t *T) {
		if t.Kind == KBytes {
			found = true
		}
	})
	return found
}

// Supports tells whether format f can express the (single, non recursive)
// features of t as the renderers write them.
func Supports(f Format, t T) bool {
	switch t.Kind {
	case KIntersection:
		return f != CUE
	case KBytes:
		return f == OpenAPI
	case KInt:
		switch t.Width {
		case "", "int64":
		case "int32":
			if f == JSONSchema {
				return false
			}
		default:
			if f != CUE {
				return false
			}
		}
		if t.Const != nil && f == OpenAPI {
			return false
		}
	case KFloat:
		if t.Width == "float32" && f == JSONSchema {
			return false
		}
		if t.Const != nil && f == OpenAPI {
			return false
		}
	case KBool:
		if t.Const != nil && f == OpenAPI {
			return false
		}
	case KArray:
		if t.Default != nil && string(*t.Default) == "[]" && f == CUE {
			return false // every open CUE list already defaults to []: not a declaration
		}
	case KRef:
		if t.Default != nil && f != CUE {
			return false // siblings of $ref are ignored
		}
	}
	if t.Nullable && f == OpenAPI {
		switch t.Kind {
		case KString, KInt, KFloat, KDateTime:
		default:
			return false
		}
	}
	return true
}
