package smodel

import (
	"encoding/json"
	"fmt"
	"math"
	"sort"
	"strconv"
	"strings"

	"pgregory.net/rapid"
)

// Doc is a JSON document (numbers are json.Number so that they stay exact)
// with the list of features it exercises.
type Doc struct {
	Def      string   `json:"def"`
	JSON     string   `json:"json"`
	Features []string `json:"features"`
}

type docGen struct {
	t     *rapid.T
	m     *Model
	feats map[string]bool
}

func widthRange(w string) (lo, hi float64) {
	switch w {
	case "int8":
		return -128, 127
	case "int16":
		return -32768, 32767
	case "int32":
		return -2147483648, 2147483647
	case "uint8":
		return 0, 255
	case "uint16":
		return 0, 65535
	case "uint32":
		return 0, 4294967295
	case "uint64":
		return 0, 9223372036854775807 // the upper half of uint64 is not generated
	}
	return -9223372036854775808, 9223372036854775807
}

// intBounds returns the inclusive integer range a KInt type accepts.
func intBounds(t T) (int64, int64) {
	lo, hi := widthRange(t.Width)
	ilo, ihi := int64(math.MinInt64), int64(math.MaxInt64)
	if lo > -9.2e18 {
		ilo = int64(lo)
	}
	if hi < 9.2e18 {
		ihi = int64(hi)
	}
	if t.Min != nil {
		m := int64(*t.Min)
		if t.ExclMin {
			m++
		}
		if m > ilo {
			ilo = m
		}
	}
	if t.Max != nil {
		m := int64(*t.Max)
		if t.ExclMax {
			m--
		}
		if m < ihi {
			ihi = m
		}
	}
	return ilo, ihi
}

func intBoundsOld(t T) (int64, int64) {
	lo, hi := widthRange(t.Width)
	if t.Min != nil {
		m := *t.Min
		if t.ExclMin {
			m++
		}
		lo = math.Max(lo, m)
	}
	if t.Max != nil {
		m := *t.Max
		if t.ExclMax {
			m--
		}
		hi = math.Min(hi, m)
	}
	return int64(lo), int64(hi)
}

var stringPool = []string{"", "a", "hello", "ünï cødé", "with \"quotes\"", "x y z", "0", "longer string value"}

func runeLen(s string) int { return len([]rune(s)) }

// formatSamples: valid values of the string formats the generator uses.
var formatSamples = map[string][]string{
	"date":  {"2024-01-15", "1999-12-31", "2020-02-29"},
	"uuid":  {"123e4567-e89b-12d3-a456-426614174000", "00000000-0000-0000-0000-000000000000"},
	"email": {"a@example.org", "first.last@sub.example.com"},
	"time":  {"03:04:05Z", "23:59:59+01:00"},
}

func (g *docGen) str(t T) string {
	if samples, ok := formatSamples[t.Format]; ok {
		g.feats["string_format:"+t.Format] = true
		return rapid.SampledFrom(samples).Draw(g.t, "formatted")
	}
	lo, hi := 0, 1<<30
	if t.MinLen != nil {
		lo = *t.MinLen
	}
	if t.MaxLen != nil {
		hi = *t.MaxLen
	}
	var ok []string
	for _, s := range stringPool {
		if runeLen(s) >= lo && runeLen(s) <= hi {
			ok = append(ok, s)
		}
	}
	// strings exactly at the bounds
	if t.MinLen != nil {
		ok = append(ok, strings.Repeat("é", lo))
		g.feats["string_at_min_len"] = true
	}
	if t.MaxLen != nil {
		ok = append(ok, strings.Repeat("z", hi))
		g.feats["string_at_max_len"] = true
	}
	return rapid.SampledFrom(ok).Draw(g.t, "str")
}

func (g *docGen) intVal(t T) json.Number {
	lo, hi := intBounds(t)
	cands := []int64{lo, hi}
	for _, c := range []int64{lo + 1, hi - 1, -1, 0, 1, 42, 9007199254740993, -9007199254740993} {
		if c >= lo && c <= hi {
			cands = append(cands, c)
		}
	}
	v := rapid.SampledFrom(cands).Draw(g.t, "int")
	if v == lo || v == hi {
		g.feats["int_at_boundary"] = true
	}
	return json.Number(strconv.FormatInt(v, 10))
}

func (g *docGen) floatVal(t T) json.Number {
	// dyadic rationals: exact in float32 and float64; never integral so that a
	// union of int and float stays unambiguous
	pool := []float64{0.5, -0.25, 1.5, 2.75, 100.125, -3.5, 0.125, 10.5}
	var ok []float64
	for _, f := range pool {
		if t.Min != nil && (f < *t.Min || (t.ExclMin && f == *t.Min)) {
			continue
		}
		if t.Max != nil && (f > *t.Max || (t.ExclMax && f == *t.Max)) {
			continue
		}
		ok = append(ok, f)
	}
	// CUE's `float` (used for doubly-bounded floats) does not accept integral
	// literals: the (integral) bounds themselves are not used as values there
	cueFloatKind := g.m.Format == CUE && t.Min != nil && t.Max != nil
	if t.Min != nil && !t.ExclMin && !cueFloatKind {
		ok = append(ok, *t.Min)
	}
	if t.Max != nil && !t.ExclMax && !cueFloatKind {
		ok = append(ok, *t.Max)
	}
	if len(ok) == 0 {
		mid := 0.0
		if t.Min != nil && t.Max != nil {
			mid = (*t.Min + *t.Max) / 2
		} else if t.Min != nil {
			mid = *t.Min + 1
		} else if t.Max != nil {
			mid = *t.Max - 1
		}
		ok = append(ok, mid)
	}
	f := rapid.SampledFrom(ok).Draw(g.t, "float")
	return json.Number(strconv.FormatFloat(f, 'f', -1, 64))
}

var dateTimes = []string{"2024-01-02T03:04:05Z", "1999-12-31T23:59:59Z", "2023-06-15T12:30:00+02:00", "2020-02-29T00:00:00.5Z"}

// value draws a valid value of type t.
func (g *docGen) value(t T, depth int) any {
	if t.Nullable {
		if depth > 3 || rapid.IntRange(0, 3).Draw(g.t, "null") == 0 {
			g.feats["explicit_null"] = true
			return nil
		}
	}
	if t.Const != nil {
		return rawAny(t.Const)
	}
	switch t.Kind {
	case KStruct:
		obj := map[string]any{}
		for _, f := range t.Fields {
			if !f.Required {
				choice := rapid.IntRange(0, 2).Draw(g.t, "optional")
				if depth > 2 {
					choice = 0
				}
				switch choice {
				case 0:
					g.feats["optional_absent"] = true
					continue
				case 1:
					if f.Type.Nullable {
						g.feats["optional_explicit_null"] = true
						obj[f.Name] = nil
						continue
					}
				}
				g.feats["optional_present"] = true
			}
			obj[f.Name] = g.value(f.Type, depth+1)
		}
		return obj
	case KBool:
		return rapid.Bool().Draw(g.t, "bool")
	case KString:
		return g.str(t)
	case KBytes:
		return rapid.SampledFrom([]string{"", "aGVsbG8=", "AAEC"}).Draw(g.t, "bytes")
	case KDateTime:
		g.feats["datetime"] = true
		return rapid.SampledFrom(dateTimes).Draw(g.t, "datetime")
	case KInt:
		return g.intVal(t)
	case KFloat:
		return g.floatVal(t)
	case KEnum:
		m := t.Members[rapid.IntRange(0, len(t.Members)-1).Draw(g.t, "member")]
		return rawAny(&m)
	case KArray:
		n := rapid.IntRange(0, 3).Draw(g.t, "arrlen")
		if depth > 3 {
			n = 0
		} else if depth > 1 && n > 1 {
			n = 1
		}
		out := make([]any, 0, n)
		for i := 0; i < n; i++ {
			out = append(out, g.value(*t.Elem, depth+1))
		}
		if n > 0 && (t.Elem.Kind == KStruct || t.Elem.Kind == KRef || t.Elem.Kind == KUStructs) {
			g.feats["array_of_objects"] = true
		}
		if n == 0 {
			g.feats["empty_array"] = true
		}
		return out
	case KMap:
		n := rapid.IntRange(0, 2).Draw(g.t, "maplen")
		if depth > 3 {
			n = 0
		} else if depth > 1 && n > 1 {
			n = 1
		}
		out := map[string]any{}
		keys := []string{"first", "second key", "k3"}
		if depth%2 == 1 {
			keys = []string{"inner", "other key", "k3"} // nested maps get other keys than their parent
		}
		for i := 0; i < n; i++ {
			out[keys[i]] = g.value(*t.Elem, depth+1)
		}
		if n > 0 && (t.Elem.Kind == KStruct || t.Elem.Kind == KRef) {
			g.feats["map_of_objects"] = true
		}
		if n == 0 {
			g.feats["empty_map"] = true
		}
		return out
	case KRef:
		d := g.m.Def(t.Ref)
		if d == nil {
			return nil
		}
		if depth >= 2 {
			g.feats["ref_depth>=2"] = true
		}
		dt := d.Type
		return g.value(dt, depth+1)
	case KUScalars:
		g.feats["union_of_scalars"] = true
		b := t.Branches[rapid.IntRange(0, len(t.Branches)-1).Draw(g.t, "branch")]
		if b.Kind == KInt {
			hasFloat := false
			for _, o := range t.Branches {
				if o.Kind == KFloat {
					hasFloat = true
				}
			}
			// a union written as a list of type names may be held as `any` (a
			// float64 in Go): same rule
			if hasFloat || t.TypeList {
				// an integer in a union that also has a float branch may be held
				// as a float: only values both represent exactly are used
				return json.Number(strconv.Itoa(rapid.IntRange(-1000, 1000).Draw(g.t, "smallint")))
			}
		}
		return g.value(b, depth+1)
	case KUStructs:
		g.feats["union_of_structs"] = true
		r := t.Refs[rapid.IntRange(0, len(t.Refs)-1).Draw(g.t, "variant")]
		return g.value(T{Kind: KRef, Ref: r}, depth+1)
	case KAny:
		g.feats["any"] = true
		return rapid.SampledFrom([]any{"text", true, json.Number("3"), map[string]any{"k": "v"}, []any{json.Number("1"), "two"}}).Draw(g.t, "any")
	}
	return nil
}

// DrawDoc draws a valid document for definition def.
func DrawDoc(t *rapid.T, m *Model, def string) Doc {
	g := &docGen{t: t, m: m, feats: map[string]bool{}}
	d := m.Def(def)
	v := g.value(d.Type, 0)
	raw, _ := json.Marshal(v)
	var feats []string
	for f := range g.feats {
		feats = append(feats, f)
	}
	sort.Strings(feats)
	return Doc{Def: def, JSON: string(raw), Features: feats}
}

// DocDefs lists the definitions documents are generated for: the entry point
// and every other struct definition.
func (m *Model) DocDefs() []string {
	out := []string{m.Entry}
	for _, d := range m.Defs {
		if d.Name != m.Entry && d.Type.Kind == KStruct {
			out = append(out, d.Name)
		}
	}
	return out
}

// ParseJSON decodes with exact numbers.
func ParseJSON(s string) (any, error) {
	dec := json.NewDecoder(strings.NewReader(s))
	dec.UseNumber()
	var v any
	if err := dec.Decode(&v); err != nil {
		return nil, err
	}
	return v, nil
}

// ------------------------------------------------------------------- faults

// Fault is a document derived from a valid one by exactly one injected fault.
type Fault struct {
	Class string `json:"class"` // undeclared_key | required_removed | null_for_required | wrong_type | bound_violated | length_violated | defaulted_removed (not a fault: see Faults)
	Path  string `json:"path"`  // path of the fault in cog's validation path syntax (a.b[2].c, m[key].x)
	Depth int    `json:"depth"`
	// Context: containers on the way (array, map, optional, ref, union)
	Context []string `json:"context"`
	JSON    string   `json:"json"`
}

type faultGen struct {
	m    *Model
	f    Format
	root any
	out  []Fault
}

func deepCopyJSON(v any) any {
	switch x := v.(type) {
	case map[string]any:
		m := make(map[string]any, len(x))
		for k, e := range x {
			m[k] = deepCopyJSON(e)
		}
		return m
	case []any:
		l := make([]any, len(x))
		for i, e := range x {
			l[i] = deepCopyJSON(e)
		}
		return l
	}
	return v
}

type step struct {
	key string
	idx int
	isK bool
}

func setAt(root any, steps []step, fn func(parent any, last step)) any {
	cp := deepCopyJSON(root)
	cur := cp
	for i, s := range steps {
		if i == len(steps)-1 {
			fn(cur, s)
			return cp
		}
		if s.isK {
			cur = cur.(map[string]any)[s.key]
		} else {
			cur = cur.([]any)[s.idx]
		}
	}
	return cp
}

func pathString(steps []step, kinds []string) string {
	var sb strings.Builder
	for i, s := range steps {
		if s.isK {
			if kinds[i] == "mapkey" {
				sb.WriteString("[" + s.key + "]")
			} else {
				if sb.Len() > 0 {
					sb.WriteString(".")
				}
				sb.WriteString(s.key)
			}
		} else {
			sb.WriteString("[" + strconv.Itoa(s.idx) + "]")
		}
	}
	return sb.String()
}

func (g *faultGen) emit(class string, steps []step, kinds []string, ctx []string, mutated any) {
	raw, _ := json.Marshal(mutated)
	g.out = append(g.out, Fault{Class: class, Path: pathString(steps, kinds), Depth: len(steps), Context: append([]string(nil), ctx...), JSON: string(raw)})
}

func wrongTypeValue(t T) any {
	switch t.Kind {
	case KString, KDateTime, KBytes:
		return json.Number("7")
	case KEnum:
		if t.EnumKind == "int" {
			return "not a number"
		}
		return json.Number("7")
	default:
		return "not the right type"
	}
}

// cueFillsIn: in CUE a required regular field whose type evaluates to a
// concrete value (a constant, a one-member enum, an open list -> [], a map ->
// {}, a struct, a reference, a union ...) is filled in by unification when the
// document leaves it out. Only plain scalars are reliably "missing".
func cueFillsIn(t T) bool {
	if t.Const != nil || t.Nullable {
		return true
	}
	switch t.Kind {
	case KString, KInt, KFloat, KBool, KDateTime:
		return false
	case KEnum:
		return len(t.Members) < 2
	}
	return true
}

// walk enumerates every applicable (class, position) pair.
func (g *faultGen) walk(v any, t T, steps []step, kinds []string, ctx []string) {
	if v == nil {
		return
	}
	if t.Const != nil {
		return
	}
	replace := func(nv any) any {
		if len(steps) == 0 {
			return nv
		}
		return setAt(g.root, steps, func(parent any, last step) {
			if last.isK {
				parent.(map[string]any)[last.key] = nv
			} else {
				parent.([]any)[last.idx] = nv
			}
		})
	}
	switch t.Kind {
	case KStruct:
		obj, ok := v.(map[string]any)
		if !ok {
			return
		}
		// undeclared key at this object
		{
			var mutated any
			if len(steps) == 0 {
				cp := deepCopyJSON(g.root).(map[string]any)
				cp["zzUndeclared"] = json.Number("1")
				mutated = cp
			} else {
				mutated = setAt(g.root, steps, func(parent any, last step) {
					var target map[string]any
					if last.isK {
						target = parent.(map[string]any)[last.key].(map[string]any)
					} else {
						target = parent.([]any)[last.idx].(map[string]any)
					}
					target["zzUndeclared"] = json.Number("1")
				})
			}
			ks := append(append([]string{}, kinds...), "field")
			g.emit("undeclared_key", append(append([]step{}, steps...), step{key: "zzUndeclared", isK: true}), ks, ctx, mutated)
		}
		for _, f := range t.Fields {
			fsteps := append(append([]step{}, steps...), step{key: f.Name, isK: true})
			fkinds := append(append([]string{}, kinds...), "field")
			fctx := ctx
			if !f.Required {
				fctx = append(append([]string{}, ctx...), "optional")
			}
			fv, present := obj[f.Name]
			// CUE fills in a required field whose value is a constant: leaving it
			// out is not a fault there. A field with a default (its own, or the
			// one declared by the definition it refers to) is filled in by cog.
			if present && f.Required && f.Type.Default == nil && g.m.Resolve(f.Type).Default == nil && !(g.f == CUE && cueFillsIn(f.Type)) {
				mutated := setAt(g.root, fsteps, func(parent any, last step) { delete(parent.(map[string]any), last.key) })
				g.emit("required_removed", fsteps, fkinds, fctx, mutated)
			}
			// ... such a document is VALID where the schema language itself fills
			// the default in (CUE): class defaulted_removed, which is not a fault
			// but a second valid document
			if present && f.Required && (f.Type.Default != nil || g.m.Resolve(f.Type).Default != nil) {
				mutated := setAt(g.root, fsteps, func(parent any, last step) { delete(parent.(map[string]any), last.key) })
				g.emit("defaulted_removed", fsteps, fkinds, fctx, mutated)
			}
			if present && f.Required && !f.Type.Nullable && f.Type.Kind != KAny && f.Type.Const == nil {
				mutated := setAt(g.root, fsteps, func(parent any, last step) { parent.(map[string]any)[last.key] = nil })
				g.emit("null_for_required", fsteps, fkinds, fctx, mutated)
			}
			if present {
				g.walk(fv, f.Type, fsteps, fkinds, fctx)
			}
		}
	case KString:
		s, ok := v.(string)
		if !ok {
			return
		}
		g.emit("wrong_type", steps, kinds, ctx, replace(wrongTypeValue(t)))
		if t.MinLen != nil && *t.MinLen > 0 {
			g.emit("length_violated", steps, kinds, ctx, replace(strings.Repeat("é", *t.MinLen-1)))
		}
		if t.MaxLen != nil {
			g.emit("length_violated", steps, kinds, ctx, replace(strings.Repeat("é", *t.MaxLen+1)))
		}
		_ = s
	case KBool, KDateTime, KBytes:
		g.emit("wrong_type", steps, kinds, ctx, replace(wrongTypeValue(t)))
	case KEnum:
		g.emit("wrong_type", steps, kinds, ctx, replace(wrongTypeValue(t)))
	case KInt:
		g.emit("wrong_type", steps, kinds, ctx, replace(wrongTypeValue(t)))
		wlo, whi := widthRange(t.Width)
		if t.Min != nil {
			lo, _ := intBounds(T{Kind: KInt, Min: t.Min, ExclMin: t.ExclMin})
			// a value that leaves the width (e.g. -1 for a uint64) is not a
			// constraint violation but a value of the wrong type
			if float64(lo-1) >= wlo {
				g.emit("bound_violated", steps, kinds, ctx, replace(json.Number(strconv.FormatInt(lo-1, 10))))
			}
		}
		if t.Max != nil {
			_, hi := intBounds(T{Kind: KInt, Max: t.Max, ExclMax: t.ExclMax})
			if float64(hi+1) <= whi {
				g.emit("bound_violated", steps, kinds, ctx, replace(json.Number(strconv.FormatInt(hi+1, 10))))
			}
		}
	case KFloat:
		g.emit("wrong_type", steps, kinds, ctx, replace(wrongTypeValue(t)))
		if t.Min != nil {
			bad := *t.Min - 0.5
			if t.ExclMin {
				bad = *t.Min
			}
			g.emit("bound_violated", steps, kinds, ctx, replace(json.Number(strconv.FormatFloat(bad, 'f', -1, 64))))
		}
		if t.Max != nil {
			bad := *t.Max + 0.5
			if t.ExclMax {
				bad = *t.Max
			}
			g.emit("bound_violated", steps, kinds, ctx, replace(json.Number(strconv.FormatFloat(bad, 'f', -1, 64))))
		}
	case KArray:
		arr, ok := v.([]any)
		if !ok {
			return
		}
		g.emit("wrong_type", steps, kinds, ctx, replace("not an array"))
		for i, e := range arr {
			g.walk(e, *t.Elem, append(append([]step{}, steps...), step{idx: i}), append(append([]string{}, kinds...), "index"), append(append([]string{}, ctx...), "array"))
		}
	case KMap:
		obj, ok := v.(map[string]any)
		if !ok {
			return
		}
		g.emit("wrong_type", steps, kinds, ctx, replace("not a map"))
		keys := make([]string, 0, len(obj))
		for k := range obj {
			keys = append(keys, k)
		}
		sort.Strings(keys)
		for _, k := range keys {
			g.walk(obj[k], *t.Elem, append(append([]step{}, steps...), step{key: k, isK: true}), append(append([]string{}, kinds...), "mapkey"), append(append([]string{}, ctx...), "map"))
		}
	case KRef:
		d := g.m.Def(t.Ref)
		if d != nil {
			tag := "ref"
			if d.Type.Kind == KArray || d.Type.Kind == KMap {
				tag = "namedcoll"
			}
			g.walk(v, d.Type, steps, kinds, append(append([]string{}, ctx...), tag))
		}
	case KUStructs:
		obj, ok := v.(map[string]any)
		if !ok {
			return
		}
		dv, _ := obj[t.Discriminator].(string)
		for _, r := range t.Refs {
			if discriminatorValue(g.m, r, t.Discriminator) == dv {
				g.walk(v, g.m.Def(r).Type, steps, kinds, append(append([]string{}, ctx...), "union"))
			}
		}
	}
}

// Faults enumerates every single-fault variant of a valid document.
func Faults(f Format, m *Model, def string, docJSON string) ([]Fault, error) {
	root, err := ParseJSON(docJSON)
	if err != nil {
		return nil, err
	}
	d := m.Def(def)
	if d == nil {
		return nil, fmt.Errorf("no definition %s", def)
	}
	g := &faultGen{m: m, f: f, root: root}
	g.walk(root, d.Type, nil, nil, nil)
	return g.out, nil
}

// DrawValue draws a value that is valid for type t of model m (references
// resolved), as DrawDoc does for definitions.
func DrawValue(t *rapid.T, m *Model, typ T) any {
	g := &docGen{t: t, m: m, feats: map[string]bool{}}
	return g.value(typ, 1)
}

// Violations returns values that violate exactly one bound of a scalar type
// (by one unit / half a unit / one rune), with the name of the bound.
func Violations(typ T) map[string]any {
	out := map[string]any{}
	switch typ.Kind {
	case KString:
		if typ.MinLen != nil && *typ.MinLen > 0 {
			out["minLength"] = strings.Repeat("a", *typ.MinLen-1)
		}
		if typ.MaxLen != nil {
			out["maxLength"] = strings.Repeat("a", *typ.MaxLen+1)
		}
	case KInt:
		if typ.Min != nil {
			v := *typ.Min - 1
			if typ.ExclMin {
				v = *typ.Min
			}
			// a negative value does not decode into the unsigned Go type cog
			// derives from `>= 0`: not a constraint violation the builder sees
			if v >= 0 {
				out["minimum"] = json.Number(strconv.FormatInt(int64(v), 10))
			}
		}
		if typ.Max != nil {
			v := *typ.Max + 1
			if typ.ExclMax {
				v = *typ.Max
			}
			out["maximum"] = json.Number(strconv.FormatInt(int64(v), 10))
		}
	case KFloat:
		if typ.Min != nil {
			v := *typ.Min - 0.5
			if typ.ExclMin {
				v = *typ.Min
			}
			out["minimum"] = json.Number(strconv.FormatFloat(v, 'f', -1, 64))
		}
		if typ.Max != nil {
			v := *typ.Max + 0.5
			if typ.ExclMax {
				v = *typ.Max
			}
			out["maximum"] = json.Number(strconv.FormatFloat(v, 'f', -1, 64))
		}
	}
	return out
}
