package smodel

import (
	"encoding/json"
	"fmt"
	"math/big"
	"sort"
)

func numRat(n json.Number) (*big.Rat, bool) {
	r, ok := new(big.Rat).SetString(string(n))
	return r, ok
}

// JSONEqual compares two decoded JSON values exactly: numbers as rationals
// (1, 1.0 and 1e0 are equal), object key order irrelevant, null != absent.
func JSONEqual(a, b any) (string, bool) {
	return jsonEq(a, b, "$")
}

func jsonEq(a, b any, path string) (string, bool) {
	switch x := a.(type) {
	case nil:
		if b != nil {
			return fmt.Sprintf("%s: null vs %s", path, short(b)), false
		}
	case bool:
		if y, ok := b.(bool); !ok || x != y {
			return fmt.Sprintf("%s: %v vs %s", path, x, short(b)), false
		}
	case string:
		if y, ok := b.(string); !ok || x != y {
			return fmt.Sprintf("%s: %q vs %s", path, x, short(b)), false
		}
	case json.Number:
		y, ok := b.(json.Number)
		if !ok {
			return fmt.Sprintf("%s: %s vs %s", path, x, short(b)), false
		}
		rx, ok1 := numRat(x)
		ry, ok2 := numRat(y)
		if !ok1 || !ok2 || rx.Cmp(ry) != 0 {
			return fmt.Sprintf("%s: %s vs %s", path, x, y), false
		}
	case []any:
		y, ok := b.([]any)
		if !ok || len(x) != len(y) {
			return fmt.Sprintf("%s: %s vs %s", path, short(a), short(b)), false
		}
		for i := range x {
			if d, ok := jsonEq(x[i], y[i], fmt.Sprintf("%s[%d]", path, i)); !ok {
				return d, false
			}
		}
	case map[string]any:
		y, ok := b.(map[string]any)
		if !ok {
			return fmt.Sprintf("%s: %s vs %s", path, short(a), short(b)), false
		}
		keys := map[string]bool{}
		for k := range x {
			keys[k] = true
		}
		for k := range y {
			keys[k] = true
		}
		var sorted []string
		for k := range keys {
			sorted = append(sorted, k)
		}
		sort.Strings(sorted)
		for _, k := range sorted {
			xv, xin := x[k]
			yv, yin := y[k]
			if !xin {
				return fmt.Sprintf("%s.%s: absent vs %s", path, k, short(yv)), false
			}
			if !yin {
				return fmt.Sprintf("%s.%s: %s vs absent", path, k, short(xv)), false
			}
			if d, ok := jsonEq(xv, yv, path+"."+k); !ok {
				return d, false
			}
		}
	default:
		return fmt.Sprintf("%s: unexpected %T", path, a), false
	}
	return "", true
}

func short(v any) string {
	raw, _ := json.Marshal(v)
	if len(raw) > 80 {
		return string(raw[:80]) + "…"
	}
	return string(raw)
}

// Diff is one difference between an original document and its round trip.
type Diff struct {
	Path string
	// Class: what kind of position differs (for signatures):
	// optional-null-dropped (allowed) | optional-empty-array-dropped |
	// optional-empty-map-dropped | value | missing | extra | type
	Class  string
	Detail string
	// FieldKind: model kind of the field at which the difference sits
	FieldKind string
	// ElemKind: for a list / map field, the resolved kind of its elements
	ElemKind string
}

// elemKindOf gives the resolved kind of the elements of a list / map type.
func elemKindOf(m *Model, t T) string {
	rt := m.Resolve(t)
	if (rt.Kind != KArray && rt.Kind != KMap) || rt.Elem == nil {
		return ""
	}
	return m.Resolve(*rt.Elem).Kind
}

// CompareRoundTrip compares an original document with its re-encoding,
// type-directed so that the only tolerated difference is the one the property
// grants: an optional property given as an explicit null may be omitted.
func CompareRoundTrip(m *Model, def string, origJSON, gotJSON string) ([]Diff, error) {
	orig, err := ParseJSON(origJSON)
	if err != nil {
		return nil, err
	}
	got, err := ParseJSON(gotJSON)
	if err != nil {
		return nil, fmt.Errorf("re-encoded document is not JSON: %w", err)
	}
	d := m.Def(def)
	if d == nil {
		return nil, fmt.Errorf("no definition %s", def)
	}
	var out []Diff
	cmpTyped(m, d.Type, orig, got, "$", &out)
	return out, nil
}

// onlyConstants: a struct all of whose fields are constants (its only value
// is known without reading anything).
func onlyConstants(m *Model, t T) bool {
	if t.Kind != KStruct || len(t.Fields) == 0 {
		return false
	}
	for _, f := range t.Fields {
		rt := m.Resolve(f.Type)
		if f.Type.Const == nil && rt.Const == nil && !(rt.Kind == KEnum && len(rt.Members) == 1) {
			return false
		}
	}
	return true
}

func cmpTyped(m *Model, t T, orig, got any, path string, out *[]Diff) {
	switch t.Kind {
	case KRef:
		if d := m.Def(t.Ref); d != nil {
			dt := d.Type
			if orig == nil && got == nil {
				return
			}
			cmpTyped(m, dt, orig, got, path, out)
			return
		}
	case KUStructs:
		if o, ok := orig.(map[string]any); ok {
			dv, _ := o[t.Discriminator].(string)
			for _, r := range t.Refs {
				if discriminatorValue(m, r, t.Discriminator) == dv {
					cmpTyped(m, m.Def(r).Type, orig, got, path, out)
					return
				}
			}
		}
	case KStruct:
		o, ok1 := orig.(map[string]any)
		g, ok2 := got.(map[string]any)
		if ok1 && ok2 {
			declared := map[string]bool{}
			for _, f := range t.Fields {
				declared[f.Name] = true
				ov, oin := o[f.Name]
				gv, gin := g[f.Name]
				fp := path + "." + f.Name
				switch {
				case oin && !gin:
					if ov == nil && !f.Required {
						continue // the granted exemption
					}
					cls := "missing"
					if !f.Required {
						if l, ok := ov.([]any); ok && len(l) == 0 {
							cls = "optional-empty-array-dropped"
						} else if mm, ok := ov.(map[string]any); ok && len(mm) == 0 {
							cls = "optional-empty-map-dropped"
						} else {
							cls = "optional-dropped"
						}
					}
					*out = append(*out, Diff{Path: fp, Class: cls, Detail: fmt.Sprintf("%s is in the original but not in the re-encoding", short(ov)), FieldKind: f.Type.Kind, ElemKind: elemKindOf(m, f.Type)})
				case !oin && gin:
					cls := "extra"
					if rt := m.Resolve(f.Type); f.Type.Const != nil || rt.Const != nil || (rt.Kind == KEnum && len(rt.Members) == 1) || onlyConstants(m, rt) {
						cls = "constant-materialised"
					} else if f.Type.Default != nil {
						if _, same := jsonEq(rawAny(f.Type.Default), gv, fp); same {
							cls = "default-materialised"
						}
					} else if rt := m.Resolve(f.Type); rt.Default != nil {
						if _, same := jsonEq(rawAny(rt.Default), gv, fp); same {
							cls = "default-materialised"
						}
					}
					*out = append(*out, Diff{Path: fp, Class: cls, Detail: fmt.Sprintf("the re-encoding adds %s", short(gv)), FieldKind: f.Type.Kind})
				case oin && gin:
					cmpTyped(m, f.Type, ov, gv, fp, out)
				}
			}
			for k, gv := range g {
				if !declared[k] {
					*out = append(*out, Diff{Path: path + "." + k, Class: "extra", Detail: fmt.Sprintf("the re-encoding adds undeclared %s", short(gv)), FieldKind: "undeclared"})
				}
			}
			return
		}
	case KArray:
		o, ok1 := orig.([]any)
		g, ok2 := got.([]any)
		if ok1 && ok2 && len(o) == len(g) {
			for i := range o {
				cmpTyped(m, *t.Elem, o[i], g[i], fmt.Sprintf("%s[%d]", path, i), out)
			}
			return
		}
	case KMap:
		o, ok1 := orig.(map[string]any)
		g, ok2 := got.(map[string]any)
		if ok1 && ok2 && len(o) == len(g) {
			same := true
			for k := range o {
				if _, ok := g[k]; !ok {
					same = false
				}
			}
			if same {
				keys := make([]string, 0, len(o))
				for k := range o {
					keys = append(keys, k)
				}
				sort.Strings(keys)
				for _, k := range keys {
					cmpTyped(m, *t.Elem, o[k], g[k], path+"["+k+"]", out)
				}
				return
			}
		}
	}
	if d, ok := jsonEq(orig, got, path); !ok {
		cls := "value"
		if l, isList := orig.([]any); isList && len(l) == 0 && got == nil {
			cls = "empty-array-becomes-null"
		} else if mm, isMap := orig.(map[string]any); isMap && len(mm) == 0 && got == nil {
			cls = "empty-map-becomes-null"
		} else if l, isList := got.([]any); isList && len(l) == 0 && orig == nil {
			cls = "null-becomes-empty-array"
		} else if mm, isMap := got.(map[string]any); isMap && len(mm) == 0 && orig == nil {
			cls = "null-becomes-empty-map"
		} else if _, isMap := got.(map[string]any); isMap && orig == nil && t.Kind == KStruct {
			cls = "null-becomes-object"
		}
		*out = append(*out, Diff{Path: path, Class: cls, Detail: d, FieldKind: t.Kind, ElemKind: elemKindOf(m, t)})
	}
}
