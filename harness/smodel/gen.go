package smodel

import (
	"encoding/json"
	"fmt"
	"strings"

	"pgregory.net/rapid"
)

// GenConfig tunes the model generator.
type GenConfig struct {
	Format    Format
	MaxDefs   int
	MaxFields int
	MaxDepth  int
	// Dense: the entry struct gets one field per construct class (shuffled,
	// each kept with probability 3/4) so that a handful of models covers every
	// construct in every position.
	Dense bool
	// Focus classes are always present in dense mode.
	Focus []string
	// NoDefaults / NoConsts switch the features off.
	NoDefaults bool
	NoConsts   bool
	// ConstraintBias: scalars get bounds with probability 1/2 instead of 1/4.
	ConstraintBias bool
	// NoBytes: no `bytes` fields (OpenAPI format: byte)
	NoBytes bool
	// NoAny: no `any` typed fields (their values cannot be compared structurally in some checks)
	NoAny bool
	// Intersection: only constructs every format can express
	Intersection bool
	// NestedCollections: allow collections directly inside collections (array
	// of arrays, map of maps, map of arrays, array of maps) and named
	// collection definitions. The generated strict decoder / validation are
	// known to mishandle several of these shapes, so checks draw them in a
	// fraction of the models only and tag their signatures.
	NestedCollections bool
	// SafeNames: field names that are not keywords / builtins of any target
	// language (the default pool is full of them on purpose)
	SafeNames bool
	// Intersections: declare an allOf of two struct definitions and refer to it
	// (JSON Schema / OpenAPI only)
	Intersections bool
	// NamedUnions: declare a named union of the variant structs and refer to it
	NamedUnions bool
	// ExplicitMappings: render explicit OpenAPI discriminator mappings (cog
	// keeps their values as "#/components/schemas/X" strings: known finding)
	ExplicitMappings bool
	// NamedScalars: declare one or two named scalar definitions (`Label: string`)
	// and refer to them directly, from lists and from maps (elements possibly null)
	NamedScalars bool
	// TypeLists: a third of the unions of scalars are written as a list of type
	// names (`"type": ["integer", "string"]`) in JSON Schema / OpenAPI
	TypeLists bool
	// RefChain: three struct definitions of scalar-like fields, each holding a
	// plain reference ("inner") to the next one: Entry.inner.inner is an object
	// two references away
	RefChain bool
}

func DefaultGenConfig(f Format) GenConfig {
	return GenConfig{Format: f, MaxDefs: 6, MaxFields: 6, MaxDepth: 3, Dense: true}
}

var defNamePool = []string{"Dashboard", "Panel", "Query", "Target", "Options", "Legend", "Threshold", "Variable", "TimeRange", "FieldConfig", "DataLink", "Node", "Tree", "Settings", "Series", "Annotation"}
var variantNamePool = []string{"Circle", "Square", "Line", "Text"}
var enumNamePool = []string{"Mode", "Level", "Status", "Unit"}
var collNamePool = []string{"Tags", "Labels", "Matrix", "Index"}

var fieldNamePool = []string{
	"title", "id", "uid", "tags", "options", "refresh_rate", "timeFrom", "links", "mode", "value",
	"values", "name", "labels", "enabled", "max", "min", "size", "parent", "children", "spec",
	"default", "range", "map", "items", "type_", "class", "from", "import", "list", "len", "string", "color",
}

type mgen struct {
	t        *rapid.T
	cfg      GenConfig
	f        Format
	m        *Model
	structs  []string // names of struct defs (for refs)
	variants []string
	enums    []string
	// named collection definitions: name -> kind ("array" | "map")
	collections map[string]string
	collNames   []string
	scalarNames []string
	namedUnion  string
	disc        string
	// sharedUnion: one union of scalars used by several fields of the model
	sharedUnion *T
	// cur: index (in structs) of the struct being built; required references
	// only point to later structs, so required fields never form a cycle
	cur int
}

func normName(s string) string {
	return strings.ToLower(strings.NewReplacer("_", "", "-", "").Replace(s))
}

func pickDistinct(t *rapid.T, pool []string, n int, label string, taken map[string]bool) []string {
	perm := rapid.Permutation(pool).Draw(t, label)
	var out []string
	for _, name := range perm {
		if len(out) == n {
			break
		}
		if taken[normName(name)] {
			continue
		}
		taken[normName(name)] = true
		out = append(out, name)
	}
	return out
}

// Draw draws a model in the sub-grammar of cfg.Format.
func Draw(t *rapid.T, cfg GenConfig) *Model {
	g := &mgen{t: t, cfg: cfg, f: cfg.Format, m: &Model{Format: cfg.Format, Package: rapid.SampledFrom([]string{"sample", "demo", "dash"}).Draw(t, "pkg")}}
	g.disc = rapid.SampledFrom([]string{"kind", "type"}).Draw(t, "disc")
	taken := map[string]bool{}
	minStructs := 1
	if cfg.Intersections {
		minStructs = min(3, max(1, cfg.MaxDefs-3))
	}
	if cfg.RefChain {
		minStructs = 3
	}
	nStructs := rapid.IntRange(minStructs, max(minStructs, cfg.MaxDefs-3)).Draw(t, "nstructs")
	g.structs = pickDistinct(t, defNamePool, nStructs, "structnames", taken)
	nVariants := rapid.SampledFrom([]int{0, 2, 2, 3}).Draw(t, "nvariants")
	g.variants = pickDistinct(t, variantNamePool, nVariants, "variantnames", taken)
	nEnums := rapid.IntRange(0, 2).Draw(t, "nenums")
	g.enums = pickDistinct(t, enumNamePool, nEnums, "enumnames", taken)
	g.m.Entry = g.structs[0]
	g.collections = map[string]string{}
	ncolls := 0
	if cfg.NestedCollections {
		ncolls = rapid.IntRange(0, 2).Draw(t, "ncolls")
	}
	for _, name := range pickDistinct(t, collNamePool, ncolls, "collnames", taken) {
		g.collections[name] = rapid.SampledFrom([]string{"array", "map"}).Draw(t, "collkind")
		g.collNames = append(g.collNames, name)
	}

	if cfg.NamedScalars {
		g.scalarNames = pickDistinct(t, []string{"Label", "Duration", "Percent"}, rapid.IntRange(1, 2).Draw(t, "nscalardefs"), "scalarnames", taken)
	}
	if cfg.NamedUnions && len(g.variants) >= 2 {
		g.namedUnion = pickDistinct(t, []string{"Shape", "Element"}, 1, "namedunion", taken)[0]
	}

	// enums first (so that defaults can pick members)
	enumDefs := map[string]T{}
	for _, name := range g.enums {
		enumDefs[name] = g.enumType(rapid.IntRange(0, 3).Draw(t, "intenum") == 0)
	}
	for i, name := range g.structs {
		g.cur = i
		var st T
		if i == 0 && cfg.Dense {
			st = g.denseStruct()
		} else {
			st = g.structType(1, "")
		}
		if cfg.RefChain && i > 0 {
			// bounded fields of the inner objects are optional: the objects their
			// constructors make stay valid
			for k := range st.Fields {
				if len(Violations(st.Fields[k].Type)) > 0 {
					st.Fields[k].Required = false
				}
			}
		}
		if cfg.RefChain && i+1 < len(g.structs) {
			kept := st.Fields[:0]
			for _, f := range st.Fields {
				if f.Name != "inner" {
					kept = append(kept, f)
				}
			}
			st.Fields = kept
			st.Fields = append(kept, Field{Name: "inner", Type: T{Kind: KRef, Ref: g.structs[i+1]}, Required: rapid.IntRange(0, 3).Draw(t, "chainrequired") == 0})
		}
		g.m.Defs = append(g.m.Defs, Def{Name: name, Type: st, Comment: maybeComment(t, name)})
	}
	g.cur = len(g.structs)
	for _, name := range g.variants {
		g.m.Defs = append(g.m.Defs, Def{Name: name, Type: g.structType(1, strings.ToLower(name))})
	}
	for _, name := range g.enums {
		g.m.Defs = append(g.m.Defs, Def{Name: name, Type: enumDefs[name]})
	}
	if cfg.Intersections && cfg.Format != CUE && !cfg.Intersection && len(g.structs) >= 3 {
		combined := T{Kind: KIntersection, Refs: []string{g.structs[len(g.structs)-2], g.structs[len(g.structs)-1]}}
		if rapid.Bool().Draw(t, "inlinebranch") {
			// an inline object branch holding what the language passes rewrite
			combined.Refs = combined.Refs[:1]
			combined.Fields = []Field{
				{Name: "zzInlineEnum", Type: T{Kind: KEnum, EnumKind: "string", Members: []json.RawMessage{*Raw("a"), *Raw("b")}}},
				{Name: "zzInlineOptional", Type: T{Kind: KString, Nullable: cfg.Format == JSONSchema}},
			}
		}
		g.m.Defs = append(g.m.Defs, Def{Name: "Combined", Type: combined})
		// the entry point refers to it
		entry := &g.m.Defs[0].Type
		entry.Fields = append(entry.Fields, Field{Name: "combined", Type: T{Kind: KRef, Ref: "Combined"}, Required: rapid.Bool().Draw(t, "combinedrequired")})
	}
	if g.namedUnion != "" {
		g.m.Defs = append(g.m.Defs, Def{Name: g.namedUnion, Type: T{Kind: KUStructs, Refs: append([]string{}, g.variants...), Discriminator: g.disc}})
	}
	for _, name := range g.scalarNames {
		k := rapid.SampledFrom([]string{KString, KString, KInt, KFloat}).Draw(t, "namedscalarkind")
		g.m.Defs = append(g.m.Defs, Def{Name: name, Type: T{Kind: k}})
	}
	for _, name := range g.collNames {
		var elem T
		switch rapid.IntRange(0, 2).Draw(t, "collelem") {
		case 0:
			elem = T{Kind: KString}
		case 1:
			elem = g.scalarOfAnyKind()
		default:
			elem = T{Kind: KRef, Ref: rapid.SampledFrom(g.structs).Draw(t, "collref"), Nullable: g.f != OpenAPI && rapid.Bool().Draw(t, "collnullable")}
		}
		kind := KArray
		if g.collections[name] == "map" {
			kind = KMap
		}
		g.m.Defs = append(g.m.Defs, Def{Name: name, Type: T{Kind: kind, Elem: &elem}})
	}
	return g.m
}

func maybeComment(t *rapid.T, name string) string {
	if rapid.IntRange(0, 3).Draw(t, "comment") == 0 {
		return "The " + name + "."
	}
	return ""
}

func (g *mgen) enumType(ints bool) T {
	n := rapid.IntRange(1, 4).Draw(g.t, "nmembers")
	if ints {
		pool := []int{0, 1, 2, 3, 10, 100}
		if g.f != CUE {
			pool = append(pool, -1, -5)
		}
		vals := rapid.Permutation(pool).Draw(g.t, "intmembers")[:n]
		ty := T{Kind: KEnum, EnumKind: "int"}
		for i, v := range vals {
			ty.Members = append(ty.Members, *Raw(v))
			ty.MemberNames = append(ty.MemberNames, []string{"Low", "Medium", "High", "Max"}[i])
		}
		if !g.cfg.NoDefaults && n > 1 && rapid.IntRange(0, 2).Draw(g.t, "intenumdefault") == 0 {
			d := ty.Members[rapid.IntRange(0, n-1).Draw(g.t, "intenumdefidx")]
			ty.Default = &d
		}
		return ty
	}
	pool := []string{"auto", "always", "never", "with space", "UPPER", "snake_case", "a-b", "1", "x.y"}
	vals := rapid.Permutation(pool).Draw(g.t, "strmembers")[:n]
	ty := T{Kind: KEnum, EnumKind: "string"}
	for _, v := range vals {
		ty.Members = append(ty.Members, *Raw(v))
	}
	if !g.cfg.NoDefaults && n > 1 && rapid.IntRange(0, 2).Draw(g.t, "enumdefault") == 0 {
		d := ty.Members[rapid.IntRange(0, n-1).Draw(g.t, "enumdefidx")]
		ty.Default = &d
	}
	return ty
}

// safeFieldNamePool holds no keyword, predeclared identifier or builtin of any
// target language.
var safeFieldNamePool = []string{
	"title", "uid", "tags", "options", "refresh_rate", "timeFrom", "links", "mode", "value",
	"values", "name", "labels", "enabled", "size", "parent", "children", "spec",
	"items", "color", "unit", "decimals", "threshold", "legend", "placement", "width", "height", "gridPos",
	"datasource", "expr", "interval", "hidden", "tooltip", "axis", "series", "stack",
}

func (g *mgen) fieldNames(n int) []string {
	pool := fieldNamePool
	if g.cfg.SafeNames {
		pool = safeFieldNamePool
	}
	return pickDistinct(g.t, pool, n, "fieldnames", map[string]bool{normName(g.disc): true})
}

func (g *mgen) structType(depth int, variant string) T {
	n := rapid.IntRange(1, g.cfg.MaxFields).Draw(g.t, "nfields")
	st := T{Kind: KStruct}
	if variant != "" {
		st.Fields = append(st.Fields, Field{Name: g.disc, Required: true, Type: T{Kind: KString, Const: Raw(variant)}})
		n = rapid.IntRange(0, 3).Draw(g.t, "nvariantfields")
	}
	for _, name := range g.fieldNames(n) {
		ft := g.fieldType(depth+1, true)
		req := rapid.Bool().Draw(g.t, "required")
		st.Fields = append(st.Fields, Field{Name: name, Type: ft, Required: req, Comment: maybeFieldComment(g.t, name)})
	}
	return st
}

func maybeFieldComment(t *rapid.T, name string) string {
	if rapid.IntRange(0, 5).Draw(t, "fcomment") == 0 {
		return "the " + name
	}
	return ""
}

var classList = []string{
	"bool", "string", "string_bounded", "int", "int_bounded", "int_width", "float", "float_bounded", "float32",
	"enum_ref", "enum_anon", "const_string", "const_int", "const_bool", "array_scalar", "array_struct", "array_ref",
	"map_scalar", "map_ref", "map_struct", "ref", "ref_recursive", "anon_struct", "union_scalars", "union_structs",
	"datetime", "any", "nullable_scalar", "nullable_ref", "bytes", "default_string", "default_int", "default_bool",
	"default_float", "default_list", "array_nested", "array_union_structs",
	"ref_named_collection", "map_nested", "array_named_collection",
	"union_scalars_shared", "union_scalars_shared_optional", "map_array_scalar", "map_array_struct", "array_map_struct",
	"nullable_int_plain", "ref_named_union", "array_named_union", "map_named_union", "array_nested_union_structs",
	"default_int_wide", "default_list_int", "default_list_empty", "default_nullable", "default_union", "default_map",
	"default_int_bounded", "default_float_bounded",
	"array_nullable_scalar", "map_nullable_scalar", "array_nullable_enum_ref", "map_nullable_enum_ref",
	"ref_named_scalar", "array_named_scalar", "map_named_scalar",
	"array_enum", "map_enum", "string_format", "nullable_collection", "nullable_union_scalars",
}

// focusOnly classes only appear when a check asks for them.
var focusOnly = map[string]bool{
	"default_int_wide": true, "default_list_int": true, "default_list_empty": true, "default_nullable": true,
	"default_union": true, "default_map": true, "default_int_bounded": true, "default_float_bounded": true,
	// collections whose ELEMENTS may be null (pointers in Go)
	"array_nullable_scalar": true, "map_nullable_scalar": true, "array_nullable_enum_ref": true, "map_nullable_enum_ref": true,
	"ref_named_scalar": true, "array_named_scalar": true, "map_named_scalar": true,
	// a list / map / union of scalars that may itself be null
	"nullable_collection": true, "nullable_union_scalars": true,
}

func (g *mgen) denseStruct() T {
	st := T{Kind: KStruct}
	classes := rapid.Permutation(classList).Draw(g.t, "classes")
	focus := map[string]bool{}
	for _, f := range g.cfg.Focus {
		focus[f] = true
	}
	var chosen []string
	for _, c := range classes {
		if focusOnly[c] && !focus[c] {
			continue
		}
		if focus[c] || rapid.IntRange(0, 3).Draw(g.t, "keep") != 0 {
			chosen = append(chosen, c)
		}
	}
	names := g.fieldNames(len(safeFieldNamePool))
	ni := 0
	for _, c := range chosen {
		ft, ok := g.classType(c, 2)
		if !ok {
			continue
		}
		if ni >= len(names) {
			break
		}
		req := rapid.Bool().Draw(g.t, "required")
		if c == "ref_recursive" || c == "union_scalars_shared_optional" {
			req = false
		}
		if c == "union_scalars_shared" {
			req = true
		}
		st.Fields = append(st.Fields, Field{Name: names[ni], Type: ft, Required: req, Comment: maybeFieldComment(g.t, names[ni])})
		ni++
	}
	if len(st.Fields) == 0 {
		st.Fields = append(st.Fields, Field{Name: "title", Type: T{Kind: KString}, Required: true})
	}
	return st
}

func (g *mgen) scalar(kind string) T {
	return T{Kind: kind}
}

func (g *mgen) bounded(kind string) T {
	t := T{Kind: kind}
	switch kind {
	case KString:
		switch rapid.IntRange(0, 2).Draw(g.t, "strbound") {
		case 0:
			t.MinLen = IntPtr(rapid.IntRange(1, 3).Draw(g.t, "minlen"))
		case 1:
			t.MaxLen = IntPtr(rapid.IntRange(0, 8).Draw(g.t, "maxlen"))
		default:
			t.MinLen = IntPtr(rapid.IntRange(1, 2).Draw(g.t, "minlen"))
			t.MaxLen = IntPtr(rapid.IntRange(3, 8).Draw(g.t, "maxlen"))
		}
	case KInt:
		lo := float64(rapid.IntRange(-5, 5).Draw(g.t, "imin"))
		if g.f == CUE || g.cfg.Intersection {
			lo = float64(rapid.IntRange(0, 5).Draw(g.t, "iminpos")) // `<-1` does not lex in CUE
		}
		hi := lo + float64(rapid.IntRange(4, 100).Draw(g.t, "ispan")) // at least 3 admissible values even with both bounds exclusive
		switch rapid.IntRange(0, 2).Draw(g.t, "ibound") {
		case 0:
			t.Min = &lo
		case 1:
			t.Max = &hi
		default:
			t.Min, t.Max = &lo, &hi
		}
		t.ExclMin = t.Min != nil && rapid.IntRange(0, 2).Draw(g.t, "exclmin") == 0
		t.ExclMax = t.Max != nil && rapid.IntRange(0, 2).Draw(g.t, "exclmax") == 0
	case KFloat:
		lo := rapid.SampledFrom([]float64{0, 0.5, -1.25, 1}).Draw(g.t, "fmin")
		hi := lo + rapid.SampledFrom([]float64{1.5, 10, 99.75}).Draw(g.t, "fspan")
		if g.f == CUE || g.cfg.Intersection {
			// cog only understands float bounds spelled as integer literals in CUE
			lo = rapid.SampledFrom([]float64{0, 1, 2}).Draw(g.t, "fminint")
			hi = lo + rapid.SampledFrom([]float64{2, 10, 100}).Draw(g.t, "fspanint")
		}
		switch rapid.IntRange(0, 2).Draw(g.t, "fbound") {
		case 0:
			t.Min = &lo
		case 1:
			t.Max = &hi
		default:
			t.Min, t.Max = &lo, &hi
		}
		t.ExclMin = t.Min != nil && rapid.IntRange(0, 2).Draw(g.t, "exclmin") == 0
		t.ExclMax = t.Max != nil && rapid.IntRange(0, 2).Draw(g.t, "exclmax") == 0
	}
	return t
}

// classType builds a type of the given construct class; ok=false when the
// format cannot express it or the model lacks the definitions it needs.
var nestedCollectionClasses = map[string]bool{
	"array_nested": true, "map_nested": true, "map_array_scalar": true, "map_array_struct": true, "array_map_struct": true,
	"ref_named_collection": true, "array_named_collection": true, "array_nested_union_structs": true,
}

func (g *mgen) classType(c string, depth int) (T, bool) {
	var t T
	if nestedCollectionClasses[c] && !g.cfg.NestedCollections {
		return T{}, false
	}
	// union-branch structs never refer back to the structs: CUE's own
	// evaluator overflows its stack on a recursion that goes through a
	// disjunction inside a list and a pattern constraint
	if g.cur >= len(g.structs) {
		switch c {
		case "array_ref", "map_ref", "nullable_ref", "ref", "ref_recursive", "array_union_structs", "union_structs", "ref_named_collection", "array_named_collection",
			"ref_named_union", "array_named_union", "map_named_union", "array_nested_union_structs":
			return T{}, false
		}
	}
	switch c {
	case "bool":
		t = g.scalar(KBool)
	case "string":
		t = g.scalar(KString)
	case "string_bounded":
		t = g.bounded(KString)
	case "int":
		t = g.scalar(KInt)
	case "int_bounded":
		t = g.bounded(KInt)
	case "int_width":
		widths := []string{"int32"}
		if g.f == CUE {
			widths = []string{"int8", "int16", "int32", "uint8", "uint16", "uint32", "uint64"}
		}
		t = T{Kind: KInt, Width: rapid.SampledFrom(widths).Draw(g.t, "width")}
	case "float":
		t = g.scalar(KFloat)
	case "float_bounded":
		t = g.bounded(KFloat)
	case "float32":
		t = T{Kind: KFloat, Width: "float32"}
	case "enum_ref":
		if len(g.enums) == 0 {
			return T{}, false
		}
		t = T{Kind: KRef, Ref: rapid.SampledFrom(g.enums).Draw(g.t, "enumref")}
	case "enum_anon":
		t = g.enumType(false)
	case "const_string":
		if g.cfg.NoConsts {
			return T{}, false
		}
		t = T{Kind: KString, Const: Raw(rapid.SampledFrom([]string{"v1", "fixed", "a b", "C:\\temp\\new", "say \"hi\" 50%"}).Draw(g.t, "cstr"))}
	case "const_int":
		if g.cfg.NoConsts {
			return T{}, false
		}
		t = T{Kind: KInt, Const: Raw(rapid.IntRange(-3, 40).Draw(g.t, "cint"))}
	case "const_bool":
		if g.cfg.NoConsts {
			return T{}, false
		}
		t = T{Kind: KBool, Const: Raw(rapid.Bool().Draw(g.t, "cbool"))}
	case "array_scalar":
		e := g.scalarOfAnyKind()
		t = T{Kind: KArray, Elem: &e}
	case "array_struct":
		e := g.structType(depth+1, "")
		t = T{Kind: KArray, Elem: &e}
	case "array_ref":
		e := T{Kind: KRef, Ref: rapid.SampledFrom(g.structs).Draw(g.t, "arrref")}
		t = T{Kind: KArray, Elem: &e}
	case "array_nested":
		inner := g.scalarOfAnyKind()
		e := T{Kind: KArray, Elem: &inner}
		t = T{Kind: KArray, Elem: &e}
	case "array_union_structs":
		if len(g.variants) < 2 {
			return T{}, false
		}
		e := g.unionStructs()
		t = T{Kind: KArray, Elem: &e}
	case "map_scalar":
		e := g.scalarOfAnyKind()
		t = T{Kind: KMap, Elem: &e}
	case "map_ref":
		e := T{Kind: KRef, Ref: rapid.SampledFrom(g.structs).Draw(g.t, "mapref")}
		t = T{Kind: KMap, Elem: &e}
	case "map_struct":
		e := g.structType(depth+1, "")
		t = T{Kind: KMap, Elem: &e}
	case "ref":
		if g.cur+1 >= len(g.structs) {
			return T{}, false
		}
		t = T{Kind: KRef, Ref: rapid.SampledFrom(g.structs[g.cur+1:]).Draw(g.t, "ref")}
	case "ref_recursive":
		t = T{Kind: KRef, Ref: g.structs[0]}
	case "ref_named_collection":
		if len(g.collNames) == 0 {
			return T{}, false
		}
		t = T{Kind: KRef, Ref: rapid.SampledFrom(g.collNames).Draw(g.t, "collrefname")}
	case "array_named_collection":
		if len(g.collNames) == 0 {
			return T{}, false
		}
		e := T{Kind: KRef, Ref: rapid.SampledFrom(g.collNames).Draw(g.t, "collrefname"), Nullable: g.f != OpenAPI && rapid.Bool().Draw(g.t, "collelemnull")}
		t = T{Kind: KArray, Elem: &e}
	case "map_nested":
		inner := g.scalarOfAnyKind()
		if rapid.IntRange(0, 2).Draw(g.t, "mapnestedref") == 0 && g.cur < len(g.structs) && g.f != OpenAPI {
			inner = T{Kind: KRef, Ref: rapid.SampledFrom(g.structs).Draw(g.t, "mapnestedrefname"), Nullable: true}
		}
		e := T{Kind: KMap, Elem: &inner}
		t = T{Kind: KMap, Elem: &e}
	case "anon_struct":
		t = g.structType(depth+1, "")
	case "union_scalars":
		t = g.unionScalars()
	case "union_scalars_shared", "union_scalars_shared_optional":
		if g.sharedUnion == nil {
			u := g.unionScalars()
			g.sharedUnion = &u
		}
		t = *g.sharedUnion
	case "map_array_scalar":
		inner := g.scalarOfAnyKind()
		e := T{Kind: KArray, Elem: &inner}
		t = T{Kind: KMap, Elem: &e}
	case "map_array_struct":
		inner := g.structType(depth+2, "")
		e := T{Kind: KArray, Elem: &inner}
		t = T{Kind: KMap, Elem: &e}
	case "array_map_struct":
		inner := g.structType(depth+2, "")
		e := T{Kind: KMap, Elem: &inner}
		t = T{Kind: KArray, Elem: &e}
	case "array_nullable_scalar", "map_nullable_scalar":
		e := T{Kind: rapid.SampledFrom([]string{KString, KInt, KFloat, KBool}).Draw(g.t, "nullelemkind"), Nullable: true}
		if e.Kind == KBool && g.f == OpenAPI {
			e.Kind = KString
		}
		t = T{Kind: KArray, Elem: &e}
		if c == "map_nullable_scalar" {
			t.Kind = KMap
		}
	case "array_nullable_enum_ref", "map_nullable_enum_ref":
		if len(g.enums) == 0 {
			return T{}, false
		}
		e := T{Kind: KRef, Ref: rapid.SampledFrom(g.enums).Draw(g.t, "nullelemenum"), Nullable: true}
		t = T{Kind: KArray, Elem: &e}
		if c == "map_nullable_enum_ref" {
			t.Kind = KMap
		}
	case "ref_named_scalar", "array_named_scalar", "map_named_scalar":
		if len(g.scalarNames) == 0 {
			return T{}, false
		}
		e := T{Kind: KRef, Ref: rapid.SampledFrom(g.scalarNames).Draw(g.t, "namedscalarref")}
		switch c {
		case "ref_named_scalar":
			t = e
		case "array_named_scalar":
			e.Nullable = rapid.Bool().Draw(g.t, "namedscalarelemnull")
			t = T{Kind: KArray, Elem: &e}
		default:
			e.Nullable = rapid.Bool().Draw(g.t, "namedscalarelemnull")
			t = T{Kind: KMap, Elem: &e}
		}
	case "array_enum", "map_enum":
		// lists / maps of enum members (named or anonymous enum)
		var e T
		if len(g.enums) > 0 && rapid.Bool().Draw(g.t, "enumelemref") {
			e = T{Kind: KRef, Ref: rapid.SampledFrom(g.enums).Draw(g.t, "enumelemname")}
		} else {
			e = g.enumType(false)
			e.Default = nil
			if len(e.Members) < 2 {
				e.Members = append(e.Members, *Raw("other"))
			}
		}
		t = T{Kind: KArray, Elem: &e}
		if c == "map_enum" {
			t.Kind = KMap
		}
	case "string_format":
		// CUE has no such annotation: a plain string there
		t = T{Kind: KString}
		if g.f != CUE {
			t.Format = rapid.SampledFrom([]string{"date", "uuid", "email", "time"}).Draw(g.t, "strformat")
		}
	case "nullable_collection":
		e := T{Kind: rapid.SampledFrom([]string{KString, KInt, KFloat}).Draw(g.t, "nullcollelem")}
		t = T{Kind: rapid.SampledFrom([]string{KArray, KMap}).Draw(g.t, "nullcollkind"), Elem: &e, Nullable: true}
	case "nullable_union_scalars":
		t = g.unionScalars()
		t.TypeList = false
		t.Nullable = true
	case "nullable_int_plain":
		t = T{Kind: KInt, Nullable: true}
	case "union_structs":
		if len(g.variants) < 2 || g.cur >= len(g.structs) {
			return T{}, false
		}
		t = g.unionStructs()
	case "datetime":
		t = T{Kind: KDateTime}
	case "any":
		if g.cfg.NoAny {
			return T{}, false
		}
		t = T{Kind: KAny}
	case "nullable_scalar":
		t = g.scalarOfAnyKind()
		if t.Kind == KBool && g.f == OpenAPI {
			t = T{Kind: KString}
		}
		t.Nullable = true
	case "nullable_ref":
		if len(g.structs) < 2 {
			return T{}, false
		}
		t = T{Kind: KRef, Ref: rapid.SampledFrom(g.structs[1:]).Draw(g.t, "nref"), Nullable: true}
	case "bytes":
		if g.cfg.NoBytes {
			return T{}, false
		}
		t = T{Kind: KBytes}
	case "default_string":
		t = T{Kind: KString, Default: Raw(rapid.SampledFrom([]string{"hello", "", "a \"quoted\" ünï", "x", "%H:%M 50% of %s", "back\\slash $x {y}"}).Draw(g.t, "dstr"))}
	case "default_int":
		t = T{Kind: KInt, Default: Raw(rapid.IntRange(-2, 99).Draw(g.t, "dint"))}
	case "default_bool":
		t = T{Kind: KBool, Default: Raw(rapid.Bool().Draw(g.t, "dbool"))}
	case "default_float":
		t = T{Kind: KFloat, Default: Raw(rapid.SampledFrom([]float64{1.5, 42, 0.25, -3.75}).Draw(g.t, "dfloat"))}
	case "default_list":
		e := T{Kind: KString}
		t = T{Kind: KArray, Elem: &e, Default: Raw(rapid.SampledFrom([][]string{{"a", "b"}, {"x"}}).Draw(g.t, "dlist"))}
	case "ref_named_union", "array_named_union", "map_named_union":
		if g.namedUnion == "" {
			return T{}, false
		}
		r := T{Kind: KRef, Ref: g.namedUnion}
		switch c {
		case "array_named_union":
			t = T{Kind: KArray, Elem: &r}
		case "map_named_union":
			t = T{Kind: KMap, Elem: &r}
		default:
			t = r
		}
	case "array_nested_union_structs":
		if len(g.variants) < 2 {
			return T{}, false
		}
		u := g.unionStructs()
		e := T{Kind: KArray, Elem: &u}
		t = T{Kind: KArray, Elem: &e}
	case "default_int_wide":
		t = T{Kind: KInt, Default: Raw(rapid.SampledFrom([]int64{0, -1 << 40, 1 << 53, (1 << 53) + 1, 1<<62 + 3, 2147483648}).Draw(g.t, "dintwide"))}
	case "default_list_int":
		e := T{Kind: KInt}
		t = T{Kind: KArray, Elem: &e, Default: Raw(rapid.SampledFrom([][]int{{1, 2}, {0}, {-7, 300, 5}}).Draw(g.t, "dlistint"))}
	case "default_list_empty":
		e := T{Kind: KString}
		t = T{Kind: KArray, Elem: &e, Default: Raw([]string{})}
	case "default_nullable":
		if rapid.Bool().Draw(g.t, "dnullkind") {
			t = T{Kind: KString, Nullable: true, Default: Raw(rapid.SampledFrom([]string{"n", ""}).Draw(g.t, "dnullstr"))}
		} else {
			t = T{Kind: KInt, Nullable: true, Default: Raw(rapid.IntRange(0, 9).Draw(g.t, "dnullint"))}
		}
	case "default_union":
		pool := []T{{Kind: KString}, {Kind: KBool}, {Kind: KInt}}
		n := rapid.IntRange(2, 3).Draw(g.t, "dunionn")
		branches := rapid.Permutation(pool).Draw(g.t, "dunionbranches")[:n]
		var dv any
		switch rapid.SampledFrom(branches).Draw(g.t, "dunionbranch").Kind {
		case KString:
			dv = rapid.SampledFrom([]string{"u", ""}).Draw(g.t, "dunionstr")
		case KBool:
			dv = rapid.Bool().Draw(g.t, "dunionbool")
		default:
			dv = rapid.IntRange(0, 50).Draw(g.t, "dunionint")
		}
		t = T{Kind: KUScalars, Branches: branches, Default: Raw(dv)}
	case "default_map":
		e := T{Kind: rapid.SampledFrom([]string{KString, KInt}).Draw(g.t, "dmapkind")}
		if e.Kind == KString {
			t = T{Kind: KMap, Elem: &e, Default: Raw(map[string]string{"a": "x", "b": ""})}
		} else {
			t = T{Kind: KMap, Elem: &e, Default: Raw(map[string]int{"a": 1})}
		}
	case "default_int_bounded":
		t = g.bounded(KInt)
		t.ExclMin, t.ExclMax = false, false
		v := 0.0
		if t.Min != nil {
			v = *t.Min + 1
		} else {
			v = *t.Max - 1
		}
		t.Default = Raw(int64(v))
	case "default_float_bounded":
		t = g.bounded(KFloat)
		t.ExclMin, t.ExclMax = false, false
		v := 0.0
		if t.Min != nil {
			v = *t.Min + 0.5
		} else {
			v = *t.Max - 0.5
		}
		t.Default = Raw(v)
	default:
		panic("smodel: unknown class " + c)
	}
	if t.Default != nil && g.cfg.NoDefaults {
		return T{}, false
	}
	if !g.supportsDeep(t) {
		return T{}, false
	}
	return t, true
}

// AddStructDefaults gives some references to struct definitions a default
// object (a by-construction valid instance of the referred struct: required
// fields and a random subset of the optional ones, i.e. partial overrides).
// Only CUE can express a default on a reference.
func AddStructDefaults(t *rapid.T, m *Model) int {
	added := 0
	keepConstants := rapid.IntRange(0, 5).Draw(t, "overrideconstants") == 0
	reaches := func(from, to string) bool {
		seen := map[string]bool{}
		var rec func(name string) bool
		rec = func(name string) bool {
			if name == to {
				return true
			}
			if seen[name] {
				return false
			}
			seen[name] = true
			d := m.Def(name)
			if d == nil {
				return false
			}
			found := false
			walkT(&d.Type, name, "", func(_ string, _ string, x *T) {
				if x.Kind == KRef && rec(x.Ref) {
					found = true
				}
				for _, r := range x.Refs {
					if rec(r) {
						found = true
					}
				}
			})
			return found
		}
		return rec(from)
	}
	for i := range m.Defs {
		d := &m.Defs[i]
		if d.Type.Kind != KStruct {
			continue
		}
		for j := range d.Type.Fields {
			f := &d.Type.Fields[j]
			if f.Type.Kind != KRef || f.Type.Nullable || f.Type.Default != nil {
				continue
			}
			target := m.Def(f.Type.Ref)
			if target == nil || target.Type.Kind != KStruct || reaches(f.Type.Ref, d.Name) {
				continue
			}
			if !rapid.Bool().Draw(t, "structdefault") {
				continue
			}
			doc := DrawDoc(t, m, f.Type.Ref)
			// overrides that say nothing are left out: explicit nulls, and the
			// referred struct's own constants unless keepConstants (naming a
			// constant in a struct default is a listed finding of C10: the
			// Python constructor then passes it as a keyword argument)
			var obj map[string]any
			if err := json.Unmarshal([]byte(doc.JSON), &obj); err == nil {
				// a definition made of constants only is itself concrete: naming its
				// constants makes the default equal to it, the disjunction collapses
				// and cog sees no reference at all (thorough seed 5) — not kept there
				allConst := true
				for _, tf := range target.Type.Fields {
					if rtf := m.Resolve(tf.Type); tf.Type.Const == nil && rtf.Const == nil && !(rtf.Kind == KEnum && len(rtf.Members) < 2) {
						allConst = false
					}
				}
				for _, tf := range target.Type.Fields {
					if v, has := obj[tf.Name]; has && (v == nil || (tf.Type.Const != nil && (!keepConstants || allConst))) {
						delete(obj, tf.Name)
					}
					// a single-member enum is a constant for CUE: naming it makes the
					// default struct as concrete as the referred definition and the
					// disjunction collapses (cog then sees no reference at all)
					if rtf := m.Resolve(tf.Type); rtf.Kind == KEnum && len(rtf.Members) < 2 {
						delete(obj, tf.Name)
					}
				}
				// an EMPTY struct default (`*{} | #B`) is dropped by the CUE front
				// end like every empty value inside a default (listed under C10):
				// not drawn
				if len(obj) == 0 {
					continue
				}
				if b, err := json.Marshal(obj); err == nil {
					doc.JSON = string(b)
				}
			}
			raw := json.RawMessage(doc.JSON)
			f.Type.Default = &raw
			added++
		}
	}
	return added
}

func (g *mgen) supportsDeep(t T) bool {
	formats := []Format{g.f}
	if g.cfg.Intersection {
		formats = Formats
	}
	ok := true
	var rec func(t T)
	rec = func(t T) {
		for _, f := range formats {
			if !Supports(f, t) {
				ok = false
			}
		}
		for _, fl := range t.Fields {
			rec(fl.Type)
		}
		if t.Elem != nil {
			rec(*t.Elem)
		}
		for _, b := range t.Branches {
			rec(b)
		}
	}
	rec(t)
	return ok
}

func (g *mgen) scalarOfAnyKind() T {
	k := rapid.SampledFrom([]string{KString, KString, KBool, KInt, KInt, KFloat}).Draw(g.t, "scalarkind")
	p := 3
	if g.cfg.ConstraintBias {
		p = 1
	}
	if k != KBool && rapid.IntRange(0, p).Draw(g.t, "boundit") == 0 {
		return g.bounded(k)
	}
	return T{Kind: k}
}

func (g *mgen) unionScalars() T {
	pool := []T{{Kind: KString}, {Kind: KBool}, {Kind: KInt}, {Kind: KFloat}, {Kind: KArray, Elem: &T{Kind: KString}}}
	n := rapid.IntRange(2, 3).Draw(g.t, "nbranches")
	branches := rapid.Permutation(pool).Draw(g.t, "branches")[:n]
	u := T{Kind: KUScalars, Branches: branches}
	if g.f != CUE && g.cfg.TypeLists && rapid.IntRange(0, 2).Draw(g.t, "typelist") == 0 {
		u.TypeList = true // only takes effect when every branch is a plain scalar
	}
	return u
}

func (g *mgen) unionStructs() T {
	n := rapid.IntRange(2, len(g.variants)).Draw(g.t, "nvariantrefs")
	refs := rapid.Permutation(g.variants).Draw(g.t, "variantrefs")[:n]
	return T{Kind: KUStructs, Refs: refs, Discriminator: g.disc, ExplicitMapping: g.cfg.ExplicitMappings && rapid.Bool().Draw(g.t, "explicitmapping")}
}

// fieldType draws a type for a non-dense struct field.
func (g *mgen) fieldType(depth int, allowRecursion bool) T {
	classes := []string{"bool", "string", "string_bounded", "int", "int_bounded", "float", "float_bounded", "enum_ref", "const_string", "datetime", "default_string", "default_int", "nullable_scalar", "ref"}
	if depth < g.cfg.MaxDepth && !g.cfg.RefChain {
		classes = append(classes, "array_scalar", "array_struct", "array_ref", "map_scalar", "map_ref", "anon_struct", "union_scalars", "union_structs", "enum_anon", "any", "int_width", "float32", "const_int", "default_list")
	}
	for tries := 0; tries < 8; tries++ {
		c := rapid.SampledFrom(classes).Draw(g.t, "class")
		if t, ok := g.classType(c, depth); ok {
			return t
		}
	}
	return T{Kind: KString}
}

// Describe gives a one-line summary of a model.
func (m *Model) Describe() string {
	var parts []string
	for _, d := range m.Defs {
		parts = append(parts, fmt.Sprintf("%s:%s", d.Name, d.Type.Kind))
	}
	return m.Package + "{" + strings.Join(parts, ",") + "}"
}

func cloneRaw(r *json.RawMessage) *json.RawMessage {
	if r == nil {
		return nil
	}
	c := append(json.RawMessage(nil), (*r)...)
	return &c
}
