// Package vlib is the shared runtime of the verification checks.
package vlib

import (
	_ "github.com/grafana/cog/internal/orderedmap"
	_ "pgregory.net/rapid"
)
