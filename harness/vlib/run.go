// Package vlib is the shared runtime of the verification checks: case
// accounting (evaluations, distinct non-trivial cases, labels, samples),
// known-finding matching, violation/replay files and panic guards.
//
// A check is written as
//
//	gen (rapid)  ->  Case (plain JSON-able data)  ->  check(Case) []Violation
//
// so that a replay file (the JSON of a Case) can be re-executed with no
// generator involved.
package vlib

import (
	"crypto/sha256"
	"encoding/binary"
	"encoding/json"
	"fmt"
	"os"
	"path/filepath"
	"regexp"
	"runtime"
	"sort"
	"strings"
	"sync"
	"testing"
)

// Violation is one way a case contradicts the property.
type Violation struct {
	// Sig is a stable, structural signature (symptom class + structural
	// feature of the input). Known findings are matched against it.
	Sig string `json:"sig"`
	// Msg is the human readable detail.
	Msg string `json:"msg"`
}

func V(sig string, format string, args ...any) Violation {
	return Violation{Sig: sig, Msg: fmt.Sprintf(format, args...)}
}

// Finding is an entry of /verif/known_findings.json.
type Finding struct {
	ID       string `json:"id"`
	Property string `json:"property"`
	Summary  string `json:"summary"`
	// Match is a regular expression over Violation.Sig (anchored).
	Match   string `json:"match"`
	Witness string `json:"witness"`
	// WitnessOnly: the finding lies in a region the generator keeps out of by
	// construction; its matcher only judges its own witness (the driver prints
	// KNOWN-FINDING while that still fails). Met by the generated search, the
	// same signature is an unlisted violation.
	WitnessOnly bool `json:"witness_only,omitempty"`

	re *regexp.Regexp
}

type FindingsFile struct {
	Findings []Finding `json:"findings"`
	Fixed    []string  `json:"fixed"`
}

func LoadFindings(path string, property string) ([]Finding, error) {
	raw, err := os.ReadFile(path)
	if err != nil {
		if os.IsNotExist(err) {
			return nil, nil
		}
		return nil, err
	}
	var ff FindingsFile
	if err := json.Unmarshal(raw, &ff); err != nil {
		return nil, err
	}
	var out []Finding
	for _, f := range ff.Findings {
		if f.Property != property {
			continue
		}
		re, err := regexp.Compile("^(?:" + f.Match + ")$")
		if err != nil {
			return nil, fmt.Errorf("finding %s: %w", f.ID, err)
		}
		f.re = re
		out = append(out, f)
	}
	return out, nil
}

// Stats is what one test process reports to the driver.
type Stats struct {
	Property      string            `json:"property"`
	Evaluations   int               `json:"evaluations"`
	NontrivialSet []uint64          `json:"nontrivial_set"`
	Labels        map[string]int    `json:"labels"`
	Counters      map[string]int    `json:"counters"`
	Samples       []any             `json:"samples"`
	Known         map[string]int    `json:"known"`
	KnownExample  map[string]string `json:"known_example"`
	Violations    []ViolationRecord `json:"violations"`
	Notes         []string          `json:"notes"`
	Exhaustive    bool              `json:"exhaustive"`
	States        int               `json:"states"`
	Transitions   int               `json:"transitions"`
	Inconclusive  string            `json:"inconclusive,omitempty"`
	Rule          string            `json:"rule"`
	Assumptions   []string          `json:"assumptions"`
	Extra         map[string]any    `json:"extra,omitempty"`
}

type ViolationRecord struct {
	Sig    string `json:"sig"`
	Msg    string `json:"msg"`
	Replay string `json:"replay"`
}

// Run accumulates the accounting of one check execution.
type Run struct {
	mu       sync.Mutex
	ID       string
	outDir   string
	findings []Finding
	st       Stats
	nontriv  map[uint64]struct{}
	maxSamp  int
	// last replay candidate written by a failing case (rapid re-runs the
	// minimal case last, so the last one is the shrunk one).
	lastReplay string
	lastViol   []Violation
	replayMode bool
}

func Begin(tb testing.TB, id string) *Run {
	out := os.Getenv("VERIF_OUT")
	if out == "" {
		out = filepath.Join(os.TempDir(), "verif-out-"+id)
	}
	_ = os.MkdirAll(out, 0o755)
	ff := os.Getenv("VERIF_FINDINGS")
	if ff == "" {
		ff = "/verif/known_findings.json"
	}
	fs, err := LoadFindings(ff, id)
	if err != nil {
		tb.Fatalf("known findings: %v", err)
	}
	r := &Run{
		ID: id, outDir: out, findings: fs,
		nontriv: map[uint64]struct{}{},
		maxSamp: 4,
	}
	r.st.Property = id
	r.st.Labels = map[string]int{}
	r.st.Counters = map[string]int{}
	r.st.Known = map[string]int{}
	r.st.KnownExample = map[string]string{}
	return r
}

// ReplayPath returns the replay file to execute instead of generating, or "".
func ReplayPath() string { return os.Getenv("VERIF_REPLAY") }

// Tier returns "quick" or "thorough".
func Tier() string {
	if os.Getenv("VERIF_TIER") == "thorough" {
		return "thorough"
	}
	return "quick"
}

func Thorough() bool { return Tier() == "thorough" }

// Hash gives a 64 bit digest of any JSON-able value (canonical: Go's encoder
// sorts map keys).
func Hash(v any) uint64 {
	raw, err := json.Marshal(v)
	if err != nil {
		raw = []byte(fmt.Sprintf("%#v", v))
	}
	sum := sha256.Sum256(raw)
	return binary.LittleEndian.Uint64(sum[:8])
}

func HashBytes(parts ...[]byte) uint64 {
	h := sha256.New()
	for _, p := range parts {
		_, _ = h.Write(p)
		_, _ = h.Write([]byte{0})
	}
	return binary.LittleEndian.Uint64(h.Sum(nil)[:8])
}

// Eval records one evaluated case. nontrivialKey is 0 for a trivial case,
// otherwise the hash identifying the case for distinctness.
func (r *Run) Eval(nontrivialKey uint64, labels ...string) {
	r.mu.Lock()
	defer r.mu.Unlock()
	r.st.Evaluations++
	if nontrivialKey != 0 {
		r.nontriv[nontrivialKey] = struct{}{}
	}
	for _, l := range labels {
		r.st.Labels[l]++
	}
}

// Nontrivial adds further distinct non-trivial keys without counting an
// evaluation (used when one case holds many sub-cases).
func (r *Run) Nontrivial(key uint64) {
	r.mu.Lock()
	defer r.mu.Unlock()
	if key != 0 {
		r.nontriv[key] = struct{}{}
	}
}

func (r *Run) Label(labels ...string) {
	r.mu.Lock()
	defer r.mu.Unlock()
	for _, l := range labels {
		r.st.Labels[l]++
	}
}

func (r *Run) Count(counter string, n int) {
	r.mu.Lock()
	defer r.mu.Unlock()
	r.st.Counters[counter] += n
}

// Counters returns a copy of the counters.
func (r *Run) Counters() map[string]int {
	r.mu.Lock()
	defer r.mu.Unlock()
	out := make(map[string]int, len(r.st.Counters))
	for k, v := range r.st.Counters {
		out[k] = v
	}
	return out
}

func (r *Run) Note(format string, args ...any) {
	r.mu.Lock()
	defer r.mu.Unlock()
	if len(r.st.Notes) < 50 {
		r.st.Notes = append(r.st.Notes, fmt.Sprintf(format, args...))
	}
}

// Describe states the generation / non-triviality rule and the assumptions.
func (r *Run) Describe(rule string, assumptions ...string) {
	r.mu.Lock()
	defer r.mu.Unlock()
	r.st.Rule = rule
	r.st.Assumptions = assumptions
}

func (r *Run) SetExtra(key string, v any) {
	r.mu.Lock()
	defer r.mu.Unlock()
	if r.st.Extra == nil {
		r.st.Extra = map[string]any{}
	}
	r.st.Extra[key] = v
}

func (r *Run) SetExhaustive(states, transitions int) {
	r.mu.Lock()
	defer r.mu.Unlock()
	r.st.Exhaustive = true
	r.st.States += states
	r.st.Transitions += transitions
}

func (r *Run) Inconclusive(format string, args ...any) {
	r.mu.Lock()
	defer r.mu.Unlock()
	r.st.Inconclusive = fmt.Sprintf(format, args...)
}

// Pending records the case about to be executed, so that a crash of the whole
// process (Go cannot recover from a stack overflow) leaves the culprit behind
// in <out>/pending.json.
func (r *Run) Pending(c any) {
	raw, err := json.Marshal(map[string]any{"property": r.ID, "case": c})
	if err == nil {
		_ = os.WriteFile(filepath.Join(r.outDir, "pending.json"), raw, 0o644)
	}
}

// Sample keeps a few cases written out in full.
func (r *Run) Sample(v any) {
	r.mu.Lock()
	defer r.mu.Unlock()
	if len(r.st.Samples) >= r.maxSamp {
		return
	}
	raw, err := json.Marshal(v)
	if err != nil || len(raw) > 6000 {
		return
	}
	var back any
	_ = json.Unmarshal(raw, &back)
	r.st.Samples = append(r.st.Samples, back)
}

// Judge classifies the violations of one case. Violations matching a known
// finding are counted; the others are returned. The replay value is written to
// disk when there is at least one unlisted violation.
func (r *Run) Judge(replay any, vs []Violation) []Violation {
	if len(vs) == 0 {
		return nil
	}
	r.mu.Lock()
	defer r.mu.Unlock()
	var unlisted []Violation
	for _, v := range vs {
		matched := false
		for _, f := range r.findings {
			if f.WitnessOnly && !r.replayMode {
				continue
			}
			if f.re.MatchString(v.Sig) {
				r.st.Known[f.ID]++
				if _, ok := r.st.KnownExample[f.ID]; !ok {
					r.st.KnownExample[f.ID] = v.Sig + ": " + v.Msg
				}
				matched = true
				break
			}
		}
		if !matched {
			unlisted = append(unlisted, v)
		}
	}
	if len(unlisted) == 0 {
		return nil
	}
	if os.Getenv("VERIF_COLLECT") != "" { // development aid: survey all signatures instead of stopping
		for _, v := range unlisted {
			r.st.Counters["unlisted:"+v.Sig]++
			if _, ok := r.st.KnownExample["unlisted:"+v.Sig]; !ok {
				r.st.KnownExample["unlisted:"+v.Sig] = v.Msg
				if dir := os.Getenv("VERIF_COLLECT"); strings.HasPrefix(dir, "/") {
					raw, _ := json.MarshalIndent(map[string]any{"property": r.ID, "case": replay, "violations": []Violation{v}}, "", " ")
					_ = os.MkdirAll(dir, 0o755)
					_ = os.WriteFile(filepath.Join(dir, fmt.Sprintf("%s_%016x.json", r.ID, Hash(v.Sig))), raw, 0o644)
				}
			}
		}
		return nil
	}
	raw, err := json.MarshalIndent(map[string]any{
		"property":   r.ID,
		"case":       replay,
		"violations": unlisted,
	}, "", " ")
	if err == nil {
		p := filepath.Join(r.outDir, "replay_candidate.json")
		_ = os.WriteFile(p, raw, 0o644)
		r.lastReplay = p
	}
	r.lastViol = unlisted
	return unlisted
}

// Fail is what a property calls with the result of Judge.
func Fail(t interface{ Fatalf(string, ...any) }, vs []Violation) {
	if len(vs) == 0 {
		return
	}
	var sb strings.Builder
	for _, v := range vs {
		fmt.Fprintf(&sb, "\n  [%s] %s", v.Sig, v.Msg)
	}
	t.Fatalf("property violated:%s", sb.String())
}

// Finish writes the stats file. Call it deferred from the Test function; when
// the test failed the last replay candidate becomes the violation record.
func (r *Run) Finish(tb testing.TB) {
	r.mu.Lock()
	defer r.mu.Unlock()
	if tb.Failed() || len(r.lastViol) > 0 && r.replayMode {
		if len(r.lastViol) > 0 {
			final := filepath.Join(r.outDir, fmt.Sprintf("violation_%016x.json", Hash(r.lastViol)^Hash(r.lastReplay)))
			if r.lastReplay != "" {
				raw, _ := os.ReadFile(r.lastReplay)
				final = filepath.Join(r.outDir, fmt.Sprintf("violation_%016x.json", HashBytes(raw)))
				_ = os.WriteFile(final, raw, 0o644)
			}
			for _, v := range r.lastViol {
				r.st.Violations = append(r.st.Violations, ViolationRecord{Sig: v.Sig, Msg: v.Msg, Replay: final})
			}
		} else if tb.Failed() {
			// failure not produced through Judge: harness problem (rapid
			// "only generated N valid", flaky, panic outside guards)
			if r.st.Inconclusive == "" {
				r.st.Inconclusive = "test failed without a judged violation (see log)"
			}
		}
	}
	r.st.NontrivialSet = r.st.NontrivialSet[:0]
	for k := range r.nontriv {
		r.st.NontrivialSet = append(r.st.NontrivialSet, k)
	}
	sort.Slice(r.st.NontrivialSet, func(i, j int) bool { return r.st.NontrivialSet[i] < r.st.NontrivialSet[j] })
	raw, _ := json.Marshal(r.st)
	_ = os.WriteFile(filepath.Join(r.outDir, "stats.json"), raw, 0o644)
}

// RunReplay executes check on the case stored in path (if VERIF_REPLAY is
// set) and reports. Returns true when in replay mode.
func RunReplay[C any](tb testing.TB, r *Run, check func(C) []Violation) bool {
	path := ReplayPath()
	if path == "" {
		return false
	}
	r.replayMode = true
	raw, err := os.ReadFile(path)
	if err != nil {
		tb.Fatalf("replay: %v", err)
	}
	var env struct {
		Case json.RawMessage `json:"case"`
	}
	if err := json.Unmarshal(raw, &env); err != nil || env.Case == nil {
		tb.Fatalf("replay: bad file %s: %v", path, err)
	}
	var c C
	dec := json.NewDecoder(strings.NewReader(string(env.Case)))
	dec.UseNumber()
	if err := dec.Decode(&c); err != nil {
		tb.Fatalf("replay: bad case in %s: %v", path, err)
	}
	vs := check(c)
	r.Eval(0)
	// In replay mode everything is reported raw (no known-finding filtering):
	// the driver decides.
	res := map[string]any{"violations": vs}
	out, _ := json.MarshalIndent(res, "", " ")
	_ = os.WriteFile(filepath.Join(r.outDir, "replay_result.json"), out, 0o644)
	for _, v := range vs {
		tb.Logf("REPLAY-VIOLATION [%s] %s", v.Sig, v.Msg)
	}
	return true
}

// Guard runs f and converts a panic into (signature, message). The signature
// is "<message class> @ <first cog frame function>".
func Guard(f func()) (sig string, msg string, panicked bool) {
	defer func() {
		if rec := recover(); rec != nil {
			panicked = true
			msg = fmt.Sprint(rec)
			sig = PanicClass(msg) + " @ " + firstCogFrame()
		}
	}()
	f()
	return
}

var (
	reNum  = regexp.MustCompile(`[0-9]+`)
	reQuot = regexp.MustCompile(`"[^"]*"|'[^']*'`)
)

// PanicClass normalises a panic message (numbers and quoted names removed).
func PanicClass(msg string) string {
	if i := strings.IndexByte(msg, '\n'); i >= 0 {
		msg = msg[:i]
	}
	msg = reQuot.ReplaceAllString(msg, "Q")
	msg = reNum.ReplaceAllString(msg, "N")
	if len(msg) > 120 {
		msg = msg[:120]
	}
	return msg
}

func firstCogFrame() string {
	pcs := make([]uintptr, 64)
	n := runtime.Callers(3, pcs)
	frames := runtime.CallersFrames(pcs[:n])
	first := ""
	for {
		fr, more := frames.Next()
		if strings.HasPrefix(fr.Function, "github.com/grafana/cog/") &&
			!strings.HasPrefix(fr.Function, "github.com/grafana/cog/verifharness") {
			fn := strings.TrimPrefix(fr.Function, "github.com/grafana/cog/")
			// strip generic instantiation noise and closures numbering
			fn = regexp.MustCompile(`\[[^\]]*\]`).ReplaceAllString(fn, "")
			fn = regexp.MustCompile(`\.func[0-9.]+$`).ReplaceAllString(fn, "")
			if first != "" {
				return first + " < " + fn
			}
			// an IR accessor (Type.AsStruct, ...) says nothing about the call
			// site: name its caller too
			if strings.HasPrefix(fn, "internal/ast.Type.") || strings.HasPrefix(fn, "internal/tools.") || strings.HasPrefix(fn, "internal/orderedmap.") {
				first = fn
			} else {
				return fn
			}
		}
		if !more {
			break
		}
	}
	if first != "" {
		return first
	}
	return "?"
}
