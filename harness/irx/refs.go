// Package irx holds predicates over cog's IR computed with the independent
// reflective walker.
package irx

import (
	"fmt"
	"reflect"
	"sort"

	"github.com/grafana/cog/internal/ast"
	"github.com/grafana/cog/verifharness/walk"
)

// Ref is one reference-bearing position of the IR.
type Ref struct {
	Where string // "<pkg>.<object><path>"
	Kind  string // ref | constant_ref | mapping | entry_point | self_ref | builder_for | factory
	Pkg   string
	Name  string
	// AltPkgs: for mapping targets, the packages in which the name may live.
	AltPkgs []string
}

func (r Ref) Target() string { return r.Pkg + "." + r.Name }

var (
	tRef      = reflect.TypeOf(ast.RefType{})
	tConstRef = reflect.TypeOf(ast.ConstantReferenceType{})
	tDisj     = reflect.TypeOf(ast.DisjunctionType{})
)

func refsIn(where string, pkg string, v any, out *[]Ref) {
	walk.Each(v, func(path string, s reflect.Value) {
		switch s.Type() {
		case tRef:
			r := s.Interface().(ast.RefType)
			*out = append(*out, Ref{Where: where + path, Kind: "ref", Pkg: r.ReferredPkg, Name: r.ReferredType})
		case tConstRef:
			r := s.Interface().(ast.ConstantReferenceType)
			*out = append(*out, Ref{Where: where + path, Kind: "constant_ref", Pkg: r.ReferredPkg, Name: r.ReferredType})
		case tDisj:
			d := s.Interface().(ast.DisjunctionType)
			if len(d.DiscriminatorMapping) == 0 {
				return
			}
			pkgs := map[string]bool{}
			for _, b := range d.Branches {
				if b.Kind == ast.KindRef && b.Ref != nil {
					pkgs[b.Ref.ReferredPkg] = true
				}
			}
			if len(pkgs) == 0 {
				pkgs[pkg] = true
			}
			var alts []string
			for p := range pkgs {
				alts = append(alts, p)
			}
			sort.Strings(alts)
			keys := make([]string, 0, len(d.DiscriminatorMapping))
			for k := range d.DiscriminatorMapping {
				keys = append(keys, k)
			}
			sort.Strings(keys)
			for _, k := range keys {
				*out = append(*out, Ref{Where: fmt.Sprintf("%s%s.DiscriminatorMapping{%s}", where, path, k), Kind: "mapping", Pkg: alts[0], Name: d.DiscriminatorMapping[k], AltPkgs: alts})
			}
		}
	})
}

// SchemaRefs lists every reference-bearing position of the schemas: type
// references (wherever they are: fields, array/map values, map keys, union
// branches, hints, entry point types), constant references, discriminator
// mapping targets, entry points.
func SchemaRefs(schemas ast.Schemas) []Ref {
	var out []Ref
	for _, schema := range schemas {
		if schema == nil {
			continue
		}
		if schema.EntryPoint != "" {
			out = append(out, Ref{Where: schema.Package + ".<EntryPoint>", Kind: "entry_point", Pkg: schema.Package, Name: schema.EntryPoint})
		}
		refsIn(schema.Package+".<EntryPointType>", schema.Package, schema.EntryPointType, &out)
		if schema.Objects == nil {
			continue
		}
		schema.Objects.Iterate(func(_ string, obj ast.Object) {
			out = append(out, Ref{Where: schema.Package + "." + obj.Name + ".SelfRef", Kind: "self_ref", Pkg: obj.SelfRef.ReferredPkg, Name: obj.SelfRef.ReferredType})
			refsIn(schema.Package+"."+obj.Name, schema.Package, obj.Type, &out)
		})
	}
	return out
}

// BuilderRefs lists the references held by builders.
func BuilderRefs(builders ast.Builders) []Ref {
	var out []Ref
	for _, b := range builders {
		where := "builder " + b.Package + "." + b.Name
		out = append(out, Ref{Where: where + ".For.SelfRef", Kind: "builder_for", Pkg: b.For.SelfRef.ReferredPkg, Name: b.For.SelfRef.ReferredType})
		refsIn(where+".For.Type", b.Package, b.For.Type, &out)
		refsIn(where+".Properties", b.Package, b.Properties, &out)
		refsIn(where+".Constructor", b.Package, b.Constructor, &out)
		refsIn(where+".Options", b.Package, b.Options, &out)
		refsIn(where+".Factories", b.Package, b.Factories, &out)
	}
	return out
}

// Dangling returns the references that point into a loaded package but name no
// object there. References into packages that are not loaded are skipped.
func Dangling(schemas ast.Schemas, refs []Ref) []Ref {
	loaded := map[string]*ast.Schema{}
	for _, s := range schemas {
		if s != nil {
			loaded[s.Package] = s
		}
	}
	has := func(pkg, name string) (loadedPkg bool, found bool) {
		s, ok := loaded[pkg]
		if !ok {
			return false, false
		}
		if s.Objects == nil {
			return true, false
		}
		return true, s.Objects.Has(name)
	}
	var out []Ref
	for _, r := range refs {
		if r.Kind == "mapping" {
			anyLoaded, found := false, false
			for _, p := range r.AltPkgs {
				l, f := has(p, r.Name)
				anyLoaded = anyLoaded || l
				found = found || f
			}
			if anyLoaded && !found {
				out = append(out, r)
			}
			continue
		}
		if r.Pkg == "" && r.Name == "" {
			continue // zero RefType (e.g. unset EntryPointType)
		}
		l, f := has(r.Pkg, r.Name)
		if l && !f {
			out = append(out, r)
		}
	}
	return out
}

// SelfRefProblems checks that every object's SelfRef names the object itself
// and that the objects map key equals the object's name.
func SelfRefProblems(schemas ast.Schemas) []string {
	var out []string
	for _, schema := range schemas {
		if schema == nil || schema.Objects == nil {
			continue
		}
		schema.Objects.Iterate(func(key string, obj ast.Object) {
			if key != obj.Name {
				out = append(out, fmt.Sprintf("%s: stored under key %q but named %q", schema.Package, key, obj.Name))
			}
			if obj.SelfRef.ReferredPkg != schema.Package || obj.SelfRef.ReferredType != obj.Name {
				out = append(out, fmt.Sprintf("%s.%s: SelfRef is %s", schema.Package, obj.Name, obj.SelfRef.String()))
			}
		})
	}
	return out
}
