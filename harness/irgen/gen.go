package irgen

import (
	"fmt"
	"strings"

	"pgregory.net/rapid"
)

// Config tunes the IR generator.
type Config struct {
	MinPkgs, MaxPkgs int
	MinObjs, MaxObjs int // per package
	MaxDepth         int
	MaxFields        int

	// Dangling allows references to objects that do not exist (in loaded
	// packages). Off: every reference into a loaded package resolves.
	Dangling bool
	// UnloadedPkgRefs allows references into a package that is not part of
	// the IR.
	UnloadedPkgRefs bool
	Intersections   bool
	ComposableSlots bool
	ConstRefs       bool
	// NilHints: some types are built without a Hints map (config-reachable
	// profile: what yaml decoding of a type produces).
	NilHints bool
	// SmallNamePool makes equal object names in several packages likely.
	SmallNamePool bool
	// NoDefaults disables defaults.
	NoDefaults bool
	// EntryPoints sets schema entry points.
	EntryPoints bool
	// Comments adds comments to objects and fields.
	Comments bool
	// AnyIndexMaps allows map index types other than string.
	NonStringMapKeys bool
	// IntersectionAnyBranch: one intersection branch in four is neither a
	// reference nor an inline struct (a union, `T | null`, a list, a map, an
	// enum...: OpenAPI `allOf: [{$ref: ...}, {oneOf: [...]}]`)
	IntersectionAnyBranch bool
	// MixedDisjunctions allows unions mixing refs, scalars and anonymous structs.
	MixedDisjunctions bool
	// ExtraNames are added to the object-name pool (e.g. "spec", "metadata").
	ExtraNames []string
}

func DefaultConfig() Config {
	return Config{
		MinPkgs: 1, MaxPkgs: 3, MinObjs: 1, MaxObjs: 7, MaxDepth: 4, MaxFields: 5,
		Intersections: true, ConstRefs: true, EntryPoints: true, Comments: true,
		NonStringMapKeys: true, MixedDisjunctions: true,
	}
}

var pkgPool = []string{"alpha", "beta", "gamma", "delta"}

var objPool = []string{
	"Dashboard", "Panel", "Query", "Target", "Options", "Legend", "Threshold", "Variable",
	"timeRange", "field_config", "DataLink", "Mode", "Kind", "Status", "Shape", "Circle",
	"Square", "Node", "Tree", "Settings", "Alias", "Level", "Unit", "Common",
}

var smallObjPool = []string{"Dashboard", "Panel", "Query", "Mode", "Shape", "Node", "Options", "Level"}

var fieldPool = []string{
	"title", "id", "uid", "kind", "type", "tags", "options", "refresh_rate", "timeFrom",
	"links", "mode", "value", "values", "name", "labels", "enabled", "max", "min", "size",
	"parent", "children", "spec", "metadata", "default", "range", "map", "items",
}

var wordPool = []string{"hello", "", "a b", "ünï", "quote\"d", "x", "some value"}

type objClass int

const (
	clsStruct        objClass = iota
	clsVariantStruct          // struct with a constant string discriminator field
	clsEnumString
	clsEnumInt
	clsConstScalar // scalar with a concrete value
	clsScalar
	clsAlias // ref to another object
	clsArray
	clsMap
	clsDisjunction
	clsIntersection
)

type objInfo struct {
	pkg, name string
	cls       objClass
	members   []EnumMemberSpec // for enums
	constVal  *Val             // for const scalars
	constKind string
}

type genCtx struct {
	cfg  Config
	objs []objInfo
	pkgs []string
	// acyclicFor: while set, references may only target objects that cannot
	// lead back to this object without passing through a struct (alias and
	// union objects must not form reference cycles: cog resolves those
	// recursively, and no front-end produces them from a valid schema).
	acyclicFor *objInfo
}

// earlierOrStructs lists the objects declared before info, plus every object
// whose class is not alias/union/intersection (a cycle through those is fine).
func (g *genCtx) earlierOrStructs(info objInfo) []objInfo {
	var out []objInfo
	earlier := true
	for _, o := range g.objs {
		if o.pkg == info.pkg && o.name == info.name {
			earlier = false
			continue
		}
		switch o.cls {
		case clsAlias, clsDisjunction, clsIntersection, clsArray, clsMap:
			if earlier {
				out = append(out, o)
			}
		default:
			out = append(out, o)
		}
	}
	return out
}

func norm(s string) string {
	return strings.ToLower(strings.NewReplacer("_", "", "-", "").Replace(s))
}

// distinctNames draws n names from pool, distinct after normalisation.
func distinctNames(t *rapid.T, pool []string, n int, label string) []string {
	if n > len(pool) {
		n = len(pool)
	}
	perm := rapid.Permutation(pool).Draw(t, label)
	out := make([]string, 0, n)
	seen := map[string]bool{}
	for _, name := range perm {
		if len(out) == n {
			break
		}
		if seen[norm(name)] {
			continue
		}
		seen[norm(name)] = true
		out = append(out, name)
	}
	return out
}

// Gen returns a generator of IR specifications.
func Gen(cfg Config) *rapid.Generator[IRSpec] {
	return rapid.Custom(func(t *rapid.T) IRSpec {
		return Draw(t, cfg)
	})
}

func Draw(t *rapid.T, cfg Config) IRSpec {
	g := &genCtx{cfg: cfg}
	nPkgs := rapid.IntRange(cfg.MinPkgs, cfg.MaxPkgs).Draw(t, "npkgs")
	g.pkgs = distinctNames(t, pkgPool, nPkgs, "pkgs")
	pool := objPool
	if cfg.SmallNamePool {
		pool = smallObjPool
	}
	if len(cfg.ExtraNames) > 0 {
		pool = append(append([]string{}, pool...), cfg.ExtraNames...)
	}
	// phase 1: names and classes
	perPkg := make([][]int, len(g.pkgs))
	for pi, pkg := range g.pkgs {
		n := rapid.IntRange(cfg.MinObjs, cfg.MaxObjs).Draw(t, "nobjs")
		names := distinctNames(t, pool, n, "objnames")
		for _, name := range names {
			cls := drawClass(t, cfg)
			info := objInfo{pkg: pkg, name: name, cls: cls}
			switch cls {
			case clsEnumString:
				info.members = enumMembers(t, false)
			case clsEnumInt:
				info.members = enumMembers(t, true)
			case clsConstScalar:
				info.constKind, info.constVal = constScalar(t)
			}
			perPkg[pi] = append(perPkg[pi], len(g.objs))
			g.objs = append(g.objs, info)
		}
	}
	// phase 2: types
	spec := make(IRSpec, 0, len(g.pkgs))
	for pi, pkg := range g.pkgs {
		p := PkgSpec{Package: pkg}
		for _, oi := range perPkg[pi] {
			info := g.objs[oi]
			o := ObjSpec{Name: info.name, Type: g.objectType(t, info)}
			if cfg.Comments && rapid.IntRange(0, 3).Draw(t, "objcomment") == 0 {
				o.Comments = []string{"comment on " + info.name}
			}
			p.Objects = append(p.Objects, o)
		}
		if cfg.EntryPoints && rapid.IntRange(0, 2).Draw(t, "entrypoint") == 0 {
			p.EntryPoint = g.objs[perPkg[pi][rapid.IntRange(0, len(perPkg[pi])-1).Draw(t, "epidx")]].name
		}
		switch rapid.IntRange(0, 7).Draw(t, "meta") {
		case 0:
			p.MetaKind, p.Identifier = "core", pkg
		case 1:
			if cfg.ComposableSlots {
				p.MetaKind, p.Variant, p.Identifier = "composable", "dataquery", pkg
			}
		}
		spec = append(spec, p)
	}
	return spec
}

func drawClass(t *rapid.T, cfg Config) objClass {
	classes := []objClass{clsStruct, clsStruct, clsStruct, clsStruct, clsVariantStruct, clsVariantStruct, clsEnumString, clsEnumInt, clsConstScalar, clsScalar, clsAlias, clsAlias, clsArray, clsMap, clsDisjunction}
	if cfg.Intersections {
		classes = append(classes, clsIntersection)
	}
	return rapid.SampledFrom(classes).Draw(t, "class")
}

func enumMembers(t *rapid.T, ints bool) []EnumMemberSpec {
	n := rapid.IntRange(1, 4).Draw(t, "nmembers")
	var out []EnumMemberSpec
	if ints {
		vals := distinctInts(t, n)
		for i, v := range vals {
			name := []string{"Low", "Medium", "High", "Max"}[i]
			if rapid.IntRange(0, 4).Draw(t, "numname") == 0 {
				name = fmt.Sprintf("%d", v) // numeric member name (JSON Schema int enums)
			}
			out = append(out, EnumMemberSpec{Name: name, Value: *VI(v)})
		}
		return out
	}
	pool := []string{"auto", "always", "never", "", "with space", "1", "-1", "+inf", "UPPER", "snake_case", "a-b", " padded "}
	names := rapid.Permutation(pool).Draw(t, "enumvals")[:n]
	for _, v := range names {
		name := v
		if name == "" {
			name = "None"
		}
		out = append(out, EnumMemberSpec{Name: name, Value: *VS(v)})
	}
	return out
}

func distinctInts(t *rapid.T, n int) []int64 {
	pool := []int64{0, 1, 2, 3, -1, 10, 100, -5}
	perm := rapid.Permutation(pool).Draw(t, "ints")
	return perm[:n]
}

func constScalar(t *rapid.T) (string, *Val) {
	switch rapid.IntRange(0, 3).Draw(t, "constkind") {
	case 0:
		return "string", VS(rapid.SampledFrom([]string{"v1", "fixed", "panel", ""}).Draw(t, "conststr"))
	case 1:
		return "int64", VI(int64(rapid.IntRange(-3, 40).Draw(t, "constint")))
	case 2:
		return "bool", VB(rapid.Bool().Draw(t, "constbool"))
	default:
		return "float64", VF(rapid.SampledFrom([]float64{1.5, -0.25, 2}).Draw(t, "constfloat"))
	}
}

func (g *genCtx) objsOfClass(cls ...objClass) []objInfo {
	var out []objInfo
	for _, o := range g.objs {
		for _, c := range cls {
			if o.cls == c {
				out = append(out, o)
			}
		}
	}
	return out
}

// refTo draws a reference target. It prefers existing objects.
func (g *genCtx) refTo(t *rapid.T, candidates []objInfo) TypeSpec {
	if g.cfg.UnloadedPkgRefs && rapid.IntRange(0, 9).Draw(t, "unloaded") == 0 {
		return TypeSpec{Kind: "ref", Pkg: "unloadedpkg", Name: "Thing"}
	}
	if g.cfg.Dangling && rapid.IntRange(0, 9).Draw(t, "dangling") == 0 {
		return TypeSpec{Kind: "ref", Pkg: g.pkgs[0], Name: "DoesNotExist"}
	}
	if len(candidates) == 0 {
		candidates = g.objs
		if g.acyclicFor != nil {
			candidates = g.earlierOrStructs(*g.acyclicFor)
		}
	}
	if len(candidates) == 0 {
		return TypeSpec{Kind: "scalar", Scalar: "string"}
	}
	o := candidates[rapid.IntRange(0, len(candidates)-1).Draw(t, "reftarget")]
	return TypeSpec{Kind: "ref", Pkg: o.pkg, Name: o.name}
}

func (g *genCtx) objectType(t *rapid.T, info objInfo) TypeSpec {
	switch info.cls {
	case clsStruct:
		return g.structType(t, 1, "")
	case clsVariantStruct:
		return g.structType(t, 1, strings.ToLower(info.name))
	case clsEnumString:
		ts := TypeSpec{Kind: "enum", EnumScalar: "string", Members: info.members}
		g.maybeDefaultEnum(t, &ts)
		return ts
	case clsEnumInt:
		ts := TypeSpec{Kind: "enum", EnumScalar: "int64", Members: info.members}
		g.maybeDefaultEnum(t, &ts)
		return ts
	case clsConstScalar:
		return TypeSpec{Kind: "scalar", Scalar: info.constKind, Value: info.constVal}
	case clsScalar:
		return g.scalarType(t, false)
	case clsAlias:
		cands := g.earlierOrStructs(info)
		if len(cands) == 0 {
			return TypeSpec{Kind: "scalar", Scalar: "string"}
		}
		return g.refTo(t, cands)
	case clsArray:
		g.acyclicFor = &info
		defer func() { g.acyclicFor = nil }()
		e := g.fieldType(t, 2)
		return TypeSpec{Kind: "array", Elem: &e}
	case clsMap:
		g.acyclicFor = &info
		defer func() { g.acyclicFor = nil }()
		e := g.fieldType(t, 2)
		return TypeSpec{Kind: "map", Index: g.mapIndex(t), Elem: &e}
	case clsDisjunction:
		g.acyclicFor = &info
		defer func() { g.acyclicFor = nil }()
		return g.disjunction(t, 1)
	case clsIntersection:
		g.acyclicFor = &info
		defer func() { g.acyclicFor = nil }()
		n := rapid.IntRange(1, 3).Draw(t, "nbranches")
		ts := TypeSpec{Kind: "intersection"}
		for i := 0; i < n; i++ {
			if g.cfg.IntersectionAnyBranch && rapid.IntRange(0, 3).Draw(t, "interany") == 0 {
				// simple shapes only: what matters is that a branch is neither a
				// reference nor a struct
				str := TypeSpec{Kind: "scalar", Scalar: "string"}
				num := TypeSpec{Kind: "scalar", Scalar: "int64"}
				null := TypeSpec{Kind: "scalar", Scalar: "null"}
				switch rapid.IntRange(0, 4).Draw(t, "interanykind") {
				case 0:
					ts.Branches = append(ts.Branches, TypeSpec{Kind: "disjunction", Branches: []TypeSpec{str, num}})
				case 1:
					ts.Branches = append(ts.Branches, TypeSpec{Kind: "disjunction", Branches: []TypeSpec{str, null}})
				case 2:
					structs := g.objsOfClass(clsStruct, clsVariantStruct)
					if len(structs) >= 2 {
						ts.Branches = append(ts.Branches, TypeSpec{Kind: "disjunction", Branches: []TypeSpec{g.refTo(t, structs), g.refTo(t, structs)}})
					} else {
						ts.Branches = append(ts.Branches, TypeSpec{Kind: "disjunction", Branches: []TypeSpec{num, str}})
					}
				case 3:
					ts.Branches = append(ts.Branches, TypeSpec{Kind: "array", Elem: &str})
				default:
					ts.Branches = append(ts.Branches, TypeSpec{Kind: "map", Index: &str, Elem: &num})
				}
				continue
			}
			if rapid.Bool().Draw(t, "interref") {
				ts.Branches = append(ts.Branches, g.refTo(t, g.objsOfClass(clsStruct, clsVariantStruct)))
			} else {
				ts.Branches = append(ts.Branches, g.structType(t, 2, ""))
			}
		}
		return ts
	}
	panic("unreachable")
}

func (g *genCtx) maybeDefaultEnum(t *rapid.T, ts *TypeSpec) {
	if g.cfg.NoDefaults || rapid.IntRange(0, 2).Draw(t, "enumdefault") != 0 {
		return
	}
	m := ts.Members[rapid.IntRange(0, len(ts.Members)-1).Draw(t, "enumdefidx")]
	v := m.Value
	ts.Default = &v
}

func (g *genCtx) mapIndex(t *rapid.T) *TypeSpec {
	if g.cfg.NonStringMapKeys {
		switch rapid.IntRange(0, 7).Draw(t, "mapindex") {
		case 0:
			enums := g.objsOfClass(clsEnumString)
			if len(enums) > 0 {
				r := g.refTo(t, enums)
				return &r
			}
		case 1:
			return &TypeSpec{Kind: "scalar", Scalar: "int64"}
		}
	}
	return &TypeSpec{Kind: "scalar", Scalar: "string"}
}

func (g *genCtx) structType(t *rapid.T, depth int, variant string) TypeSpec {
	n := rapid.IntRange(0, g.cfg.MaxFields).Draw(t, "nfields")
	names := distinctNames(t, fieldPool, n, "fieldnames")
	ts := TypeSpec{Kind: "struct"}
	if variant != "" {
		// discriminator-style constant field; name "kind" or "type"
		dn := rapid.SampledFrom([]string{"kind", "type"}).Draw(t, "discfield")
		ts.Fields = append(ts.Fields, FieldSpec{Name: dn, Required: true, Type: TypeSpec{Kind: "scalar", Scalar: "string", Value: VS(variant)}})
		filtered := names[:0]
		for _, nme := range names {
			if nme != "kind" && nme != "type" {
				filtered = append(filtered, nme)
			}
		}
		names = filtered
	}
	for _, name := range names {
		f := FieldSpec{Name: name, Type: g.fieldType(t, depth+1), Required: rapid.Bool().Draw(t, "required")}
		if g.cfg.Comments && rapid.IntRange(0, 4).Draw(t, "fieldcomment") == 0 {
			f.Comments = []string{"the " + name}
		}
		ts.Fields = append(ts.Fields, f)
	}
	return ts
}

func (g *genCtx) scalarType(t *rapid.T, allowConst bool) TypeSpec {
	kind := rapid.SampledFrom([]string{"string", "string", "bool", "int64", "int64", "float64", "int32", "uint8", "uint64", "float32", "any", "bytes", "int8", "uint16", "uint32", "int16"}).Draw(t, "scalarkind")
	ts := TypeSpec{Kind: "scalar", Scalar: kind}
	if allowConst && rapid.IntRange(0, 5).Draw(t, "const") == 0 {
		ts.Scalar, ts.Value = constScalar(t)
		return ts
	}
	switch kind {
	case "string":
		switch rapid.IntRange(0, 5).Draw(t, "strfeat") {
		case 0:
			ts.Constraints = []ConstraintSpec{{Op: "minLength", Arg: *VI(int64(rapid.IntRange(0, 3).Draw(t, "minlen")))}}
		case 1:
			ts.Constraints = []ConstraintSpec{{Op: "minLength", Arg: *VI(1)}, {Op: "maxLength", Arg: *VI(int64(rapid.IntRange(1, 9).Draw(t, "maxlen")))}}
		case 2:
			ts.Hints = map[string]Val{"string_format_datetime": *VB(true)}
		}
		if !g.cfg.NoDefaults && rapid.IntRange(0, 3).Draw(t, "strdefault") == 0 {
			ts.Default = VS(rapid.SampledFrom(wordPool).Draw(t, "strdef"))
		}
	case "bool":
		if !g.cfg.NoDefaults && rapid.IntRange(0, 2).Draw(t, "booldefault") == 0 {
			ts.Default = VB(rapid.Bool().Draw(t, "booldef"))
		}
	case "any", "bytes":
	case "float64", "float32":
		if rapid.IntRange(0, 3).Draw(t, "fconstraint") == 0 {
			ts.Constraints = []ConstraintSpec{{Op: rapid.SampledFrom([]string{">=", ">"}).Draw(t, "fop"), Arg: *VF(0.5)}}
		}
		if !g.cfg.NoDefaults && rapid.IntRange(0, 3).Draw(t, "fdefault") == 0 {
			ts.Default = VF(rapid.SampledFrom([]float64{1.5, 42, 0.75}).Draw(t, "fdef"))
		}
	default: // integers
		switch rapid.IntRange(0, 4).Draw(t, "iconstraint") {
		case 0:
			ts.Constraints = []ConstraintSpec{{Op: ">=", Arg: *VI(int64(rapid.IntRange(0, 5).Draw(t, "imin")))}}
		case 1:
			ts.Constraints = []ConstraintSpec{{Op: ">", Arg: *VI(0)}, {Op: "<=", Arg: *VI(int64(rapid.IntRange(10, 100).Draw(t, "imax")))}}
		}
		if !g.cfg.NoDefaults && rapid.IntRange(0, 3).Draw(t, "idefault") == 0 {
			ts.Default = VI(int64(rapid.IntRange(6, 9).Draw(t, "idef")))
		}
	}
	return ts
}

// fieldType draws a type for a field / element / branch position.
func (g *genCtx) fieldType(t *rapid.T, depth int) TypeSpec {
	choices := []string{"scalar", "scalar", "scalar", "ref", "ref", "constscalar"}
	if depth < g.cfg.MaxDepth {
		choices = append(choices, "array", "array", "map", "struct", "enum", "disjunction", "nullable_ref", "tornull")
		if g.cfg.ConstRefs {
			choices = append(choices, "constref")
		}
		if g.cfg.ComposableSlots {
			choices = append(choices, "slot")
		}
	}
	var ts TypeSpec
	switch rapid.SampledFrom(choices).Draw(t, "fieldkind") {
	case "scalar":
		ts = g.scalarType(t, false)
		if rapid.IntRange(0, 4).Draw(t, "nullablescalar") == 0 {
			ts.Nullable = true // OpenAPI `nullable: true`
		}
	case "constscalar":
		ts = g.scalarType(t, true)
	case "ref":
		ts = g.refTo(t, nil)
	case "nullable_ref":
		ts = g.refTo(t, g.objsOfClass(clsStruct, clsVariantStruct))
		ts.Nullable = true
	case "array":
		e := g.fieldType(t, depth+1)
		ts = TypeSpec{Kind: "array", Elem: &e}
		if !g.cfg.NoDefaults && e.Kind == "scalar" && e.Scalar == "string" && rapid.IntRange(0, 3).Draw(t, "arrdefault") == 0 {
			ts.Default = VL(*VS("a"), *VS("b"))
		}
	case "map":
		e := g.fieldType(t, depth+1)
		ts = TypeSpec{Kind: "map", Index: g.mapIndex(t), Elem: &e}
	case "struct":
		ts = g.structType(t, depth, "")
	case "enum":
		ints := rapid.IntRange(0, 3).Draw(t, "anonenumint") == 0
		ts = TypeSpec{Kind: "enum", EnumScalar: "string", Members: enumMembers(t, ints)}
		if ints {
			ts.EnumScalar = "int64"
		}
		g.maybeDefaultEnum(t, &ts)
	case "disjunction":
		ts = g.disjunction(t, depth)
	case "tornull":
		inner := g.fieldType(t, depth+1)
		if inner.Kind == "disjunction" {
			// (A | null) | null is normalised away by every front-end
			inner = g.scalarType(t, false)
		}
		ts = TypeSpec{Kind: "disjunction", Branches: []TypeSpec{inner, {Kind: "scalar", Scalar: "null"}}}
		if rapid.IntRange(0, 3).Draw(t, "nullfirst") == 0 {
			ts.Branches[0], ts.Branches[1] = ts.Branches[1], ts.Branches[0]
		}
	case "constref":
		enums := g.objsOfClass(clsEnumString, clsEnumInt)
		if len(enums) == 0 {
			ts = g.scalarType(t, false)
			break
		}
		o := enums[rapid.IntRange(0, len(enums)-1).Draw(t, "constreftarget")]
		m := o.members[rapid.IntRange(0, len(o.members)-1).Draw(t, "constrefmember")]
		v := m.Value
		ts = TypeSpec{Kind: "constant_ref", Pkg: o.pkg, Name: o.name, RefValue: &v}
	case "slot":
		ts = TypeSpec{Kind: "composable_slot", Variant: "dataquery"}
	}
	if g.cfg.NilHints && len(ts.Hints) == 0 && rapid.IntRange(0, 5).Draw(t, "nilhints") == 0 {
		ts.NilHints = true
	}
	return ts
}

func (g *genCtx) disjunction(t *rapid.T, depth int) TypeSpec {
	kinds := []string{"scalars", "scalars", "refs", "refs", "variantrefs", "variantrefs"}
	if g.cfg.MixedDisjunctions {
		kinds = append(kinds, "mixed")
	}
	ts := TypeSpec{Kind: "disjunction"}
	switch rapid.SampledFrom(kinds).Draw(t, "disjkind") {
	case "scalars":
		pool := []TypeSpec{
			{Kind: "scalar", Scalar: "string"}, {Kind: "scalar", Scalar: "bool"}, {Kind: "scalar", Scalar: "int64"},
			{Kind: "scalar", Scalar: "float64"}, {Kind: "array", Elem: &TypeSpec{Kind: "scalar", Scalar: "string"}},
			{Kind: "scalar", Scalar: "null"},
		}
		n := rapid.IntRange(2, 4).Draw(t, "nbranches")
		ts.Branches = rapid.Permutation(pool).Draw(t, "scalarbranches")[:n]
	case "refs":
		n := rapid.IntRange(2, 3).Draw(t, "nbranches")
		for i := 0; i < n; i++ {
			ts.Branches = append(ts.Branches, g.refTo(t, nil))
		}
	case "variantrefs":
		vs := g.objsOfClass(clsVariantStruct)
		if len(vs) < 2 {
			ts.Branches = []TypeSpec{{Kind: "scalar", Scalar: "string"}, {Kind: "scalar", Scalar: "int64"}}
			break
		}
		n := rapid.IntRange(2, min(3, len(vs))).Draw(t, "nbranches")
		idx := rapid.Permutation(seq(len(vs))).Draw(t, "variantidx")[:n]
		for _, i := range idx {
			ts.Branches = append(ts.Branches, TypeSpec{Kind: "ref", Pkg: vs[i].pkg, Name: vs[i].name})
		}
		switch rapid.IntRange(0, 3).Draw(t, "discriminator") {
		case 0: // explicit discriminator and mapping
			ts.Discriminator = "kind"
			ts.Mapping = map[string]string{}
			for _, i := range idx {
				ts.Mapping[strings.ToLower(vs[i].name)] = vs[i].name
			}
		case 1: // discriminator only
			ts.Discriminator = rapid.SampledFrom([]string{"kind", "type"}).Draw(t, "discname")
		}
		if rapid.IntRange(0, 4).Draw(t, "variantnull") == 0 {
			ts.Branches = append(ts.Branches, TypeSpec{Kind: "scalar", Scalar: "null"})
		}
	case "mixed":
		n := rapid.IntRange(2, 3).Draw(t, "nbranches")
		for i := 0; i < n; i++ {
			if depth+1 >= g.cfg.MaxDepth {
				ts.Branches = append(ts.Branches, g.scalarType(t, false))
			} else {
				b := g.fieldType(t, depth+1)
				if b.Kind == "disjunction" {
					// directly nested unions are flattened by every front-end
					b = g.scalarType(t, false)
				}
				ts.Branches = append(ts.Branches, b)
			}
		}
	}
	return ts
}

func seq(n int) []int {
	out := make([]int, n)
	for i := range out {
		out[i] = i
	}
	return out
}
