// Package irgen generates cog intermediate representations (ast.Schemas) as
// plain, JSON-able specifications (so cases shrink under rapid and replay from
// a file) and builds the real IR from them through cog's own constructors.
package irgen

import (
	"encoding/json"
	"fmt"
	"sort"

	"github.com/grafana/cog/internal/ast"
)

// Val is a tagged dynamic value: exactly the dynamic types cog stores in
// `any` fields (bool, int64, float64, string, []any, map[string]any, nil).
type Val struct {
	B *bool          `json:"b,omitempty"`
	I *int64         `json:"i,omitempty"`
	F *float64       `json:"f,omitempty"`
	S *string        `json:"s,omitempty"`
	L []Val          `json:"l,omitempty"`
	M map[string]Val `json:"m,omitempty"`
	// IsL / IsM distinguish an empty list/map from nil
	IsL bool `json:"isl,omitempty"`
	IsM bool `json:"ism,omitempty"`
}

func VB(b bool) *Val           { return &Val{B: &b} }
func VI(i int64) *Val          { return &Val{I: &i} }
func VF(f float64) *Val        { return &Val{F: &f} }
func VS(s string) *Val         { return &Val{S: &s} }
func VL(l ...Val) *Val         { return &Val{L: l, IsL: true} }
func VM(m map[string]Val) *Val { return &Val{M: m, IsM: true} }

// Any converts to the dynamic Go value.
func (v *Val) Any() any {
	if v == nil {
		return nil
	}
	switch {
	case v.B != nil:
		return *v.B
	case v.I != nil:
		return *v.I
	case v.F != nil:
		return *v.F
	case v.S != nil:
		return *v.S
	case v.IsL || v.L != nil:
		out := make([]any, 0, len(v.L))
		for i := range v.L {
			out = append(out, v.L[i].Any())
		}
		return out
	case v.IsM || v.M != nil:
		out := make(map[string]any, len(v.M))
		for k, e := range v.M {
			e := e
			out[k] = e.Any()
		}
		return out
	}
	return nil
}

func (v *Val) String() string {
	raw, _ := json.Marshal(v.Any())
	return string(raw)
}

type ConstraintSpec struct {
	Op  string `json:"op"`
	Arg Val    `json:"arg"`
}

type EnumMemberSpec struct {
	Name  string `json:"name"`
	Value Val    `json:"value"`
}

type FieldSpec struct {
	Name     string   `json:"name"`
	Type     TypeSpec `json:"type"`
	Required bool     `json:"required,omitempty"`
	Comments []string `json:"comments,omitempty"`
}

// TypeSpec mirrors ast.Type.
type TypeSpec struct {
	Kind     string `json:"kind"`
	Nullable bool   `json:"nullable,omitempty"`
	Default  *Val   `json:"default,omitempty"`

	// scalar
	Scalar      string           `json:"scalar,omitempty"`
	Value       *Val             `json:"value,omitempty"` // constant
	Constraints []ConstraintSpec `json:"constraints,omitempty"`
	// ref / constant_ref
	Pkg  string `json:"pkg,omitempty"`
	Name string `json:"name,omitempty"`
	// constant_ref value
	RefValue *Val `json:"ref_value,omitempty"`
	// struct
	Fields []FieldSpec `json:"fields,omitempty"`
	// array / map
	Elem  *TypeSpec `json:"elem,omitempty"`
	Index *TypeSpec `json:"index,omitempty"`
	// enum
	EnumScalar string           `json:"enum_scalar,omitempty"`
	Members    []EnumMemberSpec `json:"members,omitempty"`
	// disjunction / intersection
	Branches      []TypeSpec        `json:"branches,omitempty"`
	Discriminator string            `json:"discriminator,omitempty"`
	Mapping       map[string]string `json:"mapping,omitempty"`
	// composable slot
	Variant string `json:"variant,omitempty"`

	Hints map[string]Val `json:"hints,omitempty"`
	// NilHints builds the type without a Hints map (what yaml decoding of a
	// type in a configuration file produces).
	NilHints bool `json:"nil_hints,omitempty"`
}

type ObjSpec struct {
	Name     string   `json:"name"`
	Type     TypeSpec `json:"type"`
	Comments []string `json:"comments,omitempty"`
}

type PkgSpec struct {
	Package    string    `json:"package"`
	Objects    []ObjSpec `json:"objects"`
	EntryPoint string    `json:"entry_point,omitempty"`
	MetaKind   string    `json:"meta_kind,omitempty"`
	Variant    string    `json:"variant,omitempty"`
	Identifier string    `json:"identifier,omitempty"`
}

type IRSpec []PkgSpec

// Build constructs the ast.Type.
func (t TypeSpec) Build() ast.Type {
	var opts []ast.TypeOption
	if t.Nullable {
		opts = append(opts, ast.Nullable())
	}
	if t.Default != nil {
		opts = append(opts, ast.Default(t.Default.Any()))
	}
	var out ast.Type
	switch ast.Kind(t.Kind) {
	case ast.KindScalar:
		out = ast.NewScalar(ast.ScalarKind(t.Scalar), opts...)
		if t.Value != nil {
			out.Scalar.Value = t.Value.Any()
		}
		for _, c := range t.Constraints {
			c := c
			out.Scalar.Constraints = append(out.Scalar.Constraints, ast.TypeConstraint{Op: ast.Op(c.Op), Args: []any{c.Arg.Any()}})
		}
	case ast.KindRef:
		out = ast.NewRef(t.Pkg, t.Name, opts...)
	case ast.KindConstantRef:
		out = ast.NewConstantReferenceType(t.Pkg, t.Name, t.RefValue.Any(), opts...)
	case ast.KindStruct:
		fields := make([]ast.StructField, 0, len(t.Fields))
		for _, f := range t.Fields {
			fields = append(fields, f.Build())
		}
		out = ast.NewStruct(fields...)
		for _, o := range opts {
			o(&out)
		}
	case ast.KindArray:
		out = ast.NewArray(t.Elem.Build(), opts...)
	case ast.KindMap:
		idx := ast.String()
		if t.Index != nil {
			idx = t.Index.Build()
		}
		out = ast.NewMap(idx, t.Elem.Build(), opts...)
	case ast.KindEnum:
		values := make([]ast.EnumValue, 0, len(t.Members))
		for _, m := range t.Members {
			m := m
			values = append(values, ast.EnumValue{Type: ast.NewScalar(ast.ScalarKind(t.EnumScalar)), Name: m.Name, Value: m.Value.Any()})
		}
		out = ast.NewEnum(values, opts...)
	case ast.KindDisjunction:
		branches := make(ast.Types, 0, len(t.Branches))
		for _, b := range t.Branches {
			branches = append(branches, b.Build())
		}
		out = ast.NewDisjunction(branches, opts...)
		if t.Discriminator != "" || len(t.Mapping) > 0 {
			out.Disjunction.Discriminator = t.Discriminator
			mapping := make(map[string]string, len(t.Mapping))
			for k, v := range t.Mapping {
				mapping[k] = v
			}
			out.Disjunction.DiscriminatorMapping = mapping
		}
	case ast.KindIntersection:
		branches := make([]ast.Type, 0, len(t.Branches))
		for _, b := range t.Branches {
			branches = append(branches, b.Build())
		}
		out = ast.NewIntersection(branches)
		for _, o := range opts {
			o(&out)
		}
	case ast.KindComposableSlot:
		out = ast.NewComposableSlot(ast.SchemaVariant(t.Variant))
		for _, o := range opts {
			o(&out)
		}
	default:
		panic(fmt.Sprintf("irgen: unknown kind %q", t.Kind))
	}
	for k, v := range t.Hints {
		v := v
		out.Hints[k] = v.Any()
	}
	if t.NilHints && len(t.Hints) == 0 {
		out.Hints = nil
	}
	return out
}

func (f FieldSpec) Build() ast.StructField {
	field := ast.NewStructField(f.Name, f.Type.Build())
	field.Required = f.Required
	if len(f.Comments) > 0 {
		field.Comments = append([]string{}, f.Comments...)
	}
	return field
}

func (s IRSpec) Build() ast.Schemas {
	out := make(ast.Schemas, 0, len(s))
	for _, p := range s {
		schema := ast.NewSchema(p.Package, ast.SchemaMeta{Kind: ast.SchemaKind(p.MetaKind), Variant: ast.SchemaVariant(p.Variant), Identifier: p.Identifier})
		for _, o := range p.Objects {
			obj := ast.NewObject(p.Package, o.Name, o.Type.Build())
			if len(o.Comments) > 0 {
				obj.Comments = append([]string{}, o.Comments...)
			}
			schema.AddObject(obj)
		}
		if p.EntryPoint != "" {
			schema.EntryPoint = p.EntryPoint
			schema.EntryPointType = ast.NewRef(p.Package, p.EntryPoint)
		}
		out = append(out, schema)
	}
	return out
}

// Walk calls fn for every TypeSpec in the IR (pre-order) with a path.
func (s IRSpec) Walk(fn func(pkg string, obj string, path string, t *TypeSpec)) {
	for pi := range s {
		for oi := range s[pi].Objects {
			o := &s[pi].Objects[oi]
			walkType(&o.Type, s[pi].Package, o.Name, "", fn)
		}
	}
}

func walkType(t *TypeSpec, pkg, obj, path string, fn func(pkg string, obj string, path string, t *TypeSpec)) {
	fn(pkg, obj, path, t)
	for i := range t.Fields {
		walkType(&t.Fields[i].Type, pkg, obj, path+"."+t.Fields[i].Name, fn)
	}
	if t.Elem != nil {
		walkType(t.Elem, pkg, obj, path+"[]", fn)
	}
	if t.Index != nil {
		walkType(t.Index, pkg, obj, path+"[key]", fn)
	}
	for i := range t.Branches {
		walkType(&t.Branches[i], pkg, obj, fmt.Sprintf("%s|%d", path, i), fn)
	}
}

// Depth returns the maximal nesting depth of the type.
func (t *TypeSpec) Depth() int {
	d := 0
	for i := range t.Fields {
		if x := t.Fields[i].Type.Depth(); x > d {
			d = x
		}
	}
	if t.Elem != nil {
		if x := t.Elem.Depth(); x > d {
			d = x
		}
	}
	for i := range t.Branches {
		if x := t.Branches[i].Depth(); x > d {
			d = x
		}
	}
	return d + 1
}

// ObjectNames lists "pkg.Name" of every object.
func (s IRSpec) ObjectNames() []string {
	var out []string
	for _, p := range s {
		for _, o := range p.Objects {
			out = append(out, p.Package+"."+o.Name)
		}
	}
	sort.Strings(out)
	return out
}
