package checks

// C06, generator side: recurring shapes.
//
// irgen draws every position independently, so two positions of one package
// almost never hold the same union (or anonymous enum / struct). Real schemas
// do that all the time (`min?: string | int64, max?: string | int64`), and
// every pass that gives a generated object a name derived from the shape
// (DisjunctionToType: "StringOrInt64") has a second code path for "this object
// exists already". c06Reuse rewrites the drawn IR so that shapes recur: it
// copies a type found somewhere in a package (or a freshly drawn union) into
// further struct fields of the same package (sometimes of another one), as is
// or slightly varied (a null branch more or less, branches rotated, wrapped in
// an array or a map), required or not. All choices are rapid draws, so a
// failing case shrinks (fewer copies first).

import (
	"encoding/json"
	"strings"

	"github.com/grafana/cog/verifharness/irgen"
	"github.com/grafana/cog/verifharness/vlib"
	"pgregory.net/rapid"
)

type c06Slot struct {
	pkg, obj, path string
	ts             *irgen.TypeSpec
}

func c06Clone(ts irgen.TypeSpec) irgen.TypeSpec {
	raw, err := json.Marshal(ts)
	if err != nil {
		panic(err)
	}
	var out irgen.TypeSpec
	if err := json.Unmarshal(raw, &out); err != nil {
		panic(err)
	}
	return out
}

func c06IsNull(ts irgen.TypeSpec) bool { return ts.Kind == "scalar" && ts.Scalar == "null" }

func c06HasNull(ts irgen.TypeSpec) bool {
	for _, b := range ts.Branches {
		if c06IsNull(b) {
			return true
		}
	}
	return false
}

func c06Norm(s string) string {
	return strings.ToLower(strings.NewReplacer("_", "", "-", "").Replace(s))
}

var c06ExtraFields = []string{"again", "echo", "alt", "other", "extra", "mirror", "second", "fallback", "override", "previous"}

// c06TopKinds: "pkg.Object" -> kind of the object's type.
func c06TopKinds(ir irgen.IRSpec) map[string]string {
	out := map[string]string{}
	for _, p := range ir {
		for _, o := range p.Objects {
			out[p.Package+"."+o.Name] = o.Type.Kind
		}
	}
	return out
}

// c06FreshUnion draws a union of 2-3 branches of distinct kinds: scalars, a
// list, references to struct objects; sometimes with a null branch.
func c06FreshUnion(rt *rapid.T, ir irgen.IRSpec, pkg string) irgen.TypeSpec {
	pool := []irgen.TypeSpec{
		{Kind: "scalar", Scalar: "string"}, {Kind: "scalar", Scalar: "bool"}, {Kind: "scalar", Scalar: "int64"},
		{Kind: "scalar", Scalar: "float64"}, {Kind: "array", Elem: &irgen.TypeSpec{Kind: "scalar", Scalar: "string"}},
	}
	for _, p := range ir {
		for _, o := range p.Objects {
			if o.Type.Kind == "struct" && (p.Package == pkg || len(pool) < 8) {
				pool = append(pool, irgen.TypeSpec{Kind: "ref", Pkg: p.Package, Name: o.Name})
			}
		}
	}
	n := rapid.IntRange(2, 3).Draw(rt, "fresh_nbranches")
	ts := irgen.TypeSpec{Kind: "disjunction"}
	for _, b := range rapid.Permutation(pool).Draw(rt, "fresh_branches")[:n] {
		ts.Branches = append(ts.Branches, c06Clone(b))
	}
	if rapid.IntRange(0, 3).Draw(rt, "fresh_null") == 0 {
		ts.Branches = append(ts.Branches, irgen.TypeSpec{Kind: "scalar", Scalar: "null"})
	}
	return ts
}

// c06Reuse applies 0-3 copy operations to the IR (in place) and returns labels
// describing what was done.
func c06Reuse(rt *rapid.T, ir irgen.IRSpec) []string {
	var labels []string
	nOps := rapid.SampledFrom([]int{0, 1, 1, 2, 2, 3}).Draw(rt, "reuse_ops")
	for op := 0; op < nOps; op++ {
		top := c06TopKinds(ir)
		// destinations: the struct types (top level or anonymous, at any depth)
		// of objects that are structs. References below a struct object are
		// unconstrained in irgen too, so a copy cannot build a reference cycle
		// that irgen itself would not build.
		var dests, unions, others []c06Slot
		ir.Walk(func(pkg, obj, path string, ts *irgen.TypeSpec) {
			s := c06Slot{pkg, obj, path, ts}
			switch ts.Kind {
			case "struct":
				if top[pkg+"."+obj] == "struct" {
					dests = append(dests, s)
				}
				if path != "" {
					others = append(others, s)
				}
			case "disjunction":
				unions = append(unions, s)
			case "enum", "array", "map":
				if path != "" {
					others = append(others, s)
				}
			}
		})
		if len(dests) == 0 {
			return labels
		}
		dest := dests[rapid.IntRange(0, len(dests)-1).Draw(rt, "reuse_dest")]
		inPkg := func(in []c06Slot) []c06Slot {
			var out []c06Slot
			for _, s := range in {
				if s.pkg == dest.pkg {
					out = append(out, s)
				}
			}
			return out
		}
		var cp irgen.TypeSpec
		src := rapid.SampledFrom([]string{"union", "union", "union", "union", "union-anywhere", "fresh", "other"}).Draw(rt, "reuse_source")
		switch {
		case src == "union" && len(inPkg(unions)) > 0:
			c := inPkg(unions)
			cp = c06Clone(*c[rapid.IntRange(0, len(c)-1).Draw(rt, "reuse_src")].ts)
		case src == "union-anywhere" && len(unions) > 0:
			cp = c06Clone(*unions[rapid.IntRange(0, len(unions)-1).Draw(rt, "reuse_src")].ts)
		case src == "other" && len(inPkg(others)) > 0:
			c := inPkg(others)
			cp = c06Clone(*c[rapid.IntRange(0, len(c)-1).Draw(rt, "reuse_src")].ts)
		default:
			src = "fresh"
			cp = c06FreshUnion(rt, ir, dest.pkg)
		}
		labels = append(labels, "reuse:"+src)
		if cp.Kind == "disjunction" {
			nonNull := 0
			for _, b := range cp.Branches {
				if !c06IsNull(b) {
					nonNull++
				}
			}
			switch rapid.SampledFrom([]string{"same", "same", "same", "same", "null+", "null-", "rotate"}).Draw(rt, "reuse_variant") {
			case "null+":
				if !c06HasNull(cp) && nonNull >= 2 {
					cp.Branches = append(cp.Branches, irgen.TypeSpec{Kind: "scalar", Scalar: "null"})
					labels = append(labels, "reuse:null_branch_added")
				}
			case "null-":
				if c06HasNull(cp) && nonNull >= 2 {
					kept := cp.Branches[:0]
					for _, b := range cp.Branches {
						if !c06IsNull(b) {
							kept = append(kept, b)
						}
					}
					cp.Branches = kept
					labels = append(labels, "reuse:null_branch_removed")
				}
			case "rotate":
				if len(cp.Branches) >= 2 {
					cp.Branches = append(cp.Branches[1:], cp.Branches[0])
					labels = append(labels, "reuse:rotated")
				}
			}
		}
		switch rapid.SampledFrom([]string{"none", "none", "none", "array", "map"}).Draw(rt, "reuse_wrap") {
		case "array":
			e := cp
			cp = irgen.TypeSpec{Kind: "array", Elem: &e}
			labels = append(labels, "reuse:in_array")
		case "map":
			e := cp
			cp = irgen.TypeSpec{Kind: "map", Index: &irgen.TypeSpec{Kind: "scalar", Scalar: "string"}, Elem: &e}
			labels = append(labels, "reuse:in_map")
		}
		required := rapid.SampledFrom([]bool{false, false, false, true}).Draw(rt, "reuse_required")
		// replace the type of an existing field (never a constant one: the
		// discriminator of a variant struct stays), or append a field
		var replaceable []int
		for i, f := range dest.ts.Fields {
			if f.Type.Value == nil {
				replaceable = append(replaceable, i)
			}
		}
		if len(replaceable) > 0 && rapid.IntRange(0, 2).Draw(rt, "reuse_replace") == 0 {
			i := replaceable[rapid.IntRange(0, len(replaceable)-1).Draw(rt, "reuse_field")]
			dest.ts.Fields[i].Type = cp
			dest.ts.Fields[i].Required = required
			labels = append(labels, "reuse:replaced_field")
		} else {
			used := map[string]bool{}
			for _, f := range dest.ts.Fields {
				used[c06Norm(f.Name)] = true
			}
			var free []string
			for _, n := range c06ExtraFields {
				if !used[c06Norm(n)] {
					free = append(free, n)
				}
			}
			if len(free) == 0 {
				continue
			}
			name := rapid.SampledFrom(free).Draw(rt, "reuse_name")
			dest.ts.Fields = append(dest.ts.Fields, irgen.FieldSpec{Name: name, Type: cp, Required: required})
			labels = append(labels, "reuse:appended_field")
		}
		if !required {
			labels = append(labels, "reuse:optional_field")
		}
	}
	return labels
}

// c06UnionShape: a key that is equal for unions cog gives the same generated
// name (branch kinds and names, in order).
func c06UnionShape(ts irgen.TypeSpec) string {
	var parts []string
	for _, b := range ts.Branches {
		switch b.Kind {
		case "scalar":
			parts = append(parts, b.Scalar)
		case "ref", "constant_ref":
			parts = append(parts, b.Kind+":"+b.Name)
		case "array", "map":
			inner := ""
			if b.Elem != nil {
				inner = c06UnionShape(irgen.TypeSpec{Branches: []irgen.TypeSpec{*b.Elem}})
			}
			parts = append(parts, b.Kind+"<"+inner+">")
		default:
			parts = append(parts, b.Kind)
		}
	}
	return strings.Join(parts, "|")
}

// c06ShapeLabels reports whether a union shape recurs within one package and
// whether an occurrence is the type of a non-required field.
func c06ShapeLabels(ir irgen.IRSpec) []string {
	var labels []string
	for _, p := range ir {
		total := map[string]int{}
		optional := map[string]int{}
		var visit func(ts *irgen.TypeSpec, optionalField bool)
		visit = func(ts *irgen.TypeSpec, optionalField bool) {
			if ts.Kind == "disjunction" && !(len(ts.Branches) == 2 && c06HasNull(*ts)) {
				// (a two-branch T|null union is rewritten to an optional T long before)
				k := c06UnionShape(*ts)
				total[k]++
				if optionalField {
					optional[k]++
				}
			}
			for i := range ts.Fields {
				visit(&ts.Fields[i].Type, !ts.Fields[i].Required)
			}
			if ts.Elem != nil {
				visit(ts.Elem, false)
			}
			for i := range ts.Branches {
				visit(&ts.Branches[i], false)
			}
		}
		for oi := range p.Objects {
			visit(&p.Objects[oi].Type, false)
		}
		for k, n := range total {
			if n >= 2 {
				labels = append(labels, "union_shape_recurs_in_package")
				if optional[k] >= 1 {
					labels = append(labels, "union_shape_recurs:an_occurrence_is_an_optional_field")
				}
				if optional[k] >= 2 {
					labels = append(labels, "union_shape_recurs:two_optional_fields")
				}
			}
		}
	}
	return labels
}

// ---- region excluded by construction --------------------------------------
//
// GENUINE DEFECT (reported, not listed in known_findings.json): a union whose
// branches all resolve to scalars of ONE kind (`string | string` with different
// constraints, `Duration | Timestamp` where both are aliases of string,
// `"auto" | string`) reaches DisjunctionToType.processDisjunction's
// hasOnlySingleTypeScalars branch, which returns
// `ast.NewScalar(kind, ast.Default(def.Default))`: the Nullable flag that
// NotRequiredFieldAsNullableType had put on the union of a non-required field
// is lost (Go and Java chains). Such a field is made required here, so that the
// search goes on; the counter says how often.

// c06ScalarLeaves collects the scalar kinds a type resolves to through
// references and unions; false when something else than a scalar is reached.
func c06ScalarLeaves(ir irgen.IRSpec, ts irgen.TypeSpec, seen map[string]bool, kinds map[string]bool, allConcrete *bool) bool {
	switch ts.Kind {
	case "scalar":
		if ts.Scalar == "null" {
			return true
		}
		kinds[ts.Scalar] = true
		if ts.Value == nil {
			*allConcrete = false
		}
		return true
	case "ref":
		key := ts.Pkg + "." + ts.Name
		if seen[key] {
			return false
		}
		seen[key] = true // (the objects on the way, not the objects met: `A | A` meets A twice)
		defer delete(seen, key)
		if o, ok := c06Object(ir, ts.Pkg, ts.Name); ok {
			return c06ScalarLeaves(ir, o.Type, seen, kinds, allConcrete)
		}
		return false
	case "disjunction":
		for _, b := range ts.Branches {
			if !c06ScalarLeaves(ir, b, seen, kinds, allConcrete) {
				return false
			}
		}
		return true
	}
	return false
}

func c06SingleKindScalarUnion(ir irgen.IRSpec, ts irgen.TypeSpec) bool {
	if ts.Kind != "disjunction" || c06HasNull(ts) {
		// (with a null branch of its own the union is either `T | null`, made an
		// optional T early in the chain, or not "scalars of one kind" for cog)
		return false
	}
	kinds := map[string]bool{}
	allConcrete := true
	if !c06ScalarLeaves(ir, ts, map[string]bool{}, kinds, &allConcrete) || len(kinds) != 1 {
		return false
	}
	// a union of constants of one string / numeric kind never gets that far:
	// DisjunctionOfConstantsToEnum turns it into an enum (and keeps the flag)
	if allConcrete && !kinds["bool"] && !kinds["any"] && !kinds["bytes"] {
		return false
	}
	return true
}

func c06Object(ir irgen.IRSpec, pkg, name string) (irgen.ObjSpec, bool) {
	for _, p := range ir {
		if p.Package != pkg {
			continue
		}
		for _, o := range p.Objects {
			if o.Name == name {
				return o, true
			}
		}
	}
	return irgen.ObjSpec{}, false
}

// GENUINE DEFECT (reported, not listed): FlattenDisjunctions removes branches
// it takes for duplicates (same reference; same scalar kind; for maps, enums and
// the like merely the same KIND: its key is ast.TypeName), also among the
// branches it pulls in from a referenced union. `A | A | null`,
// `{[string]: string} | {[string]: int64} | null` thereby become a two-branch
// `T | null` union AFTER DisjunctionWithNullToOptional has run; the PHP and
// Python chains end there and leave it. Such a union loses its null branch
// here; the counter says how often.

// c06FlattenKey mirrors the key FlattenDisjunctions files a branch under.
func c06FlattenKey(b irgen.TypeSpec, i int) string {
	switch b.Kind {
	case "ref":
		return "ref:" + b.Pkg + "." + b.Name
	case "struct":
		// (FlattenDisjunctions keeps anonymous structs apart, but by then
		// AnonymousStructsToNamed has given all the anonymous structs of one
		// union the SAME name, parent + field, so they arrive as equal references)
		return "struct"
	case "scalar":
		if b.Value != nil {
			return "concrete:" + b.Scalar + ":" + b.Value.String()
		}
		return "scalar:" + strings.ToLower(b.Scalar)
	case "array":
		if b.Elem != nil {
			return "arrayof:" + c06FlattenKey(*b.Elem, i)
		}
	}
	return "kind:" + b.Kind
}

// c06CollapsesToTOrNull: a union with a null branch and more than two
// branches of which FlattenDisjunctions keeps one besides null.
func c06CollapsesToTOrNull(ir irgen.IRSpec, ts irgen.TypeSpec) bool {
	if ts.Kind != "disjunction" || len(ts.Branches) < 3 || !c06HasNull(ts) {
		return false
	}
	keys := map[string]bool{}
	for i, b := range ts.Branches {
		if c06IsNull(b) {
			continue
		}
		if b.Kind == "ref" {
			// follow aliases; a referenced union contributes its branches
			target, hops := b, 0
			for target.Kind == "ref" && hops < 20 {
				o, ok := c06Object(ir, target.Pkg, target.Name)
				if !ok {
					break
				}
				target = o.Type
				hops++
			}
			if target.Kind == "disjunction" {
				for j, inner := range target.Branches {
					if !c06IsNull(inner) {
						keys[c06FlattenKey(inner, j)] = true
					}
				}
				continue
			}
		}
		keys[c06FlattenKey(b, i)] = true
	}
	return len(keys) <= 1
}

// GENUINE DEFECT (reported, not listed; a C03 matter that makes C06 verdicts
// flicker): DisjunctionInferMapping.inferDiscriminatorField picks the
// discriminator of a union of struct references by ranging over a Go map of
// candidate fields (constant strings and constant references present in every
// branch). With two candidates the choice differs from run to run, and with it
// whether the union gets a mapping (and becomes a generated object) or not (and
// becomes `any`). Every struct that a union without explicit discriminator can
// reach keeps its first candidate field only; the others lose their constant.

func c06IsDiscriminatorCandidate(f irgen.FieldSpec) bool {
	return f.Type.Kind == "constant_ref" || (f.Type.Kind == "scalar" && f.Type.Scalar == "string" && f.Type.Value != nil)
}

// c06KeepOneCandidate strips the constants of all candidate fields but the
// first; it returns how many it stripped.
func c06KeepOneCandidate(st *irgen.TypeSpec) int {
	n, stripped := 0, 0
	for i := range st.Fields {
		f := &st.Fields[i]
		if !c06IsDiscriminatorCandidate(*f) {
			continue
		}
		n++
		if n == 1 {
			continue
		}
		if f.Type.Kind == "constant_ref" {
			f.Type.Kind, f.Type.RefValue = "ref", nil
		} else {
			f.Type.Value = nil
		}
		stripped++
	}
	return stripped
}

// c06UnionStructs calls fn for every struct a branch of the union resolves to
// (through aliases and referenced unions); false when a branch is neither a
// struct nor a reference (the union is not one of references then, and never
// will be).
func c06UnionStructs(ir irgen.IRSpec, branches []irgen.TypeSpec, onWay map[string]bool, fn func(st *irgen.TypeSpec)) bool {
	for i := range branches {
		b := &branches[i]
		switch b.Kind {
		case "struct": // a reference after AnonymousStructsToNamed
			fn(b)
		case "ref":
			key := b.Pkg + "." + b.Name
			if onWay[key] {
				continue
			}
			onWay[key] = true
			ok := true
			for pi := range ir {
				if ir[pi].Package != b.Pkg {
					continue
				}
				for oi := range ir[pi].Objects {
					o := &ir[pi].Objects[oi]
					if o.Name != b.Name {
						continue
					}
					switch o.Type.Kind {
					case "struct":
						fn(&o.Type)
					case "ref":
						ok = c06UnionStructs(ir, []irgen.TypeSpec{o.Type}, onWay, fn)
					case "disjunction":
						ok = c06UnionStructs(ir, o.Type.Branches, onWay, fn)
					}
				}
			}
			delete(onWay, key)
			if !ok {
				return false
			}
		default:
			return false
		}
	}
	return true
}

// c06ExcludeKnownRegions rewrites the IR (in place) so that it stays outside
// the regions of defects that are reported already.
func c06ExcludeKnownRegions(run *vlib.Run, ir irgen.IRSpec) {
	var visit func(ts *irgen.TypeSpec)
	visit = func(ts *irgen.TypeSpec) {
		// (such unions used to lose their null branch here; the defect is listed
		// now: C06-flatten-leaves-t-or-null)
		if c06CollapsesToTOrNull(ir, *ts) {
			count(run, "union_with_null_whose_other_branches_flatten_to_one", 1)
		}
		for i := range ts.Fields {
			f := &ts.Fields[i]
			visit(&f.Type) // first: the type may lose its null branch below
			// (an optional field typed by a union of same-kind scalars used to be
			// made required here: DisjunctionToType dropped its nullability;
			// repaired in cog, fix 971d283)
			if !f.Required && c06SingleKindScalarUnion(ir, f.Type) {
				count(run, "optional_field_of_single_kind_scalar_union", 1)
			}
		}
		if ts.Elem != nil {
			visit(ts.Elem)
		}
		for i := range ts.Branches {
			visit(&ts.Branches[i])
		}
	}
	for pi := range ir {
		for oi := range ir[pi].Objects {
			visit(&ir[pi].Objects[oi].Type)
		}
	}
	// unions whose discriminator cog has to infer
	ir.Walk(func(_, _, _ string, ts *irgen.TypeSpec) {
		if ts.Kind != "disjunction" || ts.Discriminator != "" {
			return
		}
		var structs []*irgen.TypeSpec
		if !c06UnionStructs(ir, ts.Branches, map[string]bool{}, func(st *irgen.TypeSpec) { structs = append(structs, st) }) {
			return
		}
		// (structs with several discriminator candidates used to be cut down to
		// one here: the inferred discriminator depended on map iteration order;
		// repaired in cog, fix 9158445)
		_ = structs
	})
}
