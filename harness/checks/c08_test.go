package checks

// C08 — generated validation and strict decoding reject exactly what the
// schema forbids. Fault enumeration: for every valid document every applicable
// single fault (class x position) is injected; the generated Go code is
// compiled and run on each.

import (
	"fmt"
	"strings"
	"testing"

	"github.com/grafana/cog/verifharness/e2"
	"github.com/grafana/cog/verifharness/smodel"
	"github.com/grafana/cog/verifharness/vlib"
	"pgregory.net/rapid"
)

type c08Batch struct {
	Cases []schemaCase `json:"cases"`
}

var c08Output = e2.OutputSpec{Types: true, Go: &e2.GoFlags{JSON: true, Strict: true, Validate: true}}

func ctxClass(ctx []string) string {
	if len(ctx) == 0 {
		return "top"
	}
	seen := map[string]bool{}
	var parts []string
	for _, c := range ctx {
		if !seen[c] {
			seen[c] = true
			parts = append(parts, c)
		}
	}
	return strings.Join(parts, "+")
}

func c08CheckBatch(run *vlib.Run, cases []schemaCase) (map[int][]vlib.Violation, error) {
	out := map[int][]vlib.Violation{}
	p, err := e2Prepare(run, "c08", cases, c08Output)
	if err != nil {
		return nil, err
	}
	defer p.Close()
	type ref struct {
		caseIdx int
		doc     smodel.Doc
		fault   *smodel.Fault
		op      string
	}
	var reqs []e2.Request
	var refs []ref
	add := func(r ref, key string, docJSON string) {
		reqs = append(reqs, e2.Request{ID: len(reqs), Key: key, Op: strings.TrimSuffix(r.op, "-defaulted"), Doc: docJSON})
		refs = append(refs, r)
	}
	for i, c := range cases {
		if !p.usable[i] {
			continue
		}
		for _, d := range c.Docs {
			key, ok := p.goKey(i, d.Def)
			if !ok {
				count(run, "definition_without_go_type", 1)
				continue
			}
			if err := p.validators[i].Validate(d.Def, d.JSON); err != nil {
				count(run, "generator_oracle_mismatch:document", 1)
				continue
			}
			add(ref{i, d, nil, "roundtrip"}, key, d.JSON)
			add(ref{i, d, nil, "validate"}, key, d.JSON)
			faults, ferr := smodel.Faults(c.Format, c.Model, d.Def, d.JSON)
			if ferr != nil {
				return nil, ferr
			}
			for fi := range faults {
				f := faults[fi]
				// harness cross-check: the reference validator must reject the fault
				if f.Class == "defaulted_removed" {
					if err := p.validators[i].Validate(d.Def, f.JSON); err != nil {
						// JSON Schema / OpenAPI: the document is invalid for the schema
						// although cog fills the default in: its leniency there is not judged
						count(run, "defaulted_property_left_out_rejected_by_schema", 1)
						continue
					}
				}
				if err := p.validators[i].Validate(d.Def, f.JSON); err == nil {
					if f.Class == "required_removed" || f.Class == "defaulted_removed" {
						// the schema language fills the property in (a CUE field
						// with a default): the document without it is VALID for
						// the source schema, and must not be rejected
						count(run, "valid_without_defaulted_property", 1)
						add(ref{i, smodel.Doc{Def: d.Def, JSON: f.JSON, Features: d.Features}, nil, "roundtrip-defaulted"}, key, f.JSON)
						continue
					}
					count(run, "generator_oracle_mismatch:fault", 1)
					note(run, "reference validator accepts a %s fault at %s (%s)", f.Class, f.Path, c.Format)
					continue
				}
				add(ref{i, d, &f, "roundtrip"}, key, f.JSON)
				if f.Class == "bound_violated" || f.Class == "length_violated" {
					add(ref{i, d, &f, "validate"}, key, f.JSON)
				}
			}
		}
	}
	if len(reqs) == 0 {
		return out, nil
	}
	resps, err := p.batch.Exec(reqs)
	if err != nil {
		return nil, err
	}
	for k, r := range resps {
		rf := refs[k]
		c := cases[rf.caseIdx]
		f := string(c.Format)
		count(run, "documents", 1)
		bad := func(sig string, format string, args ...any) {
			out[rf.caseIdx] = append(out[rf.caseIdx], vlib.V(sig, "%s definition %s: "+format, append([]any{c.Format, rf.doc.Def}, args...)...))
		}
		if r.Panic != "" {
			bad("panic:"+f+nestedTag(c), "generated code panicked on %s: %s", reqs[k].Doc, r.Panic)
			continue
		}
		if rf.fault == nil {
			// valid document: no false positives
			switch rf.op {
			case "roundtrip-defaulted":
				if run != nil {
					run.Eval(vlib.HashBytes([]byte(c.source()), []byte(rf.doc.JSON), []byte("defaulted")), "valid_without_defaulted_property")
				}
				if r.HasStrict && r.StrictErr != "" {
					bad("strict-false-positive:"+f+":"+errClass(r.StrictErr)+"-defaulted-property-left-out"+nestedTag(c), "the strict decoder rejects %s, which the source schema accepts (the property left out has a default): %s", rf.doc.JSON, r.StrictErr)
				}
				if r.StdErr != "" {
					bad("std-false-positive:"+f+":defaulted-property-left-out"+nestedTag(c), "the standard decoder rejects %s, which the source schema accepts: %s", rf.doc.JSON, r.StdErr)
				}
			case "roundtrip":
				if !r.HasStrict {
					bad("no-strict-decoder:"+f, "no UnmarshalJSONStrict generated")
				} else if r.StrictErr != "" {
					bad("strict-false-positive:"+f+":"+errClass(r.StrictErr)+nestedTag(c), "the strict decoder rejects the valid document %s: %s", rf.doc.JSON, r.StrictErr)
				}
			case "validate":
				if !r.HasValidate {
					bad("no-validate:"+f, "no Validate() generated")
				} else if r.ValidateErr != "" {
					bad("validate-false-positive:"+f, "Validate() rejects the valid document %s: %s", rf.doc.JSON, r.ValidateErr)
				}
			}
			continue
		}
		ft := rf.fault
		count(run, "faults", 1)
		count(run, "fault:"+ft.Class, 1)
		if run != nil {
			key := uint64(0)
			if ft.Depth >= 2 || len(ft.Context) > 0 {
				key = vlib.HashBytes([]byte(c.source()), []byte(ft.Path), []byte(ft.Class), []byte(rf.op))
			}
			run.Eval(key, "fault_ctx:"+ctxClass(ft.Context))
		}
		where := fmt.Sprintf("%s:%s", ft.Class, ctxClass(ft.Context))
		switch rf.op {
		case "roundtrip":
			if !r.HasStrict {
				continue
			}
			mustReject := ft.Class == "undeclared_key" || ft.Class == "required_removed" || ft.Class == "null_for_required" || ft.Class == "wrong_type"
			if mustReject && r.StrictErr == "" {
				bad("strict-miss:"+f+":"+where, "the strict decoder accepts a document with a %s fault at %s: %s (valid original: %s)", ft.Class, ft.Path, ft.JSON, rf.doc.JSON)
			}
			if !mustReject && r.StrictErr != "" && strings.Contains(r.StrictErr, "cannot unmarshal number") {
				// cog picked a narrower Go number type than the model's (CUE folds
				// `int64 & >=0` into an unsigned type): the bound is enforced by
				// the type, which is a rejection all the same
				count(run, "bound_enforced_by_go_type", 1)
				continue
			}
			if !mustReject && r.StrictErr != "" {
				bad("strict-rejects-constraint-violation:"+f+":"+where+nestedTag(c), "the strict decoder rejects a type-correct document whose only fault is a %s at %s (that is Validate()'s job): %s", ft.Class, ft.Path, r.StrictErr)
			}
		case "validate":
			if r.StdErr != "" || !r.HasValidate {
				continue
			}
			if r.ValidateErr == "" {
				bad("validate-miss:"+f+":"+where, "Validate() accepts a %s at %s: %s", ft.Class, ft.Path, ft.JSON)
				continue
			}
			found := false
			var paths []string
			for _, e := range r.Errors {
				paths = append(paths, e.Path)
				if e.Path == ft.Path {
					found = true
				}
			}
			if !found && strings.Contains(where, "union") {
				// the same path with the union wrapper's branch field (named
				// after the branch type) spliced in?
				variants := map[string]bool{}
				for _, d := range c.Model.Defs {
					variants[d.Name] = true
				}
				for _, e := range r.Errors {
					var kept []string
					for _, seg := range strings.Split(e.Path, ".") {
						if !variants[seg] {
							kept = append(kept, seg)
						}
					}
					if strings.Join(kept, ".") == ft.Path {
						found = true
						bad("validate-path-has-union-branch-segment:"+f, "Validate() reports %q for a %s injected at %q: the path contains the name of the union branch type, which is no part of the document", e.Path, ft.Class, ft.Path)
					}
				}
			}
			if !found {
				bad("validate-wrong-path:"+f+":"+where, "Validate() reports %v for a %s injected at %q (document %s)", paths, ft.Class, ft.Path, ft.JSON)
			}
		}
	}
	return out, nil
}

func c08Check(b c08Batch) []vlib.Violation {
	res, err := c08CheckBatch(nil, b.Cases)
	if err != nil {
		return []vlib.Violation{vlib.V("harness", "%v", err)}
	}
	var out []vlib.Violation
	for i := range b.Cases {
		out = append(out, res[i]...)
	}
	return dedupeViolations(out)
}

func dedupeViolations(in []vlib.Violation) []vlib.Violation {
	seen := map[string]bool{}
	var out []vlib.Violation
	for _, v := range in {
		if !seen[v.Sig] {
			seen[v.Sig] = true
			out = append(out, v)
		}
	}
	return out
}

func c08GenConfig(f smodel.Format) smodel.GenConfig {
	cfg := smodel.DefaultGenConfig(f)
	cfg.ConstraintBias = true
	cfg.NoAny = true
	cfg.TypeLists = true
	cfg.Focus = []string{"string_bounded", "int_bounded", "float_bounded", "array_struct", "map_struct", "array_ref", "map_ref", "anon_struct", "union_structs", "array_union_structs", "nullable_ref", "array_scalar", "map_scalar"}
	return cfg
}

func TestC08(t *testing.T) {
	run := vlib.Begin(t, "C08")
	defer run.Finish(t)
	run.Describe(
		"Batches of K schema models (K=6 quick, 12 thorough) per rapid case, drawn with a bias to constraints at depth (bounds on scalars inside arrays, map values, optional fields, referenced structs, union-branch structs, nullable references), rendered in the three input formats, generated with Go json+strict+validate, compiled and executed. For each of 2 valid documents per struct definition the COMPLETE set of single faults is enumerated (undeclared key at every object node; each required property removed; null for each required non-nullable property; wrong JSON type for each scalar/array/map; each numeric bound violated by one unit / half a unit; each length bound violated by one rune). Oracle: the strict decoder errors iff the fault is an undeclared key / missing required / null for required / wrong type (a bound violation must NOT make it fail); Validate() on the standard-decoded value errors iff a bound is violated, and reports the path of the injected fault (a.b[2].c, m[key].x); valid documents are never rejected by either. The reference validator must reject every fault (harness cross-check). Non-trivial fault: depth >= 2 or under an array/map/optional/reference/union; distinct by (schema, path, class, operation).",
		"integer bounds are integral, length bounds are in runes, bounds violated by exactly one unit (integers) or half a unit / the excluded bound itself (floats)",
		"`any` fields and unions of scalars carry no injected faults",
		"CUE: a required field whose type evaluates to a concrete value is filled in by unification, so its removal is not a fault there",
		"a fault the reference validator accepts is a harness defect: discarded and counted",
	)
	if vlib.RunReplay(t, run, c08Check) {
		return
	}
	k := 6
	if vlib.Thorough() {
		k = 12
	}
	rapid.Check(t, func(rt *rapid.T) {
		var cases []schemaCase
		for i := 0; i < k; i++ {
			f := rapid.SampledFrom(smodel.Formats).Draw(rt, "format")
			cases = append(cases, drawSchemaCase(rt, c08GenConfig(f), 2))
		}
		res, err := c08CheckBatch(run, cases)
		if err != nil {
			run.Inconclusive("batch failed: %v", err)
			rt.Fatalf("harness: %v", err)
		}
		for i, c := range cases {
			run.Label(append([]string{"format:" + string(c.Format)}, c.Model.Features()...)...)
			if i == 0 && len(c.source()) < 2500 {
				run.Sample(map[string]any{"format": c.Format, "schema": c.source(), "documents": firstDocs(c.Docs, 1)})
			}
		}
		for i := range cases {
			if vs := dedupeViolations(res[i]); len(vs) > 0 {
				vlib.Fail(rt, run.Judge(c08Batch{Cases: []schemaCase{cases[i]}}, vs))
			}
		}
	})
	e2Health(run)
}
