package checks

import (
	"os"
	"strconv"
)

func getenvInt(name string, def int) int {
	if v := os.Getenv(name); v != "" {
		if n, err := strconv.Atoi(v); err == nil {
			return n
		}
	}
	return def
}
