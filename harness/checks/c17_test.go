package checks

// C17 — builder transformations keep builders well-typed and do only what
// they document. Builders are derived from generated IRs (after the target
// language's built-in chain), veneer files are generated relative to those
// builders, loaded through yaml.VeneersLoader and applied with
// Rewriter.ApplyTo exactly as Pipeline.ContextForLanguage does.

import (
	"fmt"
	"os"
	"path/filepath"
	"reflect"
	"sort"
	"strings"
	"testing"

	"github.com/grafana/cog/internal/ast"
	"github.com/grafana/cog/internal/ast/compiler"
	"github.com/grafana/cog/internal/veneers/rewrite"
	cogyaml "github.com/grafana/cog/internal/yaml"
	"github.com/grafana/cog/verifharness/cogx"
	"github.com/grafana/cog/verifharness/irgen"
	"github.com/grafana/cog/verifharness/passgen"
	"github.com/grafana/cog/verifharness/vlib"
	"github.com/grafana/cog/verifharness/walk"
	"pgregory.net/rapid"
)

type c17Rule struct {
	// Scope: "all" or the language
	Scope string `json:"scope"`
	// On: "builder" or "option"
	On   string `json:"on"`
	Kind string `json:"kind"`
	Pkg  string `json:"pkg"`
	// selector
	SelKind string   `json:"sel_kind"` // by_object | by_name | by_variant | generated_from_disjunction | opt_by_name | opt_by_builder | opt_by_names_object | opt_by_names_builder
	SelA    string   `json:"sel_a,omitempty"`
	SelOpts []string `json:"sel_opts,omitempty"`
	// parameters
	As       string            `json:"as,omitempty"`
	Names    []string          `json:"names,omitempty"`
	Source   string            `json:"source,omitempty"`
	Under    string            `json:"under,omitempty"`
	Renames  map[string]string `json:"renames,omitempty"`
	TrueAs   string            `json:"true_as,omitempty"`
	FalseAs  string            `json:"false_as,omitempty"`
	ArgIndex int               `json:"arg_index,omitempty"`
	// TargetClass: exact | caseflip | absent
	TargetClass string `json:"target_class,omitempty"`
}

func (r c17Rule) String() string {
	return fmt.Sprintf("%s/%s:%s(%s %s.%s %v)[%s]", r.Scope, r.On, r.Kind, r.SelKind, r.Pkg, r.SelA, r.SelOpts, r.TargetClass)
}

type c17Case struct {
	IR    irgen.IRSpec `json:"ir"`
	Lang  string       `json:"lang"`
	Rules []c17Rule    `json:"rules"`
}

func q(s string) string { return fmt.Sprintf("%q", s) }

func qlist(items []string) string {
	out := make([]string, len(items))
	for i, s := range items {
		out[i] = q(s)
	}
	return "[" + strings.Join(out, ", ") + "]"
}

func (r c17Rule) selectorYAML() string {
	switch r.SelKind {
	case "by_object":
		return "by_object: " + q(r.SelA)
	case "by_name":
		return "by_name: " + q(r.SelA)
	case "by_variant":
		return "by_variant: " + q(r.SelA)
	case "generated_from_disjunction":
		return "generated_from_disjunction: true"
	case "opt_by_name":
		return "by_name: " + q(r.SelA+"."+r.SelOpts[0])
	case "opt_by_builder":
		return "by_builder: " + q(r.SelA+"."+r.SelOpts[0])
	case "opt_by_names_object":
		return fmt.Sprintf("by_names: {object: %s, options: %s}", q(r.SelA), qlist(r.SelOpts))
	case "opt_by_names_builder":
		return fmt.Sprintf("by_names: {builder: %s, options: %s}", q(r.SelA), qlist(r.SelOpts))
	}
	return ""
}

func (r c17Rule) yaml() string {
	sel := r.selectorYAML()
	switch r.Kind {
	case "omit":
		return fmt.Sprintf("- omit: {%s}", sel)
	case "rename":
		return fmt.Sprintf("- rename: {%s, as: %s}", sel, q(r.As))
	case "duplicate":
		s := fmt.Sprintf("- duplicate: {%s, as: %s", sel, q(r.As))
		if r.On == "builder" && len(r.Names) > 0 {
			s += ", exclude_options: " + qlist(r.Names)
		}
		return s + "}"
	case "merge_into":
		s := fmt.Sprintf("- merge_into: {destination: %s, source: %s, under_path: %s", q(r.SelA), q(r.Source), q(r.Under))
		if len(r.Names) > 0 {
			s += ", exclude_options: " + qlist(r.Names)
		}
		if len(r.Renames) > 0 {
			var parts []string
			keys := make([]string, 0, len(r.Renames))
			for k := range r.Renames {
				keys = append(keys, k)
			}
			sort.Strings(keys)
			for _, k := range keys {
				parts = append(parts, q(k)+": "+q(r.Renames[k]))
			}
			s += ", rename_options: {" + strings.Join(parts, ", ") + "}"
		}
		return s + "}"
	case "properties":
		return fmt.Sprintf("- properties: {%s, set: [{name: %s, type: {kind: scalar, scalar: {scalar_kind: string}}}]}", sel, q(r.As))
	case "promote_options_to_constructor":
		return fmt.Sprintf("- promote_options_to_constructor: {%s, options: %s}", sel, qlist(r.Names))
	case "rename_arguments":
		return fmt.Sprintf("- rename_arguments: {%s, as: %s}", sel, qlist(r.Names))
	case "unfold_boolean":
		return fmt.Sprintf("- unfold_boolean: {%s, true_as: %s, false_as: %s}", sel, q(r.TrueAs), q(r.FalseAs))
	case "struct_fields_as_arguments", "struct_fields_as_options":
		s := fmt.Sprintf("- %s: {%s", r.Kind, sel)
		if len(r.Names) > 0 {
			s += ", fields: " + qlist(r.Names)
		}
		return s + "}"
	case "array_to_append", "map_to_index":
		return fmt.Sprintf("- %s: {%s}", r.Kind, sel)
	case "disjunction_as_options":
		return fmt.Sprintf("- disjunction_as_options: {%s, argument_index: %d}", sel, r.ArgIndex)
	case "add_comments":
		return fmt.Sprintf("- add_comments: {%s, comments: %s}", sel, qlist(r.Names))
	}
	panic("c17: unknown rule kind " + r.Kind)
}

// c17VeneerFiles renders one veneers file per (scope, package).
func c17VeneerFiles(rules []c17Rule) map[string]string {
	type key struct{ scope, pkg string }
	grouped := map[key][]c17Rule{}
	var order []key
	for _, r := range rules {
		k := key{r.Scope, r.Pkg}
		if _, ok := grouped[k]; !ok {
			order = append(order, k)
		}
		grouped[k] = append(grouped[k], r)
	}
	files := map[string]string{}
	for i, k := range order {
		var sb strings.Builder
		fmt.Fprintf(&sb, "language: %s\npackage: %s\n", k.scope, k.pkg)
		var b, o []string
		for _, r := range grouped[k] {
			if r.On == "builder" {
				b = append(b, "  "+r.yaml())
			} else {
				o = append(o, "  "+r.yaml())
			}
		}
		if len(b) > 0 {
			sb.WriteString("builders:\n" + strings.Join(b, "\n") + "\n")
		}
		if len(o) > 0 {
			sb.WriteString("options:\n" + strings.Join(o, "\n") + "\n")
		}
		files[fmt.Sprintf("%02d_%s_%s.yaml", i, k.scope, k.pkg)] = sb.String()
	}
	return files
}

func c17Rewriter(rules []c17Rule) (*rewrite.Rewriter, error) {
	dir := os.Getenv("VERIF_WORK")
	if dir == "" {
		dir = os.TempDir()
	}
	dir, err := os.MkdirTemp(dir, "c17veneers")
	if err != nil {
		return nil, err
	}
	defer os.RemoveAll(dir)
	files := c17VeneerFiles(rules)
	names := make([]string, 0, len(files))
	for n := range files {
		names = append(names, n)
	}
	sort.Strings(names)
	var paths []string
	for _, n := range names {
		p := filepath.Join(dir, n)
		if err := os.WriteFile(p, []byte(files[n]), 0o644); err != nil {
			return nil, err
		}
		paths = append(paths, p)
	}
	return cogyaml.NewVeneersLoader().RewriterFrom(paths, rewrite.Config{})
}

// c17Derive runs the language chain and derives the builders.
func c17Derive(ir irgen.IRSpec, lang string) (ast.Schemas, ast.Builders, error) {
	schemas, err := compiler.Passes(cogx.NewLanguage(lang).CompilerPasses()).Process(ir.Build())
	if err != nil {
		return nil, nil, err
	}
	return schemas, (&ast.BuilderGenerator{}).FromAST(schemas), nil
}

func stripTrailsCanon(v any) string {
	rv := reflect.New(reflect.TypeOf(v))
	rv.Elem().Set(reflect.ValueOf(v))
	walk.ZeroFields(rv.Interface(), func(_ reflect.Type, f reflect.StructField) bool {
		return f.Name == "PassesTrail" || f.Name == "VeneerTrail"
	})
	return walk.CanonValue(rv.Elem())
}

func typeNoNull(t ast.Type) string {
	// t is a copy of the struct: only top-level fields are set; c17Canon
	// renders what stripTrailsCanon renders without copying the type
	t.Nullable = false
	t.Default = nil
	return c17Canon(t)
}

// resolveAll follows references across schemas (independent of cog).
func resolveAll(schemas ast.Schemas, t ast.Type) ast.Type {
	r, _ := resolveChain(schemas, t)
	return r
}

// c17CheckPath verifies that the path names an existing chain of fields of the
// built object with matching types.
func c17CheckPath(schemas ast.Schemas, b ast.Builder, path ast.Path) string {
	cur := b.For.Type
	for i, item := range path {
		if item.Root {
			continue
		}
		if item.Index != nil && item.Identifier == "" {
			rc := resolveAll(schemas, cur)
			var elem ast.Type
			switch rc.Kind {
			case ast.KindMap:
				elem = rc.Map.ValueType
			case ast.KindArray:
				elem = rc.Array.ValueType
			default:
				return fmt.Sprintf("item %d is an index into a %s", i, rc.Kind)
			}
			if typeNoNull(item.Type) != typeNoNull(elem) {
				return fmt.Sprintf("index item %d has type %s, the element type is %s", i, typeNoNull(item.Type), typeNoNull(elem))
			}
			cur = elem
			continue
		}
		rc := resolveAll(schemas, cur)
		if rc.Kind != ast.KindStruct {
			if rc.Kind == ast.KindScalar && rc.Scalar.ScalarKind == ast.KindAny && i > 0 && path[i-1].TypeHint != nil {
				return "" // composed under an `any` field: typed through the hint
			}
			return fmt.Sprintf("item %d (%q) is looked up in a %s, not a struct", i, item.Identifier, rc.Kind)
		}
		var field *ast.StructField
		for fi := range rc.Struct.Fields {
			if rc.Struct.Fields[fi].Name == item.Identifier {
				field = &rc.Struct.Fields[fi]
			}
		}
		if field == nil {
			return fmt.Sprintf("item %d: the built object has no field %q there", i, item.Identifier)
		}
		if typeNoNull(item.Type) != typeNoNull(field.Type) {
			return fmt.Sprintf("item %d (%q) claims type %s, the field's type is %s", i, item.Identifier, typeNoNull(item.Type), typeNoNull(field.Type))
		}
		cur = field.Type
		if item.TypeHint != nil {
			cur = *item.TypeHint
		}
		if item.Index != nil {
			rc := resolveAll(schemas, cur)
			switch rc.Kind {
			case ast.KindMap:
				cur = rc.Map.ValueType
			case ast.KindArray:
				cur = rc.Array.ValueType
			}
		}
	}
	return ""
}

func declared(args []ast.Argument, a *ast.Argument) bool {
	if a == nil {
		return true
	}
	for _, d := range args {
		if d.Name == a.Name && typeNoNull(d.Type) == typeNoNull(a.Type) {
			return true
		}
	}
	return false
}

func valueArgs(v ast.AssignmentValue, out *[]*ast.Argument) {
	if v.Argument != nil {
		*out = append(*out, v.Argument)
	}
	if v.Envelope != nil {
		for _, ev := range v.Envelope.Values {
			valueArgs(ev.Value, out)
		}
	}
}

// c17WellTyped checks invariants I1 (paths), I2 (declared arguments) and I4
// (argument type vs target type) on every builder.
func c17WellTyped(schemas ast.Schemas, builders ast.Builders, ruleKinds string) []vlib.Violation {
	var vs []vlib.Violation
	seen := map[string]bool{}
	bad := func(sig string, format string, args ...any) {
		if !seen[sig] {
			seen[sig] = true
			vs = append(vs, vlib.V(sig+":"+ruleKinds, format, args...))
		}
	}
	for _, b := range builders {
		check := func(where string, args []ast.Argument, assignments []ast.Assignment) {
			for _, a := range assignments {
				if msg := c17CheckPath(schemas, b, a.Path); msg != "" {
					bad("ill-typed-path:"+where, "builder %s.%s %s: assignment path %q: %s", b.Package, b.Name, where, a.Path.String(), msg)
				}
				var used []*ast.Argument
				valueArgs(a.Value, &used)
				for _, pi := range a.Path {
					if pi.Index != nil && pi.Index.Argument != nil {
						used = append(used, pi.Index.Argument)
					}
				}
				for _, c := range a.Constraints {
					c := c
					used = append(used, &c.Argument)
				}
				for _, u := range used {
					if !declared(args, u) {
						bad("undeclared-argument:"+where, "builder %s.%s %s: assignment to %q uses argument %s (%s) which is not declared (declared: %s)", b.Package, b.Name, where, a.Path.String(), u.Name, typeNoNull(u.Type), walk.Canon(argNames(args)))
					}
				}
				if a.Value.Argument != nil && len(a.Path) > 0 {
					last := a.Path.Last().Type
					if a.Path.Last().TypeHint != nil {
						continue
					}
					want := last
					switch a.Method {
					case ast.AppendAssignment:
						rl := resolveAll(schemas, last)
						if rl.Kind == ast.KindArray {
							want = rl.Array.ValueType
						}
					}
					okBranch := false
					if rw := resolveAll(schemas, want); rw.Kind == ast.KindDisjunction {
						for _, br := range rw.Disjunction.Branches {
							if typeNoNull(br) == typeNoNull(a.Value.Argument.Type) {
								okBranch = true // disjunction_as_options: one option per branch
							}
						}
					} else if rw.IsStructGeneratedFromDisjunction() {
						okBranch = true
					}
					if !okBranch && typeNoNull(a.Value.Argument.Type) != typeNoNull(want) {
						bad("argument-type-mismatch:"+where+":"+string(a.Method), "builder %s.%s %s: assignment (%s) to %q gives an argument of type %s to a target of type %s", b.Package, b.Name, where, a.Method, a.Path.String(), typeNoNull(a.Value.Argument.Type), typeNoNull(want))
					}
				}
			}
		}
		check("constructor", b.Constructor.Args, b.Constructor.Assignments)
		for _, o := range b.Options {
			check("option", o.Args, o.Assignments)
		}
	}
	return vs
}

func argNames(args []ast.Argument) []string {
	var out []string
	for _, a := range args {
		out = append(out, a.Name)
	}
	return out
}

func builderKey(b ast.Builder) string { return b.Package + "/" + b.For.SelfRef.String() + "/" + b.Name }

func c17Check(c c17Case) []vlib.Violation {
	var schemas ast.Schemas
	var builders ast.Builders
	var err error
	sig, msg, panicked := vlib.Guard(func() { schemas, builders, err = c17Derive(c.IR, c.Lang) })
	if panicked {
		return []vlib.Violation{vlib.V("skip:panic:"+sig, "derivation panicked: %s", msg)}
	}
	if err != nil || len(builders) == 0 {
		return []vlib.Violation{vlib.V("skip:rejected", "no builders: %v", err)}
	}
	return c17CheckDerived(c, schemas, builders)
}

// c17CheckDerived: the check proper, given the schemas and builders derived
// from c.IR for c.Lang (the generator has derived them already and only read
// them since; a replay derives them in c17Check).
func c17CheckDerived(c c17Case, schemas ast.Schemas, builders ast.Builders) []vlib.Violation {
	kinds := map[string]bool{}
	for _, r := range c.Rules {
		kinds[r.Kind] = true
	}
	var kl []string
	for k := range kinds {
		kl = append(kl, k)
	}
	sort.Strings(kl)
	ruleKinds := strings.Join(kl, "+")
	if len(c.Rules) > 1 {
		ruleKinds = "sequence(" + ruleKinds + ")"
	} else {
		ruleKinds = c.Rules[0].On + "." + ruleKinds
	}

	// the derived builders must be well-typed to begin with (else the IR is
	// outside what this check can judge)
	if pre := c17WellTyped(schemas, builders, ""); len(pre) > 0 {
		return []vlib.Violation{vlib.V("skip:ill-typed-before", "%s", pre[0].Msg)}
	}
	snapshot := map[string]string{}
	inputCanon := make([]string, 0, len(builders)) // builder by builder, in order
	for _, b := range builders {
		cb := walk.Canon(b)
		snapshot[builderKey(b)] = cb
		inputCanon = append(inputCanon, cb)
	}

	rewriter, lerr := c17Rewriter(c.Rules)
	if lerr != nil {
		return []vlib.Violation{vlib.V("skip:loader", "veneers loader refused the generated rules: %v", lerr)}
	}
	apply := func(r *rewrite.Rewriter, in ast.Builders, copyInput bool) (ast.Builders, error, []vlib.Violation) {
		var out ast.Builders
		var aerr error
		cp := in
		if copyInput {
			cp = make(ast.Builders, 0, len(in))
			for _, b := range in {
				cp = append(cp, b.DeepCopy())
			}
		}
		sig, msg, panicked := vlib.Guard(func() { out, aerr = r.ApplyTo(schemas, cp, c.Lang) })
		if panicked {
			return nil, nil, []vlib.Violation{vlib.V("skip:panic:"+sig, "ApplyTo panicked: %s", msg)}
		}
		return out, aerr, nil
	}
	out, aerr, pv := apply(rewriter, builders, true)
	if pv != nil {
		return pv
	}
	if aerr != nil {
		return []vlib.Violation{vlib.V("skip:rule-error", "rules refused: %v", aerr)}
	}
	var vs []vlib.Violation
	mutated := len(builders) != len(inputCanon)
	for i := 0; !mutated && i < len(builders); i++ {
		mutated = walk.Canon(builders[i]) != inputCanon[i]
	}
	if mutated {
		vs = append(vs, vlib.V("input-mutated", "ApplyTo modified the builders it was handed (a deep copy was passed)"))
	}

	// I1/I2/I4
	vs = append(vs, c17WellTyped(schemas, out, ruleKinds)...)

	// I3: builders and options no rule can have selected are unchanged
	mentionedBuilder := func(b ast.Builder) bool {
		for _, r := range c.Rules {
			if r.SelKind == "by_variant" || r.SelKind == "generated_from_disjunction" {
				return true
			}
			if !strings.EqualFold(r.Pkg, b.Package) && !strings.EqualFold(r.Pkg, b.For.SelfRef.ReferredPkg) {
				continue
			}
			names := []string{r.SelA, r.Source, r.As}
			for _, n := range names {
				if n != "" && (strings.EqualFold(n, b.Name) || strings.EqualFold(n, b.For.Name)) {
					return true
				}
			}
		}
		return false
	}
	outByKey := map[string]ast.Builder{}
	for _, b := range out {
		outByKey[builderKey(b)] = b
	}
	for _, b := range builders {
		if mentionedBuilder(b) {
			continue
		}
		ob, ok := outByKey[builderKey(b)]
		if !ok && len(b.Options) == 0 {
			continue // the rewriter dismisses builders without options (documented in its code)
		}
		if !ok {
			vs = append(vs, vlib.V("unselected-builder-removed:"+ruleKinds, "builder %s is not selected by any rule but is gone", builderKey(b)))
			continue
		}
		if walk.Canon(ob) != snapshot[builderKey(b)] {
			p, d, _ := walk.Diff(ob, b)
			vs = append(vs, vlib.V("unselected-builder-changed:"+lastSegments(p)+":"+ruleKinds, "builder %s is not selected by any rule but changed at %s: %s", builderKey(b), p, d))
		}
	}

	// stage order: common (all) builder rules, common option rules, then the
	// language's builder rules and option rules
	var common, specific []c17Rule
	for _, r := range c.Rules {
		if r.Scope == "all" {
			common = append(common, r)
		} else {
			specific = append(specific, r)
		}
	}
	if len(common) > 0 && len(specific) > 0 {
		r1, e1 := c17Rewriter(common)
		r2, e2 := c17Rewriter(specific)
		if e1 == nil && e2 == nil {
			mid, err1, pv1 := apply(r1, builders, true)
			if pv1 == nil && err1 == nil {
				staged, err2, pv2 := apply(r2, mid, false)
				if pv2 == nil && err2 == nil {
					if a, b := stripTrailsCanon(staged), stripTrailsCanon(out); a != b {
						p, d, _ := walk.Diff(staged, out)
						vs = append(vs, vlib.V("stage-order:"+ruleKinds, "applying the common rules then the %s rules one stage after the other differs from Rewriter.ApplyTo at %s: %s", c.Lang, p, d))
					}
				}
			}
		}
	}

	// every rule of the sequence judged on its own, against the builders as
	// they are when the rewriter reaches it (c17_steps_test.go)
	vs = append(vs, c17Steps(c, schemas, builders, out)...)

	// rule contracts, for a single rule applied to the freshly derived builders
	if len(c.Rules) == 1 {
		vs = append(vs, c17Contract(c, schemas, builders, out)...)
	}
	// Several multiplicity-changing rules stacked on the same option: the
	// documented combination is array_to_append / map_to_index followed by
	// disjunction_as_options; the others are tagged so that the known finding
	// "option rules assume a freshly derived option" can name them.
	if tag := c17Stacked(c); tag != "" {
		for i := range vs {
			if strings.Contains(vs[i].Sig, ":option:") || (strings.Contains(vs[i].Sig, ":constructor:") && strings.HasPrefix(tag, "stacked-unsupported")) {
				vs[i].Sig += ":" + tag
			}
		}
	}
	return vs
}

var c17MultiplicityKinds = map[string]bool{"array_to_append": true, "map_to_index": true, "struct_fields_as_arguments": true, "struct_fields_as_options": true, "unfold_boolean": true, "disjunction_as_options": true}

func c17Stacked(c c17Case) string {
	// application order: common rules first, then the language's
	var ordered []c17Rule
	for _, r := range c.Rules {
		if r.Scope == "all" {
			ordered = append(ordered, r)
		}
	}
	for _, r := range c.Rules {
		if r.Scope != "all" {
			ordered = append(ordered, r)
		}
	}
	// A builder rule that gives a builder another name (rename, duplicate)
	// makes two names for the same options: `by_builder: RenamedPanel.title`
	// and `by_name: Panel.title` are then the same option. The names are
	// unified (for duplicate this takes the copy and its source for one
	// builder: a rule by object name reaches both anyway).
	alias := map[string]string{}
	var find func(k string) string
	find = func(k string) string {
		if p, ok := alias[k]; ok && p != k {
			root := find(p)
			alias[k] = root
			return root
		}
		return k
	}
	for _, r := range ordered {
		if r.On == "builder" && (r.Kind == "rename" || r.Kind == "duplicate") && r.As != "" {
			a, b := find(strings.ToLower(r.Pkg+"/"+r.SelA)), find(strings.ToLower(r.Pkg+"/"+r.As))
			if a != b {
				alias[b] = a
			}
		}
	}
	byOption := map[string][]string{}
	var keys []string
	// option names change along the way (rename, and the options created by
	// disjunction_as_options / struct_fields_as_options / unfold_boolean get
	// new names): once a builder has seen a name-producing rule, every later
	// multiplicity-changing rule on that builder may hit a rewritten option.
	renamed := map[string][]string{} // new name -> the names it may have been (a rename may select several options)
	producedNames := map[string]string{}
	for _, r := range ordered {
		if r.On != "option" {
			continue
		}
		bkey := find(strings.ToLower(r.Pkg + "/" + r.SelA))
		if r.Kind == "rename" || r.Kind == "duplicate" {
			for _, o := range r.SelOpts {
				renamed[bkey+"/"+strings.ToLower(r.As)] = append(renamed[bkey+"/"+strings.ToLower(r.As)], bkey+"/"+strings.ToLower(o))
			}
			continue
		}
		if !c17MultiplicityKinds[r.Kind] {
			continue
		}
		for _, o := range r.SelOpts {
			k := bkey + "/" + strings.ToLower(o)
			if origs, ok := renamed[k]; ok {
				k = origs[0]
				for _, orig := range origs {
					if _, seen := byOption[orig]; seen {
						k = orig // the one an earlier multiplicity rule rewrote
					}
				}
			}
			if prev, ok := producedNames[bkey]; ok {
				if _, direct := byOption[k]; !direct {
					k = prev // possibly an option produced by the earlier rule
				}
			}
			if _, ok := byOption[k]; !ok {
				keys = append(keys, k)
			}
			byOption[k] = append(byOption[k], r.Kind)
			switch r.Kind {
			case "disjunction_as_options", "struct_fields_as_options", "unfold_boolean":
				producedNames[bkey] = k
			}
		}
	}
	tag := ""
	for _, k := range keys {
		kinds := byOption[k]
		if len(kinds) < 2 {
			continue
		}
		if len(kinds) == 2 && (kinds[0] == "array_to_append" || kinds[0] == "map_to_index") && kinds[1] == "disjunction_as_options" {
			if tag == "" {
				tag = "stacked-documented"
			}
			continue
		}
		return "stacked-unsupported(" + strings.Join(kinds, ">") + ")"
	}
	if tag != "" {
		return tag
	}
	// A rule that names options or their arguments (rename_arguments, a
	// builder's promote_options_to_constructor) applied to a builder after one
	// of its options went through a multiplicity-changing rule meets options /
	// arguments that rule produced: the same root cause.
	seenMultiplicity := map[string]string{}
	for _, r := range ordered {
		bkey := find(strings.ToLower(r.Pkg + "/" + r.SelA))
		switch {
		case r.On == "option" && c17MultiplicityKinds[r.Kind]:
			if prev, ok := seenMultiplicity[bkey]; ok && prev != r.Kind {
				return "stacked-unsupported(" + prev + ">" + r.Kind + ")"
			}
			seenMultiplicity[bkey] = r.Kind
		case (r.On == "option" && r.Kind == "rename_arguments") || (r.On == "builder" && r.Kind == "promote_options_to_constructor"):
			if prev, ok := seenMultiplicity[bkey]; ok {
				return "stacked-unsupported(" + prev + ">" + r.Kind + ")"
			}
		}
	}
	return tag
}

func selectsBuilder(r c17Rule, schemas ast.Schemas, b ast.Builder) bool {
	switch r.SelKind {
	case "by_object":
		return strings.EqualFold(b.For.SelfRef.ReferredPkg, r.Pkg) && strings.EqualFold(b.For.SelfRef.ReferredType, r.SelA)
	case "by_name":
		return strings.EqualFold(b.For.SelfRef.ReferredPkg, r.Pkg) && strings.EqualFold(b.Name, r.SelA)
	}
	return false
}

func selectsOption(r c17Rule, b ast.Builder, o ast.Option) bool {
	inList := func(n string) bool {
		for _, x := range r.SelOpts {
			if strings.EqualFold(x, n) {
				return true
			}
		}
		return false
	}
	switch r.SelKind {
	case "opt_by_name", "opt_by_names_object":
		return b.For.SelfRef.ReferredPkg == r.Pkg && strings.EqualFold(b.For.Name, r.SelA) && inList(o.Name)
	case "opt_by_builder", "opt_by_names_builder":
		return b.Package == r.Pkg && strings.EqualFold(b.Name, r.SelA) && inList(o.Name)
	}
	return false
}

func pathIdents(p ast.Path) string {
	var parts []string
	for _, it := range p {
		if it.Identifier != "" {
			parts = append(parts, it.Identifier)
		}
	}
	return strings.Join(parts, ".")
}

// c17Contract checks the documented contract of one rule.
func c17Contract(c c17Case, schemas ast.Schemas, before ast.Builders, after ast.Builders) []vlib.Violation {
	r := c.Rules[0]
	var vs []vlib.Violation
	bad := func(what string, format string, args ...any) {
		vs = append(vs, vlib.V("contract:"+r.On+":"+r.Kind+":"+what, "%s: "+format, append([]any{r}, args...)...))
	}
	if r.SelKind == "by_variant" || r.SelKind == "generated_from_disjunction" {
		return nil
	}
	if r.On == "builder" {
		var selected []ast.Builder
		dismissed := 0
		for _, b := range before {
			if len(b.Options) == 0 {
				dismissed++ // builders without options are dismissed by the rewriter
				continue
			}
			if selectsBuilder(r, schemas, b) {
				selected = append(selected, b)
			}
		}
		switch r.Kind {
		case "omit":
			for _, s := range selected {
				for _, a := range after {
					if builderKey(a) == builderKey(s) {
						bad("not-removed", "builder %s is still there", builderKey(s))
					}
				}
			}
			if len(after) != len(before)-len(selected)-dismissed {
				bad("count", "%d builders before, %d selected, %d after", len(before), len(selected), len(after))
			}
		case "rename":
			for _, s := range selected {
				found := false
				for _, a := range after {
					if a.For.SelfRef == s.For.SelfRef && a.Package == s.Package && a.Name == r.As {
						found = true
						s2 := s.DeepCopy()
						s2.Name = r.As
						if x, y := stripTrailsCanon(a), stripTrailsCanon(s2); x != y {
							p, d, _ := walk.Diff(a, s2)
							bad("changed-more-than-name:"+lastSegments(p), "renaming %s changed more than the name, at %s: %s", builderKey(s), p, d)
						}
					}
				}
				if !found {
					bad("not-renamed", "no builder named %q for %s afterwards", r.As, s.For.SelfRef.String())
				}
			}
		case "duplicate":
			for _, s := range selected {
				var dup *ast.Builder
				for i := range after {
					if after[i].For.SelfRef == s.For.SelfRef && after[i].Name == r.As && builderKey(after[i]) != builderKey(s) {
						dup = &after[i]
					}
				}
				if dup == nil {
					remaining := 0
					for _, o := range s.Options {
						ex := false
						for _, n := range r.Names {
							if strings.EqualFold(n, o.Name) {
								ex = true
							}
						}
						if !ex {
							remaining++
						}
					}
					if remaining > 0 { // a copy left without options is dismissed by the rewriter
						bad("no-copy", "no copy named %q of %s", r.As, builderKey(s))
					}
					continue
				}
				want := s.DeepCopy()
				want.Name = r.As
				if len(r.Names) > 0 {
					kept := want.Options[:0]
					for _, o := range want.Options {
						ex := false
						for _, n := range r.Names {
							if strings.EqualFold(n, o.Name) {
								ex = true
							}
						}
						if !ex {
							kept = append(kept, o)
						}
					}
					want.Options = kept
				}
				if x, y := stripTrailsCanon(*dup), stripTrailsCanon(want); x != y {
					p, d, _ := walk.Diff(*dup, want)
					bad("copy-differs:"+lastSegments(p), "the copy of %s differs from its source at %s: %s", builderKey(s), p, d)
				}
				// independence
				var src *ast.Builder
				for i := range after {
					if builderKey(after[i]) == builderKey(s) {
						src = &after[i]
					}
				}
				if src != nil {
					sa, da := walk.Addrs(*src), walk.Addrs(*dup)
					for addr, p := range da {
						if _, ok := sa[addr]; ok {
							bad("copy-shares-structure", "the copy of %s shares mutable structure with its source at %s", builderKey(s), p)
							break
						}
					}
				}
			}
		}
		return vs
	}
	// option rules
	afterByKey := map[string]ast.Builder{}
	for _, a := range after {
		afterByKey[builderKey(a)] = a
	}
	for _, b := range before {
		ab, ok := afterByKey[builderKey(b)]
		for _, o := range b.Options {
			if !selectsOption(r, b, o) {
				continue
			}
			if !ok {
				// a rule that may legitimately leave the builder without options
				// (struct without fields, union without branches) dismisses it
				switch r.Kind {
				case "rename", "duplicate", "add_comments", "rename_arguments", "array_to_append", "map_to_index", "unfold_boolean":
					bad("builder-gone", "builder %s disappeared", builderKey(b))
				}
				continue
			}
			// options produced from o: those not present before (by canon) or with o's name
			beforeCanon := map[string]bool{}
			for _, x := range b.Options {
				if x.Name != o.Name {
					beforeCanon[stripTrailsCanon(x)] = true
				}
			}
			var produced []ast.Option
			for _, x := range ab.Options {
				if !beforeCanon[stripTrailsCanon(x)] {
					produced = append(produced, x)
				}
			}
			target := ""
			if len(o.Assignments) > 0 {
				target = pathIdents(o.Assignments[0].Path)
			}
			sameTarget := func(what string) {
				if len(produced) == 0 {
					bad(what+":nothing-produced", "option %s.%s produced no option", builderKey(b), o.Name)
				}
				for _, p := range produced {
					hit := false
					for _, a := range p.Assignments {
						pi := pathIdents(a.Path)
						if pi == target || strings.HasPrefix(pi, target+".") {
							hit = true
						}
					}
					if !hit {
						bad(what+":target-lost", "option %q (from %s.%s) no longer assigns %q", p.Name, builderKey(b), o.Name, target)
					}
				}
			}
			switch r.Kind {
			case "omit":
				for _, x := range ab.Options {
					if x.Name == o.Name && stripTrailsCanon(x) == stripTrailsCanon(o) {
						bad("not-removed", "option %s.%s is still there", builderKey(b), o.Name)
					}
				}
			case "rename":
				want := o.DeepCopy()
				want.Name = r.As
				found := false
				for _, x := range ab.Options {
					if stripTrailsCanon(x) == stripTrailsCanon(want) {
						found = true
					}
				}
				if !found {
					bad("changed-more-than-name", "no option equal to %s.%s under the name %q", builderKey(b), o.Name, r.As)
				}
			case "duplicate":
				want := o.DeepCopy()
				want.Name = r.As
				foundCopy, foundOrig := false, false
				for _, x := range ab.Options {
					if stripTrailsCanon(x) == stripTrailsCanon(want) {
						foundCopy = true
					}
					if stripTrailsCanon(x) == stripTrailsCanon(o) {
						foundOrig = true
					}
				}
				if !foundCopy || !foundOrig {
					bad("copy-differs", "duplicating %s.%s as %q: identical copy present=%v, original kept=%v", builderKey(b), o.Name, r.As, foundCopy, foundOrig)
				}
			case "array_to_append":
				if len(o.Args) == 1 && o.Args[0].Type.IsArray() {
					sameTarget("array_to_append")
					for _, p := range produced {
						if len(p.Assignments) > 0 && p.Assignments[0].Method != ast.AppendAssignment {
							bad("method", "option %q does not append", p.Name)
						}
						if len(p.Args) > 0 && typeNoNull(p.Args[0].Type) != typeNoNull(o.Args[0].Type.Array.ValueType) {
							bad("argument-type", "option %q takes %s, the array holds %s", p.Name, typeNoNull(p.Args[0].Type), typeNoNull(o.Args[0].Type.Array.ValueType))
						}
					}
				}
			case "map_to_index":
				if len(o.Args) == 1 && o.Args[0].Type.IsMap() {
					sameTarget("map_to_index")
					for _, p := range produced {
						if len(p.Assignments) > 0 && p.Assignments[0].Method != ast.IndexAssignment {
							bad("method", "option %q does not index", p.Name)
						}
						if len(p.Args) != 2 {
							bad("arguments", "option %q takes %d arguments, want key and value", p.Name, len(p.Args))
						}
					}
				}
			case "unfold_boolean":
				if len(o.Assignments) > 0 && len(o.Assignments[0].Path) > 0 {
					lt := o.Assignments[0].Path.Last().Type
					if lt.IsScalar() && lt.Scalar.ScalarKind == ast.KindBool {
						sameTarget("unfold_boolean")
						vals := map[string]bool{}
						for _, p := range produced {
							if len(p.Args) != 0 {
								bad("arguments", "unfolded option %q still takes arguments", p.Name)
							}
							for _, a := range p.Assignments {
								vals[fmt.Sprint(a.Value.Constant)] = true
							}
						}
						if !vals["true"] || !vals["false"] {
							bad("constants", "unfolded options assign %v, want true and false", vals)
						}
					}
				}
			case "struct_fields_as_arguments", "struct_fields_as_options":
				if len(o.Args) >= 1 {
					at := resolveAll(schemas, o.Args[0].Type)
					if o.Args[0].Type.IsRef() || o.Args[0].Type.IsStruct() {
						if at.Kind == ast.KindStruct && len(at.Struct.Fields) > 0 && len(r.Names) == 0 {
							sameTarget(r.Kind)
						}
					}
				}
			case "disjunction_as_options":
				if len(o.Args) > r.ArgIndex && o.Args[r.ArgIndex].Type.IsDisjunction() {
					sameTarget("disjunction_as_options")
					for _, p := range produced {
						for i, a := range p.Assignments {
							if i < len(o.Assignments) && a.Method != o.Assignments[i].Method {
								bad("method", "option %q assigns with method %q, the original used %q", p.Name, a.Method, o.Assignments[i].Method)
							}
						}
					}
					if len(produced) != len(o.Args[r.ArgIndex].Type.Disjunction.Branches) {
						bad("count", "%d options for %d branches", len(produced), len(o.Args[r.ArgIndex].Type.Disjunction.Branches))
					}
				}
			}
		}
	}
	return vs
}

// ---- generation ------------------------------------------------------------

func c17DrawRule(rt *rapid.T, lang string, schemas ast.Schemas, builders ast.Builders, prior []c17Rule) c17Rule {
	b := builders[rapid.IntRange(0, len(builders)-1).Draw(rt, "builder")]
	class := rapid.SampledFrom([]string{"exact", "exact", "exact", "exact", "caseflip", "absent"}).Draw(rt, "class")
	name := func(s string) string {
		switch class {
		case "caseflip":
			return passgen.FlipCase(s)
		case "absent":
			return "NoSuch" + s
		}
		return s
	}
	r := c17Rule{Scope: rapid.SampledFrom([]string{"all", lang}).Draw(rt, "scope"), Pkg: b.Package, TargetClass: class}
	if rapid.IntRange(0, 2).Draw(rt, "on") == 0 {
		r.On = "builder"
		r.Kind = rapid.SampledFrom([]string{"omit", "rename", "duplicate", "duplicate", "merge_into", "merge_into", "properties", "promote_options_to_constructor"}).Draw(rt, "bkind")
		if rapid.Bool().Draw(rt, "byname") {
			r.SelKind, r.SelA = "by_name", name(b.Name)
		} else {
			r.SelKind, r.SelA = "by_object", name(b.For.Name)
		}
		switch r.Kind {
		case "rename", "duplicate", "properties":
			r.As = rapid.SampledFrom([]string{"Renamed", "Other", "copyOf"}).Draw(rt, "as") + b.Name
			if r.Kind == "duplicate" && len(b.Options) > 0 && rapid.Bool().Draw(rt, "exclude") {
				r.Names = []string{b.Options[rapid.IntRange(0, len(b.Options)-1).Draw(rt, "exopt")].Name}
			}
		case "promote_options_to_constructor":
			if len(b.Options) > 0 {
				r.Names = []string{b.Options[rapid.IntRange(0, len(b.Options)-1).Draw(rt, "promote")].Name}
			} else {
				r.Names = []string{"nothing"}
			}
		case "merge_into":
			// destination b, source: the builder of an object one of b's options refers to
			r.SelKind, r.SelA = "by_name", b.Name
			r.Source, r.Under = "NoSuchBuilder", "nofield"
			// candidate (source builder, path) pairs: field chains of the built
			// object, up to depth 4, that end on an object with a builder
			var cands [][2]string
			var explore func(t ast.Type, prefix string, depth int)
			explore = func(t ast.Type, prefix string, depth int) {
				rt := resolveAll(schemas, t)
				if rt.Kind != ast.KindStruct || depth > 4 {
					return
				}
				for _, f := range rt.Struct.Fields {
					p := f.Name
					if prefix != "" {
						p = prefix + "." + f.Name
					}
					if f.Type.IsRef() {
						for _, sb := range builders {
							if sb.For.SelfRef == f.Type.AsRef() && sb.For.SelfRef.ReferredPkg == b.For.SelfRef.ReferredPkg && builderKey(sb) != builderKey(b) {
								cands = append(cands, [2]string{sb.Name, p})
							}
						}
					}
					if f.Type.IsRef() || f.Type.IsStruct() {
						explore(f.Type, p, depth+1)
					}
				}
			}
			explore(b.For.Type, "", 1)
			// prefer deep paths: they are the rare ones
			sort.SliceStable(cands, func(i, j int) bool {
				return strings.Count(cands[i][1], ".") > strings.Count(cands[j][1], ".")
			})
			if len(cands) > 6 {
				cands = cands[:6]
			}
			if len(cands) > 0 {
				pick := cands[rapid.IntRange(0, len(cands)-1).Draw(rt, "mergesrc")]
				r.Source, r.Under = pick[0], pick[1]
			}
		}
		return r
	}
	r.On = "option"
	r.Kind = rapid.SampledFrom([]string{"omit", "rename", "rename_arguments", "unfold_boolean", "struct_fields_as_arguments", "struct_fields_as_options", "array_to_append", "map_to_index", "disjunction_as_options", "duplicate", "add_comments"}).Draw(rt, "okind")
	// follow-up: a second rule on the option the previous option rule (or a
	// merge_into) targeted, whatever its kind
	if len(prior) > 0 && rapid.IntRange(0, 9).Draw(rt, "followup") < 4 {
		prev := prior[len(prior)-1]
		if prev.On == "option" && len(prev.SelOpts) > 0 {
			r.Pkg, r.SelKind, r.SelA, r.SelOpts, r.TargetClass = prev.Pkg, prev.SelKind, prev.SelA, []string{prev.SelOpts[0]}, prev.TargetClass
			if prev.Kind == "rename" {
				r.SelOpts = []string{prev.As}
			}
			followKinds := []string{"disjunction_as_options", "disjunction_as_options", "struct_fields_as_options", "struct_fields_as_arguments", "array_to_append", "map_to_index", "unfold_boolean", "rename_arguments", "duplicate"}
			if prev.Kind == "array_to_append" || prev.Kind == "map_to_index" {
				// the documented stacking: one option per branch of the element type
				followKinds = append(followKinds, "disjunction_as_options", "disjunction_as_options", "disjunction_as_options", "disjunction_as_options", "disjunction_as_options")
			}
			r.Kind = rapid.SampledFrom(followKinds).Draw(rt, "followkind")
			switch r.Kind {
			case "duplicate":
				r.As = "dup" + r.SelOpts[0]
			case "rename_arguments":
				r.Names = []string{"renamedArg"}
			case "unfold_boolean":
				r.TrueAs, r.FalseAs = "enable"+r.SelOpts[0], "disable"+r.SelOpts[0]
			}
			return r
		}
		if prev.Kind == "merge_into" && prev.Source != "NoSuchBuilder" {
			// an option the destination received from the source
			for _, sb := range builders {
				if sb.Name == prev.Source && sb.Package == prev.Pkg && len(sb.Options) > 0 {
					o := sb.Options[rapid.IntRange(0, len(sb.Options)-1).Draw(rt, "mergedopt")]
					r.Pkg, r.SelKind, r.SelA, r.SelOpts, r.TargetClass = prev.Pkg, "opt_by_builder", prev.SelA, []string{o.Name}, "exact"
					r.Kind = rapid.SampledFrom([]string{"struct_fields_as_options", "struct_fields_as_arguments", "array_to_append", "map_to_index", "rename"}).Draw(rt, "mergefollowkind")
					if r.Kind == "rename" {
						r.As = "merged" + o.Name
					}
					return r
				}
			}
		}
	}
	// pick an option the rule applies to when possible
	applicable := func(o ast.Option) bool {
		if len(o.Args) == 0 {
			return false
		}
		t := o.Args[0].Type
		switch r.Kind {
		case "unfold_boolean":
			return t.IsScalar() && t.Scalar.ScalarKind == ast.KindBool
		case "array_to_append":
			return t.IsArray()
		case "map_to_index":
			return t.IsMap()
		case "disjunction_as_options":
			return t.IsDisjunction() || (t.IsRef() && resolveAll(schemas, t).IsStructGeneratedFromDisjunction())
		case "struct_fields_as_arguments", "struct_fields_as_options":
			return resolveAll(schemas, t).Kind == ast.KindStruct
		}
		return true
	}
	type bo struct {
		b ast.Builder
		o ast.Option
	}
	var cands []bo
	for _, bb := range builders {
		for _, o := range bb.Options {
			if applicable(o) {
				cands = append(cands, bo{bb, o})
			}
		}
	}
	if len(cands) == 0 {
		for _, bb := range builders {
			for _, o := range bb.Options {
				cands = append(cands, bo{bb, o})
			}
		}
	}
	if len(cands) == 0 {
		r.SelKind, r.SelA, r.SelOpts = "opt_by_name", name(b.For.Name), []string{"nothing"}
		return r
	}
	if r.Kind == "array_to_append" || r.Kind == "map_to_index" {
		// collections of a disjunction are the ones the documented stacking
		// (…then disjunction_as_options) has something to do on: prefer them
		var rich []bo
		for _, cd := range cands {
			if len(cd.o.Args) == 0 {
				continue
			}
			t := cd.o.Args[0].Type
			if (t.IsArray() && t.Array.ValueType.IsDisjunction()) || (t.IsMap() && t.Map.ValueType.IsDisjunction()) {
				rich = append(rich, cd)
			}
		}
		if len(rich) > 0 && rapid.Bool().Draw(rt, "richcollection") {
			cands = rich
		}
	}
	pick := cands[rapid.IntRange(0, len(cands)-1).Draw(rt, "bo")]
	r.Pkg = pick.b.Package
	opt := name(pick.o.Name)
	switch rapid.IntRange(0, 3).Draw(rt, "optsel") {
	case 0:
		r.SelKind, r.SelA, r.SelOpts = "opt_by_name", pick.b.For.Name, []string{opt}
	case 1:
		r.SelKind, r.SelA, r.SelOpts = "opt_by_builder", pick.b.Name, []string{opt}
	case 2:
		r.SelKind, r.SelA, r.SelOpts = "opt_by_names_object", pick.b.For.Name, []string{opt, "another"}
	default:
		r.SelKind, r.SelA, r.SelOpts = "opt_by_names_builder", pick.b.Name, []string{opt}
	}
	switch r.Kind {
	case "rename", "duplicate":
		r.As = "new" + pick.o.Name
	case "rename_arguments":
		r.Names = []string{"renamedArg"}
	case "unfold_boolean":
		r.TrueAs, r.FalseAs = "enable"+pick.o.Name, "disable"+pick.o.Name
	case "add_comments":
		r.Names = []string{"extra comment"}
	}
	return r
}

func c17Config() irgen.Config {
	cfg := irgen.DefaultConfig()
	cfg.Intersections = false // python's chain refuses them; keeps builders realistic
	cfg.MaxPkgs = 2
	return cfg
}

func TestC17(t *testing.T) {
	run := vlib.Begin(t, "C17")
	defer run.Finish(t)
	run.Describe(
		"Builders derived (BuilderGenerator) from generated IRs after the built-in chain of go/java/php/python/typescript x sequences of 1-6 builder rules (omit, rename, duplicate, merge_into, properties, promote_options_to_constructor) and option rules (omit, rename, rename_arguments, unfold_boolean, struct_fields_as_arguments/options, array_to_append, map_to_index, disjunction_as_options, duplicate, add_comments), scope `all` or the language, selectors by_object/by_name and by_name/by_builder/by_names{object|builder} with exact / case-flipped / absent targets, rendered as veneer YAML files, loaded by yaml.VeneersLoader and applied by Rewriter.ApplyTo. Histories: half of the rules after the first are drawn against the builders as the rules drawn so far leave them (computed by applying them) and placed in a stage applied after those rules, so that selectors meet builders that carry a name of their own (rename / duplicate ... as), two builders for one object, and renamed / duplicated / produced options; a third of those aim at the builders the last builder rename / duplicate touched (the renamed builder, the copy and its source). Invariants on the outcome: every assignment path names an existing chain of fields of the built object with matching types (index steps for maps/arrays); every argument used by an assignment, constraint or index is declared by its option / constructor; argument type matches the target (element type for append); builders no rule mentions are unchanged; ApplyTo equals applying the common stage then the language stage; single rules meet their documented contract (omit removes exactly, rename changes only the name, duplicate yields an equal, independent copy incl. defaults and factories, the multiplicity-changing option rules still assign the same target with the right method). Step oracle (every sequence, every rule): the rules are replayed prefix by prefix in the documented order of application (common builder rules, common option rules, the language's builder rules, its option rules; file after file) and each rule is judged against the builders as they are when it is reached, the last state being ApplyTo's outcome over the veneer files: an independent model of the documented selectors (by_object: package + object; by_name: package + builder name; option by_name / by_names.object: object's package + object name + option names; by_builder / by_names.builder: builder's package + builder name + option names; names case-insensitive) says what the rule selects there; every builder it does not select, and every option it does not select in a builder where it selects some, comes out of the step unchanged (trails aside), no builder appears that is not the product of a selected one, a builder disappears only when a rule that may remove options selected all of them; on the selected ones omit removes, rename yields the same builder / option under the new name and nothing under the old, duplicate yields an identical copy (exclude_options honoured) and keeps the source, add_comments appends exactly its comments, rename_arguments renames the arguments. Non-trivial: a rule selected something (in the derived builders or in the evolved ones it was drawn against); distinct by case hash.",
		"rules that the loader or a rule itself refuses with an error are acceptable outcomes (counted)",
		"builders that are not well-typed before any rule is applied are outside what the check judges (counted as skipped)",
		"paths composed under an `any` field are typed through their TypeHint",
		"the step oracle judges the builders some rule mentions (selector, merge source or `as` name, in the rule's package); the others must come out of the whole sequence unchanged; where two builders share package, object and name, option steps are not paired (skipped)",
		"in the step oracle the multiplicity-changing option rules are only held to leaving unselected builders / options alone: their own contract is checked for single rules on freshly derived options (stacked on rewritten options they are a listed finding)",
		"the compose builder rule (composed_builder_name) and by_variant / generated_from_disjunction selectors are not generated: builders whose package differs from their object's package are not reached",
	)
	if vlib.RunReplay(t, run, c17Check) {
		return
	}
	cfg := c17Config()
	rapid.Check(t, func(rt *rapid.T) {
		c := c17Case{IR: irgen.Draw(rt, cfg), Lang: rapid.SampledFrom(cogx.CodeLanguages).Draw(rt, "lang")}
		var schemas ast.Schemas
		var builders ast.Builders
		var err error
		_, _, panicked := vlib.Guard(func() { schemas, builders, err = c17Derive(c.IR, c.Lang) })
		if panicked || err != nil || len(builders) == 0 {
			run.Eval(0, "no_builders")
			return
		}
		n := rapid.IntRange(1, 6).Draw(rt, "nrules")
		if rapid.IntRange(0, 2).Draw(rt, "single") == 0 {
			n = 1
		}
		labels := []string{"lang:" + c.Lang}
		selected := false
		for i := 0; i < n; i++ {
			// Half of the rules that follow another are drawn against the builders
			// as the rules so far leave them (names given by rename / duplicate,
			// two builders for one object, renamed / duplicated / produced
			// options), and placed in a stage that is applied after them; a third of
			// those aim at the builders the last builder rename / duplicate
			// touched (the copy and its source, the renamed builder).
			cur, evolved := builders, false
			if len(c.Rules) > 0 && rapid.Bool().Draw(rt, "evolved") {
				if st := c17Evolved(schemas, builders, c.Lang, c.Rules); len(st) > 0 {
					cur, evolved = st, true
					if rapid.IntRange(0, 2).Draw(rt, "focus") == 0 {
						if f := c17Focus(schemas, st, c.Rules); len(f) > 0 {
							cur = f
							labels = append(labels, "evolved_focus")
						}
					}
				}
			}
			r := c17DrawRule(rt, c.Lang, schemas, cur, c.Rules)
			if evolved {
				labels = append(labels, "evolved_target")
				for _, p := range c.Rules {
					if p.Scope != "all" {
						r.Scope = c.Lang // not before the rules whose outcome it is drawn against
					}
				}
				for _, b := range cur {
					if r.On == "builder" && selectsBuilder(r, schemas, b) {
						selected = true
						labels = append(labels, "selected:evolved:builder:"+r.Kind)
						if c17OwnName(b) {
							labels = append(labels, "selected:own-name-builder:"+r.SelKind)
						}
					}
					for _, o := range b.Options {
						if r.On == "option" && selectsOption(r, b, o) {
							selected = true
							labels = append(labels, "selected:evolved:option:"+r.Kind)
							if c17OwnName(b) {
								labels = append(labels, "selected:own-name-builder:"+r.SelKind)
							}
						}
					}
				}
			}
			c.Rules = append(c.Rules, r)
			labels = append(labels, r.On+":"+r.Kind, "scope:"+map[bool]string{true: "all", false: "lang"}[r.Scope == "all"], "target:"+r.TargetClass)
		}
		for _, r := range c.Rules {
			for _, b := range builders {
				if r.On == "builder" && selectsBuilder(r, schemas, b) {
					selected = true
					labels = append(labels, "selected:builder:"+r.Kind)
				}
				for _, o := range b.Options {
					if r.On == "option" && selectsOption(r, b, o) {
						selected = true
						labels = append(labels, "selected:option:"+r.Kind)
					}
				}
			}
		}
		if n == 1 {
			labels = append(labels, "single_rule")
		}
		// the documented stacking on a collection of a disjunction
		for i := 1; i < len(c.Rules); i++ {
			p, r := c.Rules[i-1], c.Rules[i]
			if (p.Kind != "array_to_append" && p.Kind != "map_to_index") || r.Kind != "disjunction_as_options" || len(p.SelOpts) == 0 || len(r.SelOpts) == 0 || p.SelOpts[0] != r.SelOpts[0] {
				continue
			}
			for _, b := range builders {
				for _, o := range b.Options {
					if len(o.Args) == 0 || !selectsOption(p, b, o) {
						continue
					}
					t := o.Args[0].Type
					if (t.IsArray() && t.Array.ValueType.IsDisjunction()) || (t.IsMap() && t.Map.ValueType.IsDisjunction()) {
						labels = append(labels, "stacked:collection-of-disjunction>disjunction_as_options")
					}
				}
			}
		}
		key := uint64(0)
		if selected {
			key = vlib.Hash(c)
		}
		run.Pending(c)
		vs := c17CheckDerived(c, schemas, builders)
		kept := vs[:0]
		for _, v := range vs {
			if strings.HasPrefix(v.Sig, "skip:") && !strings.HasPrefix(v.Sig, "skip:panic:") {
				labels = append(labels, v.Sig)
				continue
			}
			kept = append(kept, v)
		}
		vs = skipPanics(run, kept)
		run.Eval(key, dedupe(labels)...)
		if selected && len(c.IR.ObjectNames()) <= 3 {
			run.Sample(c)
		}
		vlib.Fail(rt, run.Judge(c, vs))
	})
}
