package checks

// C05 — every reference in the IR resolves.
// (c) name-changing transformations and (d) each language's built-in chain are
// checked relatively: a reference target that dangles afterwards must already
// have dangled before. (b) allowed_objects keeps exactly the closure.
// (a) parser output is checked in c05_parse_test.go (mode "parse": generated
// schemas in the three input formats through cog's loaders, then optionally
// (b) / (c) / (d) on the parsed IR).

import (
	"fmt"
	"os"
	"sort"
	"strings"
	"testing"

	"github.com/grafana/cog/internal/ast"
	"github.com/grafana/cog/internal/ast/compiler"
	"github.com/grafana/cog/verifharness/cogx"
	"github.com/grafana/cog/verifharness/irgen"
	"github.com/grafana/cog/verifharness/irx"
	"github.com/grafana/cog/verifharness/passgen"
	"github.com/grafana/cog/verifharness/vlib"
	"pgregory.net/rapid"
)

type c05Case struct {
	Mode   string             `json:"mode"` // passes | lang | filter | parse
	IR     irgen.IRSpec       `json:"ir"`
	Passes []passgen.PassSpec `json:"passes,omitempty"`
	Lang   string             `json:"lang,omitempty"`
	// Allowed: object names for mode filter (package = Pkg)
	Pkg     string   `json:"pkg,omitempty"`
	Allowed []string `json:"allowed,omitempty"`
	// Parse: mode parse — a generated schema in one of the three input formats
	// goes through cog's loaders; the IR field is unused
	Parse *c05ParseCase `json:"parse,omitempty"`
}

func danglingTargets(schemas ast.Schemas, refs []irx.Ref) map[string]irx.Ref {
	out := map[string]irx.Ref{}
	for _, r := range irx.Dangling(schemas, refs) {
		key := r.Kind + ":" + r.Target()
		if _, ok := out[key]; !ok {
			out[key] = r
		}
	}
	return out
}

// refPositionClass names the kind of position a reference sits at, for
// signatures: field / array / map value / map key / union branch / hint / ...
func refPositionClass(where string) string {
	switch {
	case strings.Contains(where, ".Hints{"):
		return "in-hint"
	case strings.Contains(where, ".IndexType"):
		return "map-key"
	case strings.Contains(where, "<EntryPointType>"):
		return "entry-point-type"
	case strings.Contains(where, ".Disjunction.Branches"):
		return "union-branch"
	case strings.Contains(where, ".Intersection.Branches"):
		return "intersection-branch"
	case strings.HasPrefix(where, "builder "):
		return "builder"
	}
	return "plain"
}

func c05Check(c c05Case) []vlib.Violation {
	if c.Mode == "parse" {
		if c.Parse == nil {
			return nil
		}
		vs, _ := c05CheckParse(*c.Parse)
		return vs
	}
	schemas := c.IR.Build()
	before := danglingTargets(schemas, irx.SchemaRefs(schemas))
	switch c.Mode {
	case "passes":
		return c05CheckPasses(schemas, before, c.Passes)
	case "lang":
		return c05CheckLang(schemas, before, c.Lang)
	case "filter":
		return c05CheckFilter(schemas, c.Pkg, c.Allowed)
	}
	return nil
}

// c05CheckPasses runs a sequence of name-changing transformations on schemas
// (before: what already dangled in them): a target that dangles after a pass
// must have dangled before it.
func c05CheckPasses(schemas ast.Schemas, before map[string]irx.Ref, passes []passgen.PassSpec) []vlib.Violation {
	var vs []vlib.Violation
	cur := schemas
	for i, ps := range passes {
		var next ast.Schemas
		var err error
		sig, msg, panicked := vlib.Guard(func() {
			next, err = compiler.Passes{ps.Build()}.Process(cur)
		})
		if panicked {
			return []vlib.Violation{vlib.V("skip:panic:"+sig, "pass %d %s panicked: %s", i, ps, msg)}
		}
		if err != nil {
			return nil // the transformation refused the input: nothing to check
		}
		after := danglingTargets(next, irx.SchemaRefs(next))
		prev := danglingTargets(cur, irx.SchemaRefs(cur))
		if len(prev) > 0 {
			// the precondition "every reference resolves" no longer holds
			// (an earlier replace_reference pointed to a missing object, or
			// a listed finding struck): the rest of the sequence is outside
			// the claim.
			return vs
		}
		// replace_reference is only claimed "towards an existing object":
		// earlier passes of the sequence may have renamed the destination.
		excusedTarget := ""
		if ps.Kind == "replace_reference" {
			if _, exists := cur.LocateObject(ps.ToPkg, ps.To); !exists {
				excusedTarget = ps.ToPkg + "." + ps.To
			}
		}
		for key, r := range after {
			if _, was := prev[key]; was {
				continue
			}
			if excusedTarget != "" && r.Target() == excusedTarget {
				continue
			}
			// a mapping names its target without a package (the walker shows
			// it under the first branch package): the same excuse by name
			if excusedTarget != "" && r.Kind == "mapping" && r.Name == ps.To {
				continue
			}
			if _, was := before[key]; was {
				continue
			}
			vs = append(vs, vlib.V(fmt.Sprintf("dangling:%s:%s:%s:%s", ps.Kind, ps.TargetClass, r.Kind, refPositionClass(r.Where)),
				"after %s (pass %d of %v): %s at %s points to %s which does not exist (it resolved before)", ps, i, passes, r.Kind, r.Where, r.Target()))
		}
		for _, p := range irx.SelfRefProblems(next) {
			vs = append(vs, vlib.V("selfref:"+ps.Kind, "after %s: %s", ps, p))
		}
		if len(vs) > 0 {
			return vs
		}
		cur = next
	}
	return vs
}

// c05CheckLang runs the built-in chain of a language pass by pass, then builder
// derivation, on schemas (before: what already dangled in them).
func c05CheckLang(schemas ast.Schemas, before map[string]irx.Ref, langName string) []vlib.Violation {
	var vs []vlib.Violation
	lang := cogx.NewLanguage(langName)
	// run the chain pass by pass so that a new dangling reference is
	// attributed to the pass that introduced it
	cur := schemas
	known := map[string]bool{}
	for k := range before {
		known[k] = true
	}
	for _, pass := range lang.CompilerPasses() {
		passName := strings.TrimPrefix(fmt.Sprintf("%T", pass), "*compiler.")
		passName = strings.TrimPrefix(passName, "compiler.")
		var next ast.Schemas
		var err error
		sig, msg, panicked := vlib.Guard(func() { next, err = compiler.Passes{pass}.Process(cur) })
		if panicked {
			return append(vs, vlib.V("skip:panic:"+sig, "%s chain, pass %s panicked: %s", langName, passName, msg))
		}
		if err != nil {
			return vs
		}
		for key, r := range danglingTargets(next, irx.SchemaRefs(next)) {
			if known[key] {
				continue
			}
			known[key] = true
			vs = append(vs, vlib.V(fmt.Sprintf("dangling:lang:%s:%s:%s:%s", langName, passName, r.Kind, refPositionClass(r.Where)),
				"%s chain, after pass %s: %s at %s points to %s which does not exist (every reference resolved before the chain)", langName, passName, r.Kind, r.Where, r.Target()))
		}
		for _, p := range irx.SelfRefProblems(next) {
			if !known["selfref:"+p] {
				known["selfref:"+p] = true
				vs = append(vs, vlib.V("selfref:lang:"+langName+":"+passName, "%s chain, after pass %s: %s", langName, passName, p))
			}
		}
		cur = next
	}
	if len(vs) > 0 {
		return vs
	}
	// builders derived from the transformed schemas (as Pipeline.Run does)
	var builders ast.Builders
	var err error
	sig, msg, panicked := vlib.Guard(func() {
		res, e := cogx.ContextFor(lang, schemas, true)
		err = e
		builders = res.Builders
	})
	if panicked {
		return []vlib.Violation{vlib.V("skip:panic:"+sig, "%s chain + builders panicked: %s", langName, msg)}
	}
	if err != nil {
		return nil
	}
	for key, r := range danglingTargets(cur, irx.BuilderRefs(builders)) {
		if known[key] {
			continue
		}
		vs = append(vs, vlib.V(fmt.Sprintf("dangling:lang:%s:builders:%s:%s", langName, r.Kind, refPositionClass(r.Where)),
			"%s builders: %s at %s points to %s which does not exist", langName, r.Kind, r.Where, r.Target()))
	}
	return vs
}

// c05CheckFilter: allowed_objects on directly constructed IR.
func c05CheckFilter(schemas ast.Schemas, pkg string, allowed []string) []vlib.Violation {
	var target *ast.Schema
	for _, s := range schemas {
		if s.Package == pkg {
			target = s
		}
	}
	if target == nil {
		return nil
	}
	want := c05Closure(schemas, pkg, allowed)
	pass := &compiler.FilterSchemas{}
	for _, n := range allowed {
		pass.AllowedObjects = append(pass.AllowedObjects, compiler.ObjectReference{Package: pkg, Object: n})
	}
	var out ast.Schemas
	var err error
	sig, msg, panicked := vlib.Guard(func() { out, err = compiler.Passes{pass}.Process(schemas) })
	if panicked {
		return []vlib.Violation{vlib.V("skip:panic:"+sig, "FilterSchemas panicked: %s", msg)}
	}
	if err != nil {
		return nil
	}
	return c05CompareFiltered(want, out, pkg, allowed)
}

// c05CompareFiltered compares the objects left by allowed_objects with the
// closure of the listed ones.
func c05CompareFiltered(want map[string]string, out ast.Schemas, pkg string, allowed []string) []vlib.Violation {
	var vs []vlib.Violation
	got := map[string]bool{}
	for _, s := range out {
		s.Objects.Iterate(func(_ string, o ast.Object) { got[s.Package+"."+o.Name] = true })
	}
	var missing, extra []string
	for k, via := range want {
		if !got[k] {
			missing = append(missing, k+" (reached via "+via+")")
		}
	}
	for k := range got {
		if _, ok := want[k]; !ok {
			extra = append(extra, k)
		}
	}
	sort.Strings(missing)
	sort.Strings(extra)
	if len(missing) > 0 {
		kinds := map[string]bool{}
		for k, via := range want {
			if !got[k] {
				kinds[via[:strings.IndexByte(via+" ", ' ')]] = true
			}
		}
		var ks []string
		for k := range kinds {
			ks = append(ks, k)
		}
		sort.Strings(ks)
		vs = append(vs, vlib.V("filter:lost:"+strings.Join(ks, "+"), "allowed_objects=%v in %s dropped objects that the listed ones reference: %v", allowed, pkg, missing))
	}
	if len(extra) > 0 {
		vs = append(vs, vlib.V("filter:kept-unreferenced", "allowed_objects=%v in %s kept objects nothing listed references: %v", allowed, pkg, extra))
	}
	return vs
}

// c05Closure computes, with the independent walker, the set of objects
// reachable from the listed ones (value: how the object was first reached).
func c05Closure(schemas ast.Schemas, pkg string, allowed []string) map[string]string {
	out := map[string]string{}
	var queue []ast.Object
	for _, n := range allowed {
		if o, ok := schemas.LocateObject(pkg, n); ok {
			key := pkg + "." + o.Name
			if _, seen := out[key]; !seen {
				out[key] = "listed"
				queue = append(queue, o)
			}
		}
	}
	for len(queue) > 0 {
		o := queue[0]
		queue = queue[1:]
		one := ast.NewSchema(o.SelfRef.ReferredPkg, ast.SchemaMeta{})
		one.AddObject(o)
		for _, r := range irx.SchemaRefs(ast.Schemas{one}) {
			if r.Kind == "self_ref" || r.Kind == "mapping" {
				// a mapping target is always one of the union's branches, which
				// are references themselves; resolving the bare name in every
				// branch package would pull in unrelated same-named objects.
				continue
			}
			pkgs := []string{r.Pkg}
			for _, p := range pkgs {
				t, ok := schemas.LocateObject(p, r.Name)
				if !ok {
					continue
				}
				key := p + "." + t.Name
				if _, seen := out[key]; !seen {
					out[key] = r.Kind + ":" + refPositionClass(r.Where) + " from " + o.Name
					queue = append(queue, t)
				}
			}
		}
	}
	return out
}

func c05Config() irgen.Config {
	cfg := irgen.DefaultConfig()
	cfg.UnloadedPkgRefs = true
	cfg.ExtraNames = []string{"spec", "metadata"}
	return cfg
}

func TestC05(t *testing.T) {
	run := vlib.Begin(t, "C05")
	defer run.Finish(t)
	run.Describe(
		"Two input sources. (1) Modes passes / lang / filter (3:2:1 of 8): IRs of 1-3 packages x 1-7 objects built through cog's constructors (every kind, nesting <= 4, references within and across packages, into map keys, union branches, intersections, constant references, discriminator mappings, entry points; every reference into a loaded package resolves by construction). passes = sequence of 1-5 name-changing transformations (rename_object, PrefixObjectNames, duplicate_object, unspec, replace_reference to an existing object) with targets exact/case-flipped/other-package/absent 4:2:1:1; lang = built-in chain of go/java/php/python/typescript incl. builder derivation; filter = allowed_objects subset of one package. "+
			"(2) Mode parse (2 of 8): a generated SCHEMA goes through cog's own input loaders (codegen.Pipeline.LoadSchemas: JSON Schema 2 : OpenAPI 1 : CUE 1). 4 of 5 are reference-topology models: 2-7 definitions (structs, enums, scalars, aliases, named unions / intersections); for each definition first WHO refers to it is drawn (1 referring position with probability 2/3, else 2-3; the first referrer is an earlier definition so that everything is reachable from the entry point; later ones anywhere, incl. itself and back to the entry point) and THROUGH WHAT: a chain of 0-3 wrappers out of array items, map values (additionalProperties / [string]: T), nullable, union branch (anyOf / oneOf / A | B, reference first or last), intersection branch (allOf, JSON formats), field of an anonymous struct; plus fields that are a union of two references (OpenAPI: with a discriminator), CUE constant references (#Enum & \"a\"), whole definitions that are an alias / array / map / union / intersection of references. Declaration sites: JSON Schema root $ref or the entry definition inlined at the root, `definitions` or `$defs`, definitions nested inside another definition (#/definitions/Host/definitions/X); CUE definitions nested in the struct of their only referrer, definitions written as regular top-level fields, the entry point's fields as top-level fields under `forced_envelope` (the only CUE entry point); OpenAPI models spread over two files / packages with cross-file $refs (closed or with references back). 1 of 5 are models of the shared schema generator (smodel: every construct class incl. defaults, constraints, enums, named unions and collections, allOf, struct defaults on CUE references, two-package OpenAPI). What is done with the parsed IR: nothing (2/5), the built-in chain of one language + builders (1/5), 1-3 name-changing transformations (rename_object, PrefixObjectNames, duplicate_object (also into the second package), replace_reference between existing objects) (1/5), or the same input loaded again with allowed_objects = a random non-empty subset of its definitions (1/5). "+
			"Oracle: an independent reflective walker lists every reference-bearing position (type references wherever they sit, constant references, discriminator mapping targets, entry point and entry point type, builder targets). Parser output: every one that points into a loaded package must name an object there, and every object must be stored under its own name with a SelfRef naming itself. Transformations / chains: a target that dangles after must have dangled before. allowed_objects: the objects left must equal the walker-computed closure of the listed ones (for a parsed input: inside the input's own package, the filter runs per input). Non-trivial: a pass matched an object that is referenced elsewhere / the chain rewrote or created objects / the filter removed >=1 and kept >=2 objects / every parse case; distinct by case hash. Labels parse:sole_ref_via:<position> count the definitions that exist in the IR only if that one position declared them.",
		"references into packages that are not loaded are outside the claim",
		"a transformation or chain that returns an error is an acceptable outcome; so is a loader that refuses the input (counted: parse_rejected)",
		"a panic inside a transformation or a loader is not a C05 matter (reported under C04); such cases are skipped and counted. CUE hidden fields (_x) are not generated: the CUE front end panics on every one (unreachable HiddenLabel in simplecue.selectorLabel)",
		"discriminator mapping targets may live in the package of any branch of their union",
		"allowed_objects restricts one input before the inputs are merged: objects of the input that are reachable only through objects of ANOTHER input (a second OpenAPI file referring back) are not part of its closure",
		"explicit OpenAPI discriminator mappings are excluded from generation and counted (excluded_openapi_explicit_mapping): genuine unlisted defect, the front end keeps '#/components/schemas/X' as mapping target (witness/C05/openapi_explicit_mapping.json)",
	)
	if vlib.RunReplay(t, run, c05Check) {
		return
	}
	cfg := c05Config()
	rapid.Check(t, func(rt *rapid.T) {
		var c c05Case
		modes := []string{"passes", "passes", "passes", "lang", "lang", "filter", "parse", "parse"}
		if only := os.Getenv("VERIF_C05_MODE"); only != "" { // development aid: these modes only (comma separated)
			modes = strings.Split(only, ",")
		}
		c.Mode = rapid.SampledFrom(modes).Draw(rt, "mode")
		labels := []string{"mode:" + c.Mode}
		nontrivial := false
		if c.Mode != "parse" {
			c.IR = irgen.Draw(rt, cfg)
		}
		switch c.Mode {
		case "parse":
			pc, plabels := c05DrawParseCase(rt)
			c.Parse = &pc
			for _, l := range plabels {
				if strings.HasPrefix(l, "count:") {
					run.Count(strings.TrimPrefix(l, "count:"), 1)
					continue
				}
				labels = append(labels, l)
			}
			nontrivial = true
		case "passes":
			n := rapid.IntRange(1, 5).Draw(rt, "npasses")
			for i := 0; i < n; i++ {
				ps := passgen.DrawNameChanging(rt, c.IR)
				c.Passes = append(c.Passes, ps)
				labels = append(labels, "pass:"+ps.Kind)
				if ps.TargetClass != "" {
					labels = append(labels, "target:"+ps.TargetClass)
				}
			}
			nontrivial = c05PassesNontrivial(c)
		case "lang":
			c.Lang = rapid.SampledFrom(cogx.CodeLanguages).Draw(rt, "lang")
			labels = append(labels, "lang:"+c.Lang)
			nontrivial = len(c.IR.ObjectNames()) >= 2
		case "filter":
			p := c.IR[rapid.IntRange(0, len(c.IR)-1).Draw(rt, "filterpkg")]
			c.Pkg = p.Package
			names := make([]string, 0, len(p.Objects))
			for _, o := range p.Objects {
				names = append(names, o.Name)
			}
			k := rapid.IntRange(1, len(names)).Draw(rt, "nallowed")
			c.Allowed = rapid.Permutation(names).Draw(rt, "allowed")[:k]
			schemas := c.IR.Build()
			closure := c05Closure(schemas, c.Pkg, c.Allowed)
			total := 0
			for _, s := range schemas {
				total += s.Objects.Len()
			}
			nontrivial = len(closure) >= 2 && len(closure) < total
			if len(closure) > len(c.Allowed) {
				labels = append(labels, "filter_closure_adds_objects")
			}
			for _, via := range closure {
				if i := strings.IndexByte(via, ' '); i > 0 {
					labels = append(labels, "closure_via:"+via[:i])
				}
			}
		}
		// positions cog's own visitor does not traverse
		for _, r := range irx.SchemaRefs(c.IR.Build()) {
			if c.Mode == "parse" {
				break
			}
			if cls := refPositionClass(r.Where); cls == "map-key" || cls == "entry-point-type" {
				labels = append(labels, "has_ref:"+cls)
			}
			if r.Kind == "mapping" || r.Kind == "constant_ref" || r.Kind == "entry_point" {
				labels = append(labels, "has_ref:"+r.Kind)
			}
		}
		labels = dedupe(labels)
		key := uint64(0)
		if nontrivial {
			key = vlib.Hash(c)
		}
		run.Eval(key, labels...)
		if nontrivial && ((c.Mode != "parse" && len(c.IR.ObjectNames()) <= 4) || (c.Mode == "parse" && c.Parse.Model == nil && len(c.Parse.Schema.Defs) <= 3)) {
			run.Sample(c)
		}
		run.Pending(c)
		var vs []vlib.Violation
		if c.Mode == "parse" {
			var info c05ParseInfo
			vs, info = c05CheckParse(*c.Parse)
			run.Label(info.Labels...)
			for _, k := range info.Counters {
				run.Count(k, 1)
			}
		} else {
			vs = c05Check(c)
		}
		vs = skipPanics(run, vs)
		vlib.Fail(rt, run.Judge(c, vs))
	})
}

// skipPanics removes "skip:panic:" pseudo violations, counting them.
func skipPanics(run *vlib.Run, vs []vlib.Violation) []vlib.Violation {
	out := vs[:0]
	for _, v := range vs {
		if strings.HasPrefix(v.Sig, "skip:panic:") {
			run.Count("skipped_panics", 1)
			run.Count("skipped_"+strings.TrimPrefix(v.Sig, "skip:"), 1)
			continue
		}
		out = append(out, v)
	}
	return out
}

func dedupe(in []string) []string {
	seen := map[string]bool{}
	out := in[:0]
	for _, s := range in {
		if !seen[s] {
			seen[s] = true
			out = append(out, s)
		}
	}
	return out
}

// c05PassesNontrivial: at least one pass targets (exactly or case-insensitively)
// an object that some other position references, or is prefix/unspec on an IR
// holding references.
func c05PassesNontrivial(c c05Case) bool {
	schemas := c.IR.Build()
	refd := map[string]bool{}
	nrefs := 0
	for _, r := range irx.SchemaRefs(schemas) {
		if r.Kind == "self_ref" {
			continue
		}
		nrefs++
		refd[strings.ToLower(r.Target())] = true
	}
	for _, ps := range c.Passes {
		switch ps.Kind {
		case "prefix_object_names", "unspec":
			if nrefs > 0 {
				return true
			}
		default:
			if refd[strings.ToLower(ps.Pkg+"."+ps.Obj)] {
				return true
			}
		}
	}
	return false
}
