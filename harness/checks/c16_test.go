package checks

// C16 — builders are derived completely and type-correctly from the schemas.
// Model-based: the expected builder set and the per-field coverage are derived
// from the property's own wording and compared with BuilderGenerator.FromAST
// (what `cog inspect --ir builders` shows before veneers).

import (
	"fmt"
	"testing"

	"github.com/grafana/cog/internal/ast"
	"github.com/grafana/cog/verifharness/irgen"
	"github.com/grafana/cog/verifharness/vlib"
	"github.com/grafana/cog/verifharness/walk"
	"pgregory.net/rapid"
)

type c16Case struct {
	IR irgen.IRSpec `json:"ir"`
}

// resolveChain follows references across all schemas with a hop bound (an
// independent re-implementation: no cog resolver involved).
func resolveChain(schemas ast.Schemas, t ast.Type) (ast.Type, bool) {
	for hops := 0; hops < 64; hops++ {
		if t.Kind != ast.KindRef || t.Ref == nil {
			return t, true
		}
		found := false
		for _, s := range schemas {
			if s.Package == t.Ref.ReferredPkg && s.Objects.Has(t.Ref.ReferredType) {
				t = s.Objects.Get(t.Ref.ReferredType).Type
				found = true
				break
			}
		}
		if !found {
			return t, false
		}
	}
	return t, false
}

func typeClass(t ast.Type) string {
	c := string(t.Kind)
	if t.Nullable {
		c += "?"
	}
	return c
}

func c16Check(c c16Case) []vlib.Violation {
	schemas := c.IR.Build()
	var builders ast.Builders
	sig, msg, panicked := vlib.Guard(func() { builders = (&ast.BuilderGenerator{}).FromAST(schemas) })
	if panicked {
		return []vlib.Violation{vlib.V("skip:panic:"+sig, "FromAST panicked: %s", msg)}
	}
	var vs []vlib.Violation
	bad := func(sig string, format string, args ...any) { vs = append(vs, vlib.V(sig, format, args...)) }

	// expected builder set
	byObject := map[string][]ast.Builder{}
	for _, b := range builders {
		byObject[b.For.SelfRef.String()] = append(byObject[b.For.SelfRef.String()], b)
	}
	expected := map[string]bool{}
	for _, s := range schemas {
		s.Objects.Iterate(func(_ string, o ast.Object) {
			resolved, ok := resolveChain(schemas, o.Type)
			key := s.Package + "." + o.Name
			via := "direct"
			if o.Type.Kind == ast.KindRef {
				via = "alias"
				if o.Type.Ref.ReferredPkg != s.Package {
					via = "cross-package-alias"
				}
			}
			if ok && resolved.Kind == ast.KindStruct {
				expected[key] = true
				if len(byObject[key]) == 0 {
					bad("missing-builder:"+via, "object %s is a struct (%s) but has no builder", key, via)
				} else if len(byObject[key]) > 1 {
					bad("duplicate-builder:"+via, "object %s has %d builders", key, len(byObject[key]))
				}
			} else if len(byObject[key]) > 0 {
				bad("unexpected-builder:"+string(resolved.Kind), "object %s is not a struct (resolves to %s) but has a builder", key, resolved.Kind)
			}
		})
	}
	for key := range byObject {
		found := false
		for _, s := range schemas {
			s.Objects.Iterate(func(_ string, o ast.Object) {
				if s.Package+"."+o.Name == key {
					found = true
				}
			})
		}
		if !found {
			bad("builder-for-unknown-object", "a builder exists for %s which is not an object of the schemas", key)
		}
	}

	for _, b := range builders {
		key := b.For.SelfRef.String()
		if !expected[key] {
			continue
		}
		var obj ast.Object
		for _, s := range schemas {
			if s.Package == b.For.SelfRef.ReferredPkg && s.Objects.Has(b.For.SelfRef.ReferredType) {
				obj = s.Objects.Get(b.For.SelfRef.ReferredType)
			}
		}
		if b.Package != b.For.SelfRef.ReferredPkg || b.Name != obj.Name {
			bad("builder-identity", "builder for %s is named %s.%s", key, b.Package, b.Name)
		}
		if walk.Canon(b.For) != walk.Canon(obj) {
			bad("builder-for", "builder %s: For differs from the object it is built for", key)
		}
		resolved, _ := resolveChain(schemas, obj.Type)
		fieldNames := map[string]bool{}
		for _, f := range resolved.Struct.Fields {
			fieldNames[f.Name] = true
			// who covers the field?
			var opts []ast.Option
			for _, o := range b.Options {
				for _, a := range o.Assignments {
					if len(a.Path) > 0 && a.Path[0].Identifier == f.Name {
						opts = append(opts, o)
						break
					}
				}
			}
			var ctor []ast.Assignment
			for _, a := range b.Constructor.Assignments {
				if len(a.Path) > 0 && a.Path[0].Identifier == f.Name {
					ctor = append(ctor, a)
				}
			}
			literalConst := f.Type.Kind == ast.KindScalar && f.Type.Scalar != nil && f.Type.Scalar.Value != nil
			refResolved, refOK := resolveChain(schemas, f.Type)
			refConst := f.Type.Kind == ast.KindRef && refOK && refResolved.Kind == ast.KindScalar && refResolved.Scalar != nil && refResolved.Scalar.Value != nil
			constRef := f.Type.Kind == ast.KindConstantRef
			fc := typeClass(f.Type)
			if !f.Required {
				fc += ":optional"
			}
			switch {
			case literalConst || (refConst && f.Required && !f.Type.Nullable):
				want := f.Type
				cls := "literal-constant"
				if refConst {
					want = refResolved
					cls = "ref-to-constant"
				}
				if len(opts) > 0 {
					bad("option-for-fixed-field:"+cls+":"+fc, "builder %s: field %q has a value fixed by the schema (%v) but option %q assigns it", key, f.Name, want.Scalar.Value, opts[0].Name)
				}
				if len(ctor) != 1 {
					bad("constructor-constant-count:"+cls+":"+fc, "builder %s: field %q (fixed to %v) has %d constructor assignments, want 1", key, f.Name, want.Scalar.Value, len(ctor))
				} else if walk.Canon(ctor[0].Value.Constant) != walk.Canon(want.Scalar.Value) || ctor[0].Value.Argument != nil || len(ctor[0].Path) != 1 {
					bad("constructor-constant-value:"+cls+":"+fc, "builder %s: field %q: constructor assigns %s, the schema fixes %s", key, f.Name, walk.Canon(ctor[0].Value), walk.Canon(want.Scalar.Value))
				}
			case refConst:
				// optional / nullable reference to a constant: the value is not
				// fixed (it may be absent); either coverage is accepted as
				// long as it is exactly one
				if len(opts)+len(ctor) != 1 {
					bad("coverage-count:optional-ref-to-constant:"+fc, "builder %s: field %q is covered %d times", key, f.Name, len(opts)+len(ctor))
				}
			case constRef:
				if len(opts) > 0 || len(ctor) > 0 {
					bad("constant-reference-covered:"+fc, "builder %s: field %q is a constant reference (set by the type's own constructor) but has %d options / %d constructor assignments", key, f.Name, len(opts), len(ctor))
				}
			default:
				if len(ctor) > 0 {
					bad("constructor-for-free-field:"+fc, "builder %s: field %q is not fixed by the schema but the constructor assigns it", key, f.Name)
				}
				if len(opts) != 1 {
					bad(fmt.Sprintf("option-count:%d:%s", len(opts), fc), "builder %s: field %q is covered by %d options, want exactly 1", key, f.Name, len(opts))
					continue
				}
				o := opts[0]
				if o.Name != f.Name {
					bad("option-name:"+fc, "builder %s: option for field %q is named %q", key, f.Name, o.Name)
				}
				if len(o.Args) != 1 || o.Args[0].Name != f.Name || walk.Canon(o.Args[0].Type) != walk.Canon(f.Type) {
					bad("option-argument:"+fc, "builder %s: option %q must take one argument %q of the field's type %s, has %s", key, o.Name, f.Name, walk.Canon(f.Type), walk.Canon(o.Args))
					continue
				}
				if len(o.Assignments) != 1 {
					bad("option-assignments:"+fc, "builder %s: option %q has %d assignments, want 1", key, o.Name, len(o.Assignments))
					continue
				}
				a := o.Assignments[0]
				if len(a.Path) != 1 || a.Path[0].Identifier != f.Name || walk.Canon(a.Path[0].Type) != walk.Canon(f.Type) || a.Path[0].Index != nil {
					bad("assignment-path:"+fc, "builder %s: option %q assigns path %s, want [%s] of type %s", key, o.Name, walk.Canon(a.Path), f.Name, walk.Canon(f.Type))
				}
				if a.Value.Argument == nil || a.Value.Constant != nil || a.Value.Envelope != nil || walk.Canon(*a.Value.Argument) != walk.Canon(o.Args[0]) {
					bad("assignment-value:"+fc, "builder %s: option %q does not assign its argument: %s", key, o.Name, walk.Canon(a.Value))
				}
				if a.Method != ast.DirectAssignment {
					bad("assignment-method:"+fc, "builder %s: option %q uses method %q", key, o.Name, a.Method)
				}
				var wantC []string
				if f.Type.Kind == ast.KindScalar && f.Type.Scalar != nil {
					for _, tc := range f.Type.Scalar.Constraints {
						wantC = append(wantC, string(tc.Op)+" "+walk.Canon(tc.Args[0]))
					}
				}
				var gotC []string
				for _, ac := range a.Constraints {
					gotC = append(gotC, string(ac.Op)+" "+walk.Canon(ac.Parameter))
					if walk.Canon(ac.Argument) != walk.Canon(o.Args[0]) {
						bad("constraint-argument:"+fc, "builder %s: option %q: constraint %s is on argument %s", key, o.Name, ac.Op, walk.Canon(ac.Argument))
					}
				}
				if fmt.Sprint(wantC) != fmt.Sprint(gotC) {
					bad("assignment-constraints:"+fc, "builder %s: option %q carries constraints %v, the field declares %v", key, o.Name, gotC, wantC)
				}
				if f.Type.Default != nil {
					if o.Default == nil || len(o.Default.ArgsValues) != 1 || walk.Canon(o.Default.ArgsValues[0]) != walk.Canon(f.Type.Default) {
						bad("option-default:"+fc, "builder %s: option %q: default %s, the field declares %s", key, o.Name, walk.Canon(o.Default), walk.Canon(f.Type.Default))
					}
				} else if o.Default != nil {
					bad("option-default-invented:"+fc, "builder %s: option %q has a default %s the field does not declare", key, o.Name, walk.Canon(o.Default))
				}
				if walk.Canon(o.Comments) != walk.Canon(f.Comments) {
					bad("option-comments", "builder %s: option %q comments %s, field comments %s", key, o.Name, walk.Canon(o.Comments), walk.Canon(f.Comments))
				}
			}
		}
		for _, o := range b.Options {
			for _, a := range o.Assignments {
				if len(a.Path) == 0 || !fieldNames[a.Path[0].Identifier] {
					bad("option-assigns-unknown-field", "builder %s: option %q assigns %s which is not a field of the object", key, o.Name, walk.Canon(a.Path))
				}
			}
		}
		for _, a := range b.Constructor.Assignments {
			if len(a.Path) == 0 || !fieldNames[a.Path[0].Identifier] {
				bad("constructor-assigns-unknown-field", "builder %s: constructor assigns %s which is not a field of the object", key, walk.Canon(a.Path))
			}
		}
	}
	return vs
}

func c16Config() irgen.Config {
	cfg := irgen.DefaultConfig()
	cfg.ComposableSlots = true
	return cfg
}

func TestC16(t *testing.T) {
	run := vlib.Begin(t, "C16")
	defer run.Finish(t)
	run.Describe(
		"IRs of 1-3 packages: structs, aliases (chains, cross-package, same-named) of structs and of non-structs, literal constant fields (required/optional/nullable), required and optional references to constants in the same and in other packages, constant references, fields of every kind with defaults and constraints. Oracle: the derivation written from the property's wording, compared with BuilderGenerator.FromAST: builders <=> objects resolving to a struct; every field covered exactly once: by one option (one argument with the field's name, type and default; one direct assignment to the field carrying the field's constraints) or, for a value the schema fixes, by a constructor constant / the type's own constructor, never by an option. Non-trivial: >= 1 alias of a struct or >= 1 schema-fixed field; distinct by case hash.",
		"every reference points into a loaded package and resolves (references into packages that are not loaded are outside C16)",
		"an optional or nullable reference to a constant may be covered either way (the schema does not fix an absent value)",
		"option order is not compared",
	)
	if vlib.RunReplay(t, run, c16Check) {
		return
	}
	cfg := c16Config()
	rapid.Check(t, func(rt *rapid.T) {
		c := c16Case{IR: irgen.Draw(rt, cfg)}
		schemas := c.IR.Build()
		labels := []string{}
		nontrivial := false
		for _, s := range schemas {
			s.Objects.Iterate(func(_ string, o ast.Object) {
				resolved, ok := resolveChain(schemas, o.Type)
				if o.Type.Kind == ast.KindRef && ok && resolved.Kind == ast.KindStruct {
					nontrivial = true
					labels = append(labels, "alias_of_struct")
					if o.Type.Ref.ReferredPkg != s.Package {
						labels = append(labels, "cross_package_alias")
						if o.Type.Ref.ReferredType == o.Name {
							labels = append(labels, "same_named_cross_package_alias")
						}
					}
				}
				if ok && resolved.Kind == ast.KindStruct {
					for _, f := range resolved.Struct.Fields {
						switch {
						case f.Type.Kind == ast.KindScalar && f.Type.Scalar.Value != nil:
							nontrivial = true
							labels = append(labels, "literal_constant_field")
							if !f.Required || f.Type.Nullable {
								labels = append(labels, "optional_literal_constant_field")
							}
						case f.Type.Kind == ast.KindConstantRef:
							nontrivial = true
							labels = append(labels, "constant_ref_field")
						case f.Type.Kind == ast.KindRef:
							if r, ok := resolveChain(schemas, f.Type); ok && r.Kind == ast.KindScalar && r.Scalar.Value != nil {
								nontrivial = true
								labels = append(labels, "ref_to_constant_field")
							}
						case f.Type.Kind == ast.KindScalar && len(f.Type.Scalar.Constraints) > 0:
							labels = append(labels, "constrained_field")
							if f.Type.Nullable {
								labels = append(labels, "nullable_constrained_field")
							}
						}
						if f.Type.Default != nil {
							labels = append(labels, "field_with_default")
						}
					}
				}
			})
		}
		key := uint64(0)
		if nontrivial {
			key = vlib.Hash(c)
		}
		run.Pending(c)
		vs := skipPanics(run, c16Check(c))
		run.Eval(key, dedupe(labels)...)
		if nontrivial && len(c.IR.ObjectNames()) <= 4 {
			run.Sample(c)
		}
		vlib.Fail(rt, run.Judge(c, vs))
	})
}
