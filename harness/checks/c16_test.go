package checks

// C16 — builders are derived completely and type-correctly from the schemas.
// Model-based: the expected builder set and the per-field coverage are derived
// from the property's own wording and compared with BuilderGenerator.FromAST
// (what `cog inspect --ir builders` shows before veneers).

import (
	"fmt"
	"os"
	"reflect"
	"strings"
	"testing"

	"github.com/grafana/codejen"
	"github.com/grafana/cog/internal/ast"
	"github.com/grafana/cog/internal/ast/compiler"
	"github.com/grafana/cog/internal/languages"
	"github.com/grafana/cog/verifharness/cogx"
	"github.com/grafana/cog/verifharness/irgen"
	"github.com/grafana/cog/verifharness/vlib"
	"github.com/grafana/cog/verifharness/walk"
	"pgregory.net/rapid"
)

type c16Case struct {
	IR irgen.IRSpec `json:"ir"`
}

// resolveChain follows references across all schemas with a hop bound (an
// independent re-implementation: no cog resolver involved).
func resolveChain(schemas ast.Schemas, t ast.Type) (ast.Type, bool) {
	r, _, ok := resolveChainHops(schemas, t)
	return r, ok
}

// resolveChainHops also tells how many references were followed.
func resolveChainHops(schemas ast.Schemas, t ast.Type) (ast.Type, int, bool) {
	for hops := 0; hops < 64; hops++ {
		if t.Kind != ast.KindRef || t.Ref == nil {
			return t, hops, true
		}
		found := false
		for _, s := range schemas {
			if s.Package == t.Ref.ReferredPkg && s.Objects.Has(t.Ref.ReferredType) {
				t = s.Objects.Get(t.Ref.ReferredType).Type
				found = true
				break
			}
		}
		if !found {
			return t, hops, false
		}
	}
	return t, 64, false
}

func typeClass(t ast.Type) string {
	c := string(t.Kind)
	if t.Nullable {
		c += "?"
	}
	return c
}

// c16DummyLanguage is the language `cog inspect` uses when none is asked for:
// no compiler pass, no jenny.
type c16DummyLanguage struct{}

func (c16DummyLanguage) Name() string { return "dummy" }
func (c16DummyLanguage) Jennies(_ languages.Config) *codejen.JennyList[languages.Context] {
	return nil
}
func (c16DummyLanguage) CompilerPasses() compiler.Passes { return nil }

// c16Same: equal as IR values. reflect.DeepEqual is the fast path (it implies
// canonical equality); values that only differ by nil / empty collections are
// settled by the canonical text.
func c16Same(a, b any) bool {
	return reflect.DeepEqual(a, b) || walk.Canon(a) == walk.Canon(b)
}

// c16FieldNeedsOption: the field is neither fixed by the schema nor possibly
// covered by a constructor (the model's own classification, no cog resolver).
func c16FieldNeedsOption(schemas ast.Schemas, f ast.StructField) bool {
	if f.Type.Kind == ast.KindScalar && f.Type.Scalar != nil && f.Type.Scalar.Value != nil {
		return false
	}
	if f.Type.Kind == ast.KindConstantRef {
		return false
	}
	if f.Type.Kind == ast.KindRef {
		if r, ok := resolveChain(schemas, f.Type); ok && r.Kind == ast.KindScalar && r.Scalar != nil && r.Scalar.Value != nil {
			return false
		}
	}
	return true
}

// c16Optionless: no field of the struct needs an option.
func c16Optionless(schemas ast.Schemas, st ast.Type) bool {
	for _, f := range st.Struct.Fields {
		if c16FieldNeedsOption(schemas, f) {
			return false
		}
	}
	return true
}

// c16Check judges two stages against the same model:
//   - "derived": BuilderGenerator.FromAST on the schemas;
//   - "shown":   what `cog inspect --ir builders` prints: the schemas and the
//     builders of Pipeline.ContextForLanguage for the dummy language with
//     builders on and no veneer configured (passes, derivation, the veneer
//     rewriter, nil checks), judged against the schemas of that same context.
func c16Check(c c16Case) []vlib.Violation {
	return c16CheckBuilt(c, c.IR.Build())
}

// c16CheckBuilt: schemas is c.IR.Build() (neither stage writes to it:
// ContextForLanguage works on a deep copy).
func c16CheckBuilt(c c16Case, schemas ast.Schemas) []vlib.Violation {
	closed := c16RefsClosed(c.IR)
	var builders ast.Builders
	sig, msg, panicked := vlib.Guard(func() { builders = (&ast.BuilderGenerator{}).FromAST(schemas) })
	if panicked {
		if !closed {
			// a reference that does not resolve is outside C16 (the panic is C04's)
			return []vlib.Violation{vlib.V("skip:panic:"+sig, "FromAST panicked: %s", msg)}
		}
		return []vlib.Violation{vlib.V("no-builders:panic:"+sig, "every reference resolves, yet BuilderGenerator.FromAST panicked (no builder is derived at all): %s", msg)}
	}
	vs := c16Judge(schemas, builders, "")

	var ctx languages.Context
	var err error
	sig, msg, panicked = vlib.Guard(func() { ctx, err = cogx.ContextFor(c16DummyLanguage{}, schemas, true) })
	if panicked {
		if !closed {
			return append(vs, vlib.V("skip:panic:"+sig, "ContextForLanguage panicked: %s", msg))
		}
		return append(vs, vlib.V("shown:no-builders:panic:"+sig, "every reference resolves, yet Pipeline.ContextForLanguage (what `cog inspect --ir builders` runs) panicked: %s", msg))
	}
	if err != nil {
		return append(vs, vlib.V("shown:no-builders:error", "Pipeline.ContextForLanguage (what `cog inspect --ir builders` runs) failed: %v", err))
	}
	seen := map[string]bool{}
	for _, v := range vs {
		seen[v.Msg] = true
	}
	for _, v := range c16Judge(ctx.Schemas, ctx.Builders, "shown:") {
		if seen[strings.TrimPrefix(v.Msg, "shown: ")] {
			continue // already reported for the derived stage
		}
		vs = append(vs, v)
	}
	return vs
}

// c16Judge compares builders with the derivation the property describes.
// stage is "" (derived) or "shown:".
func c16Judge(schemas ast.Schemas, builders ast.Builders, stage string) []vlib.Violation {
	var vs []vlib.Violation
	bad := func(sig string, format string, args ...any) {
		v := vlib.V(stage+sig, format, args...)
		if stage != "" {
			v.Msg = strings.TrimSuffix(stage, ":") + ": " + v.Msg
		}
		vs = append(vs, v)
	}
	strictOptionless := os.Getenv("VERIF_C16_STRICT_OPTIONLESS") != ""

	// expected builder set
	byObject := map[string][]ast.Builder{}
	for _, b := range builders {
		byObject[b.For.SelfRef.String()] = append(byObject[b.For.SelfRef.String()], b)
	}
	expected := map[string]bool{}
	for _, s := range schemas {
		s.Objects.Iterate(func(_ string, o ast.Object) {
			resolved, ok := resolveChain(schemas, o.Type)
			key := s.Package + "." + o.Name
			via := "direct"
			if o.Type.Kind == ast.KindRef {
				via = "alias"
				if o.Type.Ref.ReferredPkg != s.Package {
					via = "cross-package-alias"
				}
			}
			if ok && resolved.Kind == ast.KindStruct {
				expected[key] = true
				if len(byObject[key]) == 0 {
					if stage != "" && !strictOptionless && c16Optionless(schemas, resolved) {
						// the veneer rewriter drops builders that have no option
						// ("dismissed"), with or without rules: see the assumptions
						return
					}
					bad("missing-builder:"+via, "object %s is a struct (%s) but has no builder", key, via)
				} else if len(byObject[key]) > 1 {
					bad("duplicate-builder:"+via, "object %s has %d builders", key, len(byObject[key]))
				}
			} else if len(byObject[key]) > 0 {
				bad("unexpected-builder:"+string(resolved.Kind), "object %s is not a struct (resolves to %s) but has a builder", key, resolved.Kind)
			}
		})
	}
	for key := range byObject {
		found := false
		for _, s := range schemas {
			s.Objects.Iterate(func(_ string, o ast.Object) {
				if s.Package+"."+o.Name == key {
					found = true
				}
			})
		}
		if !found {
			bad("builder-for-unknown-object", "a builder exists for %s which is not an object of the schemas", key)
		}
	}

	for _, b := range builders {
		key := b.For.SelfRef.String()
		if !expected[key] {
			continue
		}
		var obj ast.Object
		for _, s := range schemas {
			if s.Package == b.For.SelfRef.ReferredPkg && s.Objects.Has(b.For.SelfRef.ReferredType) {
				obj = s.Objects.Get(b.For.SelfRef.ReferredType)
			}
		}
		if b.Package != b.For.SelfRef.ReferredPkg || b.Name != obj.Name {
			bad("builder-identity", "builder for %s is named %s.%s", key, b.Package, b.Name)
		}
		if !c16Same(b.For, obj) {
			bad("builder-for", "builder %s: For differs from the object it is built for", key)
		}
		resolved, _ := resolveChain(schemas, obj.Type)
		fieldNames := map[string]bool{}
		for _, f := range resolved.Struct.Fields {
			fieldNames[f.Name] = true
			// who covers the field?
			var opts []ast.Option
			for _, o := range b.Options {
				for _, a := range o.Assignments {
					if len(a.Path) > 0 && a.Path[0].Identifier == f.Name {
						opts = append(opts, o)
						break
					}
				}
			}
			var ctor []ast.Assignment
			for _, a := range b.Constructor.Assignments {
				if len(a.Path) > 0 && a.Path[0].Identifier == f.Name {
					ctor = append(ctor, a)
				}
			}
			literalConst := f.Type.Kind == ast.KindScalar && f.Type.Scalar != nil && f.Type.Scalar.Value != nil
			refResolved, refOK := resolveChain(schemas, f.Type)
			refConst := f.Type.Kind == ast.KindRef && refOK && refResolved.Kind == ast.KindScalar && refResolved.Scalar != nil && refResolved.Scalar.Value != nil
			constRef := f.Type.Kind == ast.KindConstantRef
			fc := typeClass(f.Type)
			if !f.Required {
				fc += ":optional"
			}
			switch {
			case literalConst || (refConst && f.Required && !f.Type.Nullable):
				want := f.Type
				cls := "literal-constant"
				if refConst {
					want = refResolved
					cls = "ref-to-constant"
				}
				if len(opts) > 0 {
					bad("option-for-fixed-field:"+cls+":"+fc, "builder %s: field %q has a value fixed by the schema (%v) but option %q assigns it", key, f.Name, want.Scalar.Value, opts[0].Name)
				}
				if len(ctor) != 1 {
					bad("constructor-constant-count:"+cls+":"+fc, "builder %s: field %q (fixed to %v) has %d constructor assignments, want 1", key, f.Name, want.Scalar.Value, len(ctor))
				} else if !c16Same(ctor[0].Value.Constant, want.Scalar.Value) || ctor[0].Value.Argument != nil || len(ctor[0].Path) != 1 {
					bad("constructor-constant-value:"+cls+":"+fc, "builder %s: field %q: constructor assigns %s, the schema fixes %s", key, f.Name, walk.Canon(ctor[0].Value), walk.Canon(want.Scalar.Value))
				}
			case refConst:
				// optional / nullable reference to a constant: the value is not
				// fixed (it may be absent); either coverage is accepted as
				// long as it is exactly one
				if len(opts)+len(ctor) != 1 {
					bad("coverage-count:optional-ref-to-constant:"+fc, "builder %s: field %q is covered %d times", key, f.Name, len(opts)+len(ctor))
				}
			case constRef:
				if len(opts) > 0 || len(ctor) > 0 {
					bad("constant-reference-covered:"+fc, "builder %s: field %q is a constant reference (set by the type's own constructor) but has %d options / %d constructor assignments", key, f.Name, len(opts), len(ctor))
				}
			default:
				if len(ctor) > 0 {
					bad("constructor-for-free-field:"+fc, "builder %s: field %q is not fixed by the schema but the constructor assigns it", key, f.Name)
				}
				if len(opts) != 1 {
					bad(fmt.Sprintf("option-count:%d:%s", len(opts), fc), "builder %s: field %q is covered by %d options, want exactly 1", key, f.Name, len(opts))
					continue
				}
				o := opts[0]
				if o.Name != f.Name {
					bad("option-name:"+fc, "builder %s: option for field %q is named %q", key, f.Name, o.Name)
				}
				if len(o.Args) != 1 || o.Args[0].Name != f.Name || !c16Same(o.Args[0].Type, f.Type) {
					bad("option-argument:"+fc, "builder %s: option %q must take one argument %q of the field's type %s, has %s", key, o.Name, f.Name, walk.Canon(f.Type), walk.Canon(o.Args))
					continue
				}
				if len(o.Assignments) != 1 {
					bad("option-assignments:"+fc, "builder %s: option %q has %d assignments, want 1", key, o.Name, len(o.Assignments))
					continue
				}
				a := o.Assignments[0]
				if len(a.Path) != 1 || a.Path[0].Identifier != f.Name || !c16Same(a.Path[0].Type, f.Type) || a.Path[0].Index != nil {
					bad("assignment-path:"+fc, "builder %s: option %q assigns path %s, want [%s] of type %s", key, o.Name, walk.Canon(a.Path), f.Name, walk.Canon(f.Type))
				}
				if a.Value.Argument == nil || a.Value.Constant != nil || a.Value.Envelope != nil || !c16Same(*a.Value.Argument, o.Args[0]) {
					bad("assignment-value:"+fc, "builder %s: option %q does not assign its argument: %s", key, o.Name, walk.Canon(a.Value))
				}
				if a.Method != ast.DirectAssignment {
					bad("assignment-method:"+fc, "builder %s: option %q uses method %q", key, o.Name, a.Method)
				}
				var wantC []string
				if f.Type.Kind == ast.KindScalar && f.Type.Scalar != nil {
					for _, tc := range f.Type.Scalar.Constraints {
						wantC = append(wantC, string(tc.Op)+" "+walk.Canon(tc.Args[0]))
					}
				}
				var gotC []string
				for _, ac := range a.Constraints {
					gotC = append(gotC, string(ac.Op)+" "+walk.Canon(ac.Parameter))
					if !c16Same(ac.Argument, o.Args[0]) {
						bad("constraint-argument:"+fc, "builder %s: option %q: constraint %s is on argument %s", key, o.Name, ac.Op, walk.Canon(ac.Argument))
					}
				}
				if fmt.Sprint(wantC) != fmt.Sprint(gotC) {
					bad("assignment-constraints:"+fc, "builder %s: option %q carries constraints %v, the field declares %v", key, o.Name, gotC, wantC)
				}
				if f.Type.Default != nil {
					if o.Default == nil || len(o.Default.ArgsValues) != 1 || !c16Same(o.Default.ArgsValues[0], f.Type.Default) {
						bad("option-default:"+fc, "builder %s: option %q: default %s, the field declares %s", key, o.Name, walk.Canon(o.Default), walk.Canon(f.Type.Default))
					}
				} else if o.Default != nil {
					bad("option-default-invented:"+fc, "builder %s: option %q has a default %s the field does not declare", key, o.Name, walk.Canon(o.Default))
				}
				if !c16Same(o.Comments, f.Comments) {
					bad("option-comments", "builder %s: option %q comments %s, field comments %s", key, o.Name, walk.Canon(o.Comments), walk.Canon(f.Comments))
				}
			}
		}
		for _, o := range b.Options {
			for _, a := range o.Assignments {
				if len(a.Path) == 0 || !fieldNames[a.Path[0].Identifier] {
					bad("option-assigns-unknown-field", "builder %s: option %q assigns %s which is not a field of the object", key, o.Name, walk.Canon(a.Path))
				}
			}
		}
		for _, a := range b.Constructor.Assignments {
			if len(a.Path) == 0 || !fieldNames[a.Path[0].Identifier] {
				bad("constructor-assigns-unknown-field", "builder %s: constructor assigns %s which is not a field of the object", key, walk.Canon(a.Path))
			}
		}
	}
	return vs
}

func c16Config() irgen.Config {
	cfg := irgen.DefaultConfig()
	cfg.ComposableSlots = true
	return cfg
}

// c16Labels describes the case for the coverage accounting (from the built IR
// alone, whatever way it was generated).
func c16Labels(schemas ast.Schemas) (labels []string, nontrivial bool) {
	chainBucket := func(prefix string, hops int) {
		switch {
		case hops >= 10:
			labels = append(labels, prefix+"_10plus_hops")
		case hops >= 7:
			labels = append(labels, prefix+"_7to9_hops")
		case hops >= 4:
			labels = append(labels, prefix+"_4to6_hops")
		case hops >= 2:
			labels = append(labels, prefix+"_2to3_hops")
		}
	}
	for _, s := range schemas {
		s.Objects.Iterate(func(_ string, o ast.Object) {
			resolved, hops, ok := resolveChainHops(schemas, o.Type)
			if !ok || resolved.Kind != ast.KindStruct {
				return
			}
			if o.Type.Kind == ast.KindRef {
				nontrivial = true
				labels = append(labels, "alias_of_struct")
				chainBucket("alias_of_struct", hops)
				if o.Type.Ref.ReferredPkg != s.Package {
					labels = append(labels, "cross_package_alias")
					if o.Type.Ref.ReferredType == o.Name {
						labels = append(labels, "same_named_cross_package_alias")
					}
				}
			}
			if c16Optionless(schemas, resolved) {
				labels = append(labels, "struct_without_option_bearing_field")
			}
			fields := resolved.Struct.Fields
			for i, f := range fields {
				switch {
				case f.Type.Kind == ast.KindScalar && f.Type.Scalar.Value != nil:
					nontrivial = true
					labels = append(labels, "literal_constant_field")
					if !f.Required || f.Type.Nullable {
						labels = append(labels, "optional_literal_constant_field")
					}
				case f.Type.Kind == ast.KindConstantRef:
					nontrivial = true
					labels = append(labels, "constant_ref_field")
				case f.Type.Kind == ast.KindRef:
					r, fhops, ok := resolveChainHops(schemas, f.Type)
					if ok && r.Kind == ast.KindScalar && r.Scalar.Value != nil {
						nontrivial = true
						labels = append(labels, "ref_to_constant_field")
						chainBucket("ref_to_constant_field", fhops)
						if f.Required && !f.Type.Nullable {
							chainBucket("required_ref_to_constant_field", fhops)
						}
						if f.Type.Ref.ReferredPkg != s.Package {
							labels = append(labels, "cross_package_ref_to_constant_field")
						}
					} else if ok {
						chainBucket("ref_field", fhops)
					}
				case f.Type.Kind == ast.KindScalar && len(f.Type.Scalar.Constraints) > 0:
					labels = append(labels, "constrained_field")
					if f.Type.Nullable {
						labels = append(labels, "nullable_constrained_field")
					}
				}
				if f.Type.Default != nil {
					labels = append(labels, "field_with_default")
				}
				for _, g := range fields[i+1:] {
					cls := ""
					switch {
					case strings.EqualFold(f.Name, g.Name):
						cls = "fields_differing_by_case"
					case normName(f.Name) == normName(g.Name):
						cls = "fields_differing_by_case_and_separators"
					case strings.HasPrefix(strings.ToLower(f.Name), strings.ToLower(g.Name)) || strings.HasPrefix(strings.ToLower(g.Name), strings.ToLower(f.Name)):
						cls = "field_name_prefix_of_sibling"
					}
					if cls == "" {
						continue
					}
					labels = append(labels, cls)
					if cls != "field_name_prefix_of_sibling" {
						nontrivial = true
						if c16FieldNeedsOption(schemas, f) && c16FieldNeedsOption(schemas, g) {
							labels = append(labels, cls+"_both_free")
						} else {
							labels = append(labels, cls+"_one_fixed")
						}
					}
				}
			}
		})
	}
	return dedupe(labels), nontrivial
}

var c16Separators = strings.NewReplacer("_", "", "-", "")

func normName(s string) string {
	return strings.ToLower(c16Separators.Replace(s))
}

func TestC16(t *testing.T) {
	run := vlib.Begin(t, "C16")
	defer run.Finish(t)
	run.Describe(
		"IRs of 1-3 packages drawn by the IR generator (structs, aliases (chains, cross-package, same-named) of structs and of non-structs, literal constant fields (required/optional/nullable), required and optional references to constants in the same and in other packages, constant references, fields of every kind with defaults and constraints), 5 cases in 7 widened by (2 in 7 each, 1 in 7 both): (chains) 1-2 acyclic reference chains of 1-16 hops, every hop an alias object placed in any loaded package at any position, optionally re-using the referred object's name in another package, ending in a struct / an alias of one / a constant of any scalar kind (zero values included) / any other object, with 0-2 required / optional / nullable fields of existing structs typed by the head or an inner hop of the chain; (look-alike fields) 1-2 structs get 1-3 sibling fields whose names equal an existing field's name under a lossy comparison (first letter / all letters / one letter case-flipped, camel<->snake, separators dropped, leading / trailing underscore, plural, suffix, prefix of the name), of a copied or fresh type (free, constrained, with default, nullable, reference, literal constant), before or after the field they resemble. Oracle: the derivation written from the property's wording (own reference resolver, no cog resolver) compared with TWO stages: BuilderGenerator.FromAST, and the builders + schemas of Pipeline.ContextForLanguage for the language-less `dummy` language with builders on and no veneer (= what `cog inspect --ir builders` prints: passes, derivation, veneer rewriter, nil checks). In both: builders <=> objects resolving to a struct (exactly one each, named after and carrying the object); every field covered exactly once: by one option (same name; one argument with the field's name, type and default; one direct assignment to the field carrying the field's constraints, bound to that argument) or, for a value the schema fixes, by one constructor constant of that value / the type's own constructor, never by an option; no option or constructor assignment for anything that is not a field. A panic or error of either stage on an IR whose references all resolve is a violation (no builder is shown at all). Non-trivial: >= 1 alias of a struct, >= 1 schema-fixed field or >= 1 pair of look-alike fields; distinct by case hash.",
		"every reference points into a loaded package and resolves, reference chains are acyclic (references into packages that are not loaded are outside C16)",
		"an optional or nullable reference to a constant may be covered either way (the schema does not fix an absent value)",
		"option order is not compared",
		"shown stage: a struct none of whose fields needs an option (no field, or only schema-fixed fields) may have no builder: the veneer rewriter dismisses builders without options even when no rule is configured (label struct_without_option_bearing_field counts the cases; VERIF_C16_STRICT_OPTIONLESS=1 turns the allowance off); the derived stage demands that builder",
	)
	if vlib.RunReplay(t, run, c16Check) {
		return
	}
	cfg := c16Config()
	rapid.Check(t, func(rt *rapid.T) {
		c := c16Case{IR: c16Shape(rt, irgen.Draw(rt, cfg))}
		schemas := c.IR.Build()
		labels, nontrivial := c16Labels(schemas)
		key := uint64(0)
		if nontrivial {
			key = vlib.Hash(c)
		}
		run.Pending(c)
		vs := skipPanics(run, c16CheckBuilt(c, schemas))
		run.Eval(key, labels...)
		if nontrivial && len(c.IR.ObjectNames()) <= 4 {
			run.Sample(c)
		}
		vlib.Fail(rt, run.Judge(c, vs))
	})
}
