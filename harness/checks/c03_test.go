package checks

// C03 — generation is deterministic: the same pipeline run again produces the
// same paths with byte-identical contents and the same IR.

import (
	"crypto/sha256"
	"encoding/hex"
	"encoding/json"
	"fmt"
	"os"
	"path/filepath"
	"sort"
	"strings"
	"testing"

	"github.com/grafana/codejen"
	"github.com/grafana/cog/internal/ast"
	"github.com/grafana/cog/internal/ast/compiler"
	"github.com/grafana/cog/internal/codegen"
	"github.com/grafana/cog/internal/languages"
	"github.com/grafana/cog/verifharness/e2"
	"github.com/grafana/cog/verifharness/smodel"
	"github.com/grafana/cog/verifharness/vlib"
	"pgregory.net/rapid"
)

// pipeCase is a whole pipeline: one or several inputs and an output
// configuration.
type pipeCase struct {
	// Inputs: schema cases of distinct packages (each may itself be split in
	// two packages)
	Inputs    []schemaCase  `json:"inputs"`
	Config    e2.OutputSpec `json:"config"`
	Languages []string      `json:"languages"`
}

var allLanguages = []string{"go", "python", "java", "typescript", "php", "jsonschema", "openapi"}

func (c pipeCase) inputSpecs() []e2.InputSpec {
	var out []e2.InputSpec
	for _, in := range c.Inputs {
		out = append(out, in.inputs()...)
	}
	return out
}

// spec returns the output configuration restricted to the selected languages.
func (c pipeCase) spec(langs []string) e2.OutputSpec {
	o := c.Config
	has := map[string]bool{}
	for _, l := range langs {
		has[l] = true
	}
	if !has["go"] {
		o.Go = nil
	} else {
		g := *o.Go
		g.PackageRoot = "verifgen/x/go"
		o.Go = &g
	}
	if !has["python"] {
		o.Python = nil
	}
	if !has["java"] {
		o.Java = nil
	}
	if !has["typescript"] {
		o.Typescript = nil
	}
	if !has["php"] {
		o.PHP = nil
	}
	o.JSONSchema = has["jsonschema"]
	o.OpenAPI = has["openapi"]
	return o
}

type pipeOutcome struct {
	files    map[string]string // path -> sha256
	irHash   string
	irJSON   []byte
	err      string
	panicked bool
}

func hashBytes(b []byte) string {
	s := sha256.Sum256(b)
	return hex.EncodeToString(s[:8])
}

// runPipe runs the pipeline once, in process, from scratch.
func runPipe(work string, inputs []e2.InputSpec, o e2.OutputSpec, withIR bool) pipeOutcome {
	out := pipeOutcome{files: map[string]string{}}
	_, msg, panicked := vlib.Guard(func() {
		pl, err := e2.NewPipeline(work, "x/%l", inputs, o)
		if err != nil {
			out.err = err.Error()
			return
		}
		if withIR {
			schemas, err := e2.LoadSchemas(pl)
			if err != nil {
				out.err = "load: " + err.Error()
				return
			}
			raw, _ := json.Marshal(schemas)
			out.irHash = hashBytes(raw)
			if os.Getenv("VERIF_DEBUG_DIR") != "" {
				out.irJSON = raw
			}
			// a fresh pipeline for the run (LoadSchemas caches nothing we rely on)
			pl, err = e2.NewPipeline(work, "x/%l", inputs, o)
			if err != nil {
				out.err = err.Error()
				return
			}
		}
		files, err := e2.Run(pl)
		if err != nil {
			out.err = err.Error()
			return
		}
		for p, content := range files {
			out.files[p] = hashBytes(content)
		}
	})
	if panicked {
		out.panicked = true
		out.err = "panic: " + firstLine(msg)
	}
	return out
}

// diffFiles lists the paths whose presence or content differ.
func diffFiles(a, b map[string]string) (onlyA, onlyB, changed []string) {
	for p, h := range a {
		if hb, ok := b[p]; !ok {
			onlyA = append(onlyA, p)
		} else if hb != h {
			changed = append(changed, p)
		}
	}
	for p := range b {
		if _, ok := a[p]; !ok {
			onlyB = append(onlyB, p)
		}
	}
	sort.Strings(onlyA)
	sort.Strings(onlyB)
	sort.Strings(changed)
	return
}

// fileClass names what kind of file a path is (for signatures).
func fileClass(path string) string {
	parts := strings.Split(path, "/")
	lang := "?"
	if len(parts) > 1 {
		lang = parts[1]
	}
	base := filepath.Base(path)
	kind := strings.TrimPrefix(filepath.Ext(base), ".")
	switch {
	case strings.Contains(path, "/docs/"):
		kind = "apiref"
	case strings.Contains(base, "builder") || strings.Contains(path, "/builders/") || strings.Contains(base, "Builder"):
		kind = "builder"
	case strings.Contains(base, "converter") || strings.Contains(base, "Converter"):
		kind = "converter"
	case strings.Contains(path, "/cog/"):
		kind = "runtime"
	case strings.HasPrefix(base, "index") || strings.HasPrefix(base, "__init__"):
		kind = "index"
	default:
		kind = "types"
	}
	return lang + ":" + kind
}

// c03Case is a pipeline with the parts only C03 generates: hand-rendered
// inputs, veneer files laid out in named directories. (A replay file in the
// older format - a bare pipeCase - still decodes.)
type c03Case struct {
	pipeCase
	// Family: "" / "pipeline" (general pipelines), "values", "veneers"
	Family string `json:"family,omitempty"`
	// RawInputs: inputs given as text (after the ones of Inputs)
	RawInputs []e2.InputSpec `json:"raw_inputs,omitempty"`
	// VeneerDirs: the entries of `transformations.builders`, in configuration
	// order, each with its files
	VeneerDirs []c03VeneerDir `json:"veneer_dirs,omitempty"`
	// Inspect: the languages `cog inspect --language` is run for (besides no
	// language at all)
	Inspect []string `json:"inspect,omitempty"`
	Labels  []string `json:"labels,omitempty"`
}

func (c c03Case) allInputSpecs() []e2.InputSpec {
	return append(c.pipeCase.inputSpecs(), c.RawInputs...)
}

// dummyLanguage is what `cog inspect` uses when no --language is given.
type dummyLanguage struct{}

func (dummyLanguage) Name() string { return "dummy" }
func (dummyLanguage) Jennies(_ languages.Config) *codejen.JennyList[languages.Context] {
	return nil
}
func (dummyLanguage) CompilerPasses() compiler.Passes { return nil }

type c03Outcome struct {
	files map[string]string // path -> sha256
	// ir: what `cog inspect` shows. "types" is the IR common to all languages;
	// "types:<l>" / "builders:<l>" the IRs for one language ("dummy": none)
	ir       map[string]string
	irJSON   map[string][]byte
	content  map[string][]byte // debugging aid (VERIF_DEBUG_DIR)
	err      string
	panicked bool
}

// c03Pipeline builds the pipeline of the case from scratch.
func c03Pipeline(work string, c c03Case, inputs []e2.InputSpec, o e2.OutputSpec) (*codegen.Pipeline, error) {
	pl, err := e2.NewPipeline(work, "x/%l", inputs, o)
	if err != nil {
		return nil, err
	}
	for _, d := range c.VeneerDirs {
		dir := filepath.Join(work, "cfg", d.Name)
		if err := os.MkdirAll(dir, 0o755); err != nil {
			return nil, err
		}
		for _, f := range d.Files {
			if err := os.WriteFile(filepath.Join(dir, f.Name), []byte(f.Content), 0o644); err != nil {
				return nil, err
			}
		}
		pl.Transforms.VeneersDirectories = append(pl.Transforms.VeneersDirectories, dir)
	}
	return pl, nil
}

// c03RunOnce does what `cog inspect` (types, then types and builders per
// inspected language) and `cog generate` do, each from a pipeline built from
// scratch.
func c03RunOnce(work string, c c03Case, inputs []e2.InputSpec, o e2.OutputSpec) c03Outcome {
	out := c03Outcome{files: map[string]string{}, ir: map[string]string{}}
	debug := os.Getenv("VERIF_DEBUG_DIR") != ""
	if debug {
		out.irJSON = map[string][]byte{}
	}
	record := func(key string, v any) {
		raw, _ := json.Marshal(v)
		out.ir[key] = hashBytes(raw)
		if debug {
			out.irJSON[key] = raw
		}
	}
	_, msg, panicked := vlib.Guard(func() {
		for i, lang := range append([]string{"dummy"}, c.Inspect...) {
			pl, err := c03Pipeline(work, c, inputs, o)
			if err != nil {
				out.err = err.Error()
				return
			}
			schemas, err := e2.LoadSchemas(pl)
			if err != nil {
				out.err = "load: " + err.Error()
				return
			}
			if i == 0 {
				record("types", schemas)
			}
			var language languages.Language = dummyLanguage{}
			if lang != "dummy" {
				all, err := pl.OutputLanguages()
				if err != nil {
					out.err = err.Error()
					return
				}
				if language = all[lang]; language == nil {
					continue
				}
			}
			ctx, err := pl.ContextForLanguage(language, schemas)
			if err != nil {
				out.err = "inspect " + lang + ": " + err.Error()
				return
			}
			record("types:"+lang, ctx.Schemas)
			builders := ctx.Builders
			if c.hasComposeVeneer() && os.Getenv("VERIF_C03_LENIENT_COMPOSE") != "" {
				// The order of the builders in `cog inspect --ir builders` used to
				// change from run to run with a `compose` veneer (ComposeBuilders
				// ranged over a map): repaired in cog (fix 053ea48), so the order is
				// compared. VERIF_C03_LENIENT_COMPOSE=1 compares them as a set again.
				builders = append(ast.Builders{}, builders...)
				sort.SliceStable(builders, func(i, j int) bool {
					if builders[i].Package != builders[j].Package {
						return builders[i].Package < builders[j].Package
					}
					return builders[i].Name < builders[j].Name
				})
			}
			record("builders:"+lang, builders)
		}
		pl, err := c03Pipeline(work, c, inputs, o)
		if err != nil {
			out.err = err.Error()
			return
		}
		files, err := e2.Run(pl)
		if err != nil {
			out.err = err.Error()
			return
		}
		for p, content := range files {
			out.files[p] = hashBytes(content)
		}
		if debug {
			out.content = files
		}
	})
	if panicked {
		out.panicked = true
		out.err = "panic: " + firstLine(msg)
	}
	return out
}

func c03Check(c c03Case) []vlib.Violation { return c03CheckN(nil, c, 6) }

// c03AvoidPHPConverterHang: same precaution as C07's (c07AvoidPHPConverterHang):
// PHP converters, veneers and a model that may lead back to itself (text inputs
// are not analysed: they count as such) do not go together in a check that has
// no watchdog.
func c03AvoidPHPConverterHang(run *vlib.Run, c *c03Case) {
	if !c.Config.Converters || !c.Config.Builders || !contains(c.Languages, "php") || (len(c.Config.Veneers) == 0 && len(c.VeneerDirs) == 0) {
		return
	}
	recursive := len(c.RawInputs) > 0
	for _, in := range c.Inputs {
		if in.Model != nil && modelHasRecursiveStruct(in.Model) {
			recursive = true
		}
	}
	if !recursive {
		return
	}
	count(run, "excluded:php_converters_with_veneers_on_a_recursive_model", 1)
	var kept []string
	for _, l := range c.Languages {
		if l != "php" {
			kept = append(kept, l)
		}
	}
	if len(kept) == 0 {
		c.Config.Converters = false
		return
	}
	c.Languages = kept
	var inspect []string
	for _, l := range c.Inspect {
		if l != "php" {
			inspect = append(inspect, l)
		}
	}
	c.Inspect = inspect
}

func c03CheckN(run *vlib.Run, c c03Case, repeats int) []vlib.Violation {
	c03AvoidPHPConverterHang(run, &c)
	var out []vlib.Violation
	work := workDir("c03")
	defer removeAll(work)
	inputs := c.allInputSpecs()
	o := c.spec(c.Languages)
	if dir := os.Getenv("VERIF_DEBUG_DIR"); dir != "" {
		// debugging aid: the case being run (a run that never returns leaves it behind)
		_ = os.MkdirAll(dir, 0o755)
		raw, _ := json.Marshal(map[string]any{"property": "C03", "case": c})
		_ = os.WriteFile(filepath.Join(dir, fmt.Sprintf("current_%d.json", os.Getpid())), raw, 0o644)
	}
	first := c03RunOnce(filepath.Join(work, "in"), c, inputs, o)
	if first.panicked {
		// (panics are C04's matter)
		count(run, "skipped_panics", 1)
		count(run, "skipped_panics:"+c.family(), 1)
		note(run, "run panics (%s family): %s", c.family(), errSummary(first.err))
		return nil
	}
	if first.err == "" {
		count(run, "programs", 1)
		count(run, "programs:"+c.family(), 1)
		if c.hasComposeVeneer() {
			count(run, "compose_veneer_builders_ir_order_compared", 1)
		}
	} else {
		count(run, "rejected", 1)
		count(run, "rejected:"+c.family(), 1)
		note(run, "run reports an error: %s", errSummary(first.err))
	}
	for r := 1; r < repeats; r++ {
		again := c03RunOnce(filepath.Join(work, "in"), c, inputs, o)
		count(run, "reruns", 1)
		if (again.err == "") != (first.err == "") {
			out = append(out, vlib.V("outcome-differs", "run 1: %q, run %d: %q", firstLine(first.err), r+1, firstLine(again.err)))
			break
		}
		var irKeys []string
		for k := range first.ir {
			irKeys = append(irKeys, k)
		}
		sort.Strings(irKeys)
		for _, k := range irKeys {
			if first.ir[k] == again.ir[k] {
				continue
			}
			if dir := os.Getenv("VERIF_DEBUG_DIR"); dir != "" {
				_ = os.MkdirAll(dir, 0o755)
				name := strings.ReplaceAll(k, ":", "_")
				_ = os.WriteFile(filepath.Join(dir, "ir_"+name+"_a.json"), first.irJSON[k], 0o644)
				_ = os.WriteFile(filepath.Join(dir, "ir_"+name+"_b.json"), again.irJSON[k], 0o644)
			}
			if k == "types" {
				// (the signature of the check as first built)
				out = append(out, vlib.V("ir-differs", "the IR shown by `cog inspect` differs between run 1 and run %d of the same pipeline", r+1))
				continue
			}
			what, lang, _ := strings.Cut(k, ":")
			flag := " --language " + lang
			if lang == "dummy" {
				flag = ""
			}
			out = append(out, vlib.V("ir-differs:"+k, "the %s IR shown by `cog inspect --ir %s%s` differs between run 1 and run %d of the same pipeline", what, what, flag, r+1))
		}
		onlyA, onlyB, changed := diffFiles(first.files, again.files)
		seen := map[string]bool{}
		for _, p := range append(append(onlyA, onlyB...), changed...) {
			cls := fileClass(p)
			if seen[cls] {
				continue
			}
			seen[cls] = true
			what := "content"
			if !contains(changed, p) {
				what = "presence"
			}
			if dir := os.Getenv("VERIF_DEBUG_DIR"); dir != "" {
				_ = os.MkdirAll(dir, 0o755)
				name := strings.ReplaceAll(p, "/", "_")
				_ = os.WriteFile(filepath.Join(dir, "a_"+name), first.content[p], 0o644)
				_ = os.WriteFile(filepath.Join(dir, "b_"+name), again.content[p], 0o644)
			}
			out = append(out, vlib.V("files-differ:"+what+":"+cls, "run 1 and run %d of the same pipeline disagree on %s (%s); %d paths differ in all", r+1, p, what, len(onlyA)+len(onlyB)+len(changed)))
		}
		if len(out) > 0 {
			break
		}
	}
	if run != nil && first.err == "" {
		h := vlib.HashBytes([]byte(fmt.Sprint(inputs)), []byte(strings.Join(onFlags(c.Config), ",")), []byte(strings.Join(c.Languages, ",")), []byte(fmt.Sprint(c.VeneerDirs)))
		run.Eval(h, "deterministic-run")
	}
	return dedupeViolations(out)
}

// hasComposeVeneer: one of the veneer files holds a `compose` builder rule.
func (c c03Case) hasComposeVeneer() bool {
	for _, v := range c.Config.Veneers {
		if strings.Contains(v, "- compose:") {
			return true
		}
	}
	for _, d := range c.VeneerDirs {
		for _, f := range d.Files {
			if strings.Contains(f.Content, "- compose:") {
				return true
			}
		}
	}
	return false
}

func (c c03Case) family() string {
	if c.Family == "" {
		return "pipeline"
	}
	return c.Family
}

func contains(list []string, s string) bool {
	for _, x := range list {
		if x == s {
			return true
		}
	}
	return false
}

// drawPipeCase draws a pipeline: 1-3 inputs of distinct packages (any format,
// OpenAPI ones possibly split in two packages), flags, a language subset.
func drawPipeCase(rt *rapid.T, maxInputs int, minLangs int) pipeCase {
	if rapid.IntRange(0, 4).Draw(rt, "composablefamily") == 0 {
		return drawComposablePipeCase(rt, minLangs)
	}
	n := rapid.IntRange(1, maxInputs).Draw(rt, "ninputs")
	pkgs := rapid.Permutation([]string{"sample", "demo", "dash"}).Draw(rt, "pkgs")
	var c pipeCase
	for i := 0; i < n; i++ {
		f := rapid.SampledFrom(smodel.Formats).Draw(rt, "format")
		cfg := smodel.DefaultGenConfig(f)
		cfg.SafeNames = rapid.IntRange(0, 3).Draw(rt, "safenames") != 0
		cfg.NoBytes = true
		cfg.MaxDefs = 5
		cfg.Intersections = rapid.IntRange(0, 2).Draw(rt, "intersections") == 0
		if cfg.Intersections {
			cfg.MaxDefs = 6
		}
		sc := drawSchemaCase(rt, cfg, 0)
		sc.Model.Package = pkgs[i]
		if sc.SplitPkg != "" {
			sc.SplitPkg = "common" + pkgs[i]
		}
		// an input transformation that adds an object to the package
		if rapid.IntRange(0, 2).Draw(rt, "transform") == 0 && sc.Model.Def(sc.Model.Entry+"Copy") == nil {
			sc.Transforms = []string{fmt.Sprintf("passes:\n  - duplicate_object: {object: %q, as: %q}\n", sc.Model.Package+"."+sc.Model.Entry, sc.Model.Package+"."+sc.Model.Entry+"Copy")}
		}
		c.Inputs = append(c.Inputs, sc)
	}
	c.Config = drawC02Config(rt)
	for _, l := range allLanguages {
		if rapid.IntRange(0, 2).Draw(rt, "lang."+l) != 0 {
			c.Languages = append(c.Languages, l)
		}
	}
	for len(c.Languages) < minLangs {
		l := rapid.SampledFrom(allLanguages).Draw(rt, "morelang")
		if !contains(c.Languages, l) {
			c.Languages = append(c.Languages, l)
		}
	}
	sort.Strings(c.Languages)
	// a transformation applied to all the schemas, aimed at one package
	if first := c.Inputs[0]; rapid.IntRange(0, 2).Draw(rt, "commonpass") == 0 && first.Model.Def(first.Model.Entry+"Dup") == nil {
		c.Config.CommonPasses = []string{fmt.Sprintf("passes:\n  - duplicate_object: {object: %q, as: %q}\n", first.Model.Package+"."+first.Model.Entry, first.Model.Package+"."+first.Model.Entry+"Dup")}
	}
	// veneers: a rule set for all languages and one per language whose effects
	// do not commute (rename a -> b, then b -> c), on the entry object of the
	// first input
	if c.Config.Builders && rapid.Bool().Draw(rt, "veneers") {
		c.Config.Veneers = drawVeneers(rt, c)
	}
	return c
}

const composableDashboard = `package dashboard

Panel: {
	type: string
	title?: string
	options?: _
}
`

// drawComposablePipeCase draws the set-up of Grafana's foundation SDK in
// small: a dashboard package whose Panel has an open `options` slot, 2-3
// composable panelcfg plugin packages each defining Options (a generated
// model) and a `compose` builder veneer.
func drawComposablePipeCase(rt *rapid.T, minLangs int) pipeCase {
	c := pipeCase{Inputs: []schemaCase{{Format: smodel.CUE, Raw: composableDashboard, RawPackage: "dashboard"}}}
	plugins := rapid.Permutation([]string{"alpha", "beta", "gamma"}).Draw(rt, "plugins")[:rapid.IntRange(2, 3).Draw(rt, "nplugins")]
	for _, plugin := range plugins {
		cfg := smodel.DefaultGenConfig(smodel.CUE)
		cfg.SafeNames = true
		cfg.MaxDefs = 4
		cfg.Dense = false
		m := smodel.Draw(rt, cfg)
		m.Package = plugin
		m.RenameDef(m.Entry, "Options")
		c.Inputs = append(c.Inputs, schemaCase{Format: smodel.CUE, Model: m, Meta: &e2.InputMeta{Kind: "composable", Variant: "panelcfg", Identifier: plugin}})
	}
	c.Config = drawC02Config(rt)
	c.Config.Builders = true
	c.Config.Types = true
	c.Config.APIReference = rapid.IntRange(0, 3).Draw(rt, "apiref+") != 0
	c.Config.Veneers = []string{"language: all\npackage: dashboard\nbuilders:\n  - compose:\n      by_variant: panelcfg\n      source_builder_name: dashboard.Panel\n      plugin_discriminator_field: type\n      composition_map:\n        Options: options\n"}
	for _, l := range []string{"go", "python", "java", "typescript", "php"} {
		if rapid.IntRange(0, 2).Draw(rt, "lang."+l) != 0 {
			c.Languages = append(c.Languages, l)
		}
	}
	for len(c.Languages) < max(1, minLangs) {
		l := rapid.SampledFrom(allLanguages).Draw(rt, "morelang")
		if !contains(c.Languages, l) {
			c.Languages = append(c.Languages, l)
		}
	}
	sort.Strings(c.Languages)
	return c
}

func drawVeneers(rt *rapid.T, c pipeCase) []string {
	in := c.Inputs[0]
	if in.Model == nil {
		return nil
	}
	entry := in.Model.Def(in.Model.Entry)
	if entry == nil || entry.Type.Kind != smodel.KStruct || len(entry.Type.Fields) == 0 {
		return nil
	}
	field := rapid.SampledFrom(entry.Type.Fields).Draw(rt, "veneerfield").Name
	pkg := in.Model.Package
	out := []string{fmt.Sprintf("language: all\npackage: %s\noptions:\n  - rename:\n      by_name: %s.%s\n      as: renamedForAll\n", pkg, entry.Name, field)}
	for _, l := range []string{"go", "python", "java", "typescript", "php"} {
		if rapid.Bool().Draw(rt, "veneer."+l) {
			out = append(out, fmt.Sprintf("language: %s\npackage: %s\noptions:\n  - rename:\n      by_name: %s.renamedForAll\n      as: renamedFor%s\n  - rename:\n      by_name: %s.%s\n      as: renamedTooEarly\n", l, pkg, entry.Name, strings.ToUpper(l[:1])+l[1:], entry.Name, field))
		}
	}
	return out
}

// pipeSample is a short description of a pipeline for the evidence file.
func pipeSample(c pipeCase) map[string]any {
	var inputs []string
	for _, in := range c.Inputs {
		desc := string(in.Format)
		if in.Model != nil {
			desc += " " + in.Model.Describe()
		} else {
			desc += " " + in.RawPackage + " (hand-written)"
		}
		if in.SplitPkg != "" {
			desc += " + package " + in.SplitPkg
		}
		if in.Meta != nil {
			desc += " [" + in.Meta.Kind + "/" + in.Meta.Variant + "]"
		}
		inputs = append(inputs, desc)
	}
	return map[string]any{"inputs": inputs, "languages": c.Languages, "flags": onFlags(c.Config), "veneer_files": len(c.Config.Veneers), "common_passes": c.Config.CommonPasses}
}

func pipeLabels(run *vlib.Run, c pipeCase) {
	run.Label(fmt.Sprintf("inputs:%d", len(c.Inputs)), fmt.Sprintf("languages:%d", len(c.Languages)))
	run.Label(prefixAll("language:", c.Languages)...)
	run.Label(c02ConfigLabels(c.Config)...)
	if len(c.Config.Veneers) > 0 {
		run.Label(fmt.Sprintf("veneer-files:%d", len(c.Config.Veneers)))
	}
	if len(c.Config.CommonPasses) > 0 {
		run.Label("common-transformation")
	}
	for _, in := range c.Inputs {
		run.Label("input:" + string(in.Format))
		if in.Meta != nil {
			run.Label("composable-plugin")
		}
		if len(in.Transforms) > 0 {
			run.Label("input-transformation")
		}
		if in.Model == nil {
			continue
		}
		if in.Model.Def("Combined") != nil {
			run.Label("intersection")
		}
		run.Label(in.Model.Features()...)
		if in.SplitPkg != "" {
			run.Label("two-packages")
		}
	}
}

// drawC03PipelineCase: a general pipeline (drawPipeCase, shared with C07); two
// thirds of those that generate builders from a model get their veneers laid
// out as files of directories: the chained renames of drawVeneers first, then
// a sequence of rules drawn against the entry's package.
func drawC03PipelineCase(rt *rapid.T) c03Case {
	c := c03Case{pipeCase: drawPipeCase(rt, 3, 1), Family: "pipeline"}
	if len(c.Inputs) > 0 && c.Inputs[0].Raw == composableDashboard && rapid.Bool().Draw(rt, "composetwo") {
		composeSecondObject(&c)
	}
	if c.Config.Builders && len(c.Inputs) > 0 && c.Inputs[0].Meta == nil && rapid.IntRange(0, 2).Draw(rt, "veneerlayout") != 0 {
		if m := miniFromSModel(c.Inputs[0]); m != nil {
			dirs, labels := drawVeneerLayout(rt, m, c.Languages, rapid.IntRange(2, 12).Draw(rt, "nrules"))
			var base []c03VeneerFile
			for i, content := range c.Config.Veneers {
				base = append(base, c03VeneerFile{Name: fmt.Sprintf("00-base-%02d.yaml", i), Content: content})
			}
			dirs[0].Files = append(base, dirs[0].Files...)
			c.Config.Veneers = nil
			c.VeneerDirs = dirs
			c.Labels = append(c.Labels, labels...)
		}
	}
	c.Inspect = drawInspect(rt, c.Languages)
	return c
}

const composableDashboardTwo = `package dashboard

Panel: {
	type: string
	title?: string
	options?: _
	fieldConfig?: {
		defaults?: {
			unit?: string
			custom?: _
		}
	}
}
`

// composeSecondObject turns the composable set-up into the one Grafana's SDK
// has: the plugins also define a FieldConfig object (a second struct of the
// plugin's model, renamed) and the compose veneer's `composition_map` gets a
// second entry leading three fields down.
func composeSecondObject(c *c03Case) {
	n := 0
	for _, in := range c.Inputs[1:] {
		if in.Model == nil || in.Model.Def("FieldConfig") != nil {
			continue
		}
		for _, d := range in.Model.Defs {
			if d.Type.Kind == smodel.KStruct && d.Name != "Options" && d.Name != in.Model.Entry {
				in.Model.RenameDef(d.Name, "FieldConfig")
				n++
				break
			}
		}
	}
	if n == 0 {
		return
	}
	c.Inputs[0].Raw = composableDashboardTwo
	for i, v := range c.Config.Veneers {
		c.Config.Veneers[i] = strings.Replace(v, "        Options: options\n", "        Options: options\n        FieldConfig: fieldConfig.defaults.custom\n", 1)
	}
	c.Labels = append(c.Labels, fmt.Sprintf("compose:composition_map:2(plugins:%d)", n))
}

// drawInspect: up to two of the case's languages get their own `cog inspect`.
func drawInspect(rt *rapid.T, langs []string) []string {
	n := rapid.IntRange(0, min(2, len(langs))).Draw(rt, "ninspect")
	out := append([]string{}, rapid.Permutation(langs).Draw(rt, "inspect")[:n]...)
	sort.Strings(out)
	return out
}

func drawC03FocusedCase(rt *rapid.T) c03Case {
	var c c03Case
	if rapid.Bool().Draw(rt, "family") {
		c = drawValuesCase(rt)
	} else {
		c = drawVeneersCase(rt)
	}
	c.Inspect = drawInspect(rt, c.Languages)
	return c
}

func c03Sample(c c03Case) map[string]any {
	s := pipeSample(c.pipeCase)
	s["family"] = c.family()
	if len(c.RawInputs) > 0 {
		inputs, _ := s["inputs"].([]string)
		for _, in := range c.RawInputs {
			inputs = append(inputs, fmt.Sprintf("%s %s (rendered by the family generator, %d bytes, %d transformation files)", in.Format, in.Package, len(in.Source), len(in.Transforms)))
		}
		s["inputs"] = inputs
	}
	if len(c.VeneerDirs) > 0 {
		var dirs []string
		n := 0
		for _, d := range c.VeneerDirs {
			var names []string
			for _, f := range d.Files {
				names = append(names, f.Name)
			}
			n += len(d.Files)
			dirs = append(dirs, d.Name+"/{"+strings.Join(names, ",")+"}")
		}
		s["veneer_dirs"] = dirs
		s["veneer_files"] = n
	}
	s["inspect"] = append([]string{"(no language)"}, c.Inspect...)
	return s
}

func c03Labels(run *vlib.Run, c c03Case) {
	pipeLabels(run, c.pipeCase)
	run.Label("family:" + c.family())
	run.Label(c.Labels...)
	for _, l := range c.Labels {
		// regions left out by construction (genuine defects, reported)
		if strings.HasPrefix(l, "excluded:") {
			run.Count(l, 1)
		}
	}
	for _, in := range c.RawInputs {
		run.Label("input:" + string(in.Format))
		if len(in.Transforms) > 0 {
			run.Label("input-transformation")
		}
	}
	run.Label(fmt.Sprintf("inspected-languages:%d", len(c.Inspect)))
}

func TestC03(t *testing.T) {
	run := vlib.Begin(t, "C03")
	defer run.Finish(t)
	repeats := 6
	if vlib.Thorough() {
		repeats = 12
	}
	run.Describe(
		fmt.Sprintf("Each rapid case is a whole pipeline of one of three families. (1) General pipelines: 1-3 inputs of distinct packages in any of the three formats (unions whose variants carry several candidate discriminator constants, named unions, nested collections, enums, defaults, OpenAPI inputs split over two packages), the composable set-up (dashboard.Panel + 2-3 panelcfg plugin packages + a compose veneer), input and common transformation files, an output configuration (types/builders/converters/api_reference and every per-language flag) and a non-empty subset of the seven output languages; two thirds of those with builders get veneer files laid out in 1-3 directories (below). (2) Compound values: a small CUE package of 2-4 structs referring to each other, with map-typed (`[string]: T`), list, `_` and scalar members, where every place cog takes a value gets maps of 2-12 entries, maps in maps, lists of maps: struct defaults on references (`Options | *{...}`), `fields_set_default` on map / struct / any fields, constants of `initialize`, `add_option` and `add_assignment` veneers; 1-4 transformation files whose passes feed each other across files (duplicate_object -> rename_object -> fields_set_default on the renamed copy). (3) Veneer layouts: 4-24 builder rules (omit, rename, duplicate, merge_into with exclude_options and rename_options, initialize, promote_options_to_constructor, properties, add_option) and option rules (omit, rename, rename_arguments, duplicate, add_comments, add_assignment, unfold_boolean, array_to_append, map_to_index, struct_fields_as_arguments/options; selectors by_name / by_builder / by_names, exact or case-flipped, current or stale names) drawn against the EVOLVING builders, so that later rules select what earlier ones renamed, duplicated or merged; the sequence is cut into 1-12 files (`all` and per-language rule sets mixed, empty files in between) of 1-3 directories listed in any order; `rename_options` maps of 1-10 entries whose values are other keys (chains a->b->c, swaps), keys that differ by case only. Quick tier: one general and one focused (2 or 3) pipeline per rapid case; thorough: one pipeline per case (1/2 general, 1/4 each focused family). The pipeline is rebuilt from the same description and run %d times in one process; Go re-draws the iteration order of every map at every `range`, so each run samples another schedule. Oracle: the set of generated paths, the sha256 of every file, the success/error outcome, and the sha256 of the JSON of what `cog inspect` shows - the types IR, and the types and builders IRs (after veneers and nil-checks) without --language and for up to two of the case's languages, each from a pipeline built from scratch - are identical in all runs. Non-trivial: a pipeline that runs successfully; distinct by (inputs, flags, languages, veneer files).", repeats),
		"error texts are not compared, only error vs success",
		"a two-way order dependence escapes one case with probability 2^-(runs-1) when the map has more than 8 entries; a Go map of n <= 8 entries is walked from a random offset, two entries i < j swap with probability (j-i)/8 per walk, hence the many-entry maps, files and rule sets",
		"the converters IR of `cog inspect --ir converters` is not compared (the generated converter files are)",
		"three order dependences of cog this check met on the unchanged tree are repaired there (TypeScript map / struct values printed in Go map order; the builders IR order under a `compose` veneer; `fields_set_default` references applied in map order): maps of many entries, struct values and TypeScript are all drawn together now, the builders IR is compared in order; two `fields_set_default` keys matching the same field are still never drawn (the repaired order is by key text, which the generator has no model of)",
		"not generated: repository templates; `parameters` interpolation (pipelines are built as values, not from a cog.yaml; Pipeline.interpolate ranges over the parameters map, a parameter whose value names another parameter is substituted or not depending on the run); promote_options_to_constructor on an option whose type leads back to the built object (PHP converter hang listed under C04)",
	)
	if vlib.RunReplay(t, run, c03Check) {
		return
	}
	rapid.Check(t, func(rt *rapid.T) {
		var cases []c03Case
		if !vlib.Thorough() {
			cases = []c03Case{drawC03PipelineCase(rt), drawC03FocusedCase(rt)}
		} else if rapid.Bool().Draw(rt, "general") {
			cases = []c03Case{drawC03PipelineCase(rt)}
		} else {
			cases = []c03Case{drawC03FocusedCase(rt)}
		}
		for _, c := range cases {
			c03Labels(run, c)
			run.Sample(c03Sample(c))
			if vs := c03CheckN(run, c, repeats); len(vs) > 0 {
				vlib.Fail(rt, run.Judge(c, vs))
			}
		}
	})
	c := run.Counters()
	if c["programs"] == 0 && c["rejected"] > 0 {
		run.Inconclusive("cog refused all %d generated pipelines", c["rejected"])
	}
	for _, family := range []string{"values", "veneers"} {
		if ok, bad := c["programs:"+family], c["rejected:"+family]; bad > ok {
			run.Inconclusive("cog refused %d of %d generated pipelines of the %s family: the generator is not testing what it claims", bad, ok+bad, family)
		}
	}
}
