package checks

// C03 — generation is deterministic: the same pipeline run again produces the
// same paths with byte-identical contents and the same IR.

import (
	"crypto/sha256"
	"encoding/hex"
	"encoding/json"
	"fmt"
	"os"
	"path/filepath"
	"sort"
	"strings"
	"testing"

	"github.com/grafana/cog/verifharness/e2"
	"github.com/grafana/cog/verifharness/smodel"
	"github.com/grafana/cog/verifharness/vlib"
	"pgregory.net/rapid"
)

// pipeCase is a whole pipeline: one or several inputs and an output
// configuration.
type pipeCase struct {
	// Inputs: schema cases of distinct packages (each may itself be split in
	// two packages)
	Inputs    []schemaCase  `json:"inputs"`
	Config    e2.OutputSpec `json:"config"`
	Languages []string      `json:"languages"`
}

var allLanguages = []string{"go", "python", "java", "typescript", "php", "jsonschema", "openapi"}

func (c pipeCase) inputSpecs() []e2.InputSpec {
	var out []e2.InputSpec
	for _, in := range c.Inputs {
		out = append(out, in.inputs()...)
	}
	return out
}

// spec returns the output configuration restricted to the selected languages.
func (c pipeCase) spec(langs []string) e2.OutputSpec {
	o := c.Config
	has := map[string]bool{}
	for _, l := range langs {
		has[l] = true
	}
	if !has["go"] {
		o.Go = nil
	} else {
		g := *o.Go
		g.PackageRoot = "verifgen/x/go"
		o.Go = &g
	}
	if !has["python"] {
		o.Python = nil
	}
	if !has["java"] {
		o.Java = nil
	}
	if !has["typescript"] {
		o.Typescript = nil
	}
	if !has["php"] {
		o.PHP = nil
	}
	o.JSONSchema = has["jsonschema"]
	o.OpenAPI = has["openapi"]
	return o
}

type pipeOutcome struct {
	files    map[string]string // path -> sha256
	irHash   string
	irJSON   []byte
	err      string
	panicked bool
}

func hashBytes(b []byte) string {
	s := sha256.Sum256(b)
	return hex.EncodeToString(s[:8])
}

// runPipe runs the pipeline once, in process, from scratch.
func runPipe(work string, inputs []e2.InputSpec, o e2.OutputSpec, withIR bool) pipeOutcome {
	out := pipeOutcome{files: map[string]string{}}
	_, msg, panicked := vlib.Guard(func() {
		pl, err := e2.NewPipeline(work, "x/%l", inputs, o)
		if err != nil {
			out.err = err.Error()
			return
		}
		if withIR {
			schemas, err := e2.LoadSchemas(pl)
			if err != nil {
				out.err = "load: " + err.Error()
				return
			}
			raw, _ := json.Marshal(schemas)
			out.irHash = hashBytes(raw)
			if os.Getenv("VERIF_DEBUG_DIR") != "" {
				out.irJSON = raw
			}
			// a fresh pipeline for the run (LoadSchemas caches nothing we rely on)
			pl, err = e2.NewPipeline(work, "x/%l", inputs, o)
			if err != nil {
				out.err = err.Error()
				return
			}
		}
		files, err := e2.Run(pl)
		if err != nil {
			out.err = err.Error()
			return
		}
		for p, content := range files {
			out.files[p] = hashBytes(content)
		}
	})
	if panicked {
		out.panicked = true
		out.err = "panic: " + firstLine(msg)
	}
	return out
}

// diffFiles lists the paths whose presence or content differ.
func diffFiles(a, b map[string]string) (onlyA, onlyB, changed []string) {
	for p, h := range a {
		if hb, ok := b[p]; !ok {
			onlyA = append(onlyA, p)
		} else if hb != h {
			changed = append(changed, p)
		}
	}
	for p := range b {
		if _, ok := a[p]; !ok {
			onlyB = append(onlyB, p)
		}
	}
	sort.Strings(onlyA)
	sort.Strings(onlyB)
	sort.Strings(changed)
	return
}

// fileClass names what kind of file a path is (for signatures).
func fileClass(path string) string {
	parts := strings.Split(path, "/")
	lang := "?"
	if len(parts) > 1 {
		lang = parts[1]
	}
	base := filepath.Base(path)
	kind := strings.TrimPrefix(filepath.Ext(base), ".")
	switch {
	case strings.Contains(path, "/docs/"):
		kind = "apiref"
	case strings.Contains(base, "builder") || strings.Contains(path, "/builders/") || strings.Contains(base, "Builder"):
		kind = "builder"
	case strings.Contains(base, "converter") || strings.Contains(base, "Converter"):
		kind = "converter"
	case strings.Contains(path, "/cog/"):
		kind = "runtime"
	case strings.HasPrefix(base, "index") || strings.HasPrefix(base, "__init__"):
		kind = "index"
	default:
		kind = "types"
	}
	return lang + ":" + kind
}

func c03Check(c pipeCase) []vlib.Violation { return c03CheckN(nil, c, 4) }

func c03CheckN(run *vlib.Run, c pipeCase, repeats int) []vlib.Violation {
	var out []vlib.Violation
	work := workDir("c03")
	defer removeAll(work)
	inputs := c.inputSpecs()
	o := c.spec(c.Languages)
	first := runPipe(filepath.Join(work, "in"), inputs, o, true)
	if first.panicked {
		count(run, "skipped_panics", 1)
		return nil
	}
	if first.err == "" {
		count(run, "programs", 1)
	} else {
		count(run, "rejected", 1)
		note(run, "run reports an error: %s", errSummary(first.err))
	}
	for r := 1; r < repeats; r++ {
		again := runPipe(filepath.Join(work, "in"), inputs, o, true)
		count(run, "reruns", 1)
		if (again.err == "") != (first.err == "") {
			out = append(out, vlib.V("outcome-differs", "run 1: %q, run %d: %q", firstLine(first.err), r+1, firstLine(again.err)))
			break
		}
		if first.irHash != again.irHash {
			if dir := os.Getenv("VERIF_DEBUG_DIR"); dir != "" {
				_ = os.MkdirAll(dir, 0o755)
				_ = os.WriteFile(filepath.Join(dir, "ir_a.json"), first.irJSON, 0o644)
				_ = os.WriteFile(filepath.Join(dir, "ir_b.json"), again.irJSON, 0o644)
			}
			out = append(out, vlib.V("ir-differs", "the IR shown by `cog inspect` differs between run 1 and run %d of the same pipeline", r+1))
		}
		onlyA, onlyB, changed := diffFiles(first.files, again.files)
		seen := map[string]bool{}
		for _, p := range append(append(onlyA, onlyB...), changed...) {
			cls := fileClass(p)
			if seen[cls] {
				continue
			}
			seen[cls] = true
			what := "content"
			if !contains(changed, p) {
				what = "presence"
			}
			out = append(out, vlib.V("files-differ:"+what+":"+cls, "run 1 and run %d of the same pipeline disagree on %s (%s); %d paths differ in all", r+1, p, what, len(onlyA)+len(onlyB)+len(changed)))
		}
		if len(out) > 0 {
			break
		}
	}
	if run != nil && first.err == "" {
		h := vlib.HashBytes([]byte(fmt.Sprint(inputs)), []byte(strings.Join(onFlags(c.Config), ",")), []byte(strings.Join(c.Languages, ",")))
		run.Eval(h, "deterministic-run")
	}
	return dedupeViolations(out)
}

func contains(list []string, s string) bool {
	for _, x := range list {
		if x == s {
			return true
		}
	}
	return false
}

// drawPipeCase draws a pipeline: 1-3 inputs of distinct packages (any format,
// OpenAPI ones possibly split in two packages), flags, a language subset.
func drawPipeCase(rt *rapid.T, maxInputs int, minLangs int) pipeCase {
	if rapid.IntRange(0, 4).Draw(rt, "composablefamily") == 0 {
		return drawComposablePipeCase(rt, minLangs)
	}
	n := rapid.IntRange(1, maxInputs).Draw(rt, "ninputs")
	pkgs := rapid.Permutation([]string{"sample", "demo", "dash"}).Draw(rt, "pkgs")
	var c pipeCase
	for i := 0; i < n; i++ {
		f := rapid.SampledFrom(smodel.Formats).Draw(rt, "format")
		cfg := smodel.DefaultGenConfig(f)
		cfg.SafeNames = rapid.IntRange(0, 3).Draw(rt, "safenames") != 0
		cfg.NoBytes = true
		cfg.MaxDefs = 5
		cfg.Intersections = rapid.IntRange(0, 2).Draw(rt, "intersections") == 0
		if cfg.Intersections {
			cfg.MaxDefs = 6
		}
		sc := drawSchemaCase(rt, cfg, 0)
		sc.Model.Package = pkgs[i]
		if sc.SplitPkg != "" {
			sc.SplitPkg = "common" + pkgs[i]
		}
		// an input transformation that adds an object to the package
		if rapid.IntRange(0, 2).Draw(rt, "transform") == 0 && sc.Model.Def(sc.Model.Entry+"Copy") == nil {
			sc.Transforms = []string{fmt.Sprintf("passes:\n  - duplicate_object: {object: %q, as: %q}\n", sc.Model.Package+"."+sc.Model.Entry, sc.Model.Package+"."+sc.Model.Entry+"Copy")}
		}
		c.Inputs = append(c.Inputs, sc)
	}
	c.Config = drawC02Config(rt)
	for _, l := range allLanguages {
		if rapid.IntRange(0, 2).Draw(rt, "lang."+l) != 0 {
			c.Languages = append(c.Languages, l)
		}
	}
	for len(c.Languages) < minLangs {
		l := rapid.SampledFrom(allLanguages).Draw(rt, "morelang")
		if !contains(c.Languages, l) {
			c.Languages = append(c.Languages, l)
		}
	}
	sort.Strings(c.Languages)
	// a transformation applied to all the schemas, aimed at one package
	if first := c.Inputs[0]; rapid.IntRange(0, 2).Draw(rt, "commonpass") == 0 && first.Model.Def(first.Model.Entry+"Dup") == nil {
		c.Config.CommonPasses = []string{fmt.Sprintf("passes:\n  - duplicate_object: {object: %q, as: %q}\n", first.Model.Package+"."+first.Model.Entry, first.Model.Package+"."+first.Model.Entry+"Dup")}
	}
	// veneers: a rule set for all languages and one per language whose effects
	// do not commute (rename a -> b, then b -> c), on the entry object of the
	// first input
	if c.Config.Builders && rapid.Bool().Draw(rt, "veneers") {
		c.Config.Veneers = drawVeneers(rt, c)
	}
	return c
}

const composableDashboard = `package dashboard

Panel: {
	type: string
	title?: string
	options?: _
}
`

// drawComposablePipeCase draws the set-up of Grafana's foundation SDK in
// small: a dashboard package whose Panel has an open `options` slot, 2-3
// composable panelcfg plugin packages each defining Options (a generated
// model) and a `compose` builder veneer.
func drawComposablePipeCase(rt *rapid.T, minLangs int) pipeCase {
	c := pipeCase{Inputs: []schemaCase{{Format: smodel.CUE, Raw: composableDashboard, RawPackage: "dashboard"}}}
	plugins := rapid.Permutation([]string{"alpha", "beta", "gamma"}).Draw(rt, "plugins")[:rapid.IntRange(2, 3).Draw(rt, "nplugins")]
	for _, plugin := range plugins {
		cfg := smodel.DefaultGenConfig(smodel.CUE)
		cfg.SafeNames = true
		cfg.MaxDefs = 4
		cfg.Dense = false
		m := smodel.Draw(rt, cfg)
		m.Package = plugin
		m.RenameDef(m.Entry, "Options")
		c.Inputs = append(c.Inputs, schemaCase{Format: smodel.CUE, Model: m, Meta: &e2.InputMeta{Kind: "composable", Variant: "panelcfg", Identifier: plugin}})
	}
	c.Config = drawC02Config(rt)
	c.Config.Builders = true
	c.Config.Types = true
	c.Config.APIReference = rapid.IntRange(0, 3).Draw(rt, "apiref+") != 0
	c.Config.Veneers = []string{"language: all\npackage: dashboard\nbuilders:\n  - compose:\n      by_variant: panelcfg\n      source_builder_name: dashboard.Panel\n      plugin_discriminator_field: type\n      composition_map:\n        Options: options\n"}
	for _, l := range []string{"go", "python", "java", "typescript", "php"} {
		if rapid.IntRange(0, 2).Draw(rt, "lang."+l) != 0 {
			c.Languages = append(c.Languages, l)
		}
	}
	for len(c.Languages) < max(1, minLangs) {
		l := rapid.SampledFrom(allLanguages).Draw(rt, "morelang")
		if !contains(c.Languages, l) {
			c.Languages = append(c.Languages, l)
		}
	}
	sort.Strings(c.Languages)
	return c
}

func drawVeneers(rt *rapid.T, c pipeCase) []string {
	in := c.Inputs[0]
	if in.Model == nil {
		return nil
	}
	entry := in.Model.Def(in.Model.Entry)
	if entry == nil || entry.Type.Kind != smodel.KStruct || len(entry.Type.Fields) == 0 {
		return nil
	}
	field := rapid.SampledFrom(entry.Type.Fields).Draw(rt, "veneerfield").Name
	pkg := in.Model.Package
	out := []string{fmt.Sprintf("language: all\npackage: %s\noptions:\n  - rename:\n      by_name: %s.%s\n      as: renamedForAll\n", pkg, entry.Name, field)}
	for _, l := range []string{"go", "python", "java", "typescript", "php"} {
		if rapid.Bool().Draw(rt, "veneer."+l) {
			out = append(out, fmt.Sprintf("language: %s\npackage: %s\noptions:\n  - rename:\n      by_name: %s.renamedForAll\n      as: renamedFor%s\n  - rename:\n      by_name: %s.%s\n      as: renamedTooEarly\n", l, pkg, entry.Name, strings.ToUpper(l[:1])+l[1:], entry.Name, field))
		}
	}
	return out
}

// pipeSample is a short description of a pipeline for the evidence file.
func pipeSample(c pipeCase) map[string]any {
	var inputs []string
	for _, in := range c.Inputs {
		desc := string(in.Format)
		if in.Model != nil {
			desc += " " + in.Model.Describe()
		} else {
			desc += " " + in.RawPackage + " (hand-written)"
		}
		if in.SplitPkg != "" {
			desc += " + package " + in.SplitPkg
		}
		if in.Meta != nil {
			desc += " [" + in.Meta.Kind + "/" + in.Meta.Variant + "]"
		}
		inputs = append(inputs, desc)
	}
	return map[string]any{"inputs": inputs, "languages": c.Languages, "flags": onFlags(c.Config), "veneer_files": len(c.Config.Veneers), "common_passes": c.Config.CommonPasses}
}

func pipeLabels(run *vlib.Run, c pipeCase) {
	run.Label(fmt.Sprintf("inputs:%d", len(c.Inputs)), fmt.Sprintf("languages:%d", len(c.Languages)))
	run.Label(prefixAll("language:", c.Languages)...)
	run.Label(c02ConfigLabels(c.Config)...)
	if len(c.Config.Veneers) > 0 {
		run.Label(fmt.Sprintf("veneer-files:%d", len(c.Config.Veneers)))
	}
	if len(c.Config.CommonPasses) > 0 {
		run.Label("common-transformation")
	}
	for _, in := range c.Inputs {
		run.Label("input:" + string(in.Format))
		if in.Meta != nil {
			run.Label("composable-plugin")
		}
		if len(in.Transforms) > 0 {
			run.Label("input-transformation")
		}
		if in.Model == nil {
			continue
		}
		if in.Model.Def("Combined") != nil {
			run.Label("intersection")
		}
		run.Label(in.Model.Features()...)
		if in.SplitPkg != "" {
			run.Label("two-packages")
		}
	}
}

func TestC03(t *testing.T) {
	run := vlib.Begin(t, "C03")
	defer run.Finish(t)
	repeats := 5
	if vlib.Thorough() {
		repeats = 12
	}
	run.Describe(
		fmt.Sprintf("Each rapid case is a whole pipeline: 1-3 inputs of distinct packages in any of the three formats (unions whose variants carry several candidate discriminator constants, named unions, nested collections, enums, defaults, OpenAPI inputs split over two packages), an output configuration (types/builders/converters/api_reference and every per-language flag) and a non-empty subset of the seven output languages. The pipeline is rebuilt from the same description and run %d times in one process; Go re-draws the iteration order of every map at every `range`, so each run samples another schedule. Oracle: the set of generated paths, the sha256 of every file, the sha256 of the JSON of the IR (`cog inspect`) and the success/error outcome are identical in all runs. Non-trivial: a pipeline that runs successfully; distinct by (inputs, flags, languages).", repeats),
		"error texts are not compared, only error vs success",
		"a two-way order dependence escapes one case with probability 2^-(runs-1)",
		"veneers are limited to option renames (a rule set for all languages chained with per-language ones); repository templates and compose veneers are not generated",
	)
	if vlib.RunReplay(t, run, c03Check) {
		return
	}
	rapid.Check(t, func(rt *rapid.T) {
		c := drawPipeCase(rt, 3, 1)
		pipeLabels(run, c)
		run.Sample(pipeSample(c))
		if vs := c03CheckN(run, c, repeats); len(vs) > 0 {
			vlib.Fail(rt, run.Judge(c, vs))
		}
	})
	if c := run.Counters(); c["programs"] == 0 && c["rejected"] > 0 {
		run.Inconclusive("cog refused all %d generated pipelines", c["rejected"])
	}
}
