package checks

// C12: values of the generated Go types built by FIELD ASSIGNMENT.
//
// The property speaks of "a value of the generated Go types", not of "a value
// the generated decoder produced": a value a program fills in by hand and
// hands to encoding/json has to encode to a document of the emitted schema
// just the same. The shared driver only builds values by json.Unmarshal, which
// goes through the generated UnmarshalJSON; when that one is missing or wrong
// the value never exists and the generated MarshalJSON is never exercised.
//
// The overlay adds, to every generated Go package of a case, one type
// `ZzC12Probe<T> struct{ V <T> }` per exported type T, whose UnmarshalJSON
// fills V from a document through reflection (package zzc12probe below: struct
// fields by their json tag, pointers allocated, slices / maps made, the branch
// of a union struct chosen by the shape of the JSON value) WITHOUT calling any
// generated decoder, and whose MarshalJSON is json.Marshal(&V) — the generated
// encoders. The shared driver's "roundtrip" operation on the probe type is then
// "assign, encode".

import (
	"fmt"
	"go/ast"
	"go/parser"
	"go/token"
	"path/filepath"
	"sort"
	"strconv"
	"strings"

	"github.com/grafana/cog/verifharness/e2"
	"github.com/grafana/cog/verifharness/smodel"
)

const c12ProbeSource = `// Package zzc12probe is part of the verification harness (C12), not of cog's output.
package zzc12probe

import (
	"bytes"
	"encoding/base64"
	"encoding/json"
	"fmt"
	"reflect"
	"sort"
	"strconv"
	"strings"
	"time"
)

// Consts: struct type -> json field -> JSON text of the constant the schema
// fixes for it (registered by the overlays). A document whose value differs is
// not a value of that struct: this is how the variant of a union is told.
var Consts = map[reflect.Type]map[string]string{}

var timeType = reflect.TypeOf(time.Time{})

// Populate fills *target (a pointer) from the document.
func Populate(raw []byte, target any) error {
	dec := json.NewDecoder(bytes.NewReader(raw))
	dec.UseNumber()
	var v any
	if err := dec.Decode(&v); err != nil {
		return err
	}
	return fill(reflect.ValueOf(target).Elem(), v, "$")
}

func tagName(f reflect.StructField) string {
	tag := f.Tag.Get("json")
	if i := strings.Index(tag, ","); i >= 0 {
		tag = tag[:i]
	}
	return tag
}

func nilable(k reflect.Kind) bool {
	return k == reflect.Ptr || k == reflect.Slice || k == reflect.Map || k == reflect.Interface
}

// isUnion recognises the struct cog generates for a union: one nilable field
// per branch, each tagged with its own Go name.
func isUnion(t reflect.Type) bool {
	if t.Kind() != reflect.Struct || t.NumField() == 0 || t == timeType {
		return false
	}
	for i := 0; i < t.NumField(); i++ {
		f := t.Field(i)
		if !f.IsExported() || tagName(f) != f.Name || !nilable(f.Type.Kind()) {
			return false
		}
	}
	return true
}

func jsonText(v any) string {
	var buf bytes.Buffer
	enc := json.NewEncoder(&buf)
	enc.SetEscapeHTML(false)
	_ = enc.Encode(v)
	return strings.TrimSpace(buf.String())
}

func fill(dst reflect.Value, v any, path string) error {
	t := dst.Type()
	if v == nil {
		if nilable(t.Kind()) {
			dst.Set(reflect.Zero(t))
			return nil
		}
		if isUnion(t) {
			dst.Set(reflect.Zero(t)) // no branch set
			return nil
		}
		return fmt.Errorf("c12probe: null for the non-nilable %s at %s", t, path)
	}
	if t == timeType {
		s, ok := v.(string)
		if !ok {
			return fmt.Errorf("c12probe: %T for a time at %s", v, path)
		}
		parsed, err := time.Parse(time.RFC3339Nano, s)
		if err != nil {
			return fmt.Errorf("c12probe: %v at %s", err, path)
		}
		dst.Set(reflect.ValueOf(parsed))
		return nil
	}
	switch t.Kind() {
	case reflect.Ptr:
		nv := reflect.New(t.Elem())
		if err := fill(nv.Elem(), v, path); err != nil {
			return err
		}
		dst.Set(nv)
		return nil
	case reflect.Interface:
		if t.NumMethod() != 0 {
			return fmt.Errorf("c12probe: unsupported interface %s at %s", t, path)
		}
		dst.Set(reflect.ValueOf(v))
		return nil
	case reflect.String:
		s, ok := v.(string)
		if !ok {
			return fmt.Errorf("c12probe: %T for a string at %s", v, path)
		}
		dst.SetString(s)
		return nil
	case reflect.Bool:
		b, ok := v.(bool)
		if !ok {
			return fmt.Errorf("c12probe: %T for a bool at %s", v, path)
		}
		dst.SetBool(b)
		return nil
	case reflect.Int, reflect.Int8, reflect.Int16, reflect.Int32, reflect.Int64:
		n, ok := v.(json.Number)
		if !ok {
			return fmt.Errorf("c12probe: %T for an integer at %s", v, path)
		}
		i, err := strconv.ParseInt(string(n), 10, 64)
		if err != nil || dst.OverflowInt(i) {
			return fmt.Errorf("c12probe: %s does not fit %s at %s", n, t, path)
		}
		dst.SetInt(i)
		return nil
	case reflect.Uint, reflect.Uint8, reflect.Uint16, reflect.Uint32, reflect.Uint64:
		n, ok := v.(json.Number)
		if !ok {
			return fmt.Errorf("c12probe: %T for an unsigned integer at %s", v, path)
		}
		u, err := strconv.ParseUint(string(n), 10, 64)
		if err != nil || dst.OverflowUint(u) {
			return fmt.Errorf("c12probe: %s does not fit %s at %s", n, t, path)
		}
		dst.SetUint(u)
		return nil
	case reflect.Float32, reflect.Float64:
		n, ok := v.(json.Number)
		if !ok {
			return fmt.Errorf("c12probe: %T for a number at %s", v, path)
		}
		f, err := strconv.ParseFloat(string(n), 64)
		if err != nil || dst.OverflowFloat(f) {
			return fmt.Errorf("c12probe: %s does not fit %s at %s", n, t, path)
		}
		dst.SetFloat(f)
		return nil
	case reflect.Slice:
		if s, ok := v.(string); ok && t.Elem().Kind() == reflect.Uint8 {
			raw, err := base64.StdEncoding.DecodeString(s)
			if err != nil {
				return fmt.Errorf("c12probe: %v at %s", err, path)
			}
			dst.SetBytes(raw)
			return nil
		}
		arr, ok := v.([]any)
		if !ok {
			return fmt.Errorf("c12probe: %T for a list at %s", v, path)
		}
		out := reflect.MakeSlice(t, len(arr), len(arr))
		for i, e := range arr {
			if err := fill(out.Index(i), e, path+"["+strconv.Itoa(i)+"]"); err != nil {
				return err
			}
		}
		dst.Set(out)
		return nil
	case reflect.Map:
		obj, ok := v.(map[string]any)
		if !ok || t.Key().Kind() != reflect.String {
			return fmt.Errorf("c12probe: %T for a map at %s", v, path)
		}
		out := reflect.MakeMapWithSize(t, len(obj))
		for k, e := range obj {
			ev := reflect.New(t.Elem()).Elem()
			if err := fill(ev, e, path+"["+k+"]"); err != nil {
				return err
			}
			out.SetMapIndex(reflect.ValueOf(k).Convert(t.Key()), ev)
		}
		dst.Set(out)
		return nil
	case reflect.Struct:
		if isUnion(t) {
			var errs []string
			for i := 0; i < t.NumField(); i++ {
				trial := reflect.New(t.Field(i).Type).Elem()
				if err := fill(trial, v, path); err != nil {
					errs = append(errs, err.Error())
					continue
				}
				out := reflect.New(t).Elem()
				out.Field(i).Set(trial)
				dst.Set(out)
				return nil
			}
			return fmt.Errorf("c12probe: no branch of %s takes the value at %s (%s)", t, path, strings.Join(errs, "; "))
		}
		obj, ok := v.(map[string]any)
		if !ok {
			return fmt.Errorf("c12probe: %T for the struct %s at %s", v, t, path)
		}
		byTag := map[string]int{}
		for i := 0; i < t.NumField(); i++ {
			f := t.Field(i)
			if !f.IsExported() || f.Anonymous {
				if f.Anonymous {
					return fmt.Errorf("c12probe: unsupported embedded field in %s at %s", t, path)
				}
				continue
			}
			name := tagName(f)
			if name == "-" {
				continue
			}
			if name == "" {
				name = f.Name
			}
			byTag[name] = i
		}
		for k, c := range Consts[t] {
			var want any
			cdec := json.NewDecoder(strings.NewReader(c))
			cdec.UseNumber()
			if cdec.Decode(&want) != nil {
				continue
			}
			if got, has := obj[k]; has && jsonText(got) != jsonText(want) {
				return fmt.Errorf("c12probe: %s is %s, not the constant %s of %s at %s", k, jsonText(got), c, t, path)
			}
		}
		keys := make([]string, 0, len(obj))
		for k := range obj {
			keys = append(keys, k)
		}
		sort.Strings(keys)
		out := reflect.New(t).Elem()
		for _, k := range keys {
			i, ok := byTag[k]
			if !ok {
				return fmt.Errorf("c12probe: %s has no field for the key %q at %s", t, k, path)
			}
			if err := fill(out.Field(i), obj[k], path+"."+k); err != nil {
				return err
			}
		}
		dst.Set(out)
		return nil
	}
	return fmt.Errorf("c12probe: unsupported kind %s at %s", t.Kind(), path)
}
`

// c12GoDecls lists, per generated Go package directory of a case, the package
// clause and the exported non-generic type names.
type c12GoPkg struct {
	name  string
	types []string
}

func c12GoDecls(id string, files e2.Files) map[string]*c12GoPkg {
	out := map[string]*c12GoPkg{}
	for _, p := range files.Paths() {
		if !strings.HasSuffix(p, ".go") || strings.HasSuffix(p, "_test.go") || !strings.HasPrefix(p, id+"/") {
			continue
		}
		dir := filepath.ToSlash(filepath.Dir(p))
		if filepath.Base(dir) == "cog" || strings.Contains(dir+"/", "/cog/") {
			continue
		}
		f, err := parser.ParseFile(token.NewFileSet(), p, files[p], 0)
		if err != nil {
			continue
		}
		pkg := out[dir]
		if pkg == nil {
			pkg = &c12GoPkg{name: f.Name.Name}
			out[dir] = pkg
		}
		for _, d := range f.Decls {
			gd, ok := d.(*ast.GenDecl)
			if !ok || gd.Tok != token.TYPE {
				continue
			}
			for _, s := range gd.Specs {
				ts := s.(*ast.TypeSpec)
				if ts.Name.IsExported() && ts.TypeParams == nil {
					if _, isIface := ts.Type.(*ast.InterfaceType); isIface {
						continue
					}
					pkg.types = append(pkg.types, ts.Name.Name)
				}
			}
		}
	}
	return out
}

// c12ProbeOverlay builds the overlay files of a case and the map Go type ->
// probe type.
func c12ProbeOverlay(id string, files e2.Files, eff *c12Effective) (e2.Files, map[string]string) {
	overlay := e2.Files{}
	probes := map[string]string{}
	decls := c12GoDecls(id, files)
	if len(decls) == 0 {
		return overlay, probes
	}
	overlay[id+"/zzc12probe/populate.go"] = []byte(c12ProbeSource)
	var dirs []string
	for d := range decls {
		dirs = append(dirs, d)
	}
	sort.Strings(dirs)
	for _, dir := range dirs {
		pkg := decls[dir]
		sort.Strings(pkg.types)
		typeSet := map[string]bool{}
		for _, t := range pkg.types {
			typeSet[t] = true
		}
		// constants of the model's structs (of this package), by Go type
		consts := map[string]map[string]string{}
		if eff != nil {
			for _, d := range eff.Model.Defs {
				if d.Type.Kind != smodel.KStruct || eff.Pkg[d.Name] != filepath.Base(dir) {
					continue
				}
				gt, ok := goTypeFor(typeSet, d.Name)
				if !ok {
					continue
				}
				for _, f := range d.Type.Fields {
					if f.Type.Const != nil && !f.Type.Nullable {
						if consts[gt] == nil {
							consts[gt] = map[string]string{}
						}
						consts[gt][f.Name] = string(*f.Type.Const)
					}
				}
			}
		}
		var sb strings.Builder
		fmt.Fprintf(&sb, "// verification harness overlay (C12): not part of cog's output\npackage %s\n\nimport (\n\t\"encoding/json\"\n", pkg.name)
		if len(consts) > 0 {
			sb.WriteString("\t\"reflect\"\n")
		}
		fmt.Fprintf(&sb, "\n\tzzc12probe \"verifgen/%s/zzc12probe\"\n)\n\nvar _ = json.Marshal\n\n", id)
		for _, t := range pkg.types {
			probe := "ZzC12Probe" + t
			if typeSet[probe] {
				continue
			}
			probes[t] = probe
			fmt.Fprintf(&sb, "type %s struct{ V %s }\n\n", probe, t)
			fmt.Fprintf(&sb, "func (p *%s) UnmarshalJSON(raw []byte) error { return zzc12probe.Populate(raw, &p.V) }\n\n", probe)
			fmt.Fprintf(&sb, "func (p *%s) MarshalJSON() ([]byte, error) { return json.Marshal(&p.V) }\n\n", probe)
		}
		if len(consts) > 0 {
			sb.WriteString("func init() {\n")
			for _, gt := range sortedKeys(consts) {
				fmt.Fprintf(&sb, "\tzzc12probe.Consts[reflect.TypeOf((*%s)(nil)).Elem()] = map[string]string{", gt)
				for i, k := range sortedKeys(consts[gt]) {
					if i > 0 {
						sb.WriteString(", ")
					}
					fmt.Fprintf(&sb, "%s: %s", strconv.Quote(k), strconv.Quote(consts[gt][k]))
				}
				sb.WriteString("}\n")
			}
			sb.WriteString("}\n")
		}
		overlay[dir+"/zz_c12_probe.go"] = []byte(sb.String())
	}
	return overlay, probes
}
