package checks

// C11, unions of structs beyond "every branch carries a string constant named
// kind / type in first position": the shared model generator only produces
// that one shape, which is also the only shape cog's own tests and golden
// files hold. Whether (and how) the generated decoders tell the branches of a
// union apart is decided by a compiler pass that looks at the constants of the
// branches; this file widens that dimension:
//
//   - the constant the branches share is a string, an integer, a boolean, a
//     float, a string in some branches and an integer in the others, or there
//     is no shared constant at all (the branches then differ by a required
//     marker property);
//   - the discriminating property sits at any position of the branch structs;
//   - the branches may share a further constant under one name (integer,
//     boolean or string; the same value in every branch — then it does NOT tell
//     them apart — or a value per branch), at any position;
//   - a holder struct uses the union as a property, as array items and as map
//     values (without any nullable position, so that its documents are free of
//     explicit nulls), and the entry point refers to the holder.
//
// and it gives the oracle what it needs to judge such documents: the branch a
// value belongs to is found structurally (constants of any JSON kind, declared
// and required properties), not through a string discriminator.

import (
	"encoding/json"
	"fmt"
	"strings"

	"github.com/grafana/cog/verifharness/smodel"
	"github.com/grafana/cog/verifharness/vlib"
	"pgregory.net/rapid"
)

const (
	c11DiscString = "string"
	c11DiscInt    = "int"
	c11DiscBool   = "bool"
	c11DiscFloat  = "float"
	c11DiscMixed  = "mixed"
	c11DiscNone   = "none"
)

const c11HolderDef = "Holder"
const c11HolderField = "unionHolder"

// c11Variants finds the union-branch definitions of a model: everything a
// union of structs refers to, else the definitions the model generator made
// for that purpose (a struct whose first property is a string constant named
// kind / type) even though no property ended up using them.
func c11Variants(m *smodel.Model) (variants []string, disc string) {
	seen := map[string]bool{}
	m.Walk(func(_ string, _ string, t *smodel.T) {
		if t.Kind != smodel.KUStructs {
			return
		}
		if disc == "" {
			disc = t.Discriminator
		}
		for _, r := range t.Refs {
			if !seen[r] {
				seen[r] = true
			}
		}
	})
	for _, d := range m.Defs {
		if d.Type.Kind != smodel.KStruct || len(d.Type.Fields) == 0 {
			continue
		}
		f := d.Type.Fields[0]
		isVariant := seen[d.Name]
		if !isVariant && (f.Name == "kind" || f.Name == "type") && f.Type.Kind == smodel.KString && f.Type.Const != nil && f.Required {
			var c string
			if json.Unmarshal(*f.Type.Const, &c) == nil && c == strings.ToLower(d.Name) {
				isVariant = true
				if disc == "" {
					disc = f.Name
				}
			}
		}
		if isVariant {
			variants = append(variants, d.Name)
		}
	}
	return variants, disc
}

// c11SynthVariants adds two or three branch definitions to a model without any.
func c11SynthVariants(rt *rapid.T, m *smodel.Model) ([]string, string) {
	disc := rapid.SampledFrom([]string{"kind", "type"}).Draw(rt, "synthdisc")
	n := rapid.IntRange(2, 3).Draw(rt, "synthvariants")
	var names []string
	for _, name := range []string{"Circle", "Square", "Line"}[:n] {
		if m.Def(name) != nil {
			continue
		}
		st := smodel.T{Kind: smodel.KStruct, Fields: []smodel.Field{{Name: disc, Required: true, Type: smodel.T{Kind: smodel.KString, Const: smodel.Raw(strings.ToLower(name))}}}}
		props := rapid.Permutation([]string{"radius", "side", "label", "points", "filled"}).Draw(rt, "synthprops")[:rapid.IntRange(0, 3).Draw(rt, "nsynthprops")]
		for _, p := range props {
			var ft smodel.T
			switch rapid.IntRange(0, 4).Draw(rt, "synthkind") {
			case 0:
				ft = smodel.T{Kind: smodel.KString}
			case 1:
				ft = smodel.T{Kind: smodel.KInt}
			case 2:
				ft = smodel.T{Kind: smodel.KFloat}
			case 3:
				ft = smodel.T{Kind: smodel.KBool}
			default:
				ft = smodel.T{Kind: smodel.KArray, Elem: &smodel.T{Kind: smodel.KString}}
			}
			st.Fields = append(st.Fields, smodel.Field{Name: p, Type: ft, Required: rapid.Bool().Draw(rt, "synthrequired")})
		}
		m.Defs = append(m.Defs, smodel.Def{Name: name, Type: st})
		names = append(names, name)
	}
	return names, disc
}

func c11MoveField(fields []smodel.Field, from, to int) []smodel.Field {
	f := fields[from]
	rest := append(append([]smodel.Field{}, fields[:from]...), fields[from+1:]...)
	if to > len(rest) {
		to = len(rest)
	}
	out := append([]smodel.Field{}, rest[:to]...)
	out = append(out, f)
	return append(out, rest[to:]...)
}

func c11InsertField(fields []smodel.Field, at int, f smodel.Field) []smodel.Field {
	if at > len(fields) {
		at = len(fields)
	}
	out := append([]smodel.Field{}, fields[:at]...)
	out = append(out, f)
	return append(out, fields[at:]...)
}

// c11UnionFocus rewrites the union branches of the model (see the file
// comment) and adds the holder. It returns the discriminator mode and the
// labels of what it did. OpenAPI can only say string constants (as patterns)
// and always names its discriminator: the branches stay as they are there and
// only the holder is added.
func c11UnionFocus(rt *rapid.T, run *vlib.Run, f smodel.Format, m *smodel.Model) (mode string, labels []string) {
	variants, disc := c11Variants(m)
	if len(variants) < 2 {
		variants, disc = c11SynthVariants(rt, m)
		labels = append(labels, "union-focus:synthesised-branches")
	}
	if len(variants) < 2 || disc == "" {
		return "", nil
	}
	mode = c11DiscString
	if f != smodel.OpenAPI {
		mode = rapid.SampledFrom([]string{
			c11DiscInt, c11DiscMixed, c11DiscFloat, c11DiscBool, c11DiscNone, c11DiscString, c11DiscInt, c11DiscMixed, c11DiscInt, c11DiscString,
		}).Draw(rt, "discmode")
		if mode == c11DiscBool && len(variants) != 2 {
			mode = c11DiscInt
		}
	}
	labels = append(labels, "union-focus:disc="+mode)

	ints := rapid.Permutation([]int{0, 1, 2, 3, 10, 100, -1, 42}).Draw(rt, "discints")
	floats := rapid.Permutation([]float64{1.5, 2.5, 0.25, -3.5}).Draw(rt, "discfloats")
	firstTrue := rapid.Bool().Draw(rt, "discbool")
	mixedInt := rapid.IntRange(0, len(variants)-1).Draw(rt, "mixedint")

	// decoy: a constant every branch carries besides the discriminator, of any
	// kind, with the same value in every branch or a value per branch.
	//
	// EXCLUDED REGION (genuine defect, reported; replay kept as
	// keep/decoy-string-constant-before-discriminator.json): a STRING constant
	// with the SAME value in every branch. inferDiscriminatorField takes the
	// first string constant the branches share as the discriminator without
	// looking at its values, the mapping collapses to one entry and both
	// generated decoders read every value as the last branch. Such a decoy is
	// drawn, counted and given a value per branch instead; string constants the
	// model generator itself put under one name into several branches are
	// turned into plain strings (counted).
	decoy := f != smodel.OpenAPI && rapid.IntRange(0, 2).Draw(rt, "decoy") == 0
	decoyName := rapid.SampledFrom([]string{"version", "schemaVersion", "legacy"}).Draw(rt, "decoyname")
	decoyKind := rapid.SampledFrom([]string{"int", "bool", "string", "int"}).Draw(rt, "decoykind")
	decoySame := rapid.Bool().Draw(rt, "decoysame")
	decoyInts := rapid.Permutation([]int{1, 2, 3, 7}).Draw(rt, "decoyints")
	decoyStrings := rapid.Permutation([]string{"v1", "v2", "beta", "2024-01"}).Draw(rt, "decoystrings")
	if decoy {
		if decoyKind == "bool" {
			decoySame = true
		}
		// (a string constant with ONE value shared by all branches used to be
		// taken for the discriminator by cog: repaired, fix 6852dce; it is drawn)
		if decoyKind == "string" && decoySame {
			count(run, "string_constant_with_one_value_shared_by_all_branches", 1)
		}
		same := "distinct"
		if decoySame {
			same = "same"
		}
		labels = append(labels, "union-focus:decoy="+decoyKind+"-"+same)
	}
	if f != smodel.OpenAPI {
		owners := map[string]int{}
		for _, name := range variants {
			if d := m.Def(name); d != nil {
				for _, fl := range d.Type.Fields {
					if fl.Name != disc && fl.Type.Kind == smodel.KString && fl.Type.Const != nil {
						owners[fl.Name]++
					}
				}
			}
		}
		for _, name := range variants {
			if d := m.Def(name); d != nil {
				for i, fl := range d.Type.Fields {
					// (used to be made plain strings: see the repaired defect above)
					if fl.Name != disc && fl.Type.Kind == smodel.KString && fl.Type.Const != nil && owners[fl.Name] > 1 {
						_ = i
						count(run, "string_constant_under_one_name_in_several_branches", 1)
					}
				}
			}
		}
	}

	for vi, name := range variants {
		d := m.Def(name)
		if d == nil {
			continue
		}
		fields := d.Type.Fields
		di := -1
		for i, fl := range fields {
			if fl.Name == disc {
				di = i
			}
		}
		clash := false
		for _, fl := range fields {
			if fl.Name == decoyName || fl.Name == strings.ToLower(name)+"Marker" {
				clash = true
			}
		}
		if di >= 0 && f != smodel.OpenAPI {
			switch mode {
			case c11DiscInt:
				fields[di].Type = smodel.T{Kind: smodel.KInt, Const: smodel.Raw(ints[vi%len(ints)])}
			case c11DiscBool:
				fields[di].Type = smodel.T{Kind: smodel.KBool, Const: smodel.Raw((vi == 0) == firstTrue)}
			case c11DiscFloat:
				fields[di].Type = smodel.T{Kind: smodel.KFloat, Const: smodel.Raw(floats[vi%len(floats)])}
			case c11DiscMixed:
				if vi == mixedInt {
					fields[di].Type = smodel.T{Kind: smodel.KInt, Const: smodel.Raw(ints[vi%len(ints)])}
				}
			case c11DiscNone:
				fields = append(append([]smodel.Field{}, fields[:di]...), fields[di+1:]...)
				if !clash {
					fields = c11InsertField(fields, rapid.IntRange(0, len(fields)).Draw(rt, "markerpos"), smodel.Field{Name: strings.ToLower(name) + "Marker", Required: true, Type: smodel.T{Kind: smodel.KString}})
				}
				di = -1
			}
			if di >= 0 {
				fields = c11MoveField(fields, di, rapid.IntRange(0, len(fields)-1).Draw(rt, "discpos"))
			}
		}
		if decoy && !clash {
			var dt smodel.T
			k := 0
			if !decoySame {
				k = vi
			}
			switch decoyKind {
			case "bool":
				dt = smodel.T{Kind: smodel.KBool, Const: smodel.Raw(firstTrue)}
			case "string":
				dt = smodel.T{Kind: smodel.KString, Const: smodel.Raw(decoyStrings[k%len(decoyStrings)])}
			default:
				dt = smodel.T{Kind: smodel.KInt, Const: smodel.Raw(decoyInts[k%len(decoyInts)])}
			}
			fields = c11InsertField(fields, rapid.IntRange(0, len(fields)).Draw(rt, "decoypos"), smodel.Field{Name: decoyName, Required: true, Type: dt})
		}
		d.Type.Fields = fields
	}
	if mode == c11DiscNone {
		m.Walk(func(_ string, _ string, t *smodel.T) {
			if t.Kind == smodel.KUStructs {
				t.Discriminator = ""
			}
		})
		disc = ""
	}

	// the holder: the union as a property, as array items, as map values
	if m.Def(c11HolderDef) == nil {
		named := ""
		for _, d := range m.Defs {
			if d.Type.Kind == smodel.KUStructs {
				named = d.Name
			}
		}
		union := func(label string) smodel.T {
			if named != "" && rapid.IntRange(0, 2).Draw(rt, label+"named") == 0 {
				return smodel.T{Kind: smodel.KRef, Ref: named}
			}
			n := rapid.IntRange(2, len(variants)).Draw(rt, label+"n")
			refs := append([]string{}, rapid.Permutation(variants).Draw(rt, label+"refs")[:n]...)
			return smodel.T{Kind: smodel.KUStructs, Refs: refs, Discriminator: disc}
		}
		holder := smodel.T{Kind: smodel.KStruct}
		shapes := rapid.SliceOfNDistinct(rapid.SampledFrom([]string{"one", "many", "byKey"}), 1, 3, rapid.ID[string]).Draw(rt, "holdershapes")
		for _, shape := range shapes {
			u := union(shape)
			switch shape {
			case "one":
				holder.Fields = append(holder.Fields, smodel.Field{Name: "one", Type: u, Required: rapid.Bool().Draw(rt, "onerequired")})
			case "many":
				holder.Fields = append(holder.Fields, smodel.Field{Name: "many", Type: smodel.T{Kind: smodel.KArray, Elem: &u}, Required: true})
			default:
				holder.Fields = append(holder.Fields, smodel.Field{Name: "byKey", Type: smodel.T{Kind: smodel.KMap, Elem: &u}, Required: true})
			}
			labels = append(labels, "union-focus:holder-"+shape)
		}
		m.Defs = append(m.Defs, smodel.Def{Name: c11HolderDef, Type: holder})
		if entry := m.Def(m.Entry); entry != nil && entry.Type.Kind == smodel.KStruct {
			has := false
			for _, fl := range entry.Type.Fields {
				if fl.Name == c11HolderField {
					has = true
				}
			}
			if !has {
				entry.Type.Fields = append(entry.Type.Fields, smodel.Field{Name: c11HolderField, Type: smodel.T{Kind: smodel.KRef, Ref: c11HolderDef}, Required: rapid.Bool().Draw(rt, "holderrequired")})
			}
		}
	}
	return mode, labels
}

// c11DrawCase draws a case as the other generated-code checks do and, in three
// cases of eight, turns it into a union-focus case (no collections nested
// directly in collections there: the listed crashes of from_json on those
// shapes would hide what the unions do).
func c11DrawCase(rt *rapid.T, run *vlib.Run, docsPerDef int) (schemaCase, []string) {
	focus := rapid.IntRange(0, 7).Draw(rt, "unionfocus") < 3
	formats := smodel.Formats
	if focus {
		// OpenAPI has one way to write a union of structs: a third as many there
		formats = []smodel.Format{smodel.JSONSchema, smodel.JSONSchema, smodel.JSONSchema, smodel.CUE, smodel.CUE, smodel.CUE, smodel.OpenAPI}
	}
	f := rapid.SampledFrom(formats).Draw(rt, "format")
	cfg := smodel.DefaultGenConfig(f)
	if !focus {
		return drawSchemaCase(rt, cfg, docsPerDef), nil
	}
	cfg.NamedUnions = rapid.IntRange(0, 2).Draw(rt, "namedunions") == 0
	m := smodel.Draw(rt, cfg)
	_, labels := c11UnionFocus(rt, run, f, m)
	c := schemaCase{Format: f, Model: m}
	if f == smodel.OpenAPI && rapid.IntRange(0, 2).Draw(rt, "twopackages") == 0 {
		drawSplit(rt, &c)
	}
	for _, def := range m.DocDefs() {
		n := docsPerDef
		if def == c11HolderDef {
			n += 2
		}
		for i := 0; i < n; i++ {
			d := smodel.DrawDoc(rt, m, def)
			// LISTED (C11-go-any-union-loses-int-precision, witness kept): a union
			// of structs cog finds no string discriminator for is `any` in Go, so
			// its values are decoded into map[string]any with float64 numbers and
			// integers beyond 2^53 come back rounded (Python keeps them). Such
			// integers are clamped to +-2^53 inside those union values (counted) so
			// that the search goes on behind the finding.
			if n := c11ClampWideInts(m, &d); n > 0 {
				count(run, "excluded:integer_beyond_2^53_inside_undiscriminated_union_clamped", n)
			}
			c.Docs = append(c.Docs, d)
		}
	}
	return c, labels
}

// c11ClampWideInts rewrites the integers beyond +-2^53 that sit inside a value
// of a union of structs without string discriminator; it returns how many.
func c11ClampWideInts(m *smodel.Model, d *smodel.Doc) int {
	v, err := smodel.ParseJSON(d.JSON)
	def := m.Def(d.Def)
	if err != nil || def == nil {
		return 0
	}
	clamped := 0
	var clamp func(v any) any
	clamp = func(v any) any {
		switch x := v.(type) {
		case json.Number:
			if i, err := x.Int64(); err == nil {
				const lim = int64(1) << 53
				if i > lim {
					clamped++
					return json.Number(fmt.Sprint(lim))
				}
				if i < -lim {
					clamped++
					return json.Number(fmt.Sprint(-lim))
				}
			}
		case []any:
			for i := range x {
				x[i] = clamp(x[i])
			}
		case map[string]any:
			for k := range x {
				x[k] = clamp(x[k])
			}
		}
		return v
	}
	var walk func(t smodel.T, v any, depth int) any
	walk = func(t smodel.T, v any, depth int) any {
		if v == nil || depth > 24 {
			return v
		}
		switch t.Kind {
		case smodel.KRef:
			if rd := m.Def(t.Ref); rd != nil {
				return walk(rd.Type, v, depth+1)
			}
		case smodel.KStruct:
			if obj, ok := v.(map[string]any); ok {
				for _, fl := range t.Fields {
					if fv, has := obj[fl.Name]; has {
						obj[fl.Name] = walk(fl.Type, fv, depth+1)
					}
				}
			}
		case smodel.KArray:
			if l, ok := v.([]any); ok && t.Elem != nil {
				for i := range l {
					l[i] = walk(*t.Elem, l[i], depth+1)
				}
			}
		case smodel.KMap:
			if obj, ok := v.(map[string]any); ok && t.Elem != nil {
				for k := range obj {
					obj[k] = walk(*t.Elem, obj[k], depth+1)
				}
			}
		case smodel.KUStructs:
			if !c11AllStringConstants(m, t) {
				return clamp(v)
			}
		}
		return v
	}
	v = walk(def.Type, v, 0)
	if clamped > 0 {
		if raw, err := json.Marshal(v); err == nil {
			d.JSON = string(raw)
		}
	}
	return clamped
}

// ------------------------------------------------------------------ oracle

// c11BranchOf finds the branch of a union of structs a value belongs to:
// the first referred struct that declares every property of the value, whose
// required properties the value has, and whose constants the value repeats.
func c11BranchOf(m *smodel.Model, t smodel.T, v any) (string, bool) {
	obj, ok := v.(map[string]any)
	if !ok || t.Kind != smodel.KUStructs {
		return "", false
	}
	for _, r := range t.Refs {
		d := m.Def(r)
		if d == nil || d.Type.Kind != smodel.KStruct {
			continue
		}
		match := true
		declared := map[string]bool{}
		for _, fl := range d.Type.Fields {
			declared[fl.Name] = true
			fv, has := obj[fl.Name]
			if !has {
				if fl.Required {
					match = false
				}
				continue
			}
			if fl.Type.Const != nil {
				cv, err := smodel.ParseJSON(string(*fl.Type.Const))
				if err != nil {
					match = false
					continue
				}
				if _, same := smodel.JSONEqual(cv, fv); !same {
					match = false
				}
			}
		}
		for k := range obj {
			if !declared[k] {
				match = false
			}
		}
		if match {
			return r, true
		}
	}
	return "", false
}

// c11StringDiscriminated: the shared comparison finds the branch of this value
// by itself (string constant under the union's discriminator name).
func c11StringDiscriminated(m *smodel.Model, t smodel.T, v any) bool {
	obj, isObj := v.(map[string]any)
	if !isObj || t.Discriminator == "" {
		return false
	}
	// (the shared lookup reads a non-string constant as "" and would then take
	// the first branch for every value)
	if _, isString := obj[t.Discriminator].(string); !isString {
		return false
	}
	_, ok := m.UnionBranch(t, v)
	return ok
}

const c11Judged = "\u0001union value judged separately"

// c11Compare is smodel.CompareRoundTrip for models whose unions of structs are
// not all told apart by a string constant: such union values are compared
// against their own branch (found structurally) and then blanked on both
// sides, so that the shared type-directed comparison — which would otherwise
// fall back to plain JSON equality there and lose the exemption the property
// grants to optional nulls, and the classes of the listed findings — judges
// the rest.
func c11Compare(m *smodel.Model, def string, origJSON, gotJSON string) ([]smodel.Diff, error) {
	orig, err := smodel.ParseJSON(origJSON)
	if err != nil {
		return nil, err
	}
	got, err := smodel.ParseJSON(gotJSON)
	if err != nil {
		return nil, fmt.Errorf("re-encoded document is not JSON: %w", err)
	}
	d := m.Def(def)
	if d == nil {
		return nil, fmt.Errorf("no definition %s", def)
	}
	var diffs []smodel.Diff
	var firstErr error
	var walk func(t smodel.T, o, g any, path string, depth int) (any, any)
	walk = func(t smodel.T, o, g any, path string, depth int) (any, any) {
		if o == nil || g == nil || depth > 24 {
			return o, g
		}
		switch t.Kind {
		case smodel.KRef:
			if rd := m.Def(t.Ref); rd != nil {
				return walk(rd.Type, o, g, path, depth+1)
			}
		case smodel.KStruct:
			om, ok1 := o.(map[string]any)
			gm, ok2 := g.(map[string]any)
			if ok1 && ok2 {
				for _, fl := range t.Fields {
					ov, oin := om[fl.Name]
					gv, gin := gm[fl.Name]
					if oin && gin {
						om[fl.Name], gm[fl.Name] = walk(fl.Type, ov, gv, path+"."+fl.Name, depth+1)
					}
				}
			}
		case smodel.KArray:
			ol, ok1 := o.([]any)
			gl, ok2 := g.([]any)
			if ok1 && ok2 && len(ol) == len(gl) && t.Elem != nil {
				for i := range ol {
					ol[i], gl[i] = walk(*t.Elem, ol[i], gl[i], fmt.Sprintf("%s[%d]", path, i), depth+1)
				}
			}
		case smodel.KMap:
			om, ok1 := o.(map[string]any)
			gm, ok2 := g.(map[string]any)
			if ok1 && ok2 && t.Elem != nil {
				for k, ov := range om {
					if gv, gin := gm[k]; gin {
						om[k], gm[k] = walk(*t.Elem, ov, gv, path+"["+k+"]", depth+1)
					}
				}
			}
		case smodel.KUStructs:
			if c11StringDiscriminated(m, t, o) {
				return o, g
			}
			branch, ok := c11BranchOf(m, t, o)
			if !ok {
				return o, g // plain JSON equality judges it
			}
			if _, isObj := g.(map[string]any); !isObj {
				return o, g
			}
			ob, _ := json.Marshal(o)
			gb, _ := json.Marshal(g)
			sub, err := c11Compare(m, branch, string(ob), string(gb))
			if err != nil {
				if firstErr == nil {
					firstErr = err
				}
				return o, g
			}
			for _, df := range sub {
				df.Path = path + strings.TrimPrefix(df.Path, "$")
				if df.Class == "value" && !strings.HasSuffix(df.FieldKind, "-in-undiscriminated-union") {
					df.FieldKind += "-in-undiscriminated-union"
				}
				diffs = append(diffs, df)
			}
			return c11Judged, c11Judged
		}
		return o, g
	}
	orig, got = walk(d.Type, orig, got, "$", 0)
	if firstErr != nil {
		return nil, firstErr
	}
	ob, _ := json.Marshal(orig)
	gb, _ := json.Marshal(got)
	rest, err := smodel.CompareRoundTrip(m, def, string(ob), string(gb))
	if err != nil {
		return nil, err
	}
	return append(diffs, rest...), nil
}

// c11UnionRegion names how the unions of structs of the model are told apart
// (for signatures and labels): "" when every union is discriminated by string
// constants, the shape the shared generator draws.
func c11UnionRegion(m *smodel.Model) string {
	kinds := map[string]bool{}
	m.Walk(func(_ string, _ string, t *smodel.T) {
		if t.Kind != smodel.KUStructs {
			return
		}
		for _, r := range t.Refs {
			d := m.Def(r)
			if d == nil {
				continue
			}
			found := false
			for _, fl := range d.Type.Fields {
				if t.Discriminator != "" && fl.Name == t.Discriminator && fl.Type.Const != nil {
					found = true
					if fl.Type.Kind != smodel.KString {
						kinds[fl.Type.Kind] = true
					}
				}
			}
			if !found {
				kinds["none"] = true
			}
		}
	})
	if len(kinds) == 0 {
		return ""
	}
	return ":union-discriminator=" + strings.Join(sortedStrings(keysOf(kinds)), "+")
}

// c11AllStringConstants: every branch of the union carries a string constant
// under the union's discriminator name (the shape cog builds a mapping for).
func c11AllStringConstants(m *smodel.Model, t smodel.T) bool {
	if t.Kind != smodel.KUStructs || t.Discriminator == "" {
		return false
	}
	for _, r := range t.Refs {
		d := m.Def(r)
		if d == nil {
			return false
		}
		ok := false
		for _, fl := range d.Type.Fields {
			if fl.Name == t.Discriminator && fl.Type.Kind == smodel.KString && fl.Type.Const != nil {
				ok = true
			}
		}
		if !ok {
			return false
		}
	}
	return true
}
