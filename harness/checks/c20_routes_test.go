package checks

// C20 — the routes by which cog reaches a schema-transformation or a
// builder-transformation file.
//
// The property speaks of *files*; cog reads them through several entry points
// and always among other files:
//
//	compiler passes:  CompilerLoader.Load(reader)                      ("" — the default route)
//	                  CompilerLoader.LoadAll(readers)                  ("readers")
//	                  CompilerLoader.PassesFrom(file names)            ("files")
//	                  pipeline `transformations.schemas` and the
//	                  per-input `transformations` lists, loaded by
//	                  PipelineFromFile + Pipeline.LoadSchemas          ("pipeline")
//	veneers:          VeneersLoader.RewriterFrom([one file])           ("")
//	                  VeneersLoader.RewriterFrom(file names)           ("files")
//	                  pipeline `transformations.builders` directories,
//	                  loaded by PipelineFromFile + Pipeline.Run        ("pipeline")
//
// A route case places the document under test (the "target") at position Pos
// among valid sibling files, and, for the pipeline route, gives every file a
// slot (pipeline level list / input 0 / input 1; veneers: directory 0 / 1).
// The oracles of c20Check are then applied to what the *route* answers.

import (
	"context"
	"encoding/json"
	"fmt"
	"io"
	"os"
	"path/filepath"
	"reflect"
	"strings"

	"github.com/grafana/cog/internal/codegen"
	"github.com/grafana/cog/internal/veneers/rewrite"
	cogyaml "github.com/grafana/cog/internal/yaml"
)

var c20Routes = map[string][]string{
	"compiler": {"readers", "files", "pipeline"},
	"veneers":  {"files", "pipeline"},
}

var c20InputKinds = []string{"jsonschema", "openapi", "cue"}

// output languages of the veneers pipeline route (every one of them asks for
// the veneers when builders are generated).
var c20PipelineLangs = []string{"go", "typescript", "python", "jsonschema"}

const (
	c20InputJSONSchema = `{"$schema":"http://json-schema.org/draft-07/schema#","definitions":{"Obj":{"type":"object","additionalProperties":false,"properties":{"field":{"type":"string"},"other":{"type":"integer"}}},"Other":{"type":"object","additionalProperties":false,"properties":{"obj":{"$ref":"#/definitions/Obj"},"tags":{"type":"array","items":{"type":"string"}}}}}}`
	c20InputOpenAPI    = `{"openapi":"3.0.0","info":{"title":"t","version":"1.0.0"},"paths":{},"components":{"schemas":{"Obj":{"type":"object","properties":{"field":{"type":"string"},"other":{"type":"integer"}}},"Other":{"type":"object","properties":{"obj":{"$ref":"#/components/schemas/Obj"},"tags":{"type":"array","items":{"type":"string"}}}}}}}`
	c20InputCUE        = "package %s\n\nObj: {\n\tfield?: string\n\tother?: int64\n}\n\nOther: {\n\tobj?: Obj\n\ttags?: [...string]\n}\n"
)

func c20WorkDir() (string, error) {
	base := os.Getenv("VERIF_WORK")
	if base == "" {
		base = os.TempDir()
	}
	dir := filepath.Join(base, fmt.Sprintf("c20_routes_%d", os.Getpid()))
	if err := os.MkdirAll(dir, 0o755); err != nil {
		return "", err
	}
	return dir, nil
}

var c20RouteSeq int

// c20NormalizeRoute makes a (possibly shrunk or hand-written) route case total.
func c20NormalizeRoute(c *c20Case) {
	n := len(c.Siblings) + 1
	if c.Pos < 0 {
		c.Pos = 0
	}
	if c.Pos > len(c.Siblings) {
		c.Pos = len(c.Siblings)
	}
	if c.Route != "pipeline" {
		return
	}
	if len(c.Kinds) == 0 {
		c.Kinds = []string{"jsonschema"}
	}
	if len(c.Kinds) > 2 {
		c.Kinds = c.Kinds[:2]
	}
	slots := make([]int, n)
	for i := range slots {
		if i < len(c.Slots) && c.Slots[i] > 0 {
			slots[i] = c.Slots[i]
		}
		if c.Loader == "compiler" {
			slots[i] %= len(c.Kinds) + 1
		} else {
			slots[i] %= 2
		}
	}
	c.Slots = slots
	if c.Lang == "" {
		c.Lang = "go"
	}
}

type c20File struct {
	text   string
	slot   int
	target bool
}

// c20FileList returns the files of a route case in order: the siblings with
// the target at position Pos; Slots is indexed by the position in that list.
func c20FileList(c c20Case, withTarget bool) []c20File {
	var all []c20File
	for i := 0; i <= len(c.Siblings); i++ {
		if i == c.Pos {
			all = append(all, c20File{text: c.YAML, target: true})
		}
		if i < len(c.Siblings) {
			all = append(all, c20File{text: c.Siblings[i]})
		}
	}
	var out []c20File
	for i := range all {
		if i < len(c.Slots) {
			all[i].slot = c.Slots[i]
		}
		if all[i].target && !withTarget {
			continue
		}
		out = append(out, all[i])
	}
	return out
}

// c20LoadVia runs the route of c on its files. withTarget=false leaves the
// target out (the control: the siblings alone). rules = number of passes /
// rewrite rules the route produced, -1 when the route does not show them.
func c20LoadVia(c c20Case, withTarget bool) (rules int, err error) {
	c20NormalizeRoute(&c)
	files := c20FileList(c, withTarget)
	texts := make([]string, len(files))
	slots := make([]int, len(files))
	for i, f := range files {
		texts[i], slots[i] = f.text, f.slot
	}

	if c.Route == "readers" {
		readers := make([]io.Reader, 0, len(texts))
		for _, t := range texts {
			readers = append(readers, strings.NewReader(t))
		}
		passes, e := cogyaml.NewCompilerLoader().LoadAll(readers)
		return len(passes), e
	}

	base, err := c20WorkDir()
	if err != nil {
		return -1, fmt.Errorf("harness: %w", err)
	}
	c20RouteSeq++
	dir := filepath.Join(base, fmt.Sprintf("case_%d", c20RouteSeq))
	if err := os.MkdirAll(dir, 0o755); err != nil {
		return -1, fmt.Errorf("harness: %w", err)
	}
	defer os.RemoveAll(dir)

	write := func(rel string, text string) (string, error) {
		p := filepath.Join(dir, rel)
		if e := os.MkdirAll(filepath.Dir(p), 0o755); e != nil {
			return "", e
		}
		return p, os.WriteFile(p, []byte(text), 0o644)
	}

	switch c.Route {
	case "files":
		var names []string
		for i, t := range texts {
			p, e := write(fmt.Sprintf("f%02d.yaml", i), t)
			if e != nil {
				return -1, fmt.Errorf("harness: %w", e)
			}
			names = append(names, p)
		}
		if c.Loader == "compiler" {
			passes, e := cogyaml.NewCompilerLoader().PassesFrom(names)
			return len(passes), e
		}
		rw, e := cogyaml.NewVeneersLoader().RewriterFrom(names, rewrite.Config{})
		return c20RewriterRules(rw), e
	case "pipeline":
		ref := func(p string) string {
			if c.Interp {
				return "%__config_dir%/" + filepath.ToSlash(strings.TrimPrefix(p, dir+string(filepath.Separator)))
			}
			return p
		}
		type inputDoc map[string]any
		var inputs []map[string]any
		perInput := make([][]string, len(c.Kinds))
		var common []string
		var veneerDirs []string
		if c.Loader == "compiler" {
			for i, t := range texts {
				p, e := write(fmt.Sprintf("passes/f%02d.yaml", i), t)
				if e != nil {
					return -1, fmt.Errorf("harness: %w", e)
				}
				if slots[i] == 0 {
					common = append(common, ref(p))
				} else {
					perInput[slots[i]-1] = append(perInput[slots[i]-1], ref(p))
				}
			}
		} else {
			used := map[int]bool{}
			for i, t := range texts {
				if _, e := write(fmt.Sprintf("veneers%d/f%02d.yaml", slots[i], i), t); e != nil {
					return -1, fmt.Errorf("harness: %w", e)
				}
				used[slots[i]] = true
			}
			for d := 0; d < 2; d++ {
				if used[d] {
					veneerDirs = append(veneerDirs, ref(filepath.Join(dir, fmt.Sprintf("veneers%d", d))))
				}
			}
		}
		for i, kind := range c.Kinds {
			pkg := []string{"pkg", "pkgb"}[i]
			in := inputDoc{"package": pkg}
			switch kind {
			case "openapi":
				p, e := write(pkg+".openapi.json", c20InputOpenAPI)
				if e != nil {
					return -1, fmt.Errorf("harness: %w", e)
				}
				in["path"] = ref(p)
			case "cue":
				p, e := write(filepath.Join("cue", pkg, pkg+".cue"), fmt.Sprintf(c20InputCUE, pkg))
				if e != nil {
					return -1, fmt.Errorf("harness: %w", e)
				}
				in["entrypoint"] = ref(filepath.Dir(p))
			default:
				kind = "jsonschema"
				p, e := write(pkg+".schema.json", c20InputJSONSchema)
				if e != nil {
					return -1, fmt.Errorf("harness: %w", e)
				}
				in["path"] = ref(p)
			}
			if len(perInput[i]) > 0 {
				in["transformations"] = perInput[i]
			}
			inputs = append(inputs, map[string]any{kind: in})
		}
		transforms := map[string]any{}
		if len(common) > 0 {
			transforms["schemas"] = common
		}
		if len(veneerDirs) > 0 {
			transforms["builders"] = veneerDirs
		}
		langCfg := map[string]any{}
		if c.Lang == "go" {
			langCfg["package_root"] = "example.com/c20"
		}
		doc := map[string]any{
			"inputs":          inputs,
			"transformations": transforms,
			"output": map[string]any{
				"directory": filepath.Join(dir, "out"),
				"types":     true,
				"builders":  c.Loader == "veneers",
				"languages": []any{map[string]any{c.Lang: langCfg}},
			},
		}
		raw, _ := json.Marshal(doc)
		pfile, e := write("pipeline.yaml", string(raw)+"\n")
		if e != nil {
			return -1, fmt.Errorf("harness: %w", e)
		}
		var opts []codegen.PipelineOption
		if c.Interp {
			opts = append(opts, codegen.Parameters(map[string]string{}))
		}
		pipeline, e := codegen.PipelineFromFile(pfile, opts...)
		if e != nil {
			return -1, fmt.Errorf("harness: the pipeline file of the route does not load: %w", e)
		}
		if c.Loader == "compiler" {
			_, e = pipeline.LoadSchemas(context.Background())
			return -1, e
		}
		_, e = pipeline.Run(context.Background())
		return -1, e
	}
	return -1, fmt.Errorf("harness: unknown route %q", c.Route)
}

// c20RewriterRules counts the rules a Rewriter holds (unexported maps: only
// their lengths are read). -1 if the layout is not the expected one.
func c20RewriterRules(rw *rewrite.Rewriter) int {
	if rw == nil {
		return -1
	}
	v := reflect.ValueOf(rw).Elem()
	total := 0
	for _, name := range []string{"builderRules", "optionRules"} {
		f := v.FieldByName(name)
		if !f.IsValid() || f.Kind() != reflect.Map {
			return -1
		}
		it := f.MapRange()
		for it.Next() {
			if it.Value().Kind() != reflect.Slice {
				return -1
			}
			total += it.Value().Len()
		}
	}
	return total
}

// c20DeclaredRules counts the rule entries a document declares (passes, or
// builders + options). ok=false when the document holds a null entry (listed
// finding: dropped by the decoder) or is not a mapping.
func c20DeclaredRules(loader string, text string) (n int, ok bool) {
	generic, err := yamlToGeneric(text)
	if err != nil {
		return 0, false
	}
	m, isMap := generic.(map[string]any)
	if !isMap {
		return 0, false
	}
	keys := []string{"passes"}
	if loader == "veneers" {
		keys = []string{"builders", "options"}
	}
	for _, k := range keys {
		v, present := m[k]
		if !present || v == nil {
			continue
		}
		list, isList := v.([]any)
		if !isList {
			return 0, false
		}
		for _, e := range list {
			if e == nil {
				return 0, false
			}
		}
		n += len(list)
	}
	return n, true
}
