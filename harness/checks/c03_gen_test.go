package checks

// C03 — generators of the focused pipeline families.
//
// Go re-draws the iteration order of a map at every `range`; what makes such a
// loop visible in the output is (1) a map with several entries that reaches it
// and (2) entries whose effects do not commute. The general pipelines of
// c03_test.go rarely have both. The families here build them on purpose:
//
//   - compound values: defaults and constants that are maps / structs holding
//     maps / lists of maps, with 2-12 entries, wherever cog accepts a value
//     (struct defaults on references, `fields_set_default`, `initialize`,
//     constant assignments of `add_option` / `add_assignment`);
//   - veneer layouts: a sequence of builder / option rules drawn against the
//     *evolving* set of builders and options (so that later rules select what
//     earlier ones made), cut into 1-12 files of 1-3 directories, `all` and
//     per-language rule sets mixed, map-typed rule arguments
//     (`rename_options`) whose entries chain, swap and differ by case only;
//   - transformation files: chains of passes spread over several files.
//
// Everything is drawn through rapid; the case only stores rendered text.

import (
	"fmt"
	"sort"
	"strconv"
	"strings"

	"github.com/grafana/cog/verifharness/e2"
	"github.com/grafana/cog/verifharness/smodel"
	"pgregory.net/rapid"
)

// ---------------------------------------------------------------------------
// ordered values, rendered as JSON (which is valid CUE and valid YAML flow)

type okv struct {
	K string
	V any
}

// omap is a map literal whose entries keep the order they were drawn in.
type omap []okv

func renderValue(v any) string {
	switch x := v.(type) {
	case nil:
		return "null"
	case string:
		return strconv.Quote(x)
	case bool:
		return strconv.FormatBool(x)
	case int:
		return strconv.Itoa(x)
	case float64:
		return strconv.FormatFloat(x, 'f', -1, 64)
	case []any:
		items := make([]string, len(x))
		for i, it := range x {
			items[i] = renderValue(it)
		}
		return "[" + strings.Join(items, ", ") + "]"
	case omap:
		items := make([]string, len(x))
		for i, e := range x {
			items[i] = strconv.Quote(e.K) + ": " + renderValue(e.V)
		}
		return "{" + strings.Join(items, ", ") + "}"
	}
	panic(fmt.Sprintf("c03: cannot render %T", v))
}

var c03KeyPool = []string{"env", "team", "tier", "zone", "app", "role", "owner", "stage", "shard", "unit", "kind", "site", "rack", "cell"}

// drawEntryCount: how many entries a map value gets. Up to 8 entries a Go map
// is one bucket walked from a random offset (an adjacent pair swaps in 1/8 of
// the walks only); above, the order is scattered by the per-map hash seed.
func (m *miniModel) drawEntryCount(rt *rapid.T) int {
	if m.MaxEntries > 0 {
		return rapid.IntRange(0, m.MaxEntries).Draw(rt, "fewentries")
	}
	return rapid.SampledFrom([]int{2, 3, 3, 4, 5, 6, 8, 9, 10, 12}).Draw(rt, "entries")
}

func drawKeys(rt *rapid.T, n int) []string {
	return rapid.Permutation(c03KeyPool).Draw(rt, "keys")[:n]
}

// ---------------------------------------------------------------------------
// the mini schema model

type miniField struct {
	Name string
	// Kind: string int float bool strings labels nums any ref other
	Kind string
	Ref  string
	Opt  bool
	// Default: CUE literal ("" = none)
	Default string
}

type miniObj struct {
	Name   string
	Fields []miniField
}

type miniModel struct {
	Pkg  string
	Objs []miniObj
	// FromModel: a view of a generated schema model (references may form cycles)
	FromModel bool
	// MaxEntries: when > 0, map values get at most that many entries (see
	// c03TypescriptMapLiterals)
	MaxEntries int
}

func (m *miniModel) obj(name string) *miniObj {
	for i := range m.Objs {
		if m.Objs[i].Name == name {
			return &m.Objs[i]
		}
	}
	return nil
}

var miniScalarPool = []miniField{
	{Name: "title", Kind: "string"}, {Name: "uid", Kind: "string"}, {Name: "alpha", Kind: "string"},
	{Name: "beta", Kind: "int"}, {Name: "gamma", Kind: "string"}, {Name: "size", Kind: "int"},
	{Name: "ratio", Kind: "float"}, {Name: "enabled", Kind: "bool"}, {Name: "visible", Kind: "bool"},
	{Name: "tags", Kind: "strings"}, {Name: "labels", Kind: "labels"}, {Name: "limits", Kind: "nums"},
	{Name: "extra", Kind: "any"},
}

// drawMiniModel draws 2-4 struct definitions; Objs[i] always refers to
// Objs[i+1] (so every object is reachable from the first one through plain
// references) and may refer to later ones; every object but the first one has
// a map-typed field.
func drawMiniModel(rt *rapid.T, pkg string) *miniModel {
	names := []string{"Dashboard", "Options", "Legend", "Axis"}[:rapid.IntRange(2, 4).Draw(rt, "nobjs")]
	m := &miniModel{Pkg: pkg}
	for i, name := range names {
		o := miniObj{Name: name}
		for j := i + 1; j < len(names); j++ {
			if j == i+1 || rapid.IntRange(0, 2).Draw(rt, "extraref") == 0 {
				o.Fields = append(o.Fields, miniField{Name: strings.ToLower(names[j]), Kind: "ref", Ref: names[j]})
			}
		}
		pool := rapid.Permutation(miniScalarPool).Draw(rt, "fields")[:rapid.IntRange(2, 6).Draw(rt, "nfields")]
		hasMap := false
		for _, f := range pool {
			if f.Kind == "labels" || f.Kind == "nums" {
				hasMap = true
			}
		}
		if i > 0 && !hasMap {
			pool = append(pool, miniField{Name: "labels", Kind: "labels"})
		}
		for _, f := range pool {
			f.Opt = rapid.IntRange(0, 2).Draw(rt, "optional") == 0
			o.Fields = append(o.Fields, f)
		}
		order := rapid.Permutation(o.Fields).Draw(rt, "fieldorder")
		o.Fields = order
		m.Objs = append(m.Objs, o)
	}
	return m
}

func (m *miniModel) cueType(f miniField) string {
	switch f.Kind {
	case "string":
		return "string"
	case "int":
		return "int64"
	case "float":
		return "float64"
	case "bool":
		return "bool"
	case "strings":
		return "[...string]"
	case "labels":
		return "[string]: string"
	case "nums":
		return "[string]: int64"
	case "any":
		return "_"
	case "ref":
		return f.Ref
	}
	panic("c03: unknown mini kind " + f.Kind)
}

func (m *miniModel) cue() string {
	var sb strings.Builder
	fmt.Fprintf(&sb, "package %s\n", m.Pkg)
	for _, o := range m.Objs {
		fmt.Fprintf(&sb, "\n%s: {\n", o.Name)
		for _, f := range o.Fields {
			opt := ""
			if f.Opt {
				opt = "?"
			}
			t := m.cueType(f)
			if f.Default != "" {
				t += " | *" + f.Default
			}
			fmt.Fprintf(&sb, "\t%s%s: %s\n", f.Name, opt, t)
		}
		sb.WriteString("}\n")
	}
	return sb.String()
}

// drawMiniValue draws a value of the field's type. compound: maps get 2-12
// entries (otherwise 0-2).
func (m *miniModel) drawMiniValue(rt *rapid.T, f miniField, depth int) any {
	switch f.Kind {
	case "string":
		return rapid.SampledFrom([]string{"x", "prod", "a b", "", "50% of %s", "it's"}).Draw(rt, "vstr")
	case "int":
		return rapid.IntRange(-2, 99).Draw(rt, "vint")
	case "float":
		return rapid.SampledFrom([]float64{1.5, 0.25, -3.75, 42}).Draw(rt, "vfloat")
	case "bool":
		return rapid.Bool().Draw(rt, "vbool")
	case "strings":
		n := rapid.IntRange(0, 3).Draw(rt, "vlistn")
		out := []any{}
		for i := 0; i < n; i++ {
			out = append(out, rapid.SampledFrom([]string{"a", "b", "c d", ""}).Draw(rt, "vitem"))
		}
		return out
	case "labels", "nums":
		var out omap
		for _, k := range drawKeys(rt, m.drawEntryCount(rt)) {
			if f.Kind == "labels" {
				out = append(out, okv{k, rapid.SampledFrom([]string{"1", "a", "prod", ""}).Draw(rt, "vmapstr")})
			} else {
				out = append(out, okv{k, rapid.IntRange(0, 50).Draw(rt, "vmapint")})
			}
		}
		return out
	case "any":
		return m.drawAnyValue(rt, depth)
	case "ref":
		target := m.obj(f.Ref)
		var out omap
		if target == nil || depth > 3 {
			return omap{}
		}
		for _, tf := range target.Fields {
			if tf.Kind == "other" || (tf.Opt && rapid.Bool().Draw(rt, "skipoptional")) {
				continue
			}
			out = append(out, okv{tf.Name, m.drawMiniValue(rt, tf, depth+1)})
		}
		return out
	}
	return "x"
}

// drawAnyValue: scalars, lists and maps nested in each other (maps of maps,
// lists of maps).
func (m *miniModel) drawAnyValue(rt *rapid.T, depth int) any {
	max := 4
	if depth >= 2 {
		max = 1
	}
	switch rapid.IntRange(0, max).Draw(rt, "anykind") {
	case 0:
		return rapid.SampledFrom([]string{"x", "", "any"}).Draw(rt, "anystr")
	case 1:
		return rapid.IntRange(0, 9).Draw(rt, "anyint")
	case 2:
		n := rapid.IntRange(1, 3).Draw(rt, "anylistn")
		out := []any{}
		for i := 0; i < n; i++ {
			out = append(out, m.drawAnyValue(rt, depth+1))
		}
		return out
	default:
		var out omap
		for _, k := range drawKeys(rt, m.drawEntryCount(rt)) {
			out = append(out, okv{k, m.drawAnyValue(rt, depth+1)})
		}
		return out
	}
}

// addMiniDefaults gives references struct defaults (with the maps of the
// referred structs filled in), and scalars / lists plain defaults.
func (m *miniModel) addMiniDefaults(rt *rapid.T) (structDefaults int) {
	for i := range m.Objs {
		for j := range m.Objs[i].Fields {
			f := &m.Objs[i].Fields[j]
			switch f.Kind {
			case "ref":
				if m.MaxEntries > 0 {
					// (a struct default is a map with one entry per member)
					continue
				}
				if rapid.IntRange(0, 3).Draw(rt, "structdefault") != 0 {
					f.Default = renderValue(m.drawMiniValue(rt, *f, 0))
					structDefaults++
				}
			case "string", "int", "bool", "float", "strings":
				if rapid.IntRange(0, 3).Draw(rt, "plaindefault") == 0 {
					f.Default = renderValue(m.drawMiniValue(rt, *f, 0))
				}
			}
		}
	}
	return structDefaults
}

// miniFromSModel is the view of a generated schema model the veneer generator
// works on: the struct definitions of the entry's package, their fields with
// the kinds the kind-specific rules care about.
func miniFromSModel(sc schemaCase) *miniModel {
	if sc.Model == nil {
		return nil
	}
	pkg := sc.Model.Package
	m := &miniModel{Pkg: pkg, FromModel: true}
	isStruct := func(name string) bool {
		d := sc.Model.Def(name)
		return d != nil && d.Type.Kind == smodel.KStruct && sc.pkgOf(name) == pkg
	}
	add := func(name string) {
		d := sc.Model.Def(name)
		o := miniObj{Name: name}
		for _, f := range d.Type.Fields {
			mf := miniField{Name: f.Name, Kind: "other", Opt: !f.Required}
			switch {
			case f.Type.Const != nil:
				// constants are not options
				continue
			case f.Type.Kind == smodel.KString && !f.Type.Nullable:
				mf.Kind = "string"
			case f.Type.Kind == smodel.KBool && !f.Type.Nullable:
				mf.Kind = "bool"
			case f.Type.Kind == smodel.KArray:
				mf.Kind = "strings"
			case f.Type.Kind == smodel.KMap:
				mf.Kind = "labels"
			case f.Type.Kind == smodel.KRef && !f.Type.Nullable && isStruct(f.Type.Ref) && f.Type.Ref != name:
				mf.Kind, mf.Ref = "ref", f.Type.Ref
			}
			o.Fields = append(o.Fields, mf)
		}
		m.Objs = append(m.Objs, o)
	}
	if !isStruct(sc.Model.Entry) {
		return nil
	}
	add(sc.Model.Entry)
	for _, d := range sc.Model.Defs {
		if d.Name != sc.Model.Entry && isStruct(d.Name) {
			add(d.Name)
		}
	}
	if len(m.Objs[0].Fields) == 0 {
		return nil
	}
	// only references towards later objects are followed: the view is acyclic,
	// so that merge_into rules copying options down a path cannot feed each
	// other (options whose paths double with every rule)
	index := map[string]int{}
	for i, o := range m.Objs {
		index[o.Name] = i
	}
	for i := range m.Objs {
		for j := range m.Objs[i].Fields {
			if f := &m.Objs[i].Fields[j]; f.Kind == "ref" && index[f.Ref] <= i {
				f.Kind, f.Ref = "other", ""
			}
		}
	}
	return m
}

// ---------------------------------------------------------------------------
// veneer rules drawn against the evolving builders

type vopt struct {
	Name string
	Kind string
	Ref  string
}

type c03Builder struct {
	Name string
	Obj  *miniObj
	Opts []vopt
	Dup  bool
}

type vgen struct {
	rt       *rapid.T
	m        *miniModel
	builders []*c03Builder
	// stale: option names that existed at some point
	stale  []string
	labels map[string]bool
	// merges: merge_into rules drawn so far (at most 4: each one multiplies
	// the options of its destination)
	merges int
}

var c03NewNames = []string{"heading", "label", "alias", "caption", "primary", "secondary", "alpha", "beta", "withDefaults"}

func newVGen(rt *rapid.T, m *miniModel) *vgen {
	g := &vgen{rt: rt, m: m, labels: map[string]bool{}}
	for i := range m.Objs {
		o := &m.Objs[i]
		b := &c03Builder{Name: o.Name, Obj: o}
		for _, f := range o.Fields {
			b.Opts = append(b.Opts, vopt{f.Name, f.Kind, f.Ref})
			g.stale = append(g.stale, f.Name)
		}
		g.builders = append(g.builders, b)
	}
	return g
}

func yq(s string) string { return strconv.Quote(s) }

func yqlist(items []string) string {
	out := make([]string, len(items))
	for i, s := range items {
		out[i] = yq(s)
	}
	return "[" + strings.Join(out, ", ") + "]"
}

func flipCase(s string) string {
	if s == "" {
		return s
	}
	if up := strings.ToUpper(s[:1]); up != s[:1] {
		return up + s[1:]
	}
	return strings.ToLower(s[:1]) + s[1:]
}

// maybeFlip: selectors match names whatever their case.
func (g *vgen) maybeFlip(s string) string {
	if rapid.IntRange(0, 6).Draw(g.rt, "flipcase") == 0 {
		return flipCase(s)
	}
	return s
}

func (g *vgen) pickBuilder() *c03Builder {
	// the first two objects get most of the rules, so that rules meet
	if len(g.builders) > 2 && rapid.IntRange(0, 3).Draw(g.rt, "anybuilder") == 0 {
		return g.builders[rapid.IntRange(0, len(g.builders)-1).Draw(g.rt, "builder")]
	}
	return g.builders[rapid.IntRange(0, min(1, len(g.builders)-1)).Draw(g.rt, "builder01")]
}

// newName: a fresh name, or the current name of a sibling option (a swap, a
// collision).
func (g *vgen) newName(b *c03Builder) string {
	if len(b.Opts) > 0 && rapid.IntRange(0, 2).Draw(g.rt, "nameofsibling") == 0 {
		return b.Opts[rapid.IntRange(0, len(b.Opts)-1).Draw(g.rt, "sibling")].Name
	}
	return rapid.SampledFrom(c03NewNames).Draw(g.rt, "newname")
}

// optSelector renders an option selector for the option named name of b.
func (g *vgen) optSelector(b *c03Builder, name string) string {
	name = g.maybeFlip(name)
	switch rapid.IntRange(0, 5).Draw(g.rt, "optselector") {
	case 0:
		return "by_builder: " + yq(b.Name+"."+name)
	case 1:
		return fmt.Sprintf("by_names: {object: %s, options: %s}", yq(b.Obj.Name), yqlist([]string{name}))
	case 2:
		return fmt.Sprintf("by_names: {builder: %s, options: %s}", yq(b.Name), yqlist([]string{name}))
	default:
		return "by_name: " + yq(b.Obj.Name+"."+name)
	}
}

func (g *vgen) builderSelector(b *c03Builder) string {
	if b.Dup || rapid.Bool().Draw(g.rt, "builderbyname") {
		return "by_name: " + yq(g.maybeFlip(b.Name))
	}
	return "by_object: " + yq(g.maybeFlip(b.Obj.Name))
}

const scalarStringType = "{kind: scalar, scalar: {scalar_kind: string}}"

func scalarTypeYAML(kind string) string {
	switch kind {
	case "int":
		return "{kind: scalar, scalar: {scalar_kind: int64}}"
	case "bool":
		return "{kind: scalar, scalar: {scalar_kind: bool}}"
	case "float":
		return "{kind: scalar, scalar: {scalar_kind: float64}}"
	}
	return scalarStringType
}

// fieldForValue picks a field of the object a constant can be written to,
// compound ones (maps, any, references) first.
func (g *vgen) fieldForValue(o *miniObj) (miniField, bool) {
	var compound, plain []miniField
	for _, f := range o.Fields {
		switch f.Kind {
		case "ref":
			// (a struct value is a map with one entry per member)
			if g.m.MaxEntries == 0 {
				compound = append(compound, f)
			}
		case "labels", "nums", "any":
			compound = append(compound, f)
		case "string", "int", "float", "bool", "strings":
			plain = append(plain, f)
		}
	}
	if len(compound) > 0 && (len(plain) == 0 || rapid.IntRange(0, 3).Draw(g.rt, "compoundfield") != 0) {
		return compound[rapid.IntRange(0, len(compound)-1).Draw(g.rt, "cfield")], true
	}
	if len(plain) > 0 {
		return plain[rapid.IntRange(0, len(plain)-1).Draw(g.rt, "pfield")], true
	}
	return miniField{}, false
}

// pathsFrom lists the objects reachable from o through plain references, with
// the field path leading there.
func (g *vgen) pathsFrom(o *miniObj) (paths [][]string, targets []*miniObj) {
	seen := map[string]bool{o.Name: true}
	var rec func(cur *miniObj, path []string)
	rec = func(cur *miniObj, path []string) {
		for _, f := range cur.Fields {
			if f.Kind != "ref" || seen[f.Ref] {
				continue
			}
			t := g.m.obj(f.Ref)
			if t == nil {
				continue
			}
			seen[f.Ref] = true
			p := append(append([]string{}, path...), f.Name)
			paths = append(paths, p)
			targets = append(targets, t)
			rec(t, p)
		}
	}
	rec(o, nil)
	return
}

func (g *vgen) builderOf(o *miniObj) *c03Builder {
	for _, b := range g.builders {
		if b.Obj == o && !b.Dup {
			return b
		}
	}
	return nil
}

// step draws one rule; section is "builders" or "options".
func (g *vgen) step() (section string, rule string) {
	rt := g.rt
	b := g.pickBuilder()
	if rapid.IntRange(0, 2).Draw(rt, "onbuilder") == 0 {
		return "builders", g.builderRule(b)
	}
	if len(b.Opts) == 0 {
		return "builders", g.builderRule(b)
	}
	// the option: a current one, or (1/6) a name that is gone / never was
	idx := rapid.IntRange(0, len(b.Opts)-1).Draw(rt, "option")
	if rapid.Bool().Draw(rt, "typedoption") {
		// an option the kind-specific rules apply to, when there is one
		var typed []int
		for i, o := range b.Opts {
			switch o.Kind {
			case "ref", "labels", "nums", "strings", "bool":
				typed = append(typed, i)
			}
		}
		if len(typed) > 0 {
			idx = typed[rapid.IntRange(0, len(typed)-1).Draw(rt, "typedoptionindex")]
		}
	}
	o := b.Opts[idx]
	if rapid.IntRange(0, 5).Draw(rt, "staleoption") == 0 {
		name := rapid.SampledFrom(g.stale).Draw(rt, "stale")
		return "options", fmt.Sprintf("- add_comments: {%s, comments: %s}", g.optSelector(b, name), yqlist([]string{"about " + name}))
	}
	kinds := []string{"rename", "rename", "add_comments", "add_comments", "duplicate", "rename_arguments", "add_assignment"}
	if len(b.Opts) > 2 {
		kinds = append(kinds, "omit")
	}
	switch o.Kind {
	case "bool":
		kinds = append(kinds, "unfold_boolean", "unfold_boolean")
	case "strings":
		kinds = append(kinds, "array_to_append", "array_to_append")
	case "labels", "nums":
		kinds = append(kinds, "map_to_index", "map_to_index")
	case "ref":
		kinds = append(kinds, "struct_fields_as_arguments", "struct_fields_as_options", "struct_fields_as_options")
	}
	kind := rapid.SampledFrom(kinds).Draw(rt, "optionrule")
	sel := g.optSelector(b, o.Name)
	g.labels["rule:option:"+kind] = true
	switch kind {
	case "rename":
		as := g.newName(b)
		b.Opts[idx].Name = as
		g.stale = append(g.stale, as)
		return "options", fmt.Sprintf("- rename: {%s, as: %s}", sel, yq(as))
	case "add_comments":
		return "options", fmt.Sprintf("- add_comments: {%s, comments: %s}", sel, yqlist([]string{fmt.Sprintf("%s sets %s (%d).", o.Name, o.Name, rapid.IntRange(0, 99).Draw(rt, "commentno"))}))
	case "duplicate":
		as := g.newName(b)
		b.Opts = append(b.Opts, vopt{as, o.Kind, o.Ref})
		g.stale = append(g.stale, as)
		return "options", fmt.Sprintf("- duplicate: {%s, as: %s}", sel, yq(as))
	case "rename_arguments":
		return "options", fmt.Sprintf("- rename_arguments: {%s, as: %s}", sel, yqlist([]string{rapid.SampledFrom([]string{"value", "v", "arg"}).Draw(rt, "argname")}))
	case "omit":
		b.Opts = append(b.Opts[:idx:idx], b.Opts[idx+1:]...)
		return "options", fmt.Sprintf("- omit: {%s}", sel)
	case "unfold_boolean":
		t, f := g.newName(b), g.newName(b)
		b.Opts[idx] = vopt{t, "none", ""}
		b.Opts = append(b.Opts, vopt{f, "none", ""})
		g.stale = append(g.stale, t, f)
		return "options", fmt.Sprintf("- unfold_boolean: {%s, true_as: %s, false_as: %s}", sel, yq(t), yq(f))
	case "array_to_append", "map_to_index":
		b.Opts[idx].Kind = "none"
		return "options", fmt.Sprintf("- %s: {%s}", kind, sel)
	case "struct_fields_as_arguments":
		b.Opts[idx].Kind = "none"
		return "options", fmt.Sprintf("- struct_fields_as_arguments: {%s}", sel)
	case "struct_fields_as_options":
		target := g.m.obj(o.Ref)
		if target != nil {
			b.Opts = append(b.Opts[:idx:idx], b.Opts[idx+1:]...)
			for _, f := range target.Fields {
				b.Opts = append(b.Opts, vopt{f.Name, f.Kind, f.Ref})
			}
		}
		return "options", fmt.Sprintf("- struct_fields_as_options: {%s}", sel)
	case "add_assignment":
		f, ok := g.fieldForValue(b.Obj)
		if !ok {
			return "options", fmt.Sprintf("- add_comments: {%s, comments: [\"plain\"]}", sel)
		}
		return "options", fmt.Sprintf("- add_assignment: {%s, assignment: {path: %s, method: direct, value: {constant: %s}}}", sel, yq(f.Name), renderValue(g.m.drawMiniValue(rt, f, 0)))
	}
	panic("c03: unknown option rule " + kind)
}

func (g *vgen) builderRule(b *c03Builder) string {
	rt := g.rt
	kinds := []string{"initialize", "initialize", "promote_options_to_constructor", "properties", "add_option", "add_option", "duplicate", "rename"}
	paths, targets := g.pathsFrom(b.Obj)
	if len(paths) > 0 && g.merges < 4 {
		kinds = append(kinds, "merge_into", "merge_into", "merge_into", "merge_into")
	}
	if b.Dup {
		kinds = append(kinds, "omit")
	}
	kind := rapid.SampledFrom(kinds).Draw(rt, "builderrule")
	g.labels["rule:builder:"+kind] = true
	sel := g.builderSelector(b)
	switch kind {
	case "omit":
		for i, x := range g.builders {
			if x == b {
				g.builders = append(g.builders[:i:i], g.builders[i+1:]...)
				break
			}
		}
		return fmt.Sprintf("- omit: {%s}", sel)
	case "rename":
		as := b.Obj.Name + rapid.SampledFrom([]string{"Maker", "Factory", "B"}).Draw(rt, "buildername")
		b.Name = as
		return fmt.Sprintf("- rename: {%s, as: %s}", sel, yq(as))
	case "duplicate":
		as := b.Obj.Name + rapid.SampledFrom([]string{"Copy", "Twin", "Alt"}).Draw(rt, "dupname")
		dup := &c03Builder{Name: as, Obj: b.Obj, Dup: true, Opts: append([]vopt{}, b.Opts...)}
		rule := fmt.Sprintf("- duplicate: {%s, as: %s", sel, yq(as))
		if len(dup.Opts) > 1 && rapid.Bool().Draw(rt, "dupexclude") {
			x := rapid.IntRange(0, len(dup.Opts)-1).Draw(rt, "dupexcluded")
			rule += ", exclude_options: " + yqlist([]string{g.maybeFlip(dup.Opts[x].Name)})
			dup.Opts = append(dup.Opts[:x:x], dup.Opts[x+1:]...)
		}
		g.builders = append(g.builders, dup)
		return rule + "}"
	case "promote_options_to_constructor":
		// In a view of a generated model only options of plain types are
		// promoted: a constructor argument whose type leads back to the built
		// object (`unit: TimeRange` inside TimeRange) makes the PHP converter
		// template recurse without end - the hang listed under C04
		// (C04-hang-php-Converter-Generate), not a matter of C03.
		var promotable []vopt
		for _, o := range b.Opts {
			if !g.m.FromModel || (o.Kind != "ref" && o.Kind != "other" && o.Kind != "any" && o.Kind != "none") {
				promotable = append(promotable, o)
			}
		}
		if len(promotable) == 0 {
			return fmt.Sprintf("- properties: {%s, set: [{name: \"note\", type: %s}]}", sel, scalarStringType)
		}
		n := rapid.IntRange(1, min(3, len(promotable))).Draw(rt, "npromoted")
		var names []string
		for _, o := range rapid.Permutation(promotable).Draw(rt, "promoted")[:n] {
			names = append(names, o.Name)
		}
		return fmt.Sprintf("- promote_options_to_constructor: {%s, options: %s}", sel, yqlist(names))
	case "properties":
		n := rapid.IntRange(1, 3).Draw(rt, "nproperties")
		var set []string
		for _, name := range rapid.Permutation([]string{"note", "cache", "seen"}).Draw(rt, "properties")[:n] {
			set = append(set, fmt.Sprintf("{name: %s, type: %s}", yq(name), scalarStringType))
		}
		return fmt.Sprintf("- properties: {%s, set: [%s]}", sel, strings.Join(set, ", "))
	case "initialize":
		// 1-3 statements: a field of the object itself, or of an object below it
		n := rapid.IntRange(1, 3).Draw(rt, "ninit")
		var set []string
		for i := 0; i < n; i++ {
			o, prefix := b.Obj, ""
			if len(paths) > 0 && rapid.IntRange(0, 2).Draw(rt, "initbelow") == 0 {
				k := rapid.IntRange(0, len(paths)-1).Draw(rt, "initpath")
				o, prefix = targets[k], strings.Join(paths[k], ".")+"."
			}
			f, ok := g.fieldForValue(o)
			if !ok {
				continue
			}
			set = append(set, fmt.Sprintf("{property: %s, value: %s}", yq(prefix+f.Name), renderValue(g.m.drawMiniValue(rt, f, 0))))
		}
		if len(set) == 0 {
			return fmt.Sprintf("- properties: {%s, set: [{name: \"note\", type: %s}]}", sel, scalarStringType)
		}
		return fmt.Sprintf("- initialize: {%s, set: [%s]}", sel, strings.Join(set, ", "))
	case "add_option":
		name := g.newName(b)
		f, ok := g.fieldForValue(b.Obj)
		if !ok {
			return fmt.Sprintf("- properties: {%s, set: [{name: \"note\", type: %s}]}", sel, scalarStringType)
		}
		b.Opts = append(b.Opts, vopt{name, "none", ""})
		g.stale = append(g.stale, name)
		scalar := f.Kind == "string" || f.Kind == "int" || f.Kind == "bool" || f.Kind == "float"
		if scalar && rapid.Bool().Draw(rt, "optionwithargument") {
			arg := fmt.Sprintf("{name: %s, type: %s}", yq(f.Name), scalarTypeYAML(f.Kind))
			return fmt.Sprintf("- add_option: {%s, option: {name: %s, comments: [\"added\"], arguments: [%s], assignments: [{path: %s, method: direct, value: {argument: %s}}]}}", sel, yq(name), arg, yq(f.Name), arg)
		}
		return fmt.Sprintf("- add_option: {%s, option: {name: %s, assignments: [{path: %s, method: direct, value: {constant: %s}}]}}", sel, yq(name), yq(f.Name), renderValue(g.m.drawMiniValue(rt, f, 0)))
	case "merge_into":
		g.merges++
		k := rapid.IntRange(0, len(paths)-1).Draw(rt, "mergepath")
		src := g.builderOf(targets[k])
		if src == nil || len(src.Opts) == 0 {
			return fmt.Sprintf("- properties: {%s, set: [{name: \"note\", type: %s}]}", sel, scalarStringType)
		}
		rule := fmt.Sprintf("- merge_into: {destination: %s, source: %s, under_path: %s", yq(b.Name), yq(src.Name), yq(strings.Join(paths[k], ".")))
		excluded := map[string]bool{}
		if rapid.IntRange(0, 3).Draw(rt, "mergeexclude") == 0 {
			x := src.Opts[rapid.IntRange(0, len(src.Opts)-1).Draw(rt, "mergeexcluded")].Name
			excluded[x] = true
			rule += ", exclude_options: " + yqlist([]string{x})
		}
		// rename_options: the keys are options of the source, the values fresh
		// names or the names of other options of the source: chains (a->b, b->c),
		// swaps (a->b, b->a), two keys that differ by case only
		renames := map[string]string{}
		var entries []string
		n := rapid.SampledFrom([]int{0, 1, 2, 2, 3, 3, 4, 6, 9}).Draw(rt, "nrenames")
		perm := rapid.Permutation(src.Opts).Draw(rt, "renamed")
		for i := 0; i < n && i < len(perm); i++ {
			key := perm[i].Name
			var as string
			if rapid.IntRange(0, 2).Draw(rt, "renametosibling") != 0 {
				as = src.Opts[rapid.IntRange(0, len(src.Opts)-1).Draw(rt, "renamesibling")].Name
			} else {
				as = rapid.SampledFrom(c03NewNames).Draw(rt, "renamefresh")
			}
			if rapid.IntRange(0, 7).Draw(rt, "renamecase") == 0 {
				as = flipCase(as)
			}
			if _, dup := renames[key]; dup {
				continue
			}
			renames[key] = as
			entries = append(entries, yq(key)+": "+yq(as))
			if alt := flipCase(key); rapid.IntRange(0, 7).Draw(rt, "renamecasekey") == 0 {
				if _, dup := renames[alt]; !dup {
					renames[alt] = as + "Alt"
					entries = append(entries, yq(alt)+": "+yq(as+"Alt"))
				}
			}
		}
		if len(entries) > 0 {
			rule += ", rename_options: {" + strings.Join(entries, ", ") + "}"
			g.labels[fmt.Sprintf("merge_into:rename_options:%d", min(len(entries), 4))] = true
			for _, as := range renames {
				if _, chained := renames[as]; chained {
					g.labels["merge_into:rename_options:chained"] = true
				}
			}
		}
		for _, o := range src.Opts {
			if excluded[o.Name] {
				continue
			}
			name := o.Name
			if as, ok := renames[name]; ok {
				name = as
			}
			b.Opts = append(b.Opts, vopt{name, o.Kind, o.Ref})
			g.stale = append(g.stale, name)
		}
		return rule + "}"
	}
	panic("c03: unknown builder rule " + kind)
}

// c03VeneerFile is one veneer file of a directory.
type c03VeneerFile struct {
	Name    string `json:"name"`
	Content string `json:"content"`
}

// c03VeneerDir is one entry of `transformations.builders`.
type c03VeneerDir struct {
	Name  string          `json:"name"`
	Files []c03VeneerFile `json:"files"`
}

// drawVeneerLayout draws nrules rules against the model and cuts the sequence
// into files of directories. langs: the languages of the case ('all' rule sets
// and per-language ones are mixed; two thirds of the files are for `all`).
func drawVeneerLayout(rt *rapid.T, m *miniModel, langs []string, nrules int) ([]c03VeneerDir, []string) {
	g := newVGen(rt, m)
	type rule struct{ section, text string }
	var rules []rule
	for i := 0; i < nrules; i++ {
		s, r := g.step()
		rules = append(rules, rule{s, r})
	}
	var codeLangs []string
	for _, l := range langs {
		if l != "jsonschema" && l != "openapi" {
			codeLangs = append(codeLangs, l)
		}
	}
	nfiles := rapid.SampledFrom([]int{1, 2, 3, 4, 5, 6, 9, 10, 12}).Draw(rt, "nveneerfiles")
	ndirs := min(rapid.SampledFrom([]int{1, 1, 2, 3}).Draw(rt, "nveneerdirs"), nfiles)
	// cut points: file k gets rules[cut[k]:cut[k+1]] (some files stay empty, as
	// files of other packages would)
	cuts := make([]int, nfiles+1)
	for k := 1; k < nfiles; k++ {
		cuts[k] = rapid.IntRange(0, len(rules)).Draw(rt, "cut")
	}
	cuts[nfiles] = len(rules)
	sort.Ints(cuts)
	dirNames := rapid.Permutation([]string{"veneers", "overrides", "common-veneers"}).Draw(rt, "dirnames")[:ndirs]
	dirs := make([]c03VeneerDir, ndirs)
	for d := range dirs {
		dirs[d].Name = dirNames[d]
	}
	topics := []string{"naming", "docs", "options", "panels", "defaults", "cleanup"}
	for k := 0; k < nfiles; k++ {
		lang := "all"
		if len(codeLangs) > 0 && rapid.IntRange(0, 2).Draw(rt, "filelang") == 0 {
			lang = rapid.SampledFrom(codeLangs).Draw(rt, "filelanguage")
		}
		var sb strings.Builder
		fmt.Fprintf(&sb, "language: %s\npackage: %s\n", lang, m.Pkg)
		var b, o []string
		for _, r := range rules[cuts[k]:cuts[k+1]] {
			if r.section == "builders" {
				b = append(b, "  "+r.text)
			} else {
				o = append(o, "  "+r.text)
			}
		}
		if len(b) > 0 {
			sb.WriteString("builders:\n" + strings.Join(b, "\n") + "\n")
		} else {
			sb.WriteString("builders: ~\n")
		}
		if len(o) > 0 {
			sb.WriteString("options:\n" + strings.Join(o, "\n") + "\n")
		} else {
			sb.WriteString("options: ~\n")
		}
		d := k * ndirs / nfiles
		name := fmt.Sprintf("%02d-%s.yaml", (k+1)*5, rapid.SampledFrom(topics).Draw(rt, "topic"))
		dirs[d].Files = append(dirs[d].Files, c03VeneerFile{Name: name, Content: sb.String()})
	}
	labels := keysOf(g.labels)
	labels = append(labels, fmt.Sprintf("veneer-layout:files:%d", min(nfiles, 9)), fmt.Sprintf("veneer-layout:dirs:%d", ndirs))
	return dirs, labels
}

// ---------------------------------------------------------------------------
// transformation files

// drawPassFiles draws 1-4 transformation files whose passes depend on each
// other across files (duplicate an object; rename the duplicate; give a
// map-typed field of the renamed duplicate a default) plus a
// fields_set_default pass with compound values on distinct fields.
func drawPassFiles(rt *rapid.T, m *miniModel) []string {
	var passes []string
	if len(m.Objs) > 1 && rapid.IntRange(0, 2).Draw(rt, "passchain") != 0 {
		src := m.Objs[rapid.IntRange(1, len(m.Objs)-1).Draw(rt, "chainobject")]
		passes = append(passes, fmt.Sprintf("- duplicate_object: {object: %s, as: %s}", yq(m.Pkg+"."+src.Name), yq(m.Pkg+"."+src.Name+"Copy")))
		passes = append(passes, fmt.Sprintf("- rename_object: {from: %s, to: %s}", yq(m.Pkg+"."+src.Name+"Copy"), yq(src.Name+"Alt")))
		for _, f := range src.Fields {
			if f.Kind == "labels" || f.Kind == "nums" {
				passes = append(passes, fmt.Sprintf("- fields_set_default: {defaults: {%s: %s}}", yq(m.Pkg+"."+src.Name+"Alt."+f.Name), renderValue(m.drawMiniValue(rt, f, 0))))
				break
			}
		}
	}
	// compound defaults on distinct fields (two keys matching one field -
	// `pkg.Obj.field` and `pkg.obj.Field` - are NOT drawn: the pass applies its
	// entries in map order, the configuration is ambiguous by itself)
	var entries []string
	for _, o := range m.Objs {
		for _, f := range o.Fields {
			switch f.Kind {
			case "labels", "nums", "any", "ref", "strings":
				if f.Kind == "ref" && m.MaxEntries > 0 {
					continue
				}
				if rapid.IntRange(0, 2).Draw(rt, "setdefault") == 0 {
					entries = append(entries, yq(m.Pkg+"."+o.Name+"."+f.Name)+": "+renderValue(m.drawMiniValue(rt, f, 0)))
				}
			}
		}
	}
	if len(entries) > 0 {
		passes = append(passes, "- fields_set_default: {defaults: {"+strings.Join(entries, ", ")+"}}")
	}
	if len(passes) == 0 {
		return nil
	}
	nfiles := rapid.IntRange(1, min(4, len(passes))).Draw(rt, "npassfiles")
	cuts := make([]int, nfiles+1)
	for k := 1; k < nfiles; k++ {
		cuts[k] = rapid.IntRange(1, len(passes)-1).Draw(rt, "passcut")
	}
	cuts[nfiles] = len(passes)
	sort.Ints(cuts)
	var files []string
	for k := 0; k < nfiles; k++ {
		if cuts[k] == cuts[k+1] {
			continue
		}
		files = append(files, "passes:\n  "+strings.Join(passes[cuts[k]:cuts[k+1]], "\n  ")+"\n")
	}
	return files
}

// ---------------------------------------------------------------------------
// the two focused families

func drawLanguages(rt *rapid.T, pool []string, atLeast int) []string {
	var out []string
	for _, l := range pool {
		if rapid.IntRange(0, 2).Draw(rt, "lang."+l) != 0 {
			out = append(out, l)
		}
	}
	for len(out) < atLeast {
		l := rapid.SampledFrom(pool).Draw(rt, "morelang")
		if !contains(out, l) {
			out = append(out, l)
		}
	}
	sort.Strings(out)
	return out
}

// drawValuesCase: compound defaults and constants in every place cog takes a
// value, all languages.
func drawValuesCase(rt *rapid.T) c03Case {
	pkg := rapid.SampledFrom([]string{"demo", "sample", "dash"}).Draw(rt, "pkg")
	m := drawMiniModel(rt, pkg)
	c := c03Case{Family: "values"}
	c.Languages = drawLanguages(rt, allLanguages, 1)
	c.Labels = c03TypescriptMapLiterals(rt, m, &c.Languages)
	nStructDefaults := m.addMiniDefaults(rt)
	c.Config = drawC02Config(rt)
	c.Config.Types = c.Config.Types || rapid.IntRange(0, 3).Draw(rt, "types+") != 0
	in := e2.InputSpec{Format: smodel.CUE, Package: pkg, Source: m.cue()}
	passFiles := drawPassFiles(rt, m)
	if len(passFiles) > 0 {
		if rapid.Bool().Draw(rt, "passesoninput") {
			in.Transforms = passFiles
		} else {
			c.Config.CommonPasses = passFiles
		}
	}
	c.RawInputs = []e2.InputSpec{in}
	c.Labels = append(c.Labels, fmt.Sprintf("struct-defaults:%d", min(nStructDefaults, 3)), fmt.Sprintf("pass-files:%d", len(passFiles)))
	if c.Config.Builders && rapid.Bool().Draw(rt, "veneers") {
		dirs, labels := drawVeneerLayout(rt, m, c.Languages, rapid.IntRange(2, 8).Draw(rt, "nrules"))
		c.VeneerDirs = dirs
		c.Labels = append(c.Labels, labels...)
	}
	return c
}

// drawVeneersCase: builders with a long sequence of interacting rules laid out
// over files and directories.
func drawVeneersCase(rt *rapid.T) c03Case {
	pkg := rapid.SampledFrom([]string{"demo", "sample", "dash"}).Draw(rt, "pkg")
	m := drawMiniModel(rt, pkg)
	c := c03Case{Family: "veneers"}
	c.Languages = drawLanguages(rt, []string{"go", "python", "java", "typescript", "php"}, 1)
	if rapid.IntRange(0, 3).Draw(rt, "schemalang") == 0 {
		c.Languages = append(c.Languages, rapid.SampledFrom([]string{"jsonschema", "openapi"}).Draw(rt, "schemalanguage"))
		sort.Strings(c.Languages)
	}
	c.Labels = c03TypescriptMapLiterals(rt, m, &c.Languages)
	if rapid.IntRange(0, 2).Draw(rt, "withdefaults") == 0 {
		m.addMiniDefaults(rt)
	}
	c.Config = drawC02Config(rt)
	c.Config.Builders = true
	c.Config.Types = c.Config.Types || rapid.Bool().Draw(rt, "types+")
	in := e2.InputSpec{Format: smodel.CUE, Package: pkg, Source: m.cue()}
	if rapid.IntRange(0, 3).Draw(rt, "passes") == 0 {
		c.Config.CommonPasses = drawPassFiles(rt, m)
	}
	c.RawInputs = []e2.InputSpec{in}
	dirs, labels := drawVeneerLayout(rt, m, c.Languages, rapid.IntRange(4, 24).Draw(rt, "nrules"))
	c.VeneerDirs = dirs
	c.Labels = append(c.Labels, labels...)
	return c
}

// c03TypescriptMapLiterals KEPT (it no longer does, see its body) the generator out of a region where cog
// broke the property (genuine defect, reported, not hidden: see the
// replay kept under replays/C03): the TypeScript jenny's formatValue
// (internal/jennies/typescript/tools.go) prints a map[string]any default or
// constant with a plain `range` over the Go map, so a value holding a map of
// two or more entries comes out in another order at every run (types.gen.ts
// and the builders). When TypeScript is among the languages, either it is
// dropped (3/4 of the time, if another language remains) or the maps of the
// case get at most one entry and no struct value (a map of its members) is
// used as a default, as a constant or as a `fields_set_default` value.
func c03TypescriptMapLiterals(rt *rapid.T, m *miniModel, langs *[]string) []string {
	// repaired in cog (fix 339af82: sorted keys): nothing is left out any more
	return nil
}
