package checks

// C16 input shaping: irgen draws the bulk of an IR; the steps below widen it
// (through rapid draws only, so that cases shrink and replay) in the two
// directions irgen cannot reach by itself:
//
//   - reference chains of any length (1..16 hops, every hop in any loaded
//     package, optionally re-using the referred object's name in another
//     package, inserted at any position of the package) ending in an object of
//     any class, used as alias objects (every hop is one) and as the type of
//     required / optional / nullable fields of structs;
//   - sibling fields whose names are equal under a lossy comparison (letter
//     case, separators, one being a prefix of the other), the siblings being
//     free or schema-fixed fields of any type, placed before or after the
//     field they resemble.

import (
	"fmt"
	"strings"
	"unicode"

	"github.com/grafana/cog/verifharness/irgen"
	"pgregory.net/rapid"
)

type c16Loc struct{ pi, oi int }

func c16FindObject(ir irgen.IRSpec, pkg, name string) (irgen.ObjSpec, bool) {
	for _, p := range ir {
		if p.Package != pkg {
			continue
		}
		for _, o := range p.Objects {
			if o.Name == name {
				return o, true
			}
		}
	}
	return irgen.ObjSpec{}, false
}

// c16SpecResolve follows references at the specification level.
func c16SpecResolve(ir irgen.IRSpec, t irgen.TypeSpec) (irgen.TypeSpec, bool) {
	for hops := 0; hops < 64; hops++ {
		if t.Kind != "ref" {
			return t, true
		}
		o, ok := c16FindObject(ir, t.Pkg, t.Name)
		if !ok {
			return t, false
		}
		t = o.Type
	}
	return t, false
}

// c16RefsClosed: every reference of the IR names an object of a loaded package
// and no chain of references is cyclic (the domain of C16).
func c16RefsClosed(ir irgen.IRSpec) bool {
	closed := true
	ir.Walk(func(_ string, _ string, _ string, t *irgen.TypeSpec) {
		if t.Kind != "ref" {
			return
		}
		if _, ok := c16SpecResolve(ir, *t); !ok {
			closed = false
		}
	})
	return closed
}

func c16Shape(t *rapid.T, ir irgen.IRSpec) irgen.IRSpec {
	switch rapid.IntRange(0, 6).Draw(t, "shape") {
	case 0, 1:
		ir = c16AddChains(t, ir)
	case 2, 3:
		ir = c16AddLookalikeFields(t, ir)
	case 4:
		ir = c16AddChains(t, ir)
		ir = c16AddLookalikeFields(t, ir)
	}
	return ir
}

func c16InsertObject(t *rapid.T, p *irgen.PkgSpec, o irgen.ObjSpec) {
	at := rapid.IntRange(0, len(p.Objects)).Draw(t, "objpos")
	objs := make([]irgen.ObjSpec, 0, len(p.Objects)+1)
	objs = append(objs, p.Objects[:at]...)
	objs = append(objs, o)
	objs = append(objs, p.Objects[at:]...)
	p.Objects = objs
}

func c16InsertField(t *rapid.T, ts *irgen.TypeSpec, f irgen.FieldSpec) {
	at := rapid.IntRange(0, len(ts.Fields)).Draw(t, "fieldpos")
	fields := make([]irgen.FieldSpec, 0, len(ts.Fields)+1)
	fields = append(fields, ts.Fields[:at]...)
	fields = append(fields, f)
	fields = append(fields, ts.Fields[at:]...)
	ts.Fields = fields
}

func c16HasField(ts irgen.TypeSpec, name string) bool {
	for _, f := range ts.Fields {
		if f.Name == name {
			return true
		}
	}
	return false
}

func c16StructObjects(ir irgen.IRSpec) []c16Loc {
	var out []c16Loc
	for pi := range ir {
		for oi := range ir[pi].Objects {
			if ir[pi].Objects[oi].Type.Kind == "struct" {
				out = append(out, c16Loc{pi, oi})
			}
		}
	}
	return out
}

var c16ChainFieldPool = []string{"source", "via", "origin", "apiVersion", "schemaVersion", "flavor", "target_kind", "base", "delegate", "preset"}

// c16AddChains adds 1-2 acyclic chains of alias objects (the new objects only
// refer to the target or to each other, nothing existing refers to them) and
// fields of existing structs typed by a hop of the chain.
func c16AddChains(t *rapid.T, ir irgen.IRSpec) irgen.IRSpec {
	n := rapid.IntRange(1, 2).Draw(t, "nchains")
	for ci := 0; ci < n; ci++ {
		// target: a struct (or something resolving to one), a constant, or anything
		var all, structs, consts []c16Loc
		for pi := range ir {
			for oi := range ir[pi].Objects {
				l := c16Loc{pi, oi}
				all = append(all, l)
				r, ok := c16SpecResolve(ir, ir[pi].Objects[oi].Type)
				switch {
				case ok && r.Kind == "struct":
					structs = append(structs, l)
				case ok && r.Kind == "scalar" && r.Value != nil:
					consts = append(consts, l)
				}
			}
		}
		cands := all
		switch rapid.IntRange(0, 4).Draw(t, "chaintarget") {
		case 0, 1:
			if len(structs) > 0 {
				cands = structs
			}
		case 2, 3:
			if len(consts) > 0 {
				cands = consts
			} else {
				// no constant object yet: declare one
				pi := rapid.IntRange(0, len(ir)-1).Draw(t, "constpkg")
				name := fmt.Sprintf("Fixed%c", 'A'+ci)
				val := rapid.SampledFrom([]*irgen.Val{irgen.VS("thing"), irgen.VS(""), irgen.VI(0), irgen.VI(7), irgen.VB(false), irgen.VB(true), irgen.VF(0), irgen.VF(2.5)}).Draw(t, "constval")
				kind := "string"
				switch {
				case val.I != nil:
					kind = "int64"
				case val.B != nil:
					kind = "bool"
				case val.F != nil:
					kind = "float64"
				}
				ir[pi].Objects = append(ir[pi].Objects, irgen.ObjSpec{Name: name, Type: irgen.TypeSpec{Kind: "scalar", Scalar: kind, Value: val}})
				cands = []c16Loc{{pi, len(ir[pi].Objects) - 1}}
			}
		}
		if len(cands) == 0 {
			return ir
		}
		tl := cands[rapid.IntRange(0, len(cands)-1).Draw(t, "chaintargetidx")]
		targetPkg, targetName := ir[tl.pi].Package, ir[tl.pi].Objects[tl.oi].Name

		k := rapid.IntRange(1, 16).Draw(t, "chainlen")
		prevPkg, prevName := targetPkg, targetName
		type hop struct{ pkg, name string }
		hops := make([]hop, 0, k)
		for i := 1; i <= k; i++ {
			pi := rapid.IntRange(0, len(ir)-1).Draw(t, "hoppkg")
			name := fmt.Sprintf("%sVia%c%d", targetName, 'A'+ci, i)
			if _, taken := c16FindObject(ir, ir[pi].Package, targetName); !taken && rapid.IntRange(0, 3).Draw(t, "samename") == 0 {
				// `beta.Panel: alpha.Panel`
				name = targetName
			}
			c16InsertObject(t, &ir[pi], irgen.ObjSpec{Name: name, Type: irgen.TypeSpec{Kind: "ref", Pkg: prevPkg, Name: prevName}})
			prevPkg, prevName = ir[pi].Package, name
			hops = append(hops, hop{prevPkg, prevName})
		}

		// fields referring to the chain
		uses := rapid.IntRange(0, 2).Draw(t, "chainuses")
		for u := 0; u < uses; u++ {
			structObjs := c16StructObjects(ir)
			if len(structObjs) == 0 {
				break
			}
			sl := structObjs[rapid.IntRange(0, len(structObjs)-1).Draw(t, "usestruct")]
			st := &ir[sl.pi].Objects[sl.oi].Type
			h := hops[len(hops)-1]
			if rapid.IntRange(0, 2).Draw(t, "usehead") == 0 {
				h = hops[rapid.IntRange(0, len(hops)-1).Draw(t, "usehop")]
			}
			name := ""
			for _, cand := range rapid.Permutation(c16ChainFieldPool).Draw(t, "usefieldname") {
				clash := false
				for _, f := range st.Fields {
					if normName(f.Name) == normName(cand) {
						clash = true
					}
				}
				if !clash {
					name = cand
					break
				}
			}
			if name == "" {
				continue
			}
			f := irgen.FieldSpec{
				Name:     name,
				Required: rapid.IntRange(0, 3).Draw(t, "userequired") != 0,
				Type:     irgen.TypeSpec{Kind: "ref", Pkg: h.pkg, Name: h.name, Nullable: rapid.IntRange(0, 5).Draw(t, "usenullable") == 0},
			}
			c16InsertField(t, st, f)
		}
	}
	return ir
}

func c16UpperFirst(s string) string {
	r := []rune(s)
	for i := range r {
		if unicode.IsLetter(r[i]) {
			r[i] = unicode.ToUpper(r[i])
			break
		}
	}
	return string(r)
}

func c16CamelToSnake(s string) string {
	var sb strings.Builder
	for i, r := range s {
		if unicode.IsUpper(r) && i > 0 {
			sb.WriteByte('_')
		}
		sb.WriteRune(unicode.ToLower(r))
	}
	return sb.String()
}

func c16SnakeToCamel(s string) string {
	parts := strings.Split(s, "_")
	for i := 1; i < len(parts); i++ {
		parts[i] = c16UpperFirst(parts[i])
	}
	return strings.Join(parts, "")
}

// c16Lookalikes lists names that a lossy comparison would identify with name.
func c16Lookalikes(t *rapid.T, name string) []string {
	r := []rune(name)
	if len(r) == 0 {
		return nil
	}
	flip := rapid.IntRange(0, len(r)-1).Draw(t, "flipidx")
	flipped := append([]rune{}, r...)
	if unicode.IsUpper(flipped[flip]) {
		flipped[flip] = unicode.ToLower(flipped[flip])
	} else {
		flipped[flip] = unicode.ToUpper(flipped[flip])
	}
	cands := []string{
		c16UpperFirst(name), strings.ToUpper(name), strings.ToLower(name), string(flipped),
		c16CamelToSnake(name), c16SnakeToCamel(name), strings.ReplaceAll(name, "_", ""),
		name + "_", "_" + name, name + "s", name + "Id", "with" + c16UpperFirst(name),
	}
	if len(r) > 2 {
		cands = append(cands, string(r[:len(r)-1])) // a prefix of the name
	}
	var out []string
	seen := map[string]bool{name: true}
	for _, c := range cands {
		if c != "" && !seen[c] {
			seen[c] = true
			out = append(out, c)
		}
	}
	return out
}

// c16FreshType draws a small field type without looking at the rest of the IR.
func c16FreshType(t *rapid.T, ir irgen.IRSpec) irgen.TypeSpec {
	switch rapid.IntRange(0, 9).Draw(t, "freshkind") {
	case 0:
		return irgen.TypeSpec{Kind: "scalar", Scalar: "string", Value: irgen.VS(rapid.SampledFrom([]string{"thing", "", "v2"}).Draw(t, "freshconst"))}
	case 1:
		p := ir[rapid.IntRange(0, len(ir)-1).Draw(t, "freshrefpkg")]
		if len(p.Objects) > 0 {
			o := p.Objects[rapid.IntRange(0, len(p.Objects)-1).Draw(t, "freshrefobj")]
			return irgen.TypeSpec{Kind: "ref", Pkg: p.Package, Name: o.Name}
		}
	case 2:
		return irgen.TypeSpec{Kind: "array", Elem: &irgen.TypeSpec{Kind: "scalar", Scalar: "string"}}
	case 3:
		ts := irgen.TypeSpec{Kind: "scalar", Scalar: "int64", Constraints: []irgen.ConstraintSpec{{Op: ">", Arg: *irgen.VI(0)}}}
		if rapid.Bool().Draw(t, "freshdefault") {
			ts.Default = irgen.VI(1)
		}
		return ts
	case 4:
		return irgen.TypeSpec{Kind: "scalar", Scalar: "string", Nullable: true, Constraints: []irgen.ConstraintSpec{{Op: "minLength", Arg: *irgen.VI(1)}}}
	}
	kind := rapid.SampledFrom([]string{"string", "int64", "bool", "float64", "uint32", "any"}).Draw(t, "freshscalar")
	return irgen.TypeSpec{Kind: "scalar", Scalar: kind}
}

// c16AddLookalikeFields gives 1-2 struct objects sibling fields whose names a
// lossy comparison identifies with a field the struct already has.
func c16AddLookalikeFields(t *rapid.T, ir irgen.IRSpec) irgen.IRSpec {
	structObjs := c16StructObjects(ir)
	if len(structObjs) == 0 {
		return ir
	}
	// types to copy: those of the direct fields of every struct object
	var pool []irgen.TypeSpec
	for _, l := range structObjs {
		for _, f := range ir[l.pi].Objects[l.oi].Type.Fields {
			pool = append(pool, f.Type)
		}
	}
	n := rapid.IntRange(1, 2).Draw(t, "nlookalikestructs")
	for i := 0; i < n; i++ {
		l := structObjs[rapid.IntRange(0, len(structObjs)-1).Draw(t, "lookalikestruct")]
		st := &ir[l.pi].Objects[l.oi].Type
		if len(st.Fields) == 0 || rapid.IntRange(0, 3).Draw(t, "newbase") == 0 {
			name := rapid.SampledFrom([]string{"unit", "id", "ID", "timeFrom", "refresh_rate", "Name", "dataSource", "x"}).Draw(t, "basename")
			if !c16HasField(*st, name) {
				c16InsertField(t, st, irgen.FieldSpec{Name: name, Type: c16FreshType(t, ir), Required: rapid.Bool().Draw(t, "baserequired")})
			}
		}
		base := st.Fields[rapid.IntRange(0, len(st.Fields)-1).Draw(t, "basefield")].Name
		nv := rapid.IntRange(1, 3).Draw(t, "nlookalikes")
		for v := 0; v < nv; v++ {
			var names []string
			for _, c := range c16Lookalikes(t, base) {
				if !c16HasField(*st, c) {
					names = append(names, c)
				}
			}
			if len(names) == 0 {
				break
			}
			f := irgen.FieldSpec{Name: rapid.SampledFrom(names).Draw(t, "lookalike"), Required: rapid.Bool().Draw(t, "lookalikerequired")}
			if len(pool) > 0 && rapid.Bool().Draw(t, "copytype") {
				f.Type = pool[rapid.IntRange(0, len(pool)-1).Draw(t, "copiedtype")]
			} else {
				f.Type = c16FreshType(t, ir)
			}
			c16InsertField(t, st, f)
		}
	}
	return ir
}
