package checks

// C18 — copies of the IR are faithful and independent.
// Generator: reflective population of every field of every IR type that has a
// DeepCopy method, driven by a rapid-drawn tape (shrinks, replays).
// Oracle: (1) field-by-field equality through an independent reflective walker
// (nil and empty collections identified), (2) no mutable structure shared
// between original and copy, (3) scrubbing the copy leaves the original
// untouched, (4) DeepCopy does not modify the original.
//
// Half of the cases exercise the places where cog uses these copies instead
// (c18_dup_test.go): the duplicate_object pass run through
// compiler.Passes.Process, the builder `duplicate` veneer and the option
// `duplicate` veneer, in sequences of one or two steps; the same four
// relations are asked of whatever the rule returns as the duplicate, modulo
// the differences the rule documents.

import (
	"fmt"
	"go/ast"
	"go/parser"
	"go/token"
	"os"
	"path/filepath"
	"reflect"
	"sort"
	"strings"
	"testing"

	cogast "github.com/grafana/cog/internal/ast"
	"github.com/grafana/cog/internal/orderedmap"
	"github.com/grafana/cog/verifharness/irfill"
	"github.com/grafana/cog/verifharness/vlib"
	"github.com/grafana/cog/verifharness/walk"
	"pgregory.net/rapid"
)

type c18Case struct {
	Type string   `json:"type"`
	Tape []uint32 `json:"tape"`
	// Mode "" is DeepCopy on one value of Type; the other modes apply the
	// duplicate rule of that name Steps times (see c18_dup_test.go).
	Mode  string    `json:"mode,omitempty"`
	Steps []c18Step `json:"steps,omitempty"`
}

// every IR type with a DeepCopy method
var c18Types = map[string]reflect.Type{
	"Type":                  reflect.TypeOf(cogast.Type{}),
	"TypeConstraint":        reflect.TypeOf(cogast.TypeConstraint{}),
	"Object":                reflect.TypeOf(cogast.Object{}),
	"DisjunctionType":       reflect.TypeOf(cogast.DisjunctionType{}),
	"ArrayType":             reflect.TypeOf(cogast.ArrayType{}),
	"EnumType":              reflect.TypeOf(cogast.EnumType{}),
	"EnumValue":             reflect.TypeOf(cogast.EnumValue{}),
	"MapType":               reflect.TypeOf(cogast.MapType{}),
	"StructType":            reflect.TypeOf(cogast.StructType{}),
	"StructField":           reflect.TypeOf(cogast.StructField{}),
	"ConstantReferenceType": reflect.TypeOf(cogast.ConstantReferenceType{}),
	"RefType":               reflect.TypeOf(cogast.RefType{}),
	"ScalarType":            reflect.TypeOf(cogast.ScalarType{}),
	"IntersectionType":      reflect.TypeOf(cogast.IntersectionType{}),
	"ComposableSlotType":    reflect.TypeOf(cogast.ComposableSlotType{}),
	"Schemas":               reflect.TypeOf(cogast.Schemas{}),
	"Schema":                reflect.TypeOf(cogast.Schema{}),
	"Builder":               reflect.TypeOf(cogast.Builder{}),
	"Constructor":           reflect.TypeOf(cogast.Constructor{}),
	"Option":                reflect.TypeOf(cogast.Option{}),
	"OptionDefault":         reflect.TypeOf(cogast.OptionDefault{}),
	"Argument":              reflect.TypeOf(cogast.Argument{}),
	"PathIndex":             reflect.TypeOf(cogast.PathIndex{}),
	"PathItem":              reflect.TypeOf(cogast.PathItem{}),
	"Path":                  reflect.TypeOf(cogast.Path{}),
	"EnvelopeFieldValue":    reflect.TypeOf(cogast.EnvelopeFieldValue{}),
	"AssignmentEnvelope":    reflect.TypeOf(cogast.AssignmentEnvelope{}),
	"AssignmentValue":       reflect.TypeOf(cogast.AssignmentValue{}),
	"AssignmentNilCheck":    reflect.TypeOf(cogast.AssignmentNilCheck{}),
	"Assignment":            reflect.TypeOf(cogast.Assignment{}),
	"AssignmentConstraint":  reflect.TypeOf(cogast.AssignmentConstraint{}),
	"BuilderFactory":        reflect.TypeOf(cogast.BuilderFactory{}),
	"OptionCall":            reflect.TypeOf(cogast.OptionCall{}),
	"TypedConstant":         reflect.TypeOf(cogast.TypedConstant{}),
	"OptionCallParameter":   reflect.TypeOf(cogast.OptionCallParameter{}),
	"FactoryRef":            reflect.TypeOf(cogast.FactoryRef{}),
	"FactoryCall":           reflect.TypeOf(cogast.FactoryCall{}),
}

func c18TypeNames() []string {
	var names []string
	for n := range c18Types {
		names = append(names, n)
	}
	sort.Strings(names)
	return names
}

// deepCopyTypesInSource lists the receiver types of DeepCopy methods declared
// in /repo/internal/ast (so that a new one the table misses is visible).
func deepCopyTypesInSource(dir string) []string {
	fset := token.NewFileSet()
	pkgs, err := parser.ParseDir(fset, dir, func(fi os.FileInfo) bool { return !strings.HasSuffix(fi.Name(), "_test.go") }, 0)
	if err != nil {
		return nil
	}
	set := map[string]bool{}
	for _, pkg := range pkgs {
		for _, f := range pkg.Files {
			for _, d := range f.Decls {
				fd, ok := d.(*ast.FuncDecl)
				if !ok || fd.Recv == nil || fd.Name.Name != "DeepCopy" || len(fd.Recv.List) == 0 {
					continue
				}
				t := fd.Recv.List[0].Type
				if st, ok := t.(*ast.StarExpr); ok {
					t = st.X
				}
				if id, ok := t.(*ast.Ident); ok {
					set[id.Name] = true
				}
			}
		}
	}
	var out []string
	for n := range set {
		out = append(out, n)
	}
	sort.Strings(out)
	return out
}

func c18Build(c c18Case) (reflect.Value, *irfill.Tape, error) {
	rt, ok := c18Types[c.Type]
	if !ok {
		return reflect.Value{}, nil, fmt.Errorf("unknown type %s", c.Type)
	}
	tape := irfill.NewTape(c.Tape)
	f := &irfill.Filler{T: tape, MaxDepth: 5}
	ptr := reflect.New(rt)
	switch c.Type {
	case "Schemas":
		n := tape.N(3) + 1
		s := cogast.Schemas{}
		for i := 0; i < n; i++ {
			sch := &cogast.Schema{}
			f.Fill(reflect.ValueOf(sch).Elem(), 1, "Schema")
			if sch.Objects == nil {
				sch.Objects = orderedmap.New[string, cogast.Object]()
			}
			s = append(s, sch)
		}
		ptr.Elem().Set(reflect.ValueOf(s))
	case "Schema":
		f.Fill(ptr.Elem(), 0, "Schema")
		sch := ptr.Interface().(*cogast.Schema)
		if sch.Objects == nil { // NewSchema always sets it; DeepCopy dereferences it
			sch.Objects = orderedmap.New[string, cogast.Object]()
		}
	default:
		f.Fill(ptr.Elem(), 0, c.Type)
	}
	return ptr, tape, nil
}

func c18Check(c c18Case) []vlib.Violation {
	return c18CheckStats(c, &c18Stats{})
}

func c18CheckStats(c c18Case, st *c18Stats) []vlib.Violation {
	switch c.Mode {
	case c18ModeDeepCopy:
		return c18CheckDeepCopy(c)
	case c18ModeDupObject:
		return c18CheckDupObject(c, st)
	case c18ModeDupBuilder:
		return c18CheckDupBuilder(c, st)
	case c18ModeDupOption:
		return c18CheckDupOption(c, st)
	}
	return []vlib.Violation{vlib.V("harness", "unknown mode %q", c.Mode)}
}

func c18CheckDeepCopy(c c18Case) []vlib.Violation {
	ptr, _, err := c18Build(c)
	if err != nil {
		return []vlib.Violation{vlib.V("harness", "%v", err)}
	}
	before := walk.CanonValue(ptr.Elem())
	m := ptr.MethodByName("DeepCopy")
	if !m.IsValid() {
		return []vlib.Violation{vlib.V("harness", "no DeepCopy on %s", c.Type)}
	}
	var res []reflect.Value
	sig, msg, panicked := vlib.Guard(func() { res = m.Call(nil) })
	if panicked {
		return []vlib.Violation{vlib.V("panic:"+c.Type+":"+sig, "%s.DeepCopy panicked: %s\nvalue: %s", c.Type, msg, before)}
	}
	cp := reflect.New(res[0].Type())
	cp.Elem().Set(res[0])
	orig := ptr.Elem()
	copyV := cp.Elem()
	if copyV.Type() != orig.Type() && copyV.Type().ConvertibleTo(orig.Type()) {
		conv := reflect.New(orig.Type())
		conv.Elem().Set(copyV.Convert(orig.Type()))
		cp = conv
		copyV = conv.Elem()
	}
	var vs []vlib.Violation
	if after := walk.CanonValue(orig); after != before {
		vs = append(vs, vlib.V("original-modified:"+c.Type, "DeepCopy changed its receiver:\nbefore %s\nafter  %s", before, after))
	}
	// (1) faithful
	if p, d, differs := walk.Diff(orig.Interface(), copyV.Interface()); differs {
		vs = append(vs, vlib.V("unfaithful:"+c.Type+":"+p, "copy differs from original at %s: %s", p, d))
	}
	// (2) disjoint
	oa, ca := walk.Addrs(orig.Interface()), walk.Addrs(copyV.Interface())
	var shared []string
	for a, p := range ca {
		if _, ok := oa[a]; ok {
			shared = append(shared, p)
		}
	}
	sort.Strings(shared)
	if len(shared) > 0 {
		// the shortest path is the place where the sharing starts
		best := shared[0]
		for _, s := range shared {
			if len(s) < len(best) {
				best = s
			}
		}
		vs = append(vs, vlib.V("shared:"+c.Type+":"+best, "copy shares mutable structure with the original at %s (%d shared addresses, e.g. %v)", best, len(shared), firstN(shared, 4)))
	}
	// (3) mutation of the copy must not be visible through the original
	walk.Scrub(cp.Interface())
	if after := walk.CanonValue(orig); after != before {
		if len(shared) == 0 {
			vs = append(vs, vlib.V("mutation-visible:"+c.Type, "overwriting the copy changed the original:\nbefore %s\nafter  %s", before, after))
		}
	} else if len(shared) > 0 {
		// shared but scrub did not show: report still (structure is shared), keep msg
		vs[len(vs)-1].Msg += " [scrubbing the copy did not alter the original's canonical form]"
	}
	return vs
}

func firstN(s []string, n int) []string {
	if len(s) > n {
		return s[:n]
	}
	return s
}

func TestC18(t *testing.T) {
	run := vlib.Begin(t, "C18")
	defer run.Finish(t)
	run.Describe(
		"Two families of cases, all driven by a rapid-drawn tape that populates IR values reflectively in every field (an ast.Type gets the member matching its Kind; `any` fields hold scalars, and nested []any/map[string]any where cog stores defaults/constants of that shape; hints may hold ast.Type values), depth <= 5 (6 in the second family). "+
			"(A) DeepCopy on a value of each of the IR types that declare it. Checked: copy equals original field by field incl. unexported fields (nil == empty collection), no pointer/map/non-empty slice is shared, scrubbing the copy leaves the original unchanged, DeepCopy leaves its receiver unchanged. "+
			"(B) the places where cog uses those copies, in sequences of one or two steps (a later step may duplicate an earlier duplicate): the duplicate_object pass run through compiler.Passes.Process on 1..3 schemas of distinct packages (source: any object, or an object made for the purpose that is most of the time a struct whose own type carries nullable / default / hints / passes trail; destination: the same or another package; omit_fields: none, names of the source's fields, the same in another case, names no field bears); the builder veneer `duplicate` on 1..3 builders (selected by name or all of them; exclude_options drawn the same way); the option veneer `duplicate` on an option of a populated builder. "+
			"Checked in (B): the object / builder / option the rule returns under the new name equals its source in every declared field except the name (self reference), a trail that may only have grown at its end, and the fields / options asked to be left out (the rest in order; a name given in another case may leave out or not); it shares no mutable structure with its source (builders: with any builder that was there before) and scrubbing it leaves the source unchanged; the rule leaves its source (objects) / its input builders unchanged; Passes.Process leaves the schemas it is given unchanged and returns nothing reachable from them. "+
			"Non-trivial: the value reaches at least 3 mutable structures; distinct by (type or mode, canonical form, steps).",
		"nil and empty slices/maps are identified (cog's copy routines normalise them)",
		"an ast.Type carries exactly the member matching its Kind (what cog's constructors and parsers produce)",
		"`any` fields documented as scalar constants (ScalarType.Value, EnumValue.Value, constraint arguments, path indices) only hold scalars",
		"Schema.Objects is never nil (NewSchema always sets it)",
		"in (B) the schemas have distinct, non-empty packages and every object's self reference names its own package and name (what the front ends guarantee); the duplicate's name differs from its source's",
	)
	if vlib.RunReplay(t, run, c18Check) {
		return
	}
	repo := os.Getenv("VERIF_REPO")
	if repo == "" {
		repo = "/repo"
	}
	var missing []string
	for _, n := range deepCopyTypesInSource(filepath.Join(repo, "internal", "ast")) {
		if _, ok := c18Types[n]; !ok {
			missing = append(missing, n)
		}
	}
	run.SetExtra("types_with_deepcopy_checked", c18TypeNames())
	run.SetExtra("types_with_deepcopy_in_source_not_in_table", missing)

	names := c18TypeNames()
	modes := []string{c18ModeDeepCopy, c18ModeDeepCopy, c18ModeDeepCopy, c18ModeDeepCopy, c18ModeDupObject, c18ModeDupObject, c18ModeDupBuilder, c18ModeDupOption}
	modeType := map[string]string{c18ModeDupObject: "Object", c18ModeDupBuilder: "Builder", c18ModeDupOption: "Option"}
	stepGen := rapid.Custom(func(rt *rapid.T) c18Step {
		return c18Step{
			Src:   rapid.IntRange(0, 5).Draw(rt, "src"),
			Dst:   rapid.IntRange(0, 2).Draw(rt, "dst"),
			As:    rapid.SampledFrom([]string{"Dup", "dup", "other", "type", "a", "obj", "Ünï2", ""}).Draw(rt, "as"),
			Omit:  rapid.SliceOfN(rapid.IntRange(0, 6), 0, 3).Draw(rt, "omit"),
			Fold:  rapid.Bool().Draw(rt, "fold"),
			Every: rapid.Bool().Draw(rt, "every"),
		}
	})
	rapid.Check(t, func(rt *rapid.T) {
		mode := rapid.SampledFrom(modes).Draw(rt, "mode")
		if mode != c18ModeDeepCopy {
			c := c18Case{
				Mode:  mode,
				Type:  modeType[mode],
				Tape:  rapid.SliceOfN(rapid.Uint32Range(0, 9999), 0, 400).Draw(rt, "tape"),
				Steps: rapid.SliceOfN(stepGen, 1, 2).Draw(rt, "steps"),
			}
			st := &c18Stats{}
			vs := c18CheckStats(c, st)
			key := uint64(0)
			if st.nmut >= 3 {
				key = vlib.HashBytes([]byte(mode), []byte(st.canon), []byte(fmt.Sprint(c.Steps)))
			}
			labels := []string{"mode:" + mode}
			for _, l := range st.labels {
				labels = append(labels, mode+":"+l)
			}
			run.Eval(key, labels...)
			if st.nmut >= 6 && len(st.canon) < 2500 {
				run.Sample(map[string]any{"mode": mode, "steps": c.Steps, "value": st.canon})
			}
			vlib.Fail(rt, run.Judge(c, vs))
			return
		}
		c := c18Case{
			Type: rapid.SampledFrom(names).Draw(rt, "type"),
			Tape: rapid.SliceOfN(rapid.Uint32Range(0, 9999), 0, 400).Draw(rt, "tape"),
		}
		ptr, tape, _ := c18Build(c)
		canon := walk.CanonValue(ptr.Elem())
		nmut := len(walk.Addrs(ptr.Elem().Interface()))
		key := uint64(0)
		if nmut >= 3 {
			key = vlib.HashBytes([]byte(c.Type), []byte(canon))
		}
		labels := []string{"mode:deepcopy", "type:" + c.Type}
		if strings.Contains(canon, "(map[string]interface {})") || strings.Contains(canon, "([]interface {})") {
			labels = append(labels, "has_composite_any")
		}
		if strings.Contains(canon, "(ast.Type)") {
			labels = append(labels, "has_type_in_hints")
		}
		if tape.Used >= 100 {
			labels = append(labels, "tape_used>=100")
		}
		run.Eval(key, labels...)
		if nmut >= 6 && len(canon) < 1500 {
			run.Sample(map[string]any{"type": c.Type, "value": canon})
		}
		vlib.Fail(rt, run.Judge(c, c18Check(c)))
	})
}
