package checks

// C05 (a): the output of the three parsers. A small reference-topology model
// (definitions + who refers to whom, through which kind of position) is drawn
// first, then rendered as JSON Schema, OpenAPI or CUE and loaded through cog's
// own input loaders (codegen.Pipeline.LoadSchemas). The model is drawn so that
// most definitions have exactly ONE referring position: the parsers that
// declare definitions lazily (JSON Schema: only what the root reaches; CUE:
// hidden / out-of-root values) then depend on that single position to do its
// job.

import (
	"encoding/json"
	"fmt"
	"os"
	"path/filepath"
	"sort"
	"strings"

	"github.com/grafana/cog/internal/ast"
	"github.com/grafana/cog/verifharness/cogx"
	"github.com/grafana/cog/verifharness/e2"
	"github.com/grafana/cog/verifharness/irx"
	"github.com/grafana/cog/verifharness/passgen"
	"github.com/grafana/cog/verifharness/smodel"
	"github.com/grafana/cog/verifharness/vlib"
	"pgregory.net/rapid"
)

// c05T is a type of the topology model.
type c05T struct {
	// K: scalar | ref | array | map | struct | union | inter | enum | constref
	K      string   `json:"k"`
	Scalar string   `json:"scalar,omitempty"` // string | int | number | bool
	Ref    string   `json:"ref,omitempty"`
	Elem   *c05T    `json:"elem,omitempty"`
	Fields []c05F   `json:"fields,omitempty"`
	Br     []c05T   `json:"br,omitempty"`
	Null   bool     `json:"null,omitempty"`   // T | null
	OneOf  bool     `json:"one_of,omitempty"` // union spelled oneOf (JSON formats)
	Disc   string   `json:"disc,omitempty"`   // OpenAPI discriminator property
	Map    bool     `json:"mapping,omitempty"`
	Member string   `json:"member,omitempty"` // constref: the enum member
	Enum   []string `json:"enum,omitempty"`
}

type c05F struct {
	Name string `json:"name"`
	T    c05T   `json:"t"`
	Req  bool   `json:"req,omitempty"`
}

type c05Def struct {
	Name string `json:"name"`
	T    c05T   `json:"t"`
	// NestedIn: the definition is declared inside that definition
	// (JSON Schema: #/definitions/Host/definitions/Name; CUE: a definition
	// inside the host struct)
	NestedIn string `json:"nested_in,omitempty"`
	// Regular (CUE): declared as a regular top-level field `Name: …` instead of
	// a definition `#Name: …` (hidden fields `_Name` are not generated: the CUE
	// front end panics on every one of them, "unreachable HiddenLabel", which is
	// a matter of C04)
	Regular bool `json:"regular,omitempty"`
}

// c05Schema is one generated input (one package; two for a split OpenAPI model).
type c05Schema struct {
	Format smodel.Format `json:"format"`
	Pkg    string        `json:"pkg"`
	Defs   []c05Def      `json:"defs"`
	Entry  string        `json:"entry"`
	// JSON Schema: the root is the entry definition inlined instead of a $ref
	RootInline bool `json:"root_inline,omitempty"`
	// JSON Schema: name of the definitions container
	DefsKey string `json:"defs_key,omitempty"`
	// CUE: the fields of the entry definition are written as regular top-level
	// fields and the input asks for an envelope object named Entry
	// (`forced_envelope`): the only way a CUE input gets an entry point
	Envelope bool `json:"envelope,omitempty"`
	// OpenAPI: these definitions live in package OtherPkg (file <OtherPkg>.json)
	Moved    []string `json:"moved,omitempty"`
	OtherPkg string   `json:"other_pkg,omitempty"`
}

// c05ParseCase is the parse-mode part of a C05 case.
type c05ParseCase struct {
	Schema c05Schema `json:"schema"`
	// Model: when set, the input is a model of the shared schema generator
	// (smodel: every construct class, defaults, constraints, enums, named
	// unions and collections, intersections, struct defaults on CUE
	// references, two-package OpenAPI) instead of Schema
	Model *schemaCase `json:"model,omitempty"`
	// Follow: "" | lang | passes | filter — what is done with the parsed IR
	Follow  string             `json:"follow,omitempty"`
	Lang    string             `json:"lang,omitempty"`
	Passes  []passgen.PassSpec `json:"passes,omitempty"`
	Allowed []string           `json:"allowed,omitempty"`
}

func (s *c05Schema) def(name string) *c05Def {
	for i := range s.Defs {
		if s.Defs[i].Name == name {
			return &s.Defs[i]
		}
	}
	return nil
}

func (s *c05Schema) pkgOf(name string) string {
	for _, m := range s.Moved {
		if m == name {
			return s.OtherPkg
		}
	}
	return s.Pkg
}

// ------------------------------------------------------------------ generator

var c05DefNames = []string{"Dashboard", "Panel", "Query", "Target", "Options", "Legend", "Threshold", "Variable", "TimeRange", "DataLink", "Node", "Settings", "Series", "annotation", "Link2", "Style"}
var c05FieldNames = []string{"alpha", "beta", "gamma", "delta", "eps", "zeta", "eta", "theta", "iota", "kappa", "lambda", "mu"}
var c05ScalarKinds = []string{"string", "string", "int", "number", "bool"}

type c05Edge struct {
	host, target int
	chain        []string // wrappers, outermost first
}

func c05Wrappers(f smodel.Format) []string {
	if f == smodel.CUE {
		return []string{"array", "map", "null", "union", "struct", "array", "map"}
	}
	return []string{"array", "map", "null", "union", "struct", "inter", "array", "map"}
}

func c05DrawScalar(rt *rapid.T) c05T {
	return c05T{K: "scalar", Scalar: rapid.SampledFrom(c05ScalarKinds).Draw(rt, "scalar")}
}

// c05Wrap builds chain[0](chain[1](…(inner))).
func c05Wrap(rt *rapid.T, chain []string, inner c05T) c05T {
	t := inner
	for i := len(chain) - 1; i >= 0; i-- {
		switch chain[i] {
		case "array":
			e := t
			t = c05T{K: "array", Elem: &e}
		case "map":
			e := t
			t = c05T{K: "map", Elem: &e}
		case "null":
			if t.Null || t.K == "union" {
				continue
			}
			t.Null = true
		case "union":
			if t.Null || t.K == "union" {
				continue
			}
			br := []c05T{t}
			n := rapid.IntRange(1, 2).Draw(rt, "nscalarbranches")
			kinds := rapid.Permutation([]string{"string", "int", "bool"}).Draw(rt, "branchkinds")[:n]
			for _, k := range kinds {
				br = append(br, c05T{K: "scalar", Scalar: k})
			}
			if rapid.Bool().Draw(rt, "reflast") {
				br[0], br[len(br)-1] = br[len(br)-1], br[0]
			}
			t = c05T{K: "union", Br: br, OneOf: rapid.Bool().Draw(rt, "oneof")}
		case "struct":
			fs := []c05F{{Name: "inner", T: t, Req: rapid.Bool().Draw(rt, "innerreq")}}
			if rapid.Bool().Draw(rt, "tag") {
				fs = append(fs, c05F{Name: "tag", T: c05DrawScalar(rt)})
			}
			t = c05T{K: "struct", Fields: fs}
		case "inter":
			if t.Null {
				continue
			}
			t = c05T{K: "inter", Br: []c05T{t, {K: "struct", Fields: []c05F{{Name: "zz", T: c05T{K: "scalar", Scalar: "string"}}}}}}
		}
	}
	return t
}

// c05InnermostWrapper tells what directly contains the reference.
func c05InnermostWrapper(t c05T, target string, host string) (string, bool) {
	var rec func(t c05T, parent string) (string, bool)
	rec = func(t c05T, parent string) (string, bool) {
		switch t.K {
		case "ref", "constref":
			if t.Ref == target {
				if t.Null {
					return parent + ":nullable-" + t.K, true
				}
				return parent + ":" + t.K, true
			}
		case "array":
			return rec(*t.Elem, "array")
		case "map":
			return rec(*t.Elem, "map")
		case "struct":
			for _, f := range t.Fields {
				if s, ok := rec(f.T, "field"); ok {
					return s, true
				}
			}
		case "union":
			p := "union"
			if t.Disc != "" {
				p = "disc-union"
			}
			for _, b := range t.Br {
				if s, ok := rec(b, p); ok {
					return s, true
				}
			}
		case "inter":
			for _, b := range t.Br {
				if s, ok := rec(b, "inter"); ok {
					return s, true
				}
			}
		}
		return "", false
	}
	return rec(t, host)
}

func c05DrawSchema(rt *rapid.T) (c05Schema, []string) {
	f := rapid.SampledFrom([]smodel.Format{smodel.JSONSchema, smodel.JSONSchema, smodel.OpenAPI, smodel.CUE}).Draw(rt, "format")
	s := c05Schema{Format: f, Pkg: rapid.SampledFrom([]string{"sample", "demo", "dash"}).Draw(rt, "pkg")}
	n := rapid.IntRange(2, 7).Draw(rt, "ndefs")
	names := rapid.Permutation(c05DefNames).Draw(rt, "defnames")[:n]
	s.Entry = names[0]

	// who refers to whom
	var edges []c05Edge
	wrappers := c05Wrappers(f)
	drawChain := func(host, target int) []string {
		depth := rapid.SampledFrom([]int{0, 1, 1, 1, 2, 2, 3}).Draw(rt, "chaindepth")
		var chain []string
		for k := 0; k < depth; k++ {
			chain = append(chain, rapid.SampledFrom(wrappers).Draw(rt, "wrapper"))
		}
		if f == smodel.CUE && target <= host {
			// CUE refuses structural cycles and its evaluator overflows its
			// stack on recursion through disjunctions inside lists: a back
			// reference is an optional field, plain or inside one collection
			chain = nil
			if rapid.Bool().Draw(rt, "backcoll") {
				chain = []string{rapid.SampledFrom([]string{"array", "map"}).Draw(rt, "backwrapper")}
			}
		}
		return chain
	}
	for i := 1; i < n; i++ {
		nref := rapid.SampledFrom([]int{1, 1, 1, 1, 2, 3}).Draw(rt, "nreferrers")
		for k := 0; k < nref; k++ {
			host := rapid.IntRange(0, i-1).Draw(rt, "host")
			if k > 0 {
				host = rapid.IntRange(0, n-1).Draw(rt, "anyhost")
			}
			edges = append(edges, c05Edge{host: host, target: i, chain: drawChain(host, i)})
		}
	}
	if rapid.IntRange(0, 3).Draw(rt, "entryrecursion") == 0 {
		host := rapid.IntRange(0, n-1).Draw(rt, "entryhost")
		edges = append(edges, c05Edge{host: host, target: 0, chain: drawChain(host, 0)})
	}
	out := make([][]c05Edge, n)
	in := make([][]c05Edge, n)
	for _, e := range edges {
		out[e.host] = append(out[e.host], e)
		in[e.target] = append(in[e.target], e)
	}

	// kinds of the definitions
	kinds := make([]string, n)
	for i := n - 1; i >= 0; i-- {
		forwardOnly := true
		for _, e := range out[i] {
			if e.target <= i {
				forwardOnly = false
			}
		}
		switch {
		case i == 0:
			kinds[i] = "struct"
		case len(out[i]) == 0:
			kinds[i] = rapid.SampledFrom([]string{"struct", "struct", "struct", "enum", "enum", "scalar"}).Draw(rt, "leafkind")
		case !forwardOnly:
			kinds[i] = "struct"
		case len(out[i]) == 1:
			kinds[i] = rapid.SampledFrom([]string{"struct", "struct", "struct", "alias"}).Draw(rt, "kind1")
		default:
			kinds[i] = rapid.SampledFrom([]string{"struct", "struct", "struct", "struct", "union", "inter"}).Draw(rt, "kindn")
			if f == smodel.CUE && kinds[i] == "inter" {
				kinds[i] = "union"
			}
		}
	}
	discUnion := false
	var excluded []string
	refTo := func(e c05Edge) c05T {
		target := names[e.target]
		if f == smodel.CUE && kinds[e.target] == "enum" && len(e.chain) == 0 && rapid.Bool().Draw(rt, "constref") {
			return c05T{K: "constref", Ref: target, Member: "a"}
		}
		return c05Wrap(rt, e.chain, c05T{K: "ref", Ref: target})
	}
	for i := 0; i < n; i++ {
		var t c05T
		switch kinds[i] {
		case "enum":
			t = c05T{K: "enum", Enum: []string{"a", "b", "c"}[:rapid.IntRange(2, 3).Draw(rt, "nmembers")]}
		case "scalar":
			t = c05DrawScalar(rt)
		case "alias":
			t = refTo(out[i][0])
		case "union":
			t = c05T{K: "union", OneOf: rapid.Bool().Draw(rt, "oneof")}
			plain := true
			for _, e := range out[i] {
				b := refTo(e)
				if b.K != "ref" || b.Null || kinds[e.target] != "struct" {
					plain = false
				}
				if b.K == "union" {
					t.Br = append(t.Br, b.Br...)
				} else {
					b.Null = false
					t.Br = append(t.Br, b)
				}
			}
			if plain && f == smodel.OpenAPI && rapid.Bool().Draw(rt, "discriminator") {
				t.Disc = "kind"
				t.OneOf = true
				t.Map = c05ExplicitMapping(rt, &excluded)
				discUnion = true
			}
		case "inter":
			t = c05T{K: "inter"}
			for _, e := range out[i] {
				b := refTo(e)
				b.Null = false
				t.Br = append(t.Br, b)
			}
			if rapid.Bool().Draw(rt, "inlinebranch") {
				t.Br = append(t.Br, c05T{K: "struct", Fields: []c05F{{Name: "extra", T: c05DrawScalar(rt)}}})
			}
		default:
			t = c05T{K: "struct"}
			fnames := rapid.Permutation(c05FieldNames).Draw(rt, "fieldnames")
			k := 0
			mine := out[i]
			if len(mine) >= 2 && mine[0].target != mine[1].target && (f != smodel.CUE || (mine[0].target > i && mine[1].target > i)) && rapid.IntRange(0, 2).Draw(rt, "refunion") == 0 {
				// one field holding a union of two references (OpenAPI: with a
				// discriminator, with or without an explicit mapping)
				a, b := mine[0], mine[1]
				u := c05T{K: "union", OneOf: rapid.Bool().Draw(rt, "oneof"), Br: []c05T{{K: "ref", Ref: names[a.target]}, {K: "ref", Ref: names[b.target]}}}
				if f == smodel.OpenAPI && kinds[a.target] == "struct" && kinds[b.target] == "struct" && rapid.IntRange(0, 3).Draw(rt, "discriminator") != 0 {
					u.Disc = "kind"
					u.OneOf = true
					u.Map = c05ExplicitMapping(rt, &excluded)
					discUnion = true
				}
				var chain []string
				for _, w := range a.chain {
					if w == "array" || w == "map" || w == "struct" {
						chain = append(chain, w)
					}
				}
				t.Fields = append(t.Fields, c05F{Name: fnames[k], T: c05Wrap(rt, chain, u), Req: rapid.Bool().Draw(rt, "req")})
				k++
				mine = mine[2:]
			}
			for _, e := range mine {
				ft := refTo(e)
				req := rapid.Bool().Draw(rt, "req")
				if e.target <= i && (f == smodel.CUE || len(e.chain) == 0) {
					req = false // a required plain back reference is a type without values
				}
				t.Fields = append(t.Fields, c05F{Name: fnames[k], T: ft, Req: req})
				k++
			}
			nscalars := rapid.IntRange(0, 2).Draw(rt, "nscalars")
			if len(t.Fields) == 0 && nscalars == 0 {
				nscalars = 1
			}
			for j := 0; j < nscalars; j++ {
				t.Fields = append(t.Fields, c05F{Name: fnames[k], T: c05DrawScalar(rt), Req: rapid.Bool().Draw(rt, "sreq")})
				k++
			}
			// fields in a random order: the referring field is not always first
			perm := rapid.Permutation(t.Fields).Draw(rt, "fieldorder")
			t.Fields = perm
		}
		s.Defs = append(s.Defs, c05Def{Name: names[i], T: t})
	}
	if discUnion {
		// every struct carries its discriminator constant
		for i := range s.Defs {
			if kinds[i] == "struct" {
				s.Defs[i].T.Fields = append(s.Defs[i].T.Fields, c05F{Name: "kind", Req: true, T: c05T{K: "scalar", Scalar: "const:" + strings.ToLower(s.Defs[i].Name)}})
			}
		}
	}

	// where the definitions are declared
	switch f {
	case smodel.JSONSchema:
		s.DefsKey = rapid.SampledFrom([]string{"definitions", "definitions", "definitions", "$defs"}).Draw(rt, "defskey")
		s.RootInline = rapid.IntRange(0, 3).Draw(rt, "rootinline") == 0
		for i := 1; i < n; i++ {
			if rapid.IntRange(0, 5).Draw(rt, "nested") == 0 {
				host := rapid.IntRange(0, n-1).Draw(rt, "nestedin")
				// no chains of nesting: the host is declared at the top
				if host != i && s.Defs[host].NestedIn == "" && !c05HostsNested(s, names[i]) {
					s.Defs[i].NestedIn = names[host]
				}
			}
		}
	case smodel.CUE:
		s.Envelope = len(in[0]) == 0 && rapid.IntRange(0, 2).Draw(rt, "envelope") == 0
		for i := 1; i < n; i++ {
			switch rapid.IntRange(0, 7).Draw(rt, "cueplace") {
			case 0:
				// nested in its only referrer (a struct): visible there only
				if len(in[i]) == 1 && kinds[in[i][0].host] == "struct" && in[i][0].host != i && s.Defs[in[i][0].host].NestedIn == "" && !s.Defs[in[i][0].host].Regular && !c05HostsNested(s, names[i]) {
					s.Defs[i].NestedIn = names[in[i][0].host]
				}
			case 1:
				if !c05HostsNested(s, names[i]) {
					s.Defs[i].Regular = true
				}
			}
		}
	case smodel.OpenAPI:
		if rapid.IntRange(0, 2).Draw(rt, "split") == 0 {
			// a set of definitions closed under references, without the entry
			// point, moves to a second file / package
			moved := map[string]bool{}
			for i := 1; i < n; i++ {
				if rapid.Bool().Draw(rt, "move") {
					moved[names[i]] = true
				}
			}
			if rapid.IntRange(0, 3).Draw(rt, "closed") != 0 {
				for changed := true; changed; {
					changed = false
					for _, e := range edges {
						if moved[names[e.host]] && !moved[names[e.target]] {
							delete(moved, names[e.host])
							changed = true
						}
					}
				}
			}
			for i := 1; i < n; i++ {
				if moved[names[i]] {
					s.Moved = append(s.Moved, names[i])
				}
			}
			if len(s.Moved) > 0 {
				s.OtherPkg = "common"
			}
		}
	}

	// labels: how the definitions with a single referring position are reached
	var labels []string
	labels = append(labels, "parse:format:"+string(f))
	for i := 0; i < n; i++ {
		if len(in[i]) == 1 {
			h := in[i][0].host
			if w, ok := c05InnermostWrapper(s.Defs[h].T, names[i], "def:"+kinds[h]); ok {
				labels = append(labels, "parse:sole_ref_via:"+w)
			}
		}
		if s.Defs[i].NestedIn != "" {
			labels = append(labels, "parse:nested_def")
		}
		if s.Defs[i].Regular {
			labels = append(labels, "parse:regular_field_def")
		}
	}
	if s.OtherPkg != "" {
		labels = append(labels, "parse:two_packages")
	}
	if s.RootInline {
		labels = append(labels, "parse:root_inline")
	}
	if s.Envelope {
		labels = append(labels, "parse:cue_envelope")
	}
	if discUnion {
		labels = append(labels, "parse:discriminator")
	}
	for _, e := range excluded {
		labels = append(labels, "count:"+e)
	}
	return s, labels
}

// c05ExplicitMapping: an explicit OpenAPI discriminator mapping
// (`mapping: {circle: "#/components/schemas/Circle"}`) is a GENUINE defect of
// the OpenAPI front end, listed as C05-openapi-explicit-mapping-targets:
// getDiscriminator copies the values verbatim, so every mapping target of the
// IR is the string "#/components/schemas/Circle" instead of the object name
// "Circle" (witness/C05/openapi_explicit_mapping.json; pinned by
// testdata/openapi/discriminator/GenerateAST/ir.json). One union in four is
// given one; the others are judged in full.
func c05ExplicitMapping(rt *rapid.T, excluded *[]string) bool {
	if rapid.IntRange(0, 3).Draw(rt, "explicitmapping") == 0 {
		*excluded = append(*excluded, "openapi_explicit_mapping_drawn")
		return true
	}
	return false
}

func c05HostsNested(s c05Schema, name string) bool {
	for _, d := range s.Defs {
		if d.NestedIn == name {
			return true
		}
	}
	return false
}

// ------------------------------------------------------------------ renderers

func (s *c05Schema) jsRefPath(name string) string {
	d := s.def(name)
	switch s.Format {
	case smodel.OpenAPI:
		local := "#/components/schemas/" + name
		return local
	default:
		if d != nil && d.NestedIn != "" {
			return "#/" + s.DefsKey + "/" + d.NestedIn + "/" + s.DefsKey + "/" + name
		}
		return "#/" + s.DefsKey + "/" + name
	}
}

// c05JSON renders a type for JSON Schema / OpenAPI. from is the package of the
// document being written (OpenAPI cross-file references).
func (s *c05Schema) c05JSON(t c05T, from string) map[string]any {
	oa := s.Format == smodel.OpenAPI
	out := map[string]any{}
	switch t.K {
	case "scalar":
		switch {
		case strings.HasPrefix(t.Scalar, "const:"):
			out["type"] = "string"
			if oa {
				out["pattern"] = "^" + strings.TrimPrefix(t.Scalar, "const:") + "$"
			} else {
				out["const"] = strings.TrimPrefix(t.Scalar, "const:")
			}
		case t.Scalar == "int":
			out["type"] = "integer"
		case t.Scalar == "number":
			out["type"] = "number"
		case t.Scalar == "bool":
			out["type"] = "boolean"
		default:
			out["type"] = "string"
		}
	case "enum":
		out["type"] = "string"
		vals := []any{}
		for _, m := range t.Enum {
			vals = append(vals, m)
		}
		out["enum"] = vals
	case "ref", "constref":
		ref := s.jsRefPath(t.Ref)
		if oa && s.pkgOf(t.Ref) != from {
			ref = s.pkgOf(t.Ref) + ".json" + ref
		}
		out["$ref"] = ref
	case "array":
		out["type"] = "array"
		out["items"] = s.c05JSON(*t.Elem, from)
	case "map":
		out["type"] = "object"
		out["additionalProperties"] = s.c05JSON(*t.Elem, from)
	case "struct":
		out["type"] = "object"
		props := map[string]any{}
		var req []any
		for _, f := range t.Fields {
			props[f.Name] = s.c05JSON(f.T, from)
			if f.Req {
				req = append(req, f.Name)
			}
		}
		out["properties"] = props
		if len(req) > 0 {
			out["required"] = req
		}
	case "union":
		var br []any
		for _, b := range t.Br {
			br = append(br, s.c05JSON(b, from))
		}
		key := "anyOf"
		if t.OneOf {
			key = "oneOf"
		}
		out[key] = br
		if t.Disc != "" && oa {
			disc := map[string]any{"propertyName": t.Disc}
			if t.Map {
				m := map[string]any{}
				for _, b := range t.Br {
					m[strings.ToLower(b.Ref)] = s.c05JSON(b, from)["$ref"]
				}
				disc["mapping"] = m
			}
			out["discriminator"] = disc
		}
	case "inter":
		var br []any
		for _, b := range t.Br {
			br = append(br, s.c05JSON(b, from))
		}
		out["allOf"] = br
	}
	if t.Null {
		if oa {
			if _, isRef := out["$ref"]; isRef {
				return map[string]any{"allOf": []any{out}, "nullable": true}
			}
			out["nullable"] = true
			return out
		}
		key := "anyOf"
		if t.OneOf {
			key = "oneOf"
		}
		return map[string]any{key: []any{out, map[string]any{"type": "null"}}}
	}
	return out
}

func c05Marshal(v any) string {
	b, err := json.MarshalIndent(v, "", " ")
	if err != nil {
		panic(err)
	}
	return string(b)
}

func (s *c05Schema) renderJSONSchema() string {
	defs := map[string]any{}
	for _, d := range s.Defs {
		if d.NestedIn == "" {
			defs[d.Name] = s.c05JSON(d.T, s.Pkg)
		}
	}
	for _, d := range s.Defs {
		if d.NestedIn != "" {
			host := defs[d.NestedIn].(map[string]any)
			inner, _ := host[s.DefsKey].(map[string]any)
			if inner == nil {
				inner = map[string]any{}
				host[s.DefsKey] = inner
			}
			inner[d.Name] = s.c05JSON(d.T, s.Pkg)
		}
	}
	doc := map[string]any{"$schema": "http://json-schema.org/draft-07/schema#"}
	if s.RootInline {
		for k, v := range s.c05JSON(s.def(s.Entry).T, s.Pkg) {
			doc[k] = v
		}
	} else {
		doc["$ref"] = s.jsRefPath(s.Entry)
	}
	doc[s.DefsKey] = defs
	return c05Marshal(doc)
}

func (s *c05Schema) renderOpenAPI(pkg string) string {
	schemas := map[string]any{}
	for _, d := range s.Defs {
		if s.pkgOf(d.Name) == pkg {
			schemas[d.Name] = s.c05JSON(d.T, pkg)
		}
	}
	return c05Marshal(map[string]any{
		"openapi":    "3.0.0",
		"info":       map[string]any{"title": pkg, "version": "1.0.0"},
		"paths":      map[string]any{},
		"components": map[string]any{"schemas": schemas},
	})
}

func (s *c05Schema) cueName(name string) string {
	if d := s.def(name); d != nil && d.Regular {
		return name
	}
	return "#" + name
}

func (s *c05Schema) cueType(t c05T) string {
	var out string
	switch t.K {
	case "scalar":
		switch {
		case strings.HasPrefix(t.Scalar, "const:"):
			out = fmt.Sprintf("%q", strings.TrimPrefix(t.Scalar, "const:"))
		case t.Scalar == "int":
			out = "int64"
		case t.Scalar == "number":
			out = "float64"
		case t.Scalar == "bool":
			out = "bool"
		default:
			out = "string"
		}
	case "enum":
		var parts []string
		for _, m := range t.Enum {
			parts = append(parts, fmt.Sprintf("%q", m))
		}
		out = strings.Join(parts, " | ")
	case "ref":
		out = s.cueName(t.Ref)
	case "constref":
		out = fmt.Sprintf("%s & %q", s.cueName(t.Ref), t.Member)
	case "array":
		e := s.cueType(*t.Elem)
		if strings.Contains(e, " | ") {
			e = "(" + e + ")"
		}
		out = "[..." + e + "]"
	case "map":
		out = "{[string]: " + s.cueType(*t.Elem) + "}"
	case "struct":
		var parts []string
		for _, f := range t.Fields {
			opt := "?"
			if f.Req {
				opt = ""
			}
			parts = append(parts, fmt.Sprintf("%s%s: %s", f.Name, opt, s.cueType(f.T)))
		}
		out = "{" + strings.Join(parts, ", ") + "}"
	case "union":
		var parts []string
		for _, b := range t.Br {
			parts = append(parts, s.cueType(b))
		}
		out = strings.Join(parts, " | ")
	default:
		out = "_"
	}
	if t.Null {
		out += " | null"
	}
	return out
}

func (s *c05Schema) renderCUE() string {
	var sb strings.Builder
	fmt.Fprintf(&sb, "package %s\n\n", s.Pkg)
	for _, d := range s.Defs {
		if d.NestedIn != "" && !(s.Envelope && d.NestedIn == s.Entry) {
			continue
		}
		if s.Envelope && d.Name == s.Entry {
			for _, f := range d.T.Fields {
				opt := "?"
				if f.Req {
					opt = ""
				}
				fmt.Fprintf(&sb, "%s%s: %s\n", f.Name, opt, s.cueType(f.T))
			}
			sb.WriteString("\n")
			continue
		}
		if d.T.K != "struct" {
			fmt.Fprintf(&sb, "%s: %s\n\n", s.cueName(d.Name), s.cueType(d.T))
			continue
		}
		fmt.Fprintf(&sb, "%s: {\n", s.cueName(d.Name))
		for _, n := range s.Defs {
			if n.NestedIn == d.Name {
				fmt.Fprintf(&sb, "\t#%s: %s\n", n.Name, s.cueType(n.T))
			}
		}
		for _, f := range d.T.Fields {
			opt := "?"
			if f.Req {
				opt = ""
			}
			fmt.Fprintf(&sb, "\t%s%s: %s\n", f.Name, opt, s.cueType(f.T))
		}
		sb.WriteString("}\n\n")
	}
	return sb.String()
}

// inputs are the pipeline inputs of the schema.
func (s *c05Schema) inputs(allowed []string) []e2.InputSpec {
	switch s.Format {
	case smodel.JSONSchema:
		return []e2.InputSpec{{Format: s.Format, Package: s.Pkg, Source: s.renderJSONSchema(), AllowedObjects: allowed}}
	case smodel.CUE:
		return []e2.InputSpec{{Format: s.Format, Package: s.Pkg, Source: s.renderCUE(), AllowedObjects: allowed}}
	}
	if s.OtherPkg == "" {
		return []e2.InputSpec{{Format: s.Format, Package: s.Pkg, Source: s.renderOpenAPI(s.Pkg), AllowedObjects: allowed}}
	}
	return []e2.InputSpec{
		{Format: s.Format, Package: s.Pkg, Source: s.renderOpenAPI(s.Pkg), FileName: s.Pkg + ".json", AllowedObjects: allowed},
		{Format: s.Format, Package: s.OtherPkg, Source: s.renderOpenAPI(s.OtherPkg), FileName: s.OtherPkg + ".json"},
	}
}

func (c *c05ParseCase) format() smodel.Format {
	if c.Model != nil {
		return c.Model.Format
	}
	return c.Schema.Format
}

func (c *c05ParseCase) mainPkg() string {
	if c.Model != nil {
		return c.Model.Model.Package
	}
	return c.Schema.Pkg
}

func (c *c05ParseCase) envelope() string {
	if c.Model == nil && c.Schema.Envelope && c.Schema.Format == smodel.CUE {
		return c.Schema.Entry
	}
	return ""
}

func (c *c05ParseCase) inputs(allowed []string) []e2.InputSpec {
	if c.Model == nil {
		return c.Schema.inputs(allowed)
	}
	ins := c.Model.inputs()
	ins[0].AllowedObjects = allowed
	return ins
}

func (c *c05ParseCase) sources() string {
	var parts []string
	for _, in := range c.inputs(nil) {
		parts = append(parts, fmt.Sprintf("--- %s input, package %s\n%s", in.Format, in.Package, in.Source))
	}
	return strings.Join(parts, "\n")
}

// --------------------------------------------------------------------- oracle

// c05Load runs cog's loaders on the inputs.
func c05Load(inputs []e2.InputSpec, envelope string) (schemas ast.Schemas, err error, panicSig string) {
	work := workDir("c05")
	defer removeAll(work)
	sig, msg, panicked := vlib.Guard(func() {
		pl, e := e2.NewPipeline(filepath.Join(work, "in"), "x/%l", inputs, e2.OutputSpec{})
		if e != nil {
			err = e
			return
		}
		if envelope != "" {
			for _, in := range pl.Inputs {
				if in.Cue != nil {
					in.Cue.ForcedEnvelope = envelope
				}
			}
		}
		schemas, err = e2.LoadSchemas(pl)
	})
	if panicked {
		return nil, fmt.Errorf("panic: %s", msg), sig
	}
	return schemas, err, ""
}

// c05ParsePosition names the position of a reference in parser output from the
// walker's path: what directly contains it.
func c05ParsePosition(where string) string {
	type marker struct{ text, name string }
	markers := []marker{
		{".Map.ValueType", "map-value"}, {".Map.IndexType", "map-key"}, {".Array.ValueType", "array-items"},
		{".Disjunction.Branches", "union-branch"}, {".Intersection.Branches", "intersection-branch"},
		{".Struct.Fields", "field"}, {"<EntryPointType>", "entry-point-type"}, {"<EntryPoint>", "entry-point"},
	}
	best, bestAt := "object-type", -1
	for _, m := range markers {
		if at := strings.LastIndex(where, m.text); at > bestAt {
			best, bestAt = m.name, at
		}
	}
	return best
}

type c05ParseInfo struct {
	Labels   []string
	Counters []string
}

func c05CheckParse(c c05ParseCase) ([]vlib.Violation, c05ParseInfo) {
	var info c05ParseInfo
	format, pkg, envelope := c.format(), c.mainPkg(), c.envelope()
	schemas, err, psig := c05Load(c.inputs(nil), envelope)
	if psig != "" {
		return []vlib.Violation{vlib.V("skip:panic:"+psig, "loading the %s input panicked: %v", format, err)}, info
	}
	if err != nil {
		info.Counters = append(info.Counters, "parse_rejected:"+string(format))
		info.Labels = append(info.Labels, "parse:rejected")
		return nil, info
	}
	info.Labels = append(info.Labels, "parse:accepted")
	var vs []vlib.Violation
	refs := irx.SchemaRefs(schemas)
	seen := map[string]bool{}
	for _, r := range irx.Dangling(schemas, refs) {
		sig := fmt.Sprintf("parse:dangling:%s:%s:%s", format, r.Kind, c05ParsePosition(r.Where))
		if seen[sig+r.Target()] {
			continue
		}
		seen[sig+r.Target()] = true
		vs = append(vs, vlib.V(sig, "after parsing the %s input, %s at %s points to %s which does not exist in the loaded package (objects: %v)\n%s", format, r.Kind, r.Where, r.Target(), c05ObjectNames(schemas), c.sources()))
	}
	for _, p := range irx.SelfRefProblems(schemas) {
		vs = append(vs, vlib.V("parse:selfref:"+string(format), "after parsing the %s input: %s\n%s", format, p, c.sources()))
	}
	if len(vs) > 0 {
		return vs, info
	}
	before := map[string]irx.Ref{}
	switch c.Follow {
	case "lang":
		return c05CheckLang(schemas, before, c.Lang), info
	case "passes":
		return c05CheckPasses(schemas, before, c.Passes), info
	case "filter":
		filtered, ferr, fsig := c05Load(c.inputs(c.Allowed), envelope)
		if fsig != "" {
			return []vlib.Violation{vlib.V("skip:panic:"+fsig, "loading the %s input with allowed_objects=%v panicked: %v", format, c.Allowed, ferr)}, info
		}
		if ferr != nil {
			info.Counters = append(info.Counters, "parse_filter_rejected")
			return nil, info
		}
		// the other package of a split model is not filtered: compare the
		// filtered package only
		var got ast.Schemas
		for _, sch := range filtered {
			if sch.Package == pkg {
				got = append(got, sch)
			}
		}
		// allowed_objects restricts ONE input, before the inputs are put
		// together: what the listed objects reach only through objects of
		// another input (a second OpenAPI file referring back to this one) is
		// not something the input's filter can know. The closure is computed
		// inside the input's own package.
		var own ast.Schemas
		for _, sch := range schemas {
			if sch.Package == pkg {
				own = append(own, sch)
			}
		}
		want := c05Closure(own, pkg, c.Allowed)
		return c05CompareFiltered(want, got, pkg, c.Allowed), info
	}
	return nil, info
}

func c05ObjectNames(schemas ast.Schemas) []string {
	var out []string
	for _, s := range schemas {
		s.Objects.Iterate(func(_ string, o ast.Object) { out = append(out, s.Package+"."+o.Name) })
	}
	sort.Strings(out)
	return out
}

// c05DrawParseCase draws the schema and what is done with the parsed IR.
func c05DrawParseCase(rt *rapid.T) (c05ParseCase, []string) {
	var c c05ParseCase
	var labels, names []string
	var s c05Schema
	shared := rapid.IntRange(0, 4).Draw(rt, "sharedmodel") == 0
	if v := os.Getenv("VERIF_C05_SHARED"); v != "" { // development aid
		shared = v == "1"
	}
	if shared {
		f := rapid.SampledFrom(smodel.Formats).Draw(rt, "format")
		cfg := smodel.DefaultGenConfig(f)
		cfg.Dense = rapid.Bool().Draw(rt, "dense")
		cfg.Intersections = f != smodel.CUE && rapid.Bool().Draw(rt, "intersections")
		sc := drawSchemaCase(rt, cfg, 0)
		if f == smodel.CUE && rapid.Bool().Draw(rt, "structdefaults") {
			if smodel.AddStructDefaults(rt, sc.Model) > 0 {
				labels = append(labels, "parse:cue_struct_default_on_ref")
			}
		}
		c.Model = &sc
		labels = append(labels, "parse:shared_model", "parse:format:"+string(f))
		if sc.SplitPkg != "" {
			labels = append(labels, "parse:two_packages")
		}
		for _, d := range sc.Model.Defs {
			if sc.pkgOf(d.Name) == sc.Model.Package {
				names = append(names, d.Name)
			}
		}
		s = c05Schema{Format: f, Pkg: sc.Model.Package, OtherPkg: sc.SplitPkg}
	} else {
		s, labels = c05DrawSchema(rt)
		c.Schema = s
		for _, d := range s.Defs {
			if s.pkgOf(d.Name) == s.Pkg {
				names = append(names, d.Name)
			}
		}
	}
	c.Follow = rapid.SampledFrom([]string{"", "", "lang", "passes", "filter"}).Draw(rt, "follow")
	switch c.Follow {
	case "lang":
		c.Lang = rapid.SampledFrom(cogx.CodeLanguages).Draw(rt, "lang")
		labels = append(labels, "parse:then:lang:"+c.Lang)
	case "filter":
		k := rapid.IntRange(1, len(names)).Draw(rt, "nallowed")
		c.Allowed = rapid.Permutation(names).Draw(rt, "allowed")[:k]
		labels = append(labels, "parse:then:filter")
	case "passes":
		n := rapid.IntRange(1, 3).Draw(rt, "npasses")
		cur := append([]string{}, names...)
		for i := 0; i < n; i++ {
			var ps passgen.PassSpec
			at := rapid.IntRange(0, len(cur)-1).Draw(rt, "passtarget")
			switch rapid.SampledFrom([]string{"rename_object", "rename_object", "prefix_object_names", "duplicate_object", "replace_reference"}).Draw(rt, "passkind") {
			case "rename_object":
				ps = passgen.PassSpec{Kind: "rename_object", Pkg: s.Pkg, Obj: cur[at], To: cur[at] + "Renamed", TargetClass: "exact"}
				cur[at] = ps.To
			case "prefix_object_names":
				ps = passgen.PassSpec{Kind: "prefix_object_names", Prefix: "Pfx"}
				for k := range cur {
					cur[k] = "Pfx" + cur[k]
				}
			case "replace_reference":
				to := rapid.IntRange(0, len(cur)-1).Draw(rt, "replaceby")
				ps = passgen.PassSpec{Kind: "replace_reference", Pkg: s.Pkg, Obj: cur[at], ToPkg: s.Pkg, To: cur[to], TargetClass: "exact"}
			default:
				ps = passgen.PassSpec{Kind: "duplicate_object", Pkg: s.Pkg, Obj: cur[at], ToPkg: s.Pkg, To: cur[at] + "Copy", TargetClass: "exact"}
				if s.OtherPkg != "" && rapid.Bool().Draw(rt, "dupotherpkg") {
					ps.ToPkg = s.OtherPkg
				}
			}
			c.Passes = append(c.Passes, ps)
			labels = append(labels, "parse:then:pass:"+ps.Kind)
		}
	default:
		labels = append(labels, "parse:then:nothing")
	}
	return c, labels
}
