package checks

// C06 — each language's generators receive types in the normal form they
// assume. After the built-in chain of language L (as shown by `cog inspect
// --language L`), an independent walker checks the stated normal form.

import (
	"fmt"
	"reflect"
	"regexp"
	"strings"
	"testing"

	"github.com/grafana/cog/internal/ast"
	"github.com/grafana/cog/internal/tools"
	"github.com/grafana/cog/verifharness/cogx"
	"github.com/grafana/cog/verifharness/irgen"
	"github.com/grafana/cog/verifharness/vlib"
	"github.com/grafana/cog/verifharness/walk"
	"pgregory.net/rapid"
)

type c06Case struct {
	IR   irgen.IRSpec `json:"ir"`
	Lang string       `json:"lang"`
}

var (
	tType        = reflect.TypeOf(ast.Type{})
	tStructField = reflect.TypeOf(ast.StructField{})
	reNumeric    = regexp.MustCompile(`^[+-]?\d+$`)
)

// posClass summarises the containers on the way to a position, innermost
// last, e.g. "field>array>union".
func posClass(path string) string {
	var parts []string
	re := regexp.MustCompile(`Struct\.Fields|Array\.ValueType|Map\.ValueType|Map\.IndexType|Disjunction\.Branches|Intersection\.Branches`)
	for _, m := range re.FindAllString(path, -1) {
		name := map[string]string{"Struct.Fields": "field", "Array.ValueType": "array", "Map.ValueType": "map", "Map.IndexType": "mapkey", "Disjunction.Branches": "union", "Intersection.Branches": "allof"}[m]
		if len(parts) > 0 && parts[len(parts)-1] == name {
			continue
		}
		parts = append(parts, name)
	}
	if len(parts) == 0 {
		return "top"
	}
	if len(parts) > 3 {
		parts = parts[len(parts)-3:]
	}
	return strings.Join(parts, ">")
}

func inSet(s string, set ...string) bool {
	for _, x := range set {
		if x == s {
			return true
		}
	}
	return false
}

// c06Instance is one violation of the normal form at one position.
type c06Instance struct {
	symptom string // union-remains | t-or-null-remains | anonymous-enum | anonymous-struct | optional-not-nullable | enum-member-*
	key     string // object + path: identity across passes
	pos     string
	msg     string
}

// c06Scan lists the positions of the schemas that are not in L's normal form.
func c06Scan(L string, schemas ast.Schemas) []c06Instance {
	var out []c06Instance
	for _, schema := range schemas {
		if schema == nil || schema.Objects == nil {
			continue
		}
		schema.Objects.Iterate(func(_ string, obj ast.Object) {
			where := schema.Package + "." + obj.Name
			walk.Each(obj.Type, func(path string, s reflect.Value) {
				if strings.Contains(path, ".Hints{") {
					return
				}
				underAllOf := strings.Contains(path, ".Intersection.Branches[]")
				switch s.Type() {
				case tType:
					t := s.Interface().(ast.Type)
					pc := posClass(path)
					switch t.Kind {
					case ast.KindDisjunction:
						if inSet(L, "go", "java") {
							out = append(out, c06Instance{"union-remains", where + path, pc, fmt.Sprintf("%s: a union (%d branches) remains at %s%s", L, len(t.Disjunction.Branches), where, path)})
						}
						if inSet(L, "go", "java", "php", "python") && t.Disjunction != nil && len(t.Disjunction.Branches) == 2 && t.Disjunction.Branches.HasNullType() {
							out = append(out, c06Instance{"t-or-null-remains", where + path, pc, fmt.Sprintf("%s: a two-branch `T | null` union remains at %s%s", L, where, path)})
						}
					case ast.KindEnum:
						if path != "" && inSet(L, "go", "java", "php") {
							out = append(out, c06Instance{"anonymous-enum", where + path, pc, fmt.Sprintf("%s: an enum that is not a named object remains at %s%s", L, where, path)})
						}
					case ast.KindStruct:
						// everything inside an allOf composition is exempt (the
						// statement excludes allOf compositions)
						if path != "" && !underAllOf && inSet(L, "go", "java", "php", "python") {
							out = append(out, c06Instance{"anonymous-struct", where + path, pc, fmt.Sprintf("%s: a struct that is not a named object remains at %s%s", L, where, path)})
						}
					}
				case tStructField:
					f := s.Interface().(ast.StructField)
					if !f.Required && !f.Type.Nullable && inSet(L, "go", "java", "php", "python") {
						out = append(out, c06Instance{"optional-not-nullable", where + path + "." + f.Name, posClass(path) + ":" + string(f.Type.Kind), fmt.Sprintf("%s: field %q at %s%s is not required but its type (%s) is not nullable", L, f.Name, where, path, f.Type.Kind)})
					}
				}
			})
			if obj.Type.Kind == ast.KindEnum && obj.Type.Enum != nil {
				for _, m := range obj.Type.Enum.Values {
					switch L {
					case "go":
						if !strings.HasPrefix(m.Name, tools.UpperCamelCase(obj.Name)) {
							out = append(out, c06Instance{"enum-member-not-prefixed", where + "#" + fmt.Sprint(m.Value), "top", fmt.Sprintf("go: member %q of enum %s is not prefixed with %q", m.Name, where, tools.UpperCamelCase(obj.Name))})
						}
					case "typescript", "python":
						if reNumeric.MatchString(m.Name) {
							out = append(out, c06Instance{"enum-member-numeric", where + "#" + fmt.Sprint(m.Value), "top", fmt.Sprintf("%s: member %q of enum %s is purely numeric", L, m.Name, where)})
						}
					case "php":
						if m.Name == "" || m.Name[0] == '+' || m.Name[0] == '-' {
							out = append(out, c06Instance{"enum-member-unsanitised", where + "#" + fmt.Sprint(m.Value), "top", fmt.Sprintf("php: member %q of enum %s is empty or starts with a sign", m.Name, where)})
						}
					}
				}
			}
		})
	}
	return out
}

// c06Check judges one case. cog's chains are not perfectly deterministic (a
// reported C03 matter: a discriminator inferred by ranging over a Go map); an
// evaluation in which the replayed chain and the pipeline's own run disagree
// cannot attribute anything and is repeated; a case that stays unstable is
// skipped and counted.
func c06Check(c c06Case) []vlib.Violation {
	for attempt := 0; attempt < 3; attempt++ {
		vs, unstable := c06CheckOnce(c)
		if !unstable {
			return vs
		}
	}
	return []vlib.Violation{vlib.V("skip:unstable-chain", "%s chain: two runs on the same input disagree (C03's matter)", c.Lang)}
}

func c06CheckOnce(c c06Case) ([]vlib.Violation, bool) {
	schemas := c.IR.Build()
	inputObjects := map[string]bool{}
	for _, n := range c.IR.ObjectNames() {
		inputObjects[n] = true
	}
	lang := cogx.NewLanguage(c.Lang)
	L := c.Lang
	// what `cog inspect --language L` shows
	var out ast.Schemas
	var err error
	sig, msg, panicked := vlib.Guard(func() {
		ctx, e := cogx.ContextFor(lang, schemas, false)
		out, err = ctx.Schemas, e
	})
	if panicked {
		return []vlib.Violation{vlib.V("skip:panic:"+sig, "%s chain panicked: %s", c.Lang, msg)}, false
	}
	if err != nil {
		return []vlib.Violation{vlib.V("skip:rejected", "%s chain refused the input: %v", c.Lang, err)}, false
	}
	final := c06Scan(L, out)
	if len(final) == 0 {
		return nil, false
	}
	// attribution: replay the chain pass by pass; a violating position that
	// was not violating in the input was introduced by the first pass after
	// which it shows; one that was there from the start was never normalised.
	// cause[key]: the pass after which the position last turned from
	// conforming to violating ("never-normalised" if it violated throughout).
	firstSeen := map[string]string{}
	prevSet := map[string]bool{}
	for _, in := range c06Scan(L, schemas) {
		firstSeen[in.symptom+"@"+in.key] = "never-normalised"
		prevSet[in.symptom+"@"+in.key] = true
	}
	// every prefix of the chain is run from the input schemas, as one chain
	// (exactly what the whole chain does up to that pass; running the passes one
	// by one on each other's output is not the same thing: Process deep-copies
	// and some passes behave differently on re-entry)
	nPasses := len(cogx.NewLanguage(c.Lang).CompilerPasses())
	// snaps[k]: the field table after the first k passes (snaps[0]: the input)
	snaps := []map[string]c06Field{c06Fields(schemas)}
	passNames := []string{"input"}
	for k := 1; k <= nPasses; k++ {
		prefix := cogx.NewLanguage(c.Lang).CompilerPasses()[:k]
		pass := prefix[k-1]
		passName := strings.TrimPrefix(strings.TrimPrefix(fmt.Sprintf("%T", pass), "*"), "compiler.")
		var next ast.Schemas
		var perr error
		_, _, p := vlib.Guard(func() { next, perr = prefix.Process(schemas) })
		if p || perr != nil {
			break
		}
		snaps = append(snaps, c06Fields(next))
		passNames = append(passNames, passName)
		nowSet := map[string]bool{}
		for _, in := range c06Scan(L, next) {
			k := in.symptom + "@" + in.key
			nowSet[k] = true
			if !prevSet[k] {
				firstSeen[k] = "after-" + passName
			}
		}
		prevSet = nowSet
	}
	if len(snaps) == nPasses+1 {
		// the replayed chain must have arrived where the pipeline arrived
		finalSet := map[string]bool{}
		for _, in := range final {
			finalSet[in.symptom+"@"+in.key] = true
		}
		if len(prevSet) != len(finalSet) {
			return nil, true
		}
		for k := range finalSet {
			if !prevSet[k] {
				return nil, true
			}
		}
	}
	var vs []vlib.Violation
	seen := map[string]bool{}
	for _, in := range final {
		origin := "input-object"
		objName := in.key
		if i := strings.IndexAny(objName[strings.IndexByte(objName, '.')+1:], ".#"); i >= 0 {
			objName = objName[:strings.IndexByte(objName, '.')+1+i]
		}
		if !inputObjects[objName] {
			origin = "created-object"
		}
		cause := firstSeen[in.symptom+"@"+in.key]
		if cause == "" {
			cause = "after-?"
		}
		s := fmt.Sprintf("%s:%s:%s:%s:%s", in.symptom, L, origin, in.pos, cause)
		if seen[s] {
			continue
		}
		seen[s] = true
		vs = append(vs, vlib.V(s, "%s [%s]", in.msg, cause))
	}
	if len(snaps) == nPasses+1 {
		for _, d := range c06Dropped(L, c06Fields(out), snaps, passNames) {
			origin := "input-object"
			if !inputObjects[d.obj] {
				origin = "created-object"
			}
			s := fmt.Sprintf("optional-nullability-dropped:%s:%s:%s:%s:after-%s", L, origin, d.pos, d.change, d.pass)
			if seen[s] {
				continue
			}
			seen[s] = true
			vs = append(vs, vlib.V(s, "%s: field %s is not required and its type (%s) was nullable until %s replaced it by a %s that is not nullable", L, d.key, d.before, d.pass, d.after))
		}
	}
	return vs, false
}

func c06Config() irgen.Config {
	cfg := irgen.DefaultConfig()
	cfg.MaxDepth = 5
	cfg.IntersectionAnyBranch = true
	return cfg
}

func TestC06(t *testing.T) {
	run := vlib.Begin(t, "C06")
	defer run.Finish(t)
	run.Describe(
		"IRs of 1-3 packages x 1-7 objects, nesting <= 5 (unions inside arrays inside union branches, structs in map values of struct fields of union branches, T|null and enums at every position, intersections, constant references), then 0-3 'shape reuse' operations: a type found in a package (a union four times out of six, else an anonymous enum / struct / collection) or a freshly drawn union of 2-3 branches (scalars, a list, references to struct objects, sometimes null) is copied into another struct field (appended or replacing one, at any depth of a struct object; same package, one in seven from any package), as is or varied (null branch added / removed, branches rotated, wrapped in an array or a map), the field non-required three times out of four; so the same union shape (same generated name) recurs within one schema, in required and non-required positions, with and without null. The IR is run through the built-in chain of go/java/php/python/typescript (Pipeline.ContextForLanguage, builders off). Oracle 1, an independent reflective walker (hint contents ignored) over the result: go/java no union anywhere; go/java/php enums only as an object's top-level type; go/java/php/python structs only as an object's top-level type or directly under an allOf composition, every non-required field nullable, no two-branch T|null union; enum member names: go prefixed with UpperCamel(object), typescript/python never purely numeric, php non-empty and not starting with +/-; each violating position is attributed to the pass after which it last started to violate (every prefix of the chain is replayed from the input). Oracle 2 (history of a field, go/java/php/python): a table of all struct fields under exact keys (object, field names, branch indices) after every prefix of the chain; a field of the result that is non-required and not nullable although the SAME field was non-required and nullable before the pass that last broke it is reported as `optional-nullability-dropped` with the kinds before>after and the pass (a pass that replaces a type - union by reference to the generated object, union by scalar, enum by reference, reference by its target - must carry the nullable flag over, on every code path, also when the generated object exists already); this is kept apart from non-nullable fields of objects a pass created and never normalised. One intersection branch in four is neither a reference nor an inline struct (a union, T|null, a list, a map, an enum: OpenAPI allOf with a oneOf branch). The three regions this check first kept out by construction are judged now: two of the defects behind them are repaired in cog (a same-kind scalar union dropping its nullability; the discriminator chosen by map iteration), the third is listed (C06-flatten-leaves-t-or-null). Non-trivial: nesting depth >= 3 with a union, enum or struct in a non-top-level position; distinct by case hash. Labels union_shape_recurs* say how often a union shape recurs within a package and whether an occurrence is a non-required field.",
		"a chain that returns an error is an acceptable outcome (counted as rejected)",
		"a panic inside the chain is not a C06 matter (C04); such cases are skipped and counted",
		"a chain that gives two different results on one input is C03's matter: when the pipeline's result and the replayed chain disagree the evaluation is repeated (3 times), then skipped and counted (skipped_unstable_chain); the one known source (two discriminator candidates) is excluded by construction",
		"tools.UpperCamelCase is trusted for the Go prefix rule",
		"oracle 2 only judges fields whose key exists before and after the pass (a field moved to a new object by a pass is judged by oracle 1 alone)",
		"losing the null of `A | B | null` in a REQUIRED field is not judged: the statement speaks of non-required fields and of two-branch T|null unions only",
	)
	if vlib.RunReplay(t, run, c06Check) {
		return
	}
	cfg := c06Config()
	rapid.Check(t, func(rt *rapid.T) {
		c := c06Case{IR: irgen.Draw(rt, cfg)}
		reuseLabels := c06Reuse(rt, c.IR)
		c06ExcludeKnownRegions(run, c.IR)
		c.Lang = rapid.SampledFrom(cogx.CodeLanguages).Draw(rt, "lang")
		labels := append([]string{"lang:" + c.Lang}, reuseLabels...)
		labels = append(labels, c06ShapeLabels(c.IR)...)
		maxDepth := 0
		nested := false
		c.IR.Walk(func(_ string, _ string, path string, ts *irgen.TypeSpec) {
			if path != "" && (ts.Kind == "disjunction" || ts.Kind == "enum" || ts.Kind == "struct") {
				nested = true
				labels = append(labels, "nested:"+ts.Kind)
			}
			if strings.Count(path, "|") >= 1 && ts.Kind == "disjunction" {
				labels = append(labels, "union_in_union_branch")
			}
		})
		for _, p := range c.IR {
			for _, o := range p.Objects {
				if d := o.Type.Depth(); d > maxDepth {
					maxDepth = d
				}
			}
		}
		labels = append(labels, fmt.Sprintf("depth:%d", maxDepth))
		key := uint64(0)
		if nested && maxDepth >= 3 {
			key = vlib.Hash(c)
		}
		run.Pending(c)
		vs := c06Check(c)
		kept := vs[:0]
		for _, v := range vs {
			if v.Sig == "skip:rejected" {
				labels = append(labels, "rejected")
				continue
			}
			if v.Sig == "skip:unstable-chain" {
				run.Count("skipped_unstable_chain", 1)
				continue
			}
			kept = append(kept, v)
		}
		vs = skipPanics(run, kept)
		run.Eval(key, dedupe(labels)...)
		if key != 0 && len(c.IR.ObjectNames()) <= 3 {
			run.Sample(c)
		}
		vlib.Fail(rt, run.Judge(c, vs))
	})
}
