package checks

// C10 — default constructors yield the schema's defaults and constants in Go
// and Python. One model drawn from the intersection of the three input
// grammars is rendered in ALL THREE formats; for each rendering the generated
// Go constructors (compiled) and Python constructors (imported) are executed.

import (
	"encoding/json"
	"fmt"
	"reflect"
	"sort"
	"strings"
	"testing"

	"github.com/grafana/cog/internal/ast"
	"github.com/grafana/cog/verifharness/e2"
	"github.com/grafana/cog/verifharness/smodel"
	"github.com/grafana/cog/verifharness/vlib"
	"github.com/grafana/cog/verifharness/walk"
	"pgregory.net/rapid"
)

type c10Batch struct {
	// Models: each is rendered in the three formats
	Models []*smodel.Model `json:"models"`
}

var c10Output = e2.OutputSpec{Types: true, Go: &e2.GoFlags{JSON: true}, Python: &e2.PyFlags{JSON: true}}

type c10Expect struct {
	path     string
	kind     string // default | constant
	value    any
	typeKind string
	required bool
}

// c10Expectations lists the (path, value) pairs the constructor of def must
// produce: declared defaults and constants of its own fields, and of the
// fields of required nested anonymous structs.
func c10Expectations(m *smodel.Model, def string) []c10Expect {
	var out []c10Expect
	var walkT func(t smodel.T, path string, depth int)
	walkT = func(t smodel.T, path string, depth int) {
		if t.Kind != smodel.KStruct || depth > 2 {
			return
		}
		for _, f := range t.Fields {
			p := f.Name
			if path != "" {
				p = path + "." + f.Name
			}
			rt := m.Resolve(f.Type)
			switch {
			case f.Type.Const != nil:
				v, _ := smodel.ParseJSON(string(*f.Type.Const))
				out = append(out, c10Expect{p, "constant", v, f.Type.Kind, f.Required})
			case f.Type.Default != nil && f.Type.Kind == smodel.KRef && rt.Kind == smodel.KStruct:
				// struct default with partial overrides: the overridden
				// fields hold the override, the others their own default
				v, _ := smodel.ParseJSON(string(*f.Type.Default))
				overrides, _ := v.(map[string]any)
				for _, tf := range rt.Fields {
					if ov, ok := overrides[tf.Name]; ok {
						if ov == nil {
							continue // an explicit null override declares nothing
						}
						kind := m.Resolve(tf.Type).Kind
						if l, isList := ov.([]any); isList && len(l) == 0 {
							kind += "_empty"
						} else if mm, isMap := ov.(map[string]any); isMap && len(mm) == 0 {
							kind += "_empty"
						}
						out = append(out, c10Expect{p + "." + tf.Name, "default", ov, "struct_override:" + kind, f.Required})
					} else if tf.Type.Default != nil {
						dv, _ := smodel.ParseJSON(string(*tf.Type.Default))
						out = append(out, c10Expect{p + "." + tf.Name, "default", dv, "struct_not_overridden:" + tf.Type.Kind, f.Required})
					}
				}
			case f.Type.Default != nil:
				v, _ := smodel.ParseJSON(string(*f.Type.Default))
				kind := f.Type.Kind
				if f.Type.Nullable {
					kind = "nullable_" + kind
				}
				if raw := string(*f.Type.Default); raw == "[]" {
					kind += "_empty"
				} else if f.Type.Kind == smodel.KInt && (len(raw) > 16 || raw == "9007199254740993") {
					kind += "_wide" // beyond 2^53
				}
				out = append(out, c10Expect{p, "default", v, kind, f.Required})
			case f.Type.Kind == smodel.KRef && rt.Kind == smodel.KEnum && rt.Default != nil:
				v, _ := smodel.ParseJSON(string(*rt.Default))
				out = append(out, c10Expect{p, "default", v, "enum_ref", f.Required})
			case f.Type.Kind == smodel.KStruct && f.Required:
				walkT(f.Type, p, depth+1)
			}
		}
	}
	if d := m.Def(def); d != nil {
		walkT(d.Type, "", 0)
	}
	return out
}

func lookupPath(v any, path string) (any, bool) {
	cur := v
	for _, seg := range strings.Split(path, ".") {
		obj, ok := cur.(map[string]any)
		if !ok {
			return nil, false
		}
		cur, ok = obj[seg]
		if !ok {
			return nil, false
		}
	}
	return cur, true
}

// canonicalDefaultTypes: the dynamic types cog's IR uses for defaults.
func nonCanonicalDefaults(schemas ast.Schemas) []string {
	var out []string
	ok := map[reflect.Kind]bool{reflect.Bool: true, reflect.Int64: true, reflect.Float64: true, reflect.String: true}
	var check func(where string, v any)
	check = func(where string, v any) {
		switch x := v.(type) {
		case nil:
		case []any:
			for _, e := range x {
				check(where, e)
			}
		case map[string]any:
			for _, e := range x {
				check(where, e)
			}
		default:
			if !ok[reflect.TypeOf(v).Kind()] || reflect.TypeOf(v).PkgPath() != "" {
				out = append(out, fmt.Sprintf("%s holds a %T", where, v))
			}
		}
	}
	for _, s := range schemas {
		s.Objects.Iterate(func(_ string, o ast.Object) {
			walk.Each(o.Type, func(path string, sv reflect.Value) {
				if sv.Type() == reflect.TypeOf(ast.Type{}) {
					t := sv.Interface().(ast.Type)
					check(s.Package+"."+o.Name+path+".Default", t.Default)
					if t.Scalar != nil {
						check(s.Package+"."+o.Name+path+".Scalar.Value", t.Scalar.Value)
					}
				}
			})
		})
	}
	sort.Strings(out)
	return out
}

func c10CheckBatch(run *vlib.Run, models []*smodel.Model) (map[int][]vlib.Violation, error) {
	out := map[int][]vlib.Violation{}
	// one schemaCase per (model, format)
	var cases []schemaCase
	type origin struct {
		model  int
		format smodel.Format
	}
	var origins []origin
	for mi, m := range models {
		for _, f := range smodel.Formats {
			if m.Format != "" && m.Format != f {
				continue // a model using constructs only one format can express
			}
			mm := *m
			mm.Format = f
			cases = append(cases, schemaCase{Format: f, Model: &mm})
			origins = append(origins, origin{mi, f})
		}
	}
	p, err := e2Prepare(run, "c10", cases, c10Output)
	if err != nil {
		return nil, err
	}
	defer p.Close()
	type ref struct {
		caseIdx int
		def     string
	}
	var goReqs []e2.Request
	var pyReqs []e2.PyRequest
	var refs []ref
	for i, c := range cases {
		if !p.usable[i] {
			continue
		}
		// in-process: dynamic types of the defaults in the IR
		if pl, perr := e2.NewPipeline(workDir("c10ir"), "x", []e2.InputSpec{{Format: c.Format, Package: c.Model.Package, Source: c.source()}}, e2.OutputSpec{}); perr == nil {
			if schemas, lerr := e2.LoadSchemas(pl); lerr == nil {
				for _, problem := range nonCanonicalDefaults(schemas) {
					out[origins[i].model] = append(out[origins[i].model], vlib.V("ir-default-type:"+string(c.Format)+":"+problem[strings.LastIndex(problem, " ")+1:], "%s: %s (defaults must be bool/int64/float64/string/[]any/map[string]any)", c.Format, problem))
				}
			}
		}
		module := p.ids[i] + ".models." + pyModuleName(c.Model.Package)
		for _, def := range c.Model.DocDefs() {
			if len(c10Expectations(c.Model, def)) == 0 {
				continue
			}
			key, ok := p.goKey(i, def)
			if !ok {
				count(run, "definition_without_go_type", 1)
				continue
			}
			goReqs = append(goReqs, e2.Request{ID: len(goReqs), Key: key, Op: "default"})
			pyReqs = append(pyReqs, e2.PyRequest{ID: len(pyReqs), Op: "default", Module: module, Encoder: p.ids[i] + ".cog.encoder", Class: def})
			refs = append(refs, ref{i, def})
		}
	}
	if len(refs) == 0 {
		return out, nil
	}
	goResps, err := p.batch.Exec(goReqs)
	if err != nil {
		return nil, err
	}
	pyResps, err := p.py.Exec(pyReqs)
	if err != nil {
		return nil, err
	}
	// per (model, def, path): value per (format, language)
	type cell struct {
		format smodel.Format
		lang   string
		value  any
		found  bool
	}
	table := map[string][]cell{}
	for k, rf := range refs {
		c := cases[rf.caseIdx]
		mi := origins[rf.caseIdx].model
		f := string(c.Format)
		bad := func(sig string, format string, args ...any) {
			out[mi] = append(out[mi], vlib.V(sig, "%s definition %s: "+format, append([]any{c.Format, rf.def}, args...)...))
		}
		langs := []struct {
			name, encoded, err string
			skip               bool
		}{
			{"go", goResps[k].Encoded, goResps[k].Panic + goResps[k].EncodeErr, !goResps[k].HasCtor},
			{"python", pyResps[k].Encoded, pyResps[k].Error, pyResps[k].Missing},
		}
		for _, l := range langs {
			if l.skip {
				count(run, "no_constructor:"+l.name, 1)
				continue
			}
			if l.err != "" {
				if l.name == "python" && strings.Contains(l.err, "is not defined") {
					count(run, "python_module_does_not_import", 1)
					note(run, "python module does not import: %s", l.err)
					continue
				}
				tag := ""
				if c10HasMapDefault(c.Model) {
					tag = ":model-has-map-default"
				}
				if c10OverrideNamesConstant(c.Model) {
					tag += ":struct-default-names-constant"
				}
				bad("constructor-fails:"+l.name+":"+f+":"+strings.SplitN(l.err, ":", 2)[0]+tag, "%s default constructor fails: %s", l.name, l.err)
				continue
			}
			v, perr := smodel.ParseJSON(l.encoded)
			if perr != nil {
				bad("constructor-output-not-json:"+l.name+":"+f, "%s", l.encoded)
				continue
			}
			count(run, "documents", 1)
			for _, e := range c10Expectations(c.Model, rf.def) {
				got, found := lookupPath(v, e.path)
				key := fmt.Sprintf("%d/%s/%s", mi, rf.def, e.path)
				table[key] = append(table[key], cell{c.Format, l.name, got, found})
				if run != nil {
					run.Eval(vlib.HashBytes([]byte(c.source()), []byte(rf.def), []byte(e.path), []byte(l.name)), "expect:"+e.kind+":"+e.typeKind, "lang:"+l.name)
				}
				req := "required"
				if !e.required {
					req = "optional"
				}
				if !found {
					bad(fmt.Sprintf("%s-missing:%s:%s:%s:%s", e.kind, l.name, f, e.typeKind, req), "%s: %s() leaves %s unset, the schema declares the %s %s (constructed value: %s)", l.name, rf.def, e.path, e.kind, short80(e.value), l.encoded)
					continue
				}
				if d, same := smodel.JSONEqual(e.value, got); !same {
					bad(fmt.Sprintf("%s-altered:%s:%s:%s:%s", e.kind, l.name, f, e.typeKind, req), "%s: %s() sets %s to %s, the schema declares the %s %s (%s)", l.name, rf.def, e.path, short80(got), e.kind, short80(e.value), d)
				}
			}
		}
	}
	// agreement across languages and formats follows from every cell equalling
	// the declared value; cells that differ were reported above
	agree, differ := 0, 0
	for _, cells := range table {
		same := true
		for i := 1; i < len(cells); i++ {
			if _, eq := smodel.JSONEqual(cells[0].value, cells[i].value); cells[0].found != cells[i].found || !eq {
				same = false
			}
		}
		if same {
			agree++
		} else {
			differ++
		}
	}
	count(run, "paths_where_all_languages_and_formats_agree", agree)
	count(run, "paths_where_they_differ", differ)
	return out, nil
}

// c10OverrideNamesConstant: some struct default names a constant field of
// the referred struct.
func c10OverrideNamesConstant(m *smodel.Model) bool {
	found := false
	m.Walk(func(_ string, _ string, t *smodel.T) {
		if t.Kind != smodel.KRef || t.Default == nil {
			return
		}
		target := m.Def(t.Ref)
		if target == nil {
			return
		}
		var obj map[string]any
		if json.Unmarshal(*t.Default, &obj) != nil {
			return
		}
		for _, f := range target.Type.Fields {
			// a single-member enum is a constant for CUE
			rt := m.Resolve(f.Type)
			if _, has := obj[f.Name]; has && (f.Type.Const != nil || (rt.Kind == smodel.KEnum && len(rt.Members) < 2)) {
				found = true
			}
		}
	})
	return found
}

func c10HasMapDefault(m *smodel.Model) bool {
	found := false
	m.Walk(func(_ string, _ string, t *smodel.T) {
		if t.Kind == smodel.KMap && t.Default != nil {
			found = true
		}
	})
	return found
}

func short80(v any) string {
	raw, _ := json.Marshal(v)
	if len(raw) > 80 {
		return string(raw[:80]) + "…"
	}
	return string(raw)
}

func c10Check(b c10Batch) []vlib.Violation {
	res, err := c10CheckBatch(nil, b.Models)
	if err != nil {
		return []vlib.Violation{vlib.V("harness", "%v", err)}
	}
	var out []vlib.Violation
	for i := range b.Models {
		out = append(out, res[i]...)
	}
	return dedupeViolations(out)
}

var c10Focus = []string{"default_string", "default_int", "default_bool", "default_float", "default_list", "const_string", "enum_ref", "enum_anon", "anon_struct",
	"default_int_wide", "default_list_int", "default_list_empty", "default_nullable", "default_union", "default_int_bounded", "default_float_bounded", "ref"}

// c10FocusFor: map-valued defaults are a listed finding that, from CUE, makes
// the whole Python module unimportable; they are drawn in one model out of
// four so that the search continues behind them.
func c10FocusFor(rt *rapid.T, extra ...string) []string {
	focus := append(append([]string{}, c10Focus...), extra...)
	if rapid.IntRange(0, 3).Draw(rt, "withmapdefault") == 0 {
		focus = append(focus, "default_map")
	}
	return focus
}

// c10DrawModel draws a model: half from the intersection of the three grammars
// (rendered in all three formats), the others for one format only, with the
// constructs only that format can express (CUE: struct defaults with partial
// overrides, constants of every scalar type; JSON Schema / OpenAPI: an explicit
// empty-list default, which CUE cannot tell from no default).
func c10DrawModel(rt *rapid.T) *smodel.Model {
	switch rapid.IntRange(0, 5).Draw(rt, "grammar") {
	case 0:
		cfg := smodel.DefaultGenConfig(smodel.CUE)
		cfg.Focus = c10FocusFor(rt, "const_int", "const_bool")
		m := smodel.Draw(rt, cfg)
		smodel.AddStructDefaults(rt, m)
		return m
	case 1:
		cfg := smodel.DefaultGenConfig(smodel.JSONSchema)
		cfg.Focus = c10FocusFor(rt, "const_int", "const_bool")
		return smodel.Draw(rt, cfg)
	case 2:
		cfg := smodel.DefaultGenConfig(smodel.OpenAPI)
		cfg.Focus = c10FocusFor(rt)
		return smodel.Draw(rt, cfg)
	}
	cfg := smodel.DefaultGenConfig(smodel.JSONSchema)
	cfg.Intersection = true
	cfg.Focus = c10FocusFor(rt)
	m := smodel.Draw(rt, cfg)
	m.Format = ""
	return m
}

func TestC10(t *testing.T) {
	run := vlib.Begin(t, "C10")
	defer run.Finish(t)
	run.Describe(
		"Each rapid case is a batch of K models (K=3 quick, 6 thorough) drawn from the intersection of the three input grammars with a default or constant on fields of every value type (bool incl. false, integer incl. 0 and negatives, float incl. integral values, string incl. empty / quotes / unicode, enum member on named and anonymous enums, list of strings, string constants), on required and optional fields and inside required nested structs; every model is rendered in ALL THREE formats, generated for Go and Python, the Go packages compiled and the Python modules imported, and every struct's default constructor executed (NewX() / X()). Oracle: at each path with a declared default/constant the constructed value encodes to exactly that value (exact rationals: 42 == 42.0); Go and Python agree; the three formats agree; in the IR every default/constant has one of cog's canonical dynamic types. Non-trivial: every (schema, definition, path, language) with a declared default or constant; distinct by that tuple.",
		"defaults are values the schema itself accepts",
		"struct-valued defaults with partial overrides and union-branch defaults are not generated (see DESIGN.md, limits)",
		"a Python module that does not import is C02's matter (counted)",
	)
	if vlib.RunReplay(t, run, c10Check) {
		return
	}
	k := 3
	if vlib.Thorough() {
		k = 6
	}
	rapid.Check(t, func(rt *rapid.T) {
		var models []*smodel.Model
		for i := 0; i < k; i++ {
			models = append(models, c10DrawModel(rt))
		}
		res, err := c10CheckBatch(run, models)
		if err != nil {
			run.Inconclusive("batch failed: %v", err)
			rt.Fatalf("harness: %v", err)
		}
		for i, m := range models {
			run.Label(m.Features()...)
			if i == 0 {
				src := smodel.Render(smodel.CUE, m)
				if len(src) < 2500 {
					run.Sample(map[string]any{"model_as_cue": src})
				}
			}
		}
		for i := range models {
			if vs := dedupeViolations(res[i]); len(vs) > 0 {
				vlib.Fail(rt, run.Judge(c10Batch{Models: []*smodel.Model{models[i]}}, vs))
			}
		}
	})
	e2Health(run)
}
