package checks

// C07 — outputs are independent of sibling languages and of input order,
// same-package inputs merge or conflict, and inputs are never mutated.

import (
	"encoding/json"
	"fmt"
	"os"
	"path/filepath"
	"sort"
	"strings"
	"testing"

	"github.com/grafana/cog/verifharness/cogx"
	"github.com/grafana/cog/verifharness/e2"
	"github.com/grafana/cog/verifharness/smodel"
	"github.com/grafana/cog/verifharness/vlib"
	"pgregory.net/rapid"
)

// c07Case is a pipeline plus what is asked of it.
type c07Case struct {
	// Mode: siblings | order | extra-input | merge | purity
	Mode string   `json:"mode"`
	Pipe pipeCase `json:"pipe"`
	// siblings: the language generated alone
	Alone string `json:"alone,omitempty"`
	// order: a permutation of the inputs
	Perm []int `json:"perm,omitempty"`
	// merge: a second input of the SAME package as Pipe.Inputs[0]: a subset of
	// its definitions, Altered of them changed
	Second  *schemaCase `json:"second,omitempty"`
	Altered []string    `json:"altered,omitempty"`
	// Spread (index-aligned with Pipe.Inputs, nil entries allowed): the
	// definitions of that input live in several packages referring to each other
	Spread []*c07Spread `json:"spread,omitempty"`
}

func languageFiles(files map[string]string, lang string) map[string]string {
	out := map[string]string{}
	for p, h := range files {
		if strings.HasPrefix(p, "x/"+lang+"/") {
			out[p] = h
		}
	}
	return out
}

// packageFiles keeps the files that belong to one package: a path segment or
// a file base name equal to the package (any case: PHP capitalises it).
func packageFiles(files map[string]string, pkg string) map[string]string {
	out := map[string]string{}
	for p, h := range files {
		for _, seg := range strings.Split(p, "/") {
			base := seg
			if i := strings.Index(base, "."); i > 0 {
				base = base[:i]
			}
			if strings.EqualFold(base, pkg) {
				out[p] = h
				break
			}
		}
	}
	return out
}

func reportFileDiffs(prefix string, a, b map[string]string, what string) []vlib.Violation {
	var out []vlib.Violation
	onlyA, onlyB, changed := diffFiles(a, b)
	seen := map[string]bool{}
	for _, p := range append(append(onlyA, onlyB...), changed...) {
		cls := fileClass(p)
		kind := "content"
		if !contains(changed, p) {
			kind = "presence"
		}
		if seen[cls+kind] {
			continue
		}
		seen[cls+kind] = true
		out = append(out, vlib.V(prefix+":"+kind+":"+cls, "%s: %s differs (%s); %d paths differ in all", what, p, kind, len(onlyA)+len(onlyB)+len(changed)))
	}
	return out
}

func c07Check(c c07Case) []vlib.Violation { return c07CheckRun(nil, c) }

// c07AvoidPHPConverterHang: with converters on, veneers present and a model in
// which a struct leads back to itself, the PHP converter template can recurse
// without end (listed C04-hang-php-Converter-Generate; new triggers keep turning
// up: an omitted builder, struct_fields_as_arguments, a promoted option). This
// check runs cog in process and has no watchdog, so PHP is left out of such a
// case (or, when it is the only language, converters are switched off).
func c07AvoidPHPConverterHang(run *vlib.Run, c *c07Case) {
	p := &c.Pipe
	if !p.Config.Converters || !p.Config.Builders || len(p.Config.Veneers) == 0 || !contains(p.Languages, "php") {
		return
	}
	recursive := false
	for _, in := range p.Inputs {
		if in.Model != nil && modelHasRecursiveStruct(in.Model) {
			recursive = true
		}
	}
	if !recursive {
		return
	}
	count(run, "excluded:php_converters_with_veneers_on_a_recursive_model", 1)
	var kept []string
	for _, l := range p.Languages {
		if l != "php" {
			kept = append(kept, l)
		}
	}
	if len(kept) == 0 {
		p.Config.Converters = false
		return
	}
	p.Languages = kept
	if c.Alone == "php" {
		c.Alone = kept[0]
	}
}

// modelHasRecursiveStruct: some definition reaches itself through references.
func modelHasRecursiveStruct(m *smodel.Model) bool {
	var reach func(t smodel.T, onWay map[string]bool, depth int) bool
	reach = func(t smodel.T, onWay map[string]bool, depth int) bool {
		if depth > 40 {
			return true
		}
		if t.Kind == smodel.KRef {
			if onWay[t.Ref] {
				return true
			}
			d := m.Def(t.Ref)
			if d == nil {
				return false
			}
			onWay[t.Ref] = true
			defer delete(onWay, t.Ref)
			return reach(d.Type, onWay, depth+1)
		}
		for _, f := range t.Fields {
			if reach(f.Type, onWay, depth+1) {
				return true
			}
		}
		if t.Elem != nil && reach(*t.Elem, onWay, depth+1) {
			return true
		}
		for _, b := range t.Branches {
			if reach(b, onWay, depth+1) {
				return true
			}
		}
		for _, r := range t.Refs {
			if reach(smodel.T{Kind: smodel.KRef, Ref: r}, onWay, depth+1) {
				return true
			}
		}
		return false
	}
	for _, d := range m.Defs {
		if reach(smodel.T{Kind: smodel.KRef, Ref: d.Name}, map[string]bool{}, 0) {
			return true
		}
	}
	return false
}

func c07CheckRun(run *vlib.Run, c c07Case) []vlib.Violation {
	c07AvoidPHPConverterHang(run, &c)
	work := workDir("c07")
	defer removeAll(work)
	inputs := c.specs()
	full := c.Pipe.spec(c.Pipe.Languages)
	eval := func(tags ...string) {
		if run != nil {
			run.Eval(vlib.HashBytes([]byte(fmt.Sprint(inputs)), []byte(c.Mode), []byte(c.Alone), []byte(fmt.Sprint(c.Perm)), []byte(strings.Join(c.Pipe.Languages, ",")), []byte(strings.Join(c.Pipe.Config.Veneers, "\n"))), append([]string{"mode:" + c.Mode}, tags...)...)
		}
	}
	linked := false
	for _, sp := range c.Spread {
		linked = linked || sp != nil
	}
	reject := func(errs ...string) {
		count(run, "rejected", 1)
		if linked {
			count(run, "rejected_linked", 1)
			for _, e := range errs {
				if e != "" {
					note(run, "a pipeline with linked packages is refused: %s", errSummary(e))
					break
				}
			}
		}
	}
	ran := func() {
		count(run, "programs", 1)
		if linked {
			count(run, "programs_linked", 1)
		}
	}
	switch c.Mode {
	case "siblings":
		all := c07RunPipe(filepath.Join(work, "in"), inputs, full)
		alone := c07RunPipe(filepath.Join(work, "in"), inputs, c.Pipe.spec([]string{c.Alone}))
		if all.panicked || alone.panicked {
			note(run, "panic: %s %s", all.err, alone.err)
			count(run, "skipped_panics", 1)
			return nil
		}
		if (all.err == "") != (alone.err == "") {
			// another language refusing the schemas fails the whole run: only a
			// run where the language alone fails and the joint run succeeds is odd
			if alone.err != "" {
				return []vlib.Violation{vlib.V("siblings:alone-fails-together-succeeds:"+c.Alone, "%s alone: %s; with %v: success", c.Alone, firstLine(alone.err), c.Pipe.Languages)}
			}
			reject(all.err, alone.err)
			return nil
		}
		if all.err != "" {
			reject(all.err)
			return nil
		}
		ran()
		eval("alone:" + c.Alone)
		return dedupeViolations(reportFileDiffs("siblings", languageFiles(alone.files, c.Alone), languageFiles(all.files, c.Alone), fmt.Sprintf("%s generated alone vs together with %v", c.Alone, c.Pipe.Languages)))
	case "order":
		a := c07RunPipe(filepath.Join(work, "in"), inputs, full)
		var permuted []c07Spec
		for _, i := range c.Perm {
			if len(c.Perm) == len(inputs) {
				// a permutation of the pipeline's inputs (one per package)
				permuted = append(permuted, inputs[i])
			} else {
				// replays of the first version: a permutation of the generated models
				permuted = append(permuted, c.specsOf(i)...)
			}
		}
		b := c07RunPipe(filepath.Join(work, "in2"), permuted, full)
		if a.panicked || b.panicked {
			note(run, "panic: %s %s", a.err, b.err)
			count(run, "skipped_panics", 1)
			return nil
		}
		if (a.err == "") != (b.err == "") {
			return []vlib.Violation{vlib.V("order:outcome-differs", "inputs in order: %q; permuted %v: %q", firstLine(a.err), c.Perm, firstLine(b.err))}
		}
		if a.err != "" {
			reject(a.err)
			return nil
		}
		ran()
		eval()
		return dedupeViolations(reportFileDiffs("order", a.files, b.files, fmt.Sprintf("inputs in order vs permuted %v", c.Perm)))
	case "extra-input":
		// the first input alone vs with the others (packages nothing refers to)
		a := c07RunPipe(filepath.Join(work, "in"), c.specsOf(0), full)
		b := c07RunPipe(filepath.Join(work, "in2"), inputs, full)
		if a.panicked || b.panicked {
			note(run, "panic: %s %s", a.err, b.err)
			count(run, "skipped_panics", 1)
			return nil
		}
		if a.err != "" || b.err != "" {
			reject(a.err, b.err)
			return nil
		}
		ran()
		eval()
		var out []vlib.Violation
		for _, pkg := range c.packagesOf(0) {
			out = append(out, reportFileDiffs("extra-input", packageFiles(a.files, pkg), packageFiles(b.files, pkg), fmt.Sprintf("files of package %s, generated without vs with %d unrelated inputs", pkg, len(c.Pipe.Inputs)-1))...)
		}
		return dedupeViolations(out)
	case "merge":
		both := append(plainSpecs(inputs), c.Second.inputs()...)
		var schemasJSON string
		var lerr error
		_, msg, panicked := vlib.Guard(func() {
			pl, err := e2.NewPipeline(filepath.Join(work, "in"), "x/%l", both, e2.OutputSpec{})
			if err != nil {
				lerr = err
				return
			}
			schemas, err := e2.LoadSchemas(pl)
			if err != nil {
				lerr = err
				return
			}
			raw, _ := json.Marshal(schemas)
			schemasJSON = string(raw)
			_ = schemas
		})
		if panicked {
			count(run, "skipped_panics", 1)
			note(run, "panic while merging: %s", firstLine(msg))
			return nil
		}
		count(run, "programs", 1)
		eval(fmt.Sprintf("altered:%d", len(c.Altered)))
		if len(c.Altered) > 0 {
			if lerr == nil {
				return []vlib.Violation{vlib.V("merge:conflict-not-reported", "two inputs of package %s define %v differently and the run does not fail: one of the definitions was silently dropped", c.Second.Model.Package, c.Altered)}
			}
			return nil
		}
		if lerr != nil {
			return []vlib.Violation{vlib.V("merge:equal-definitions-refused", "two inputs of package %s whose shared definitions are identical are refused: %s", c.Second.Model.Package, firstLine(lerr.Error()))}
		}
		var out []vlib.Violation
		for _, in := range []schemaCase{c.Pipe.Inputs[0], *c.Second} {
			for _, d := range in.Model.Defs {
				if !strings.Contains(schemasJSON, `"Name":"`+d.Name+`"`) {
					out = append(out, vlib.V("merge:definition-dropped", "definition %s of an input of package %s is not in the merged schemas", d.Name, in.Model.Package))
				}
			}
		}
		return dedupeViolations(out)
	case "purity":
		return c07Purity(run, c, work, eval)
	}
	return []vlib.Violation{vlib.V("harness", "unknown mode %q", c.Mode)}
}

// drawMergeSecond draws the second input of a merge case: the definitions of
// the first model that can stand alone (closed under references), some altered.
func drawMergeSecond(rt *rapid.T, first schemaCase) (*schemaCase, []string) {
	movable := first.Model.MovableDefs()
	var defs []smodel.Def
	for _, d := range first.Model.Defs {
		if movable[d.Name] {
			raw, _ := json.Marshal(d)
			var cp smodel.Def
			_ = json.Unmarshal(raw, &cp)
			defs = append(defs, cp)
		}
	}
	if len(defs) == 0 {
		return nil, nil
	}
	var altered []string
	for i := range defs {
		if rapid.IntRange(0, 3).Draw(rt, "alter") != 0 {
			continue
		}
		switch defs[i].Type.Kind {
		case smodel.KStruct:
			// either a structural difference (one more field) or one that only
			// shows in a type hint (date-time string vs plain string)
			hinted := -1
			for k, f := range defs[i].Type.Fields {
				if f.Type.Kind == smodel.KDateTime || (f.Type.Kind == smodel.KString && f.Type.Const == nil && f.Type.Default == nil && f.Type.MinLen == nil && f.Type.MaxLen == nil) {
					hinted = k
				}
			}
			if hinted >= 0 && rapid.Bool().Draw(rt, "hintonly") {
				ft := &defs[i].Type.Fields[hinted].Type
				if ft.Kind == smodel.KDateTime {
					ft.Kind = smodel.KString
				} else {
					ft.Kind = smodel.KDateTime
				}
			} else {
				defs[i].Type.Fields = append(defs[i].Type.Fields, smodel.Field{Name: "zzExtra", Type: smodel.T{Kind: smodel.KString}})
			}
			altered = append(altered, defs[i].Name)
		case smodel.KEnum:
			if defs[i].Type.EnumKind == "string" {
				defs[i].Type.Members = append(defs[i].Type.Members, *smodel.Raw("zzExtraMember"))
				if len(defs[i].Type.MemberNames) > 0 {
					defs[i].Type.MemberNames = append(defs[i].Type.MemberNames, "ZzExtraMember")
				}
				altered = append(altered, defs[i].Name)
			}
		}
	}
	m := &smodel.Model{Package: first.Model.Package, Entry: defs[0].Name, Defs: defs, Format: first.Model.Format}
	return &schemaCase{Format: first.Format, Model: m}, altered
}

func TestC07(t *testing.T) {
	run := vlib.Begin(t, "C07")
	defer run.Finish(t)
	run.Describe(
		"Each rapid case is a generated pipeline (1-3 generated models of distinct packages in the three formats, two-package OpenAPI inputs, the composable family with its compose veneer, optional option-rename veneers, per-input and pipeline-level transformation files, every flag, a subset of the seven output languages) and one of five metamorphic relations. Half of the pipelines hold a LINKED input: a model enriched with named non-struct definitions (aliases of string / int / bool / float / date-time, a constant, array, map and union-of-scalars aliases, aliases of other definitions, of structs and enums; some with a default) that the structs refer to plainly, from arrays and from maps, its reference-closed definitions spread over one or two further packages (lib<pkg>, base<pkg>; a package only refers to later ones), rendered as OpenAPI files with cross-file $refs or as CUE packages importing each other (cue_imports); every package is a pipeline input of its own. In a third of the siblings / order cases with builders, and in most purity cases, the veneers are a chain of 3-10 rules drawn against the builders of one of the selected languages: mostly option rules fitting the type of the selected option's argument (unfold_boolean, array_to_append, map_to_index, disjunction_as_options, struct_fields_as_arguments / _as_options with or without explicit fields; half of the time an option that carries a default value), the rest any builder / option rule of C17's generator (omit, rename, duplicate, merge_into, properties, promote_options_to_constructor, rename_arguments, add_comments; exact, case-flipped and absent targets), scope all or one language. Purity cases also give struct-typed fields object-valued defaults (CUE: on the reference; JSON Schema / OpenAPI: on the referred definition). Relations, the first three exact equalities of path -> sha256 maps: (siblings) the files under a language's directory are the same whether it is generated alone or with the other selected languages; (order) ANY permutation of the pipeline's inputs (one per package, so packages that refer to each other are listed in both orders and unrelated inputs land between them) changes no file and not the outcome; (extra-input) the files belonging to the packages of the first generated model are the same with and without the other, unrelated inputs; (merge) a second input of the SAME package holding a reference-closed subset of the first one's definitions, 0..n of them altered: any altered definition makes LoadSchemas fail, none altered gives the union; (purity) every stage of Pipeline.Run that is handed schemas is run by hand and a reflective canonical snapshot (defaults, hints, entry point type, slice contents, unexported fields) of what it was handed is compared before / after: the pipeline's common transformations and each language's pass chain on the schemas LoadSchemas returned; builder derivation, the veneer chain (yaml.VeneersLoader + Rewriter.ApplyTo, as ContextForLanguage applies it) and nil-check generation on the language's own copy of the schemas; and the shared schemas again after all of them. Non-trivial: every case whose runs succeed; distinct by (inputs, mode, parameters, veneers).",
		"package-specific files = a path segment or file base name equal to the package name, case-insensitively; shared index / runtime files are exempt from the extra-input relation",
		"merge inputs are CUE or OpenAPI (JSON Schema only declares what its root reaches)",
		"cross-package references exist in OpenAPI and CUE inputs only (the JSON Schema front end has none)",
		"a veneer chain that the loader or a rule refuses with an error is an acceptable outcome (counted); the schemas must be intact all the same",
		"only the schemas are snapshotted around the veneer chain, not the builders handed to it (the property speaks of the schemas)",
	)
	if vlib.RunReplay(t, run, c07Check) {
		return
	}
	rapid.Check(t, func(rt *rapid.T) {
		mode := rapid.SampledFrom([]string{"siblings", "siblings", "order", "order", "extra-input", "merge", "purity", "purity", "purity"}).Draw(rt, "mode")
		c := c07Case{Mode: mode}
		// half of the pipelines hold an input whose definitions are spread over
		// packages that refer to each other
		relink := func() {
			if rapid.Bool().Draw(rt, "linked") {
				c.Spread = c07Relink(rt, &c.Pipe)
			}
		}
		// a veneer chain drawn against the builders of one of the languages
		richVeneers := func() {
			var code []string
			for _, l := range c.Pipe.Languages {
				if isCodeLanguage(l) {
					code = append(code, l)
				}
			}
			if !c.Pipe.Config.Builders || len(code) == 0 {
				return
			}
			lang := rapid.SampledFrom(code).Draw(rt, "veneerlang")
			if schemas, builders, ok := c07Derive(c, lang); ok {
				rules := c07DrawVeneerRules(rt, lang, schemas, builders)
				c.Pipe.Config.Veneers = veneerContents(rules)
				run.Label("rich-veneers")
				for _, r := range rules {
					run.Label("veneer:" + r.On + ":" + r.Kind)
				}
			} else {
				count(run, "no_builders_to_draw_veneers_against", 1)
			}
		}
		switch mode {
		case "siblings":
			c.Pipe = drawPipeCase(rt, 2, 2)
			relink()
			if rapid.IntRange(0, 2).Draw(rt, "richveneers") == 0 {
				richVeneers()
			}
			c.Alone = rapid.SampledFrom(c.Pipe.Languages).Draw(rt, "alone")
		case "order":
			c.Pipe = drawPipeCase(rt, 3, 1)
			relink()
			for len(c.specs()) < 2 {
				c.Pipe, c.Spread = drawPipeCase(rt, 3, 1), nil
				relink()
			}
			if rapid.IntRange(0, 2).Draw(rt, "richveneers") == 0 {
				richVeneers()
			}
			c.Perm = rapid.Permutation(seqInts(len(c.specs()))).Draw(rt, "perm")
			if sort.IntsAreSorted(c.Perm) {
				c.Perm[0], c.Perm[1] = c.Perm[1], c.Perm[0]
			}
		case "extra-input":
			c.Pipe = drawPipeCase(rt, 3, 1)
			for len(c.Pipe.Inputs) < 2 || c.Pipe.Inputs[0].Model == nil {
				c.Pipe = drawPipeCase(rt, 3, 1)
			}
			relink()
			c.Pipe.Config.Veneers = nil
		case "merge":
			f := rapid.SampledFrom([]smodel.Format{smodel.CUE, smodel.OpenAPI}).Draw(rt, "format")
			cfg := smodel.DefaultGenConfig(f)
			cfg.NoBytes = true
			m := smodel.Draw(rt, cfg)
			first := schemaCase{Format: f, Model: m}
			c.Pipe = pipeCase{Inputs: []schemaCase{first}, Config: drawC02Config(rt), Languages: []string{"go"}}
			c.Second, c.Altered = drawMergeSecond(rt, first)
			if c.Second == nil {
				rt.Skip("no definition can stand alone")
			}
		case "purity":
			c.Pipe = drawPipeCase(rt, 2, 1)
			relink()
			c.Pipe.Config.Veneers = nil
			// object-valued defaults: what builder derivation and veneers copy around
			for i := range c.Pipe.Inputs {
				if m := c.Pipe.Inputs[i].Model; m != nil && rapid.IntRange(0, 3).Draw(rt, "structdefaults") != 0 {
					c07AddStructDefaults(rt, m)
				}
			}
			// a veneer chain drawn against the builders of one of the languages
			c.Pipe.Config.Builders = c.Pipe.Config.Builders || rapid.Bool().Draw(rt, "builders+")
			var code []string
			for _, l := range c.Pipe.Languages {
				if isCodeLanguage(l) {
					code = append(code, l)
				}
			}
			if c.Pipe.Config.Builders && len(code) == 0 {
				code = []string{rapid.SampledFrom(cogx.CodeLanguages).Draw(rt, "codelang")}
				c.Pipe.Languages = sortedCopy(append(c.Pipe.Languages, code[0]))
			}
			if rapid.IntRange(0, 5).Draw(rt, "noveneers") != 0 {
				richVeneers()
			}
		}
		pipeLabels(run, c.Pipe)
		spreadLabels(run, c)
		sample := pipeSample(c.Pipe)
		sample["mode"], sample["alone"], sample["perm"], sample["altered"] = c.Mode, c.Alone, c.Perm, c.Altered
		var pkgs []string
		for _, s := range c.specs() {
			pkgs = append(pkgs, string(s.Format)+":"+s.Package)
		}
		sample["packages"] = pkgs
		run.Sample(sample)
		if tamedDefaults > 0 {
			// kept out by construction: see c07TameDefaults (typescript prints
			// default objects nested in collections in Go's map order)
			count(run, "excluded_by_construction:default_object_inside_collection", tamedDefaults)
			tamedDefaults = 0
		}
		if tf := os.Getenv("VERIF_C07_TRACE"); tf != "" { // development aid: the case about to run
			raw, _ := json.Marshal(map[string]any{"property": "C07", "case": c})
			_ = os.WriteFile(tf, raw, 0o644)
		}
		if vs := c07CheckRun(run, c); len(vs) > 0 {
			vlib.Fail(rt, run.Judge(c, vs))
		}
	})
	if c := run.Counters(); c["programs"] == 0 && c["rejected"] > 0 {
		run.Inconclusive("cog refused all %d generated pipelines", c["rejected"])
	}
}

func seqInts(n int) []int {
	out := make([]int, n)
	for i := range out {
		out[i] = i
	}
	return out
}
