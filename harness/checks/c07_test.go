package checks

// C07 — outputs are independent of sibling languages and of input order,
// same-package inputs merge or conflict, and inputs are never mutated.

import (
	"encoding/json"
	"fmt"
	"path/filepath"
	"sort"
	"strings"
	"testing"

	"github.com/grafana/cog/verifharness/cogx"
	"github.com/grafana/cog/verifharness/e2"
	"github.com/grafana/cog/verifharness/smodel"
	"github.com/grafana/cog/verifharness/vlib"
	"github.com/grafana/cog/verifharness/walk"
	"pgregory.net/rapid"
)

// c07Case is a pipeline plus what is asked of it.
type c07Case struct {
	// Mode: siblings | order | extra-input | merge | purity
	Mode string   `json:"mode"`
	Pipe pipeCase `json:"pipe"`
	// siblings: the language generated alone
	Alone string `json:"alone,omitempty"`
	// order: a permutation of the inputs
	Perm []int `json:"perm,omitempty"`
	// merge: a second input of the SAME package as Pipe.Inputs[0]: a subset of
	// its definitions, Altered of them changed
	Second  *schemaCase `json:"second,omitempty"`
	Altered []string    `json:"altered,omitempty"`
}

func languageFiles(files map[string]string, lang string) map[string]string {
	out := map[string]string{}
	for p, h := range files {
		if strings.HasPrefix(p, "x/"+lang+"/") {
			out[p] = h
		}
	}
	return out
}

// packageFiles keeps the files that belong to one package: a path segment or
// a file base name equal to the package (any case: PHP capitalises it).
func packageFiles(files map[string]string, pkg string) map[string]string {
	out := map[string]string{}
	for p, h := range files {
		for _, seg := range strings.Split(p, "/") {
			base := seg
			if i := strings.Index(base, "."); i > 0 {
				base = base[:i]
			}
			if strings.EqualFold(base, pkg) {
				out[p] = h
				break
			}
		}
	}
	return out
}

func reportFileDiffs(prefix string, a, b map[string]string, what string) []vlib.Violation {
	var out []vlib.Violation
	onlyA, onlyB, changed := diffFiles(a, b)
	seen := map[string]bool{}
	for _, p := range append(append(onlyA, onlyB...), changed...) {
		cls := fileClass(p)
		kind := "content"
		if !contains(changed, p) {
			kind = "presence"
		}
		if seen[cls+kind] {
			continue
		}
		seen[cls+kind] = true
		out = append(out, vlib.V(prefix+":"+kind+":"+cls, "%s: %s differs (%s); %d paths differ in all", what, p, kind, len(onlyA)+len(onlyB)+len(changed)))
	}
	return out
}

func c07Check(c c07Case) []vlib.Violation { return c07CheckRun(nil, c) }

func c07CheckRun(run *vlib.Run, c c07Case) []vlib.Violation {
	work := workDir("c07")
	defer removeAll(work)
	inputs := c.Pipe.inputSpecs()
	full := c.Pipe.spec(c.Pipe.Languages)
	eval := func(tags ...string) {
		if run != nil {
			run.Eval(vlib.HashBytes([]byte(fmt.Sprint(inputs)), []byte(c.Mode), []byte(c.Alone), []byte(fmt.Sprint(c.Perm)), []byte(strings.Join(c.Pipe.Languages, ","))), append([]string{"mode:" + c.Mode}, tags...)...)
		}
	}
	switch c.Mode {
	case "siblings":
		all := runPipe(filepath.Join(work, "in"), inputs, full, false)
		alone := runPipe(filepath.Join(work, "in"), inputs, c.Pipe.spec([]string{c.Alone}), false)
		if all.panicked || alone.panicked {
			count(run, "skipped_panics", 1)
			return nil
		}
		if (all.err == "") != (alone.err == "") {
			// another language refusing the schemas fails the whole run: only a
			// run where the language alone fails and the joint run succeeds is odd
			if alone.err != "" {
				return []vlib.Violation{vlib.V("siblings:alone-fails-together-succeeds:"+c.Alone, "%s alone: %s; with %v: success", c.Alone, firstLine(alone.err), c.Pipe.Languages)}
			}
			count(run, "rejected", 1)
			return nil
		}
		if all.err != "" {
			count(run, "rejected", 1)
			return nil
		}
		count(run, "programs", 1)
		eval("alone:" + c.Alone)
		return dedupeViolations(reportFileDiffs("siblings", languageFiles(alone.files, c.Alone), languageFiles(all.files, c.Alone), fmt.Sprintf("%s generated alone vs together with %v", c.Alone, c.Pipe.Languages)))
	case "order":
		a := runPipe(filepath.Join(work, "in"), inputs, full, false)
		var permuted []e2.InputSpec
		for _, i := range c.Perm {
			permuted = append(permuted, c.Pipe.Inputs[i].inputs()...)
		}
		b := runPipe(filepath.Join(work, "in2"), permuted, full, false)
		if a.panicked || b.panicked {
			count(run, "skipped_panics", 1)
			return nil
		}
		if (a.err == "") != (b.err == "") {
			return []vlib.Violation{vlib.V("order:outcome-differs", "inputs in order: %q; permuted %v: %q", firstLine(a.err), c.Perm, firstLine(b.err))}
		}
		if a.err != "" {
			count(run, "rejected", 1)
			return nil
		}
		count(run, "programs", 1)
		eval()
		return dedupeViolations(reportFileDiffs("order", a.files, b.files, fmt.Sprintf("inputs in order vs permuted %v", c.Perm)))
	case "extra-input":
		// the first input alone vs with the others (packages nothing refers to)
		first := c.Pipe.Inputs[0]
		a := runPipe(filepath.Join(work, "in"), first.inputs(), full, false)
		b := runPipe(filepath.Join(work, "in2"), inputs, full, false)
		if a.panicked || b.panicked {
			count(run, "skipped_panics", 1)
			return nil
		}
		if a.err != "" || b.err != "" {
			count(run, "rejected", 1)
			return nil
		}
		count(run, "programs", 1)
		eval()
		var out []vlib.Violation
		pkgs := []string{first.Model.Package}
		if first.SplitPkg != "" {
			pkgs = append(pkgs, first.SplitPkg)
		}
		for _, pkg := range pkgs {
			out = append(out, reportFileDiffs("extra-input", packageFiles(a.files, pkg), packageFiles(b.files, pkg), fmt.Sprintf("files of package %s, generated without vs with %d unrelated inputs", pkg, len(c.Pipe.Inputs)-1))...)
		}
		return dedupeViolations(out)
	case "merge":
		both := append(append([]e2.InputSpec{}, inputs...), c.Second.inputs()...)
		var schemasJSON string
		var lerr error
		_, msg, panicked := vlib.Guard(func() {
			pl, err := e2.NewPipeline(filepath.Join(work, "in"), "x/%l", both, e2.OutputSpec{})
			if err != nil {
				lerr = err
				return
			}
			schemas, err := e2.LoadSchemas(pl)
			if err != nil {
				lerr = err
				return
			}
			raw, _ := json.Marshal(schemas)
			schemasJSON = string(raw)
			_ = schemas
		})
		if panicked {
			count(run, "skipped_panics", 1)
			note(run, "panic while merging: %s", firstLine(msg))
			return nil
		}
		count(run, "programs", 1)
		eval(fmt.Sprintf("altered:%d", len(c.Altered)))
		if len(c.Altered) > 0 {
			if lerr == nil {
				return []vlib.Violation{vlib.V("merge:conflict-not-reported", "two inputs of package %s define %v differently and the run does not fail: one of the definitions was silently dropped", c.Second.Model.Package, c.Altered)}
			}
			return nil
		}
		if lerr != nil {
			return []vlib.Violation{vlib.V("merge:equal-definitions-refused", "two inputs of package %s whose shared definitions are identical are refused: %s", c.Second.Model.Package, firstLine(lerr.Error()))}
		}
		var out []vlib.Violation
		for _, in := range []schemaCase{c.Pipe.Inputs[0], *c.Second} {
			for _, d := range in.Model.Defs {
				if !strings.Contains(schemasJSON, `"Name":"`+d.Name+`"`) {
					out = append(out, vlib.V("merge:definition-dropped", "definition %s of an input of package %s is not in the merged schemas", d.Name, in.Model.Package))
				}
			}
		}
		return dedupeViolations(out)
	case "purity":
		var out []vlib.Violation
		_, msg, panicked := vlib.Guard(func() {
			pl, err := e2.NewPipeline(filepath.Join(work, "in"), "x/%l", inputs, e2.OutputSpec{})
			if err != nil {
				return
			}
			schemas, err := e2.LoadSchemas(pl)
			if err != nil {
				count(run, "rejected", 1)
				return
			}
			count(run, "programs", 1)
			before := walk.Canon(schemas)
			for _, l := range c.Pipe.Languages {
				_, cerr := cogx.ContextFor(cogx.NewLanguage(l), schemas, c.Pipe.Config.Builders)
				after := walk.Canon(schemas)
				if after != before {
					path, detail, _ := walk.Diff(before, after)
					_ = path
					out = append(out, vlib.V("purity:schemas-mutated:"+l, "the schemas handed to the %s pass chain were modified by it (error=%v): %s", l, cerr, short80(detail)))
					before = after
				}
				eval("purity:" + l)
			}
		})
		if panicked {
			count(run, "skipped_panics", 1)
			note(run, "panic in a language chain: %s", firstLine(msg))
		}
		return dedupeViolations(out)
	}
	return []vlib.Violation{vlib.V("harness", "unknown mode %q", c.Mode)}
}

// drawMergeSecond draws the second input of a merge case: the definitions of
// the first model that can stand alone (closed under references), some altered.
func drawMergeSecond(rt *rapid.T, first schemaCase) (*schemaCase, []string) {
	movable := first.Model.MovableDefs()
	var defs []smodel.Def
	for _, d := range first.Model.Defs {
		if movable[d.Name] {
			raw, _ := json.Marshal(d)
			var cp smodel.Def
			_ = json.Unmarshal(raw, &cp)
			defs = append(defs, cp)
		}
	}
	if len(defs) == 0 {
		return nil, nil
	}
	var altered []string
	for i := range defs {
		if rapid.IntRange(0, 3).Draw(rt, "alter") != 0 {
			continue
		}
		switch defs[i].Type.Kind {
		case smodel.KStruct:
			// either a structural difference (one more field) or one that only
			// shows in a type hint (date-time string vs plain string)
			hinted := -1
			for k, f := range defs[i].Type.Fields {
				if f.Type.Kind == smodel.KDateTime || (f.Type.Kind == smodel.KString && f.Type.Const == nil && f.Type.Default == nil && f.Type.MinLen == nil && f.Type.MaxLen == nil) {
					hinted = k
				}
			}
			if hinted >= 0 && rapid.Bool().Draw(rt, "hintonly") {
				ft := &defs[i].Type.Fields[hinted].Type
				if ft.Kind == smodel.KDateTime {
					ft.Kind = smodel.KString
				} else {
					ft.Kind = smodel.KDateTime
				}
			} else {
				defs[i].Type.Fields = append(defs[i].Type.Fields, smodel.Field{Name: "zzExtra", Type: smodel.T{Kind: smodel.KString}})
			}
			altered = append(altered, defs[i].Name)
		case smodel.KEnum:
			if defs[i].Type.EnumKind == "string" {
				defs[i].Type.Members = append(defs[i].Type.Members, *smodel.Raw("zzExtraMember"))
				if len(defs[i].Type.MemberNames) > 0 {
					defs[i].Type.MemberNames = append(defs[i].Type.MemberNames, "ZzExtraMember")
				}
				altered = append(altered, defs[i].Name)
			}
		}
	}
	m := &smodel.Model{Package: first.Model.Package, Entry: defs[0].Name, Defs: defs, Format: first.Model.Format}
	return &schemaCase{Format: first.Format, Model: m}, altered
}

func TestC07(t *testing.T) {
	run := vlib.Begin(t, "C07")
	defer run.Finish(t)
	run.Describe(
		"Each rapid case is a generated pipeline (1-3 inputs of distinct packages in the three formats, two-package OpenAPI inputs, the composable family with its compose veneer, optional option-rename veneers, every flag, a subset of the seven output languages) and one of five metamorphic relations, each an exact equality of path -> sha256 maps: (siblings) the files under a language's directory are the same whether it is generated alone or with the other selected languages; (order) permuting inputs of different packages changes no file; (extra-input) the files belonging to the first input's package(s) are the same with and without the other, unrelated inputs; (merge) a second input of the SAME package holding a reference-closed subset of the first one's definitions, 0..n of them altered: any altered definition makes LoadSchemas fail, none altered gives the union; (purity) a reflective canonical snapshot (defaults, hints, entry point type, slice contents) of the schemas returned by LoadSchemas is unchanged after ContextForLanguage ran each language's pass chain and builder derivation on them. Non-trivial: every case whose runs succeed; distinct by (inputs, mode, parameters).",
		"package-specific files = a path segment or file base name equal to the package name, case-insensitively; shared index / runtime files are exempt from the extra-input relation",
		"merge inputs are CUE or OpenAPI (JSON Schema only declares what its root reaches)",
	)
	if vlib.RunReplay(t, run, c07Check) {
		return
	}
	rapid.Check(t, func(rt *rapid.T) {
		mode := rapid.SampledFrom([]string{"siblings", "siblings", "order", "extra-input", "merge", "purity"}).Draw(rt, "mode")
		c := c07Case{Mode: mode}
		switch mode {
		case "siblings":
			c.Pipe = drawPipeCase(rt, 2, 2)
			c.Alone = rapid.SampledFrom(c.Pipe.Languages).Draw(rt, "alone")
		case "order":
			c.Pipe = drawPipeCase(rt, 3, 1)
			for len(c.Pipe.Inputs) < 2 {
				c.Pipe = drawPipeCase(rt, 3, 1)
			}
			c.Perm = rapid.Permutation(seqInts(len(c.Pipe.Inputs))).Draw(rt, "perm")
			if sort.IntsAreSorted(c.Perm) {
				c.Perm[0], c.Perm[1] = c.Perm[1], c.Perm[0]
			}
		case "extra-input":
			c.Pipe = drawPipeCase(rt, 3, 1)
			for len(c.Pipe.Inputs) < 2 || c.Pipe.Inputs[0].Model == nil {
				c.Pipe = drawPipeCase(rt, 3, 1)
			}
			c.Pipe.Config.Veneers = nil
		case "merge":
			f := rapid.SampledFrom([]smodel.Format{smodel.CUE, smodel.OpenAPI}).Draw(rt, "format")
			cfg := smodel.DefaultGenConfig(f)
			cfg.NoBytes = true
			m := smodel.Draw(rt, cfg)
			first := schemaCase{Format: f, Model: m}
			c.Pipe = pipeCase{Inputs: []schemaCase{first}, Config: drawC02Config(rt), Languages: []string{"go"}}
			c.Second, c.Altered = drawMergeSecond(rt, first)
			if c.Second == nil {
				rt.Skip("no definition can stand alone")
			}
		case "purity":
			c.Pipe = drawPipeCase(rt, 2, 1)
			c.Pipe.Config.Veneers = nil
		}
		pipeLabels(run, c.Pipe)
		sample := pipeSample(c.Pipe)
		sample["mode"], sample["alone"], sample["perm"], sample["altered"] = c.Mode, c.Alone, c.Perm, c.Altered
		run.Sample(sample)
		if vs := c07CheckRun(run, c); len(vs) > 0 {
			vlib.Fail(rt, run.Judge(c, vs))
		}
	})
	if c := run.Counters(); c["programs"] == 0 && c["rejected"] > 0 {
		run.Inconclusive("cog refused all %d generated pipelines", c["rejected"])
	}
}

func seqInts(n int) []int {
	out := make([]int, n)
	for i := range out {
		out[i] = i
	}
	return out
}
