package checks

// C07 helpers: inputs whose definitions are spread over several packages that
// refer to each other (OpenAPI cross-file $refs, CUE imports), the aliases and
// struct defaults added to the generated models, and pipelines built from them.

import (
	"encoding/json"
	"fmt"
	"regexp"
	"sort"
	"strings"

	"github.com/grafana/cog/internal/codegen"
	"github.com/grafana/cog/verifharness/e2"
	"github.com/grafana/cog/verifharness/smodel"
	"github.com/grafana/cog/verifharness/vlib"
	"pgregory.net/rapid"
)

// c07Spread spreads the definitions of one generated model over packages.
// Package i only refers to its own definitions and to those of packages
// listed after it (the model's own package comes first), so the packages can
// import each other without a cycle.
type c07Spread struct {
	// Pkgs: the additional packages, in dependency order
	Pkgs []string `json:"pkgs"`
	// Owner: definition -> package, for the definitions that leave the model's
	// own package
	Owner map[string]string `json:"owner"`
}

func (s *c07Spread) ownerOf(m *smodel.Model, def string) string {
	if p, ok := s.Owner[def]; ok {
		return p
	}
	return m.Package
}

// c07Spec is one pipeline input; Imports are the packages (other CUE inputs
// of the same pipeline) its source imports.
type c07Spec struct {
	e2.InputSpec
	Imports []string `json:"imports,omitempty"`
}

const c07CueModule = "example.com/verif/"

// specs lists the pipeline inputs of the case: spread inputs yield one input
// per package.
func (c c07Case) specs() []c07Spec {
	var out []c07Spec
	for i := range c.Pipe.Inputs {
		out = append(out, c.specsOf(i)...)
	}
	return out
}

func (c c07Case) specsOf(i int) []c07Spec {
	in := c.Pipe.Inputs[i]
	if i < len(c.Spread) && c.Spread[i] != nil && in.Model != nil && len(c.Spread[i].Pkgs) > 0 {
		return spreadSpecs(in, c.Spread[i])
	}
	var out []c07Spec
	for _, s := range in.inputs() {
		out = append(out, c07Spec{InputSpec: s})
	}
	return out
}

// packagesOf lists the packages input i defines.
func (c c07Case) packagesOf(i int) []string {
	var out []string
	for _, s := range c.specsOf(i) {
		out = append(out, s.Package)
	}
	return out
}

func plainSpecs(specs []c07Spec) []e2.InputSpec {
	out := make([]e2.InputSpec, len(specs))
	for i, s := range specs {
		out[i] = s.InputSpec
	}
	return out
}

func spreadSpecs(in schemaCase, sp *c07Spread) []c07Spec {
	m := in.Model
	pkgs := append([]string{m.Package}, sp.Pkgs...)
	var out []c07Spec
	switch in.Format {
	case smodel.OpenAPI:
		var full map[string]any
		_ = json.Unmarshal([]byte(smodel.RenderOpenAPI(m)), &full)
		schemas := full["components"].(map[string]any)["schemas"].(map[string]any)
		const prefix = "#/components/schemas/"
		for _, pkg := range pkgs {
			var rewrite func(v any) any
			rewrite = func(v any) any {
				switch x := v.(type) {
				case map[string]any:
					cp := make(map[string]any, len(x))
					for k, e := range x {
						cp[k] = rewrite(e)
					}
					return cp
				case []any:
					cp := make([]any, len(x))
					for i := range x {
						cp[i] = rewrite(x[i])
					}
					return cp
				case string:
					// $ref values and explicit discriminator mappings
					if name := strings.TrimPrefix(x, prefix); name != x && m.Def(name) != nil && sp.ownerOf(m, name) != pkg {
						return sp.ownerOf(m, name) + ".json" + prefix + name
					}
				}
				return v
			}
			own := map[string]any{}
			for _, d := range m.Defs {
				if sp.ownerOf(m, d.Name) == pkg {
					own[d.Name] = rewrite(schemas[d.Name])
				}
			}
			doc := map[string]any{
				"openapi":    "3.0.0",
				"info":       map[string]any{"title": pkg, "version": "1.0.0"},
				"paths":      map[string]any{},
				"components": map[string]any{"schemas": own},
			}
			src, _ := json.MarshalIndent(doc, "", "  ")
			spec := c07Spec{InputSpec: e2.InputSpec{Format: smodel.OpenAPI, Package: pkg, Source: string(src), FileName: pkg + ".json"}}
			if pkg == m.Package {
				spec.Transforms, spec.Meta = in.Transforms, in.Meta
			}
			out = append(out, spec)
		}
	default: // CUE
		for _, pkg := range pkgs {
			sub := &smodel.Model{Package: pkg, Format: m.Format}
			for _, d := range m.Defs {
				if sp.ownerOf(m, d.Name) == pkg {
					sub.Defs = append(sub.Defs, d)
				}
			}
			if len(sub.Defs) > 0 {
				sub.Entry = sub.Defs[0].Name
			}
			if pkg == m.Package {
				sub.Entry = m.Entry
			}
			src := smodel.RenderCUE(sub)
			imports := map[string]bool{}
			for _, d := range m.Defs {
				owner := sp.ownerOf(m, d.Name)
				if owner == pkg {
					continue
				}
				re := regexp.MustCompile(`#` + regexp.QuoteMeta(d.Name) + `\b`)
				if re.MatchString(src) {
					src = re.ReplaceAllString(src, owner+".#"+d.Name)
					imports[owner] = true
				}
			}
			spec := c07Spec{InputSpec: e2.InputSpec{Format: smodel.CUE, Package: pkg}}
			var decl strings.Builder
			for _, p := range keysOf(imports) {
				fmt.Fprintf(&decl, "import %q\n", c07CueModule+p)
			}
			if decl.Len() > 0 {
				head := "package " + pkg + "\n\n"
				src = head + decl.String() + "\n" + strings.TrimPrefix(src, head)
			}
			// every later package of the spread has to be loadable: imports are
			// transitive
			seenSelf := false
			for _, p := range pkgs {
				if seenSelf {
					spec.Imports = append(spec.Imports, p)
				}
				if p == pkg {
					seenSelf = true
				}
			}
			spec.Source = src
			if pkg == m.Package {
				spec.Transforms, spec.Meta = in.Transforms, in.Meta
			}
			out = append(out, spec)
		}
	}
	return out
}

// c07NewPipeline builds the pipeline and wires the CUE imports between inputs.
func c07NewPipeline(work string, specs []c07Spec, o e2.OutputSpec) (*codegen.Pipeline, error) {
	pl, err := e2.NewPipeline(work, "x/%l", plainSpecs(specs), o)
	if err != nil {
		return nil, err
	}
	for i, s := range specs {
		if pl.Inputs[i].Cue == nil {
			continue
		}
		for _, imp := range s.Imports {
			for j, other := range specs {
				if other.Package == imp && pl.Inputs[j].Cue != nil {
					pl.Inputs[i].Cue.CueImports = append(pl.Inputs[i].Cue.CueImports, pl.Inputs[j].Cue.Entrypoint+":"+c07CueModule+imp)
				}
			}
		}
	}
	return pl, nil
}

// c07RunPipe runs the pipeline once, in process, from scratch.
func c07RunPipe(work string, specs []c07Spec, o e2.OutputSpec) pipeOutcome {
	out := pipeOutcome{files: map[string]string{}}
	_, msg, panicked := vlib.Guard(func() {
		pl, err := c07NewPipeline(work, specs, o)
		if err != nil {
			out.err = err.Error()
			return
		}
		files, err := e2.Run(pl)
		if err != nil {
			out.err = err.Error()
			return
		}
		for p, content := range files {
			out.files[p] = hashBytes(content)
		}
	})
	if panicked {
		out.panicked = true
		out.err = "panic: " + firstLine(msg)
	}
	return out
}

// ---- generation ------------------------------------------------------------

// c07AddAliases adds named definitions that are not structs (aliases of
// scalars, constants, arrays, maps, unions of scalars, aliases of other
// definitions) and fields of the existing structs that refer to them, plainly
// and from inside collections. Returns the names added.
func c07AddAliases(rt *rapid.T, m *smodel.Model) []string {
	f := m.Format
	str := func() smodel.T { return smodel.T{Kind: smodel.KString} }
	type alias struct {
		name string
		t    smodel.T
	}
	pool := []alias{
		{"Duration", str()},
		{"Counter", smodel.T{Kind: smodel.KInt, Min: smodel.FloatPtr(0)}},
		{"Toggle", smodel.T{Kind: smodel.KBool}},
		{"Ratio", smodel.T{Kind: smodel.KFloat}},
		{"Stamp", smodel.T{Kind: smodel.KDateTime}},
		{"Names", smodel.T{Kind: smodel.KArray, Elem: &smodel.T{Kind: smodel.KString}}},
		{"Attrs", smodel.T{Kind: smodel.KMap, Elem: &smodel.T{Kind: smodel.KString}}},
		{"IdOrName", smodel.T{Kind: smodel.KUScalars, Branches: []smodel.T{{Kind: smodel.KString}, {Kind: smodel.KInt}}}},
	}
	if f != smodel.OpenAPI {
		pool = append(pool, alias{"Version", smodel.T{Kind: smodel.KString, Const: smodel.Raw("v1")}})
	}
	var structs []string
	for _, d := range m.Defs {
		if d.Type.Kind == smodel.KStruct {
			structs = append(structs, d.Name)
		}
	}
	var added []string
	add := func(a alias) bool {
		if m.Def(a.name) != nil {
			return false
		}
		m.Defs = append(m.Defs, smodel.Def{Name: a.name, Type: a.t})
		added = append(added, a.name)
		return true
	}
	for _, a := range pool {
		if rapid.IntRange(0, 2).Draw(rt, "alias."+a.name) == 0 {
			continue
		}
		if a.name == "Duration" && rapid.IntRange(0, 2).Draw(rt, "alias.default") == 0 {
			a.t.Default = smodel.Raw("5m")
		}
		add(a)
	}
	if len(added) == 0 {
		add(pool[0])
	}
	// aliases of other definitions: of an alias, of a struct, of an enum
	for i, n := 0, rapid.IntRange(0, 2).Draw(rt, "refaliases"); i < n; i++ {
		target := rapid.SampledFrom(m.Defs[1:]).Draw(rt, "refalias.target")
		if target.Type.Kind == smodel.KRef || target.Type.Kind == smodel.KIntersection {
			continue
		}
		add(alias{target.Name + "Alias", smodel.T{Kind: smodel.KRef, Ref: target.Name}})
	}
	// fields referring to them
	for _, name := range added {
		n := rapid.IntRange(1, 2).Draw(rt, "uses."+name)
		for k := 0; k < n; k++ {
			host := m.Def(structs[0])
			if k > 0 {
				host = m.Def(rapid.SampledFrom(structs).Draw(rt, "usehost"))
			}
			ref := smodel.T{Kind: smodel.KRef, Ref: name}
			var ft smodel.T
			switch rapid.IntRange(0, 4).Draw(rt, "useshape") {
			case 0:
				ft = smodel.T{Kind: smodel.KArray, Elem: &ref}
			case 1:
				ft = smodel.T{Kind: smodel.KMap, Elem: &ref}
			default:
				ft = ref
				if f == smodel.CUE && rapid.IntRange(0, 4).Draw(rt, "usenullable") == 0 {
					ft.Nullable = true
				}
			}
			fname := fmt.Sprintf("zz%s%d", name, k)
			dup := false
			for _, hf := range host.Type.Fields {
				if hf.Name == fname {
					dup = true
				}
			}
			if dup {
				continue
			}
			required := rapid.Bool().Draw(rt, "userequired")
			// an alias that leads to a struct may lead back to the host: such a
			// field stays optional so that required fields never form a cycle
			switch m.Resolve(ref).Kind {
			case smodel.KStruct, smodel.KUStructs, smodel.KIntersection, smodel.KRef:
				required = false
			}
			host.Type.Fields = append(host.Type.Fields, smodel.Field{Name: fname, Type: ft, Required: required})
		}
	}
	return added
}

// c07AddStructDefaults gives struct-typed fields an object-valued default:
// on the reference (CUE) or on the referred definition (JSON Schema / OpenAPI,
// where cog copies the definition's default onto every reference to it).
func c07AddStructDefaults(rt *rapid.T, m *smodel.Model) int {
	if m.Format == smodel.CUE {
		return smodel.AddStructDefaults(rt, m)
	}
	referred := map[string]bool{}
	for _, d := range m.Defs {
		if d.Type.Kind != smodel.KStruct {
			continue
		}
		for _, f := range d.Type.Fields {
			if f.Type.Kind == smodel.KRef {
				referred[f.Type.Ref] = true
			}
		}
	}
	added := 0
	for i := range m.Defs {
		d := &m.Defs[i]
		if d.Type.Kind != smodel.KStruct || d.Name == m.Entry || !referred[d.Name] || d.Type.Default != nil || selfReaching(m, d.Name) {
			continue
		}
		if !rapid.Bool().Draw(rt, "defdefault") {
			continue
		}
		doc := smodel.DrawDoc(rt, m, d.Name)
		var obj map[string]any
		if err := json.Unmarshal([]byte(doc.JSON), &obj); err != nil {
			continue
		}
		for _, tf := range d.Type.Fields {
			if v, has := obj[tf.Name]; has && (v == nil || tf.Type.Const != nil) {
				delete(obj, tf.Name)
			}
		}
		raw, err := json.Marshal(obj)
		if err != nil {
			continue
		}
		r := json.RawMessage(raw)
		d.Type.Default = &r
		added++
	}
	return added
}

// selfReaching tells whether a definition refers to itself, directly or not.
func selfReaching(m *smodel.Model, name string) bool {
	seen := map[string]bool{}
	var rec func(cur string) bool
	rec = func(cur string) bool {
		d := m.Def(cur)
		if d == nil {
			return false
		}
		found := false
		dt := d.Type
		(&smodel.Model{Defs: []smodel.Def{{Name: cur, Type: dt}}}).Walk(func(_ string, _ string, t *smodel.T) {
			targets := append([]string{}, t.Refs...)
			if t.Kind == smodel.KRef {
				targets = append(targets, t.Ref)
			}
			for _, r := range targets {
				if r == name {
					found = true
				} else if !seen[r] {
					seen[r] = true
					if rec(r) {
						found = true
					}
				}
			}
		})
		return found
	}
	return rec(name)
}

// c07DrawSpread assigns the definitions that can leave the model's package to
// one or two further packages; a definition only refers to definitions of its
// own package and of the packages after it.
func c07DrawSpread(rt *rapid.T, m *smodel.Model) *c07Spread {
	movable := m.MovableDefs()
	if len(movable) == 0 {
		return nil
	}
	level := map[string]int{}
	for _, d := range m.Defs {
		if movable[d.Name] {
			level[d.Name] = rapid.SampledFrom([]int{0, 1, 1, 1, 2, 2}).Draw(rt, "level."+d.Name)
		}
	}
	for changed := true; changed; {
		changed = false
		for _, d := range m.Defs {
			lv := level[d.Name]
			if lv == 0 {
				continue
			}
			dt := d.Type
			(&smodel.Model{Defs: []smodel.Def{{Name: d.Name, Type: dt}}}).Walk(func(_ string, _ string, t *smodel.T) {
				targets := append([]string{}, t.Refs...)
				if t.Kind == smodel.KRef {
					targets = append(targets, t.Ref)
				}
				for _, r := range targets {
					if level[r] < lv {
						level[r] = lv
						changed = true
					}
				}
			})
		}
	}
	names := map[int]string{1: "lib" + m.Package, 2: "base" + m.Package}
	sp := &c07Spread{Owner: map[string]string{}}
	used := map[int]bool{}
	for _, d := range m.Defs {
		if lv := level[d.Name]; lv > 0 {
			sp.Owner[d.Name] = names[lv]
			used[lv] = true
		}
	}
	for _, lv := range []int{1, 2} {
		if used[lv] {
			sp.Pkgs = append(sp.Pkgs, names[lv])
		}
	}
	if len(sp.Pkgs) == 0 {
		return nil
	}
	return sp
}

// drawLinkedInput draws a model of package pkg rich in named non-struct
// definitions and spreads it over up to three packages.
func drawLinkedInput(rt *rapid.T, pkg string) (schemaCase, *c07Spread) {
	f := rapid.SampledFrom([]smodel.Format{smodel.OpenAPI, smodel.CUE}).Draw(rt, "linkedformat")
	cfg := smodel.DefaultGenConfig(f)
	cfg.SafeNames = rapid.IntRange(0, 3).Draw(rt, "safenames") != 0
	cfg.NoBytes = true
	cfg.MaxDefs = 5
	cfg.NestedCollections = rapid.Bool().Draw(rt, "nestedcollections")
	cfg.NamedUnions = rapid.Bool().Draw(rt, "namedunions")
	m := smodel.Draw(rt, cfg)
	m.Package = pkg
	c07AddAliases(rt, m)
	if rapid.IntRange(0, 2).Draw(rt, "structdefaults") == 0 {
		c07AddStructDefaults(rt, m)
		// c07TameDefaults is no longer applied: the TypeScript map-order defect
		// it kept out is repaired in cog (fix 339af82)
	}
	sc := schemaCase{Format: f, Model: m}
	return sc, c07DrawSpread(rt, m)
}

// tamedDefaults counts the default values c07TameDefaults had to simplify
// (reported as a counter of the run).
var tamedDefaults int

// c07TameDefaults (no longer called, see above) kept the generated pipelines out of a region where cog's
// output is not even deterministic (a genuine defect, reported, of property
// C03 rather than C07): the TypeScript jenny prints a default value that is a
// Go map with `for k, v := range` (typescript/tools.go formatValue), so an
// object of two or more keys that sits inside an array or is the value of a
// map-typed position comes out in a different key order from run to run, and
// every file equality of this check would fail at random. Objects at struct
// positions are printed in field order and stay. Arrays holding such an object
// are emptied, maps are cut down to their first key. Returns how many default
// values were changed.
func c07TameDefaults(m *smodel.Model) int {
	var big func(v any) bool
	big = func(v any) bool {
		switch x := v.(type) {
		case map[string]any:
			if len(x) >= 2 {
				return true
			}
			for _, e := range x {
				if big(e) {
					return true
				}
			}
		case []any:
			for _, e := range x {
				if big(e) {
					return true
				}
			}
		}
		return false
	}
	changed := false
	var tame func(t smodel.T, v any, depth int) any
	tame = func(t smodel.T, v any, depth int) any {
		if depth > 16 {
			return v
		}
		rt := m.Resolve(t)
		switch x := v.(type) {
		case map[string]any:
			switch rt.Kind {
			case smodel.KStruct:
				for _, f := range rt.Fields {
					if e, ok := x[f.Name]; ok {
						x[f.Name] = tame(f.Type, e, depth+1)
					}
				}
				return x
			case smodel.KMap:
				keys := make([]string, 0, len(x))
				for k := range x {
					keys = append(keys, k)
				}
				sort.Strings(keys)
				out := map[string]any{}
				if len(keys) > 0 && !big(x[keys[0]]) {
					out[keys[0]] = x[keys[0]]
				}
				if len(out) != len(x) {
					changed = true
				}
				return out
			}
			return x
		case []any:
			if big(x) {
				changed = true
				return []any{}
			}
		}
		return v
	}
	n := 0
	m.Walk(func(_ string, _ string, t *smodel.T) {
		if t.Default == nil {
			return
		}
		var v any
		if err := json.Unmarshal(*t.Default, &v); err != nil {
			return
		}
		changed = false
		cp := *t
		cp.Default = nil
		v = tame(cp, v, 0)
		if !changed {
			return
		}
		if raw, err := json.Marshal(v); err == nil {
			r := json.RawMessage(raw)
			t.Default = &r
			n++
		}
	})
	return n
}

// c07Relink replaces one generated input of the pipeline by a linked one of
// the same package (or adds one), and returns the spreads, index-aligned with
// the inputs.
func c07Relink(rt *rapid.T, c *pipeCase) []*c07Spread {
	spreads := make([]*c07Spread, len(c.Inputs))
	var cands []int
	for i, in := range c.Inputs {
		if in.Model != nil && in.Meta == nil {
			cands = append(cands, i)
		}
	}
	if len(cands) == 0 {
		return spreads
	}
	k := rapid.SampledFrom(cands).Draw(rt, "linkedindex")
	sc, sp := drawLinkedInput(rt, c.Inputs[k].Model.Package)
	if rapid.IntRange(0, 2).Draw(rt, "transform") == 0 {
		sc.Transforms = []string{fmt.Sprintf("passes:\n  - duplicate_object: {object: %q, as: %q}\n", sc.Model.Package+"."+sc.Model.Entry, sc.Model.Package+"."+sc.Model.Entry+"Copy")}
	}
	c.Inputs[k] = sc
	spreads[k] = sp
	if k == 0 {
		// what was aimed at the replaced input is aimed at the new one
		c.Config.CommonPasses, c.Config.Veneers = nil, nil
		if rapid.IntRange(0, 2).Draw(rt, "commonpass") == 0 {
			c.Config.CommonPasses = []string{fmt.Sprintf("passes:\n  - duplicate_object: {object: %q, as: %q}\n", sc.Model.Package+"."+sc.Model.Entry, sc.Model.Package+"."+sc.Model.Entry+"Dup")}
		}
		if c.Config.Builders && rapid.Bool().Draw(rt, "veneers") {
			c.Config.Veneers = drawVeneers(rt, *c)
		}
	}
	return spreads
}

func spreadLabels(run *vlib.Run, c c07Case) {
	for i, sp := range c.Spread {
		if sp == nil || i >= len(c.Pipe.Inputs) {
			continue
		}
		run.Label(fmt.Sprintf("spread:%s:%d-packages", c.Pipe.Inputs[i].Format, 1+len(sp.Pkgs)))
		kinds := map[string]bool{}
		for name := range sp.Owner {
			if d := c.Pipe.Inputs[i].Model.Def(name); d != nil {
				kinds["spread-def:"+d.Type.Kind] = true
			}
		}
		run.Label(keysOf(kinds)...)
	}
}

func sortedCopy(in []string) []string {
	out := append([]string{}, in...)
	sort.Strings(out)
	return out
}
