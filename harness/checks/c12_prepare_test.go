package checks

// C12's own preparation of a batch: unlike the shared e2Prepare, a case carries
// its own output configuration (Go flags, sibling languages, the ORDER in which
// the output languages are processed, schema transformations), and the
// generated Go packages get a small overlay that lets the check build values
// of the generated types by field assignment (see c12_probe_test.go).

import (
	"context"
	"fmt"
	"path/filepath"
	"sort"
	"strings"

	"github.com/grafana/codejen"
	"github.com/grafana/cog/internal/codegen"
	"github.com/grafana/cog/internal/jennies/common"
	"github.com/grafana/cog/internal/languages"
	"github.com/grafana/cog/verifharness/e2"
	"github.com/grafana/cog/verifharness/smodel"
	"github.com/grafana/cog/verifharness/vlib"
)

// c12Case is a schema case plus the configuration of the run that generates it.
type c12Case struct {
	schemaCase
	// Go: flags of the Go output (nil: json marshaller only)
	Go *e2.GoFlags `json:"go,omitempty"`
	// Siblings: other languages generated (types only) in the same run
	Siblings []string `json:"siblings,omitempty"`
	// Order: the order in which the output languages are processed. Pipeline.Run
	// ranges over a map, so every order is one of its behaviours.
	Order []string `json:"order,omitempty"`
	// Passes: object-level schema transformations, given to cog either as a
	// transformation file of the (first) input or as common passes
	Passes       []c12Pass `json:"passes,omitempty"`
	PassesCommon bool      `json:"passes_common,omitempty"`
	// Excluded: regions the generator drew and left by construction (bookkeeping
	// for the counters only)
	Excluded []string `json:"excluded,omitempty"`
}

var c12Required = []string{"go", "jsonschema", "openapi"}
var c12SiblingPool = []string{"python", "java", "typescript", "php"}

func (c c12Case) goFlags() e2.GoFlags {
	if c.Go == nil {
		return e2.GoFlags{JSON: true}
	}
	g := *c.Go
	g.JSON = true // the oracle needs the generated (un)marshallers
	return g
}

// order is the processing order: the drawn one completed with what it lacks.
func (c c12Case) order() []string {
	enabled := map[string]bool{"go": true, "jsonschema": true, "openapi": true}
	for _, s := range c.Siblings {
		enabled[s] = true
	}
	var out []string
	seen := map[string]bool{}
	for _, l := range c.Order {
		if enabled[l] && !seen[l] {
			out = append(out, l)
			seen[l] = true
		}
	}
	for _, l := range append(append([]string{}, c12Required...), c12SiblingPool...) {
		if enabled[l] && !seen[l] {
			out = append(out, l)
			seen[l] = true
		}
	}
	return out
}

// pipelineInputs are the inputs with the transformation file attached.
func (c c12Case) pipelineInputs() []e2.InputSpec {
	ins := c.inputs()
	if len(c.Passes) > 0 && !c.PassesCommon && len(ins) > 0 {
		ins[0].Transforms = append(append([]string{}, ins[0].Transforms...), c12PassesYAML(c))
	}
	return ins
}

func (c c12Case) outputSpec(id string) e2.OutputSpec {
	g := c.goFlags()
	g.PackageRoot = "verifgen/" + id
	out := e2.OutputSpec{Types: true, Go: &g, JSONSchema: true, OpenAPI: true}
	for _, s := range c.Siblings {
		switch s {
		case "python":
			out.Python = &e2.PyFlags{}
		case "java":
			out.Java = &e2.JvFlags{}
		case "typescript":
			out.Typescript = &e2.TsFlags{}
		case "php":
			out.PHP = &e2.PhFlags{}
		}
	}
	if len(c.Passes) > 0 && c.PassesCommon {
		out.CommonPasses = []string{c12PassesYAML(c)}
	}
	return out
}

// c12RunOrdered does what codegen.Pipeline.Run does, with the iteration order
// over the output languages made explicit. A sibling language that refuses the
// schema is skipped (named in skipped): what it did to the shared schemas
// before failing stays, as it would in Pipeline.Run.
func c12RunOrdered(p *codegen.Pipeline, outDir string, order []string) (files e2.Files, skipped []string, err error) {
	targets, err := p.OutputLanguages()
	if err != nil {
		return nil, nil, err
	}
	schemas, err := p.LoadSchemas(context.Background())
	if err != nil {
		return nil, nil, err
	}
	cfg := languages.Config{Types: p.Output.Types, Builders: p.Output.Builders, Converters: p.Output.Converters, APIReference: p.Output.APIReference}
	generated := codejen.NewFS()
	for _, name := range order {
		target, ok := targets[name]
		if !ok {
			continue
		}
		required := name == "go" || name == "jsonschema" || name == "openapi"
		var lfs *codejen.FS
		run := func() (rerr error) {
			if !required {
				defer func() {
					if rec := recover(); rec != nil {
						rerr = fmt.Errorf("panic: %v", rec)
					}
				}()
			}
			jctx, cerr := p.ContextForLanguage(target, schemas)
			if cerr != nil {
				return cerr
			}
			jl := target.Jennies(cfg)
			jl.AddPostprocessors(common.PathPrefixer(outDir))
			lfs, cerr = jl.GenerateFS(jctx)
			return cerr
		}
		if rerr := run(); rerr != nil {
			if required {
				return nil, skipped, fmt.Errorf("%s: %w", name, rerr)
			}
			skipped = append(skipped, name)
			continue
		}
		if merr := generated.Merge(lfs); merr != nil {
			return nil, skipped, merr
		}
	}
	files = e2.Files{}
	for _, f := range generated.AsFiles() {
		files[f.RelativePath] = f.Data
	}
	return files, skipped, nil
}

// c12Generate generates one case.
func c12Generate(work string, id string, c c12Case) (res genResult, skipped []string) {
	res = genResult{caseID: id}
	sig, msg, panicked := vlib.Guard(func() {
		p, err := e2.NewPipeline(filepath.Join(work, id+"_in"), id, c.pipelineInputs(), c.outputSpec(id))
		if err != nil {
			res.genErr = err
			return
		}
		res.files, skipped, res.genErr = c12RunOrdered(p, id, c.order())
		if res.genErr != nil || !c.goFlags().SkipRuntime {
			return
		}
		// skip_runtime: the tree is completed with the runtime of the same
		// configuration (generated alone, in its own pipeline: additive)
		full := c.outputSpec(id)
		g := *full.Go
		g.SkipRuntime = false
		full = e2.OutputSpec{Types: true, Go: &g, CommonPasses: full.CommonPasses}
		fp, err := e2.NewPipeline(filepath.Join(work, id+"_rt"), id, c.pipelineInputs(), full)
		if err != nil {
			return
		}
		if rt, rerr := e2.Run(fp); rerr == nil {
			for path, content := range rt {
				if _, has := res.files[path]; !has && strings.Contains("/"+path, "/cog/") {
					res.files[path] = content
				}
			}
		}
	})
	if panicked {
		res.genPanic, res.panicSig = msg, sig
	}
	return res, skipped
}

// c12Prepared is a batch generated, compiled and ready to be driven.
type c12Prepared struct {
	batch      *e2.Batch
	work       string
	ids        []string
	validators []*smodel.Validator // of the SOURCE schema (precondition of the documents)
	usable     []bool              // generated AND compiled: Go values can be made
	generated  []bool              // cog generated the outputs (the emitted documents can be judged)
	files      []e2.Files
	eff        []*c12Effective
	// probes[i]: Go type name -> probe type name
	probes []map[string]string
}

func (p *c12Prepared) Close() {
	p.batch.Close()
	removeAll(p.work)
}

func c12Prepare(run *vlib.Run, cases []c12Case) (*c12Prepared, error) {
	p := &c12Prepared{work: workDir("c12")}
	batch, err := e2.NewBatch(p.work + "/mod")
	if err != nil {
		return nil, err
	}
	p.batch = batch
	n := len(cases)
	p.validators = make([]*smodel.Validator, n)
	p.usable = make([]bool, n)
	p.generated = make([]bool, n)
	p.files = make([]e2.Files, n)
	p.eff = make([]*c12Effective, n)
	p.probes = make([]map[string]string, n)
	for i, c := range cases {
		id := fmt.Sprintf("c%02d", i)
		p.ids = append(p.ids, id)
		v, verr := smodel.NewValidator(c.Format, c.Model, c.source())
		if verr != nil {
			count(run, "generator_oracle_mismatch:rendering", 1)
			continue
		}
		p.validators[i] = v
		p.eff[i] = c12Effect(c)
		g, skipped := c12Generate(p.work, id, c)
		for _, s := range skipped {
			count(run, "sibling_refused:"+s, 1)
		}
		switch {
		case g.genPanic != "":
			count(run, "skipped_panics", 1)
			count(run, "skipped_panic:"+g.panicSig, 1)
		case g.genErr != nil:
			count(run, "rejected", 1)
			count(run, "rejected:"+string(c.Format), 1)
			note(run, "cog refused a %s schema: %v", c.Format, firstLine(g.genErr.Error()))
		default:
			p.files[i] = g.files
			overlay, probes := c12ProbeOverlay(id, g.files, p.eff[i])
			p.probes[i] = probes
			all := e2.Files{}
			for path, content := range g.files {
				all[path] = content
			}
			for path, content := range overlay {
				all[path] = content
			}
			if err := batch.Add(id, all); err != nil {
				p.Close()
				return nil, err
			}
			p.usable[i] = true
			p.generated[i] = true
		}
	}
	if err := batch.Build(); err != nil {
		p.Close()
		return nil, err
	}
	for i := range cases {
		if p.usable[i] && len(batch.CompileErrors[p.ids[i]]) > 0 {
			p.usable[i] = false
			onlyProbe := true
			for _, line := range batch.CompileErrors[p.ids[i]] {
				if !strings.Contains(line, "zz_c12_probe") && !strings.Contains(line, "zzc12probe") {
					onlyProbe = false
				}
			}
			if onlyProbe {
				// the overlay is the harness' own code: never cog's fault
				count(run, "probe_overlay_uncompilable", 1)
				note(run, "probe overlay does not compile: %s", batch.CompileErrors[p.ids[i]][0])
			} else {
				count(run, "uncompilable", 1)
				note(run, "uncompilable %s package: %s", cases[i].Format, batch.CompileErrors[p.ids[i]][0])
			}
		} else if p.usable[i] {
			count(run, "programs", 1)
		}
	}
	return p, nil
}

// goKey returns the driver key of a definition's Go type.
func (p *c12Prepared) goKey(i int, def string) (string, bool) {
	t, ok := goTypeFor(p.batch.Types[p.ids[i]], def)
	if !ok {
		return "", false
	}
	return p.ids[i] + "/" + t, true
}

// probeKey returns the driver key of the probe of a definition's Go type.
func (p *c12Prepared) probeKey(i int, def string) (string, bool) {
	t, ok := goTypeFor(p.batch.Types[p.ids[i]], def)
	if !ok {
		return "", false
	}
	probe, ok := p.probes[i][t]
	if !ok {
		return "", false
	}
	if _, ok := p.batch.Types[p.ids[i]][probe]; !ok {
		return "", false
	}
	return p.ids[i] + "/" + probe, true
}

func sortedKeys[V any](m map[string]V) []string {
	out := make([]string, 0, len(m))
	for k := range m {
		out = append(out, k)
	}
	sort.Strings(out)
	return out
}
