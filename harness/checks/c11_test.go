package checks

// C11 — generated Python types round-trip documents and agree with Go on the
// wire format. The generated Python modules are imported and executed by
// CPython, the generated Go packages compiled and executed; both are judged
// against the source document and against each other.

import (
	"fmt"
	"strings"
	"testing"

	"github.com/grafana/cog/verifharness/e2"
	"github.com/grafana/cog/verifharness/smodel"
	"github.com/grafana/cog/verifharness/vlib"
	"pgregory.net/rapid"
)

type c11Batch struct {
	Cases []schemaCase `json:"cases"`
}

var c11Output = e2.OutputSpec{Types: true, Go: &e2.GoFlags{JSON: true}, Python: &e2.PyFlags{JSON: true}}

func pyErrClass(msg string) string {
	if i := strings.IndexByte(msg, ':'); i > 0 {
		return msg[:i]
	}
	return "error"
}

// c11FieldKindAt returns the model kind of the field where a Python error on
// an explicit null most likely sits (for signatures): "null-optional-<kind>".
func c11NullKinds(c schemaCase, d smodel.Doc) string {
	v, err := smodel.ParseJSON(d.JSON)
	if err != nil {
		return ""
	}
	kinds := map[string]bool{}
	var walk func(t smodel.T, v any)
	walk = func(t smodel.T, v any) {
		t = resolveOne(c.Model, t)
		switch t.Kind {
		case smodel.KStruct:
			obj, ok := v.(map[string]any)
			if !ok {
				return
			}
			for _, f := range t.Fields {
				fv, present := obj[f.Name]
				if !present {
					continue
				}
				if fv == nil {
					kinds[resolveOne(c.Model, f.Type).Kind] = true
					continue
				}
				walk(f.Type, fv)
			}
		case smodel.KArray:
			if l, ok := v.([]any); ok {
				for _, e := range l {
					if e == nil {
						kinds["array-element:"+resolveOne(c.Model, *t.Elem).Kind] = true
						continue
					}
					walk(*t.Elem, e)
				}
			}
		case smodel.KMap:
			if m, ok := v.(map[string]any); ok {
				for _, e := range m {
					if e == nil {
						kinds["map-value:"+resolveOne(c.Model, *t.Elem).Kind] = true
						continue
					}
					walk(*t.Elem, e)
				}
			}
		case smodel.KUStructs:
			// the branch is found structurally (the constants of the branches
			// need not be strings)
			if r, ok := c11BranchOf(c.Model, t, v); ok {
				if def := c.Model.Def(r); def != nil {
					walk(def.Type, v)
				}
			}
		}
	}
	if def := c.Model.Def(d.Def); def != nil {
		walk(def.Type, v)
	}
	var out []string
	for k := range kinds {
		out = append(out, k)
	}
	return strings.Join(sortedStrings(out), "+")
}

func resolveOne(m *smodel.Model, t smodel.T) smodel.T {
	for hops := 0; hops < 16 && t.Kind == smodel.KRef; hops++ {
		d := m.Def(t.Ref)
		if d == nil {
			return t
		}
		t = d.Type
	}
	return t
}

func sortedStrings(in []string) []string {
	out := append([]string(nil), in...)
	for i := 1; i < len(out); i++ {
		for j := i; j > 0 && out[j] < out[j-1]; j-- {
			out[j], out[j-1] = out[j-1], out[j]
		}
	}
	return out
}

func c11CheckBatch(run *vlib.Run, cases []schemaCase) (map[int][]vlib.Violation, error) {
	out := map[int][]vlib.Violation{}
	p, err := e2Prepare(run, "c11", cases, c11Output)
	if err != nil {
		return nil, err
	}
	defer p.Close()
	type ref struct{ caseIdx, docIdx int }
	var goReqs []e2.Request
	var pyReqs []e2.PyRequest
	var refs []ref
	importIdx := map[int]int{}
	for i, c := range cases {
		if !p.usable[i] {
			continue
		}
		module := p.ids[i] + ".models." + pyModuleName(c.Model.Package)
		importIdx[i] = len(pyReqs)
		pyReqs = append(pyReqs, e2.PyRequest{ID: len(pyReqs), Op: "import", Module: module})
		for j, d := range c.Docs {
			key, ok := p.goKey(i, d.Def)
			if !ok {
				count(run, "definition_without_go_type", 1)
				continue
			}
			if err := p.validators[i].Validate(d.Def, d.JSON); err != nil {
				count(run, "generator_oracle_mismatch:document", 1)
				continue
			}
			goReqs = append(goReqs, e2.Request{ID: len(goReqs), Key: key, Op: "roundtrip", Doc: d.JSON})
			pyReqs = append(pyReqs, e2.PyRequest{ID: len(pyReqs), Op: "roundtrip", Module: p.ids[i] + ".models." + pyModuleName(c.pkgOf(d.Def)), Encoder: p.ids[i] + ".cog.encoder", Class: d.Def, Doc: d.JSON})
			refs = append(refs, ref{i, j})
		}
	}
	if len(refs) == 0 {
		return out, nil
	}
	goResps, err := p.batch.Exec(goReqs)
	if err != nil {
		return nil, err
	}
	pyResps, err := p.py.Exec(pyReqs)
	if err != nil {
		return nil, err
	}
	importFailed := map[int]bool{}
	for i, idx := range importIdx {
		if e := pyResps[idx].Error; e != "" {
			importFailed[i] = true
			count(run, "python_module_does_not_import", 1) // C02's matter
			note(run, "python module of a %s case does not import: %s", cases[i].Format, firstLine(e))
		}
	}
	k := 0
	pyByRef := map[ref]e2.PyResponse{}
	for _, r := range pyResps {
		if pyReqs[r.ID].Op == "roundtrip" {
			pyByRef[refs[k]] = r
			k++
		}
	}
	for gi, gr := range goResps {
		rf := refs[gi]
		if importFailed[rf.caseIdx] {
			continue
		}
		c, d := cases[rf.caseIdx], cases[rf.caseIdx].Docs[rf.docIdx]
		pr := pyByRef[rf]
		f := string(c.Format)
		count(run, "documents", 1)
		add := func(sig string, format string, args ...any) {
			out[rf.caseIdx] = append(out[rf.caseIdx], vlib.V(sig, "%s definition %s, document %s: "+format, append([]any{c.Format, d.Def, d.JSON}, args...)...))
		}
		if pr.Missing {
			add("no-python-class:"+f, "no Python class for the definition")
			continue
		}
		if pr.Error != "" {
			nulls := c11NullKinds(c, d)
			where := "no-null"
			if nulls != "" {
				where = "doc-has-null:" + nulls
			}
			add(fmt.Sprintf("python-raises:%s:%s:%s%s%s", f, pyErrClass(pr.Error), where, nestedTag(c), c11UnionRegion(c.Model)), "from_json/to_json raises %s", pr.Error)
			continue
		}
		diffs, cerr := c11Compare(c.Model, d.Def, d.JSON, pr.Encoded)
		if cerr != nil {
			add("python-output-not-json:"+f, "%v (%s)", cerr, pr.Encoded)
			continue
		}
		seen := map[string]bool{}
		for _, df := range diffs {
			sig := fmt.Sprintf("python-roundtrip-differs:%s:%s:%s", f, df.Class, df.FieldKind)
			if seen[sig] {
				continue
			}
			seen[sig] = true
			add(sig, "Python re-encoding %s differs at %s: %s", pr.Encoded, df.Path, df.Detail)
		}
		// Go vs Python on the wire
		if gr.Panic == "" && gr.StdErr == "" && gr.EncodeErr == "" && gr.Encoded != "" {
			gd, _ := c11Compare(c.Model, d.Def, gr.Encoded, pr.Encoded)
			seen := map[string]bool{}
			for _, df := range gd {
				sig := fmt.Sprintf("go-python-disagree:%s:%s:%s", f, df.Class, df.FieldKind)
				if seen[sig] {
					continue
				}
				seen[sig] = true
				add(sig, "Go writes %s, Python writes %s: differ at %s: %s", gr.Encoded, pr.Encoded, df.Path, df.Detail)
			}
		}
	}
	return out, nil
}

func pyModuleName(pkg string) string { return strings.ToLower(pkg) }

func c11Check(b c11Batch) []vlib.Violation {
	res, err := c11CheckBatch(nil, b.Cases)
	if err != nil {
		return []vlib.Violation{vlib.V("harness", "%v", err)}
	}
	var out []vlib.Violation
	for i := range b.Cases {
		out = append(out, res[i]...)
	}
	return dedupeViolations(out)
}

func TestC11(t *testing.T) {
	run := vlib.Begin(t, "C11")
	defer run.Finish(t)
	run.Describe(
		"Batches of K schema models (K=12 quick, 16 thorough), generated for Go (json) and Python (json) in one pipeline run; the Python modules are imported and driven by CPython (from_json -> json.dumps(cls=JSONEncoder)), the Go packages compiled and driven (json.Unmarshal -> json.Marshal), on 3 valid-by-construction documents per struct definition. Five models of eight are drawn as in C01 (dense construct grammar, three input formats; unions of structs there always carry a string constant named kind / type as first property of every branch). Three of eight are UNION-FOCUS models (jsonschema / cue, one in seven openapi; no collections nested directly in collections): the same dense model whose union branches are rewritten so that what the branches share is a string constant, an integer constant, a boolean constant (two branches), a float constant, a string in some branches and an integer in another, or no constant at all (a required marker property per branch instead); the discriminating property sits at a drawn position of each branch; one model in three adds a second constant under one name to every branch (integer, boolean or string; the same value everywhere or a value per branch) at a drawn position; branches are synthesised when the model has none; a Holder struct, referred to by the entry point, uses unions over drawn subsets of the branches (or the named union) as a property, as array items and as map values, without any nullable position, and gets 5 documents. OpenAPI union-focus models only get the Holder (OpenAPI 3.0 has no constants but string patterns and names its discriminator). Oracle: the Python re-encoding is JSON-equal to the document (exact rationals; optional explicit null may be omitted); the Python re-encoding equals the Go re-encoding of the same document whenever both succeeded; a Python exception on a valid document is a violation. Both comparisons are type-directed; the branch a union value belongs to is found structurally (constants of any JSON kind, declared and required properties), so values of unions without string discriminator are judged against their own branch with the same exemptions and difference classes as everything else. Signatures of Python exceptions carry how the unions of the model are discriminated when that is not by strings. Non-trivial document: exercises a union, an enum, an optional present/absent/null property, a map or array of objects, or a nested reference; distinct by (format, schema, document).",
		"documents use canonical number and RFC 3339 spellings and are accepted by the source schema's reference validator (else discarded and counted)",
		"a Python module that does not import is C02's matter: recorded, not reported here",
		"an error returned by cog at generation time is an acceptable outcome (counted)",
		"excluded by construction, both reported as genuine defects with kept replays: (1) integers beyond +-2^53 inside a value of a union cog finds no string discriminator for (such a union is `any` in Go: float64 numbers, the integer comes back rounded while Python keeps it) are clamped to +-2^53 (counted); (2) a string constant with one and the same value in every branch of a union (cog takes the first string constant the branches share as the discriminator whatever its values; every value is then decoded as the last branch) is never generated: the drawn decoy gets a value per branch and same-named string constants of several branches become plain strings (counted)",
	)
	if vlib.RunReplay(t, run, c11Check) {
		return
	}
	k := 12
	if vlib.Thorough() {
		k = 16
	}
	rapid.Check(t, func(rt *rapid.T) {
		var cases []schemaCase
		var focusLabels [][]string
		for i := 0; i < k; i++ {
			c, labels := c11DrawCase(rt, run, 3)
			cases = append(cases, c)
			focusLabels = append(focusLabels, labels)
		}
		res, err := c11CheckBatch(run, cases)
		if err != nil {
			run.Inconclusive("batch failed: %v", err)
			rt.Fatalf("harness: %v", err)
		}
		for i, c := range cases {
			src := c.source()
			run.Label(append(append([]string{"format:" + string(c.Format)}, c.Model.Features()...), focusLabels[i]...)...)
			for _, d := range c.Docs {
				key := uint64(0)
				if c01Nontrivial(d) {
					key = vlib.HashBytes([]byte(c.Format), []byte(src), []byte(d.JSON))
				}
				run.Eval(key, prefixAll("doc:", d.Features)...)
			}
			if i == 0 && len(src) < 2500 {
				run.Sample(map[string]any{"format": c.Format, "schema": src, "documents": firstDocs(c.Docs, 2)})
			}
		}
		for i := range cases {
			if vs := dedupeViolations(res[i]); len(vs) > 0 {
				vlib.Fail(rt, run.Judge(c11Batch{Cases: []schemaCase{cases[i]}}, vs))
			}
		}
	})
	e2Health(run)
}
