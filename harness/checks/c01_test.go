package checks

// C01 — documents the source schema accepts load into the generated Go types
// and round-trip. Translation validation by generated programs: for every
// generated (schema, document) the generated Go code itself is compiled and
// executed, and judged against the schema language's own reference validator.

import (
	"fmt"
	"strings"
	"testing"

	"github.com/grafana/cog/verifharness/e2"
	"github.com/grafana/cog/verifharness/smodel"
	"github.com/grafana/cog/verifharness/vlib"
	"pgregory.net/rapid"
)

type c01Batch struct {
	Cases []schemaCase `json:"cases"`
}

var c01Output = e2.OutputSpec{Types: true, Go: &e2.GoFlags{JSON: true, Strict: true}}

// c01CheckBatch returns the violations per case index; stats are recorded in run.
func c01CheckBatch(run *vlib.Run, cases []schemaCase) (map[int][]vlib.Violation, error) {
	out := map[int][]vlib.Violation{}
	work := workDir("c01")
	batch, err := e2.NewBatch(work + "/mod")
	if err != nil {
		return nil, err
	}
	defer batch.Close()
	defer removeAll(work)
	validators := make([]*smodel.Validator, len(cases))
	for i, c := range cases {
		id := fmt.Sprintf("c%02d", i)
		v, verr := smodel.NewValidator(c.Format, c.Model, c.source())
		if verr != nil {
			count(run, "generator_oracle_mismatch:rendering", 1)
			continue
		}
		validators[i] = v
		g := generateGo(work, id, c, c01Output)
		switch {
		case g.genPanic != "":
			count(run, "skipped_panics", 1)
			count(run, "skipped_panic:"+g.panicSig, 1)
			validators[i] = nil
		case g.genErr != nil:
			count(run, "rejected", 1)
			count(run, "rejected:"+string(c.Format), 1)
			note(run, "cog refused a %s schema: %v", c.Format, firstLine(g.genErr.Error()))
			validators[i] = nil
		default:
			if err := batch.Add(id, g.files); err != nil {
				return nil, err
			}
		}
	}
	if err := batch.Build(); err != nil {
		return nil, err
	}
	var reqs []e2.Request
	type ref struct{ caseIdx, docIdx int }
	var refs []ref
	for i, c := range cases {
		id := fmt.Sprintf("c%02d", i)
		if validators[i] == nil {
			continue
		}
		if errs := batch.CompileErrors[id]; len(errs) > 0 {
			count(run, "uncompilable", 1) // C02's matter: recorded, not double-reported
			note(run, "uncompilable %s package: %s", c.Format, errs[0])
			continue
		}
		count(run, "programs", 1)
		for j, d := range c.Docs {
			if err := validators[i].Validate(d.Def, d.JSON); err != nil {
				count(run, "generator_oracle_mismatch:document", 1)
				note(run, "reference validator rejects a by-construction valid %s document: %v", c.Format, firstLine(err.Error()))
				continue
			}
			goType, ok := goTypeFor(batch.Types[id], d.Def)
			if !ok && c.Format == smodel.JSONSchema {
				count(run, "jsonschema_definition_not_reachable_from_root", 1) // cog only declares what the root $ref reaches
				continue
			}
			if !ok {
				out[i] = append(out[i], vlib.V("no-go-type:"+string(c.Format), "definition %s has no generated Go type (types: %v)", d.Def, keysOf(batch.Types[id])))
				continue
			}
			reqs = append(reqs, e2.Request{ID: len(reqs), Key: id + "/" + goType, Op: "roundtrip", Doc: d.JSON})
			refs = append(refs, ref{i, j})
		}
	}
	if len(reqs) == 0 {
		return out, nil
	}
	resps, err := batch.Exec(reqs)
	if err != nil {
		return nil, err
	}
	for k, r := range resps {
		i, j := refs[k].caseIdx, refs[k].docIdx
		c, d := cases[i], cases[i].Docs[j]
		count(run, "documents", 1)
		count(run, "disagreements_checked", 1)
		f := string(c.Format)
		add := func(sig string, format string, args ...any) {
			out[i] = append(out[i], vlib.V(sig, "%s definition %s, document %s: "+format, append([]any{c.Format, d.Def, d.JSON}, args...)...))
		}
		if r.Panic != "" {
			add("decode-panic:"+f+nestedTag(c), "the generated code panicked: %s", r.Panic)
			continue
		}
		if r.StdErr != "" {
			add("std-decoder-rejects:"+f+":"+errClass(r.StdErr), "json.Unmarshal fails: %s", r.StdErr)
		}
		if !r.HasStrict {
			add("no-strict-decoder:"+f, "the generated type has no UnmarshalJSONStrict")
		} else if r.StrictErr != "" {
			add("strict-decoder-rejects:"+f+":"+errClass(r.StrictErr)+nestedTag(c), "UnmarshalJSONStrict fails: %s", r.StrictErr)
		}
		if r.StdErr != "" {
			continue
		}
		if r.EncodeErr != "" {
			add("encode-error:"+f, "json.Marshal of the decoded value fails: %s", r.EncodeErr)
			continue
		}
		diffs, cerr := smodel.CompareRoundTrip(c.Model, d.Def, d.JSON, r.Encoded)
		if cerr != nil {
			add("reencode-not-json:"+f, "%v", cerr)
			continue
		}
		seen := map[string]bool{}
		for _, df := range diffs {
			sig := fmt.Sprintf("roundtrip-differs:%s:%s:%s", f, df.Class, df.FieldKind)
			if seen[sig] {
				continue
			}
			seen[sig] = true
			add(sig, "re-encoding %s differs at %s: %s", r.Encoded, df.Path, df.Detail)
		}
		if r.HasStrict && r.StrictErr == "" && r.StrictEncoded != "" {
			// both decoders must yield the same value: the strict decoder's
			// re-encoding is compared with the standard decoder's
			sd, _ := smodel.CompareRoundTrip(c.Model, d.Def, r.Encoded, r.StrictEncoded)
			seenStrict := map[string]bool{}
			for _, df := range sd {
				// which lists / maps lose their emptiness depends on what they hold
				kind := df.FieldKind
				if df.ElemKind != "" && strings.Contains(df.Class, "empty-") {
					kind += "-of-" + df.ElemKind
				}
				sig := fmt.Sprintf("strict-roundtrip-differs:%s:%s:%s", f, df.Class, kind)
				if seenStrict[sig] {
					continue
				}
				seenStrict[sig] = true
				add(sig, "value decoded by the strict decoder re-encodes to %s, differs at %s: %s", r.StrictEncoded, df.Path, df.Detail)
			}
		}
		if len(diffs) == 0 {
			if verr := validators[i].Validate(d.Def, r.Encoded); verr != nil {
				add("reencoded-rejected-by-schema:"+f, "the re-encoded document %s is no longer accepted by the source schema: %s", r.Encoded, firstLine(verr.Error()))
			}
		}
	}
	return out, nil
}

// errClass normalises a decoder error message for signatures.
func errClass(msg string) string {
	msg = firstLine(msg)
	for _, marker := range []string{"cannot unmarshal", "unexpected end", "invalid character", "unknown field", "required", "unexpected fields", "null"} {
		if strings.Contains(msg, marker) {
			return strings.ReplaceAll(marker, " ", "-")
		}
	}
	return "other"
}

func c01Check(b c01Batch) []vlib.Violation {
	res, err := c01CheckBatch(nil, b.Cases)
	if err != nil {
		return []vlib.Violation{vlib.V("harness", "%v", err)}
	}
	var out []vlib.Violation
	for i := range b.Cases {
		out = append(out, res[i]...)
	}
	return out
}

func c01Nontrivial(d smodel.Doc) bool {
	for _, f := range d.Features {
		switch f {
		case "optional_present", "optional_absent", "explicit_null", "optional_explicit_null", "union_of_scalars", "union_of_structs", "ref_depth>=2", "array_of_objects", "map_of_objects", "int_at_boundary":
			return true
		}
	}
	return false
}

func TestC01(t *testing.T) {
	run := vlib.Begin(t, "C01")
	defer run.Finish(t)
	run.Describe(
		"Each rapid case is a batch of K schema models (K=8 quick, 16 thorough), each drawn in the sub-grammar of one input format (jsonschema / openapi / cue, drawn per model) in dense mode (the entry struct carries one field per construct class: scalars of every width the format expresses, bounded numbers and strings, string/int enums named and anonymous, constants, arrays/maps of scalars, structs and references, nested arrays, recursive references, unions of scalars, discriminated unions of structs also inside arrays, nested anonymous structs, date-time, any, nullable scalars and references, defaults), rendered to source text, run through cog's pipeline (Go, json marshaller + strict unmarshaller), compiled with `go build` and executed through a reflective driver on 3 valid-by-construction documents per struct definition. Oracle: the reference validator accepts the document (precondition) => json.Unmarshal and UnmarshalJSONStrict succeed, the re-encoding is JSON-equal (exact rationals; an optional property given as explicit null may be omitted) and is still accepted by the reference validator. Non-trivial document: exercises optional present/absent, explicit null, a union, a reference at depth >= 2, an array/map of objects or an integer at a width/bound boundary; distinct by (format, schema source, document).",
		"documents use canonical number and RFC 3339 spellings; float32 fields receive float32-exact values; integers stay within +-2^53",
		"names never collide after identifier mangling",
		"an error returned by cog at generation time is an acceptable outcome (counted as rejected; above 20% the run is inconclusive)",
		"a generated package that does not type-check is C02's matter: recorded as uncompilable, not reported here",
		"documents the reference validator rejects (harness defects) are discarded and counted; above 1% the run is inconclusive",
	)
	if vlib.RunReplay(t, run, c01Check) {
		return
	}
	k := 8
	if vlib.Thorough() {
		k = 16
	}
	rapid.Check(t, func(rt *rapid.T) {
		var cases []schemaCase
		n := rapid.IntRange(1, k).Draw(rt, "ncases")
		if n < k && rapid.IntRange(0, 9).Draw(rt, "full") != 0 {
			n = k
		}
		for i := 0; i < n; i++ {
			f := rapid.SampledFrom(smodel.Formats).Draw(rt, "format")
			cfg := smodel.DefaultGenConfig(f)
			cfg.TypeLists = true
			cases = append(cases, drawSchemaCase(rt, cfg, 3))
		}
		res, err := c01CheckBatch(run, cases)
		if err != nil {
			run.Inconclusive("batch failed: %v", err)
			rt.Fatalf("harness: %v", err)
		}
		for i, c := range cases {
			labels := []string{"format:" + string(c.Format)}
			labels = append(labels, c.Model.Features()...)
			src := c.source()
			first := true
			for _, d := range c.Docs {
				key := uint64(0)
				if c01Nontrivial(d) {
					key = vlib.HashBytes([]byte(c.Format), []byte(src), []byte(d.JSON))
				}
				if first {
					run.Eval(key, labels...)
					first = false
				} else {
					run.Eval(key)
				}
				run.Label(prefixAll("doc:", d.Features)...)
			}
			if i == 0 && len(src) < 2500 {
				run.Sample(map[string]any{"format": c.Format, "schema": src, "documents": firstDocs(c.Docs, 2)})
			}
		}
		for i := range cases {
			if vs := res[i]; len(vs) > 0 {
				vlib.Fail(rt, run.Judge(c01Batch{Cases: []schemaCase{cases[i]}}, vs))
			}
		}
	})
	e2Health(run)
}
