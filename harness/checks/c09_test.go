package checks

// C09 — a builder option sets exactly its target; invalid input is reported,
// valid input never.

import (
	"encoding/json"
	"fmt"
	"sort"
	"strings"
	"testing"

	"github.com/grafana/cog/verifharness/e2"
	"github.com/grafana/cog/verifharness/smodel"
	"github.com/grafana/cog/verifharness/vlib"
	"pgregory.net/rapid"
)

// c09Program is one builder program and what is expected of it.
type c09Program struct {
	Def string `json:"def"`
	// Calls: field name + argument, in order
	Calls []c09Call `json:"calls"`
	// Invalid: a call carries a constraint-violating argument (itself or in a
	// nested builder): the program must be reported
	Invalid string `json:"invalid,omitempty"`
	// Kind: single | sequence | nested | nested-list | nested-map | violation | nested-violation
	Kind string `json:"kind"`
}

type c09Call struct {
	Field string `json:"field"`
	// Option: name of the option called, when it is not the field's own (a
	// copy made by a veneer)
	Option string `json:"option,omitempty"`
	// Value: JSON of the argument; for nested builders the product expected
	Value json.RawMessage `json:"value,omitempty"`
	// Nested programs (one for a reference, several for an array / a map)
	Nested     []c09Program `json:"nested,omitempty"`
	NestedKeys []string     `json:"nested_keys,omitempty"`
	Shape      string       `json:"shape,omitempty"` // "" | ref | array | map
	// Path: for an option merged into this builder from the builder of a nested
	// object (merge_into veneer): the fields leading to that object, and the
	// definitions they refer to
	Path     []string `json:"path,omitempty"`
	PathDefs []string `json:"path_defs,omitempty"`
}

// c09Merge is one merge_into veneer (with, possibly, an initialize veneer
// writing a constant below the same path from the constructor).
type c09Merge struct {
	Dest     string   `json:"dest"`
	Source   string   `json:"source"`
	Path     []string `json:"path"`
	PathDefs []string `json:"path_defs"`
	// InitField / InitValue: the constructor of Dest sets Path.InitField
	InitField string          `json:"init_field,omitempty"`
	InitValue json.RawMessage `json:"init_value,omitempty"`
}

func (mg c09Merge) optionName(field string) string {
	name := field + "Via"
	for _, p := range mg.Path {
		name += strings.ToUpper(p[:1]) + p[1:]
	}
	return name
}

type c09Case struct {
	Schema   schemaCase   `json:"schema"`
	Programs []c09Program `json:"programs"`
	Merges   []c09Merge   `json:"merges,omitempty"`
}

type c09Batch struct {
	Cases []c09Case `json:"cases"`
}

var c09Output = e2.OutputSpec{Types: true, Builders: true, Go: &e2.GoFlags{JSON: true}, Python: &e2.PyFlags{JSON: true}}

// c09Supported tells how a field's option can be driven.
func c09Supported(m *smodel.Model, f smodel.Field) (shape string, target string, ok bool) {
	return c09SupportedIn(m, f, map[string]bool{})
}

func c09SupportedIn(m *smodel.Model, f smodel.Field, visiting map[string]bool) (shape string, target string, ok bool) {
	t := f.Type
	if t.Const != nil {
		return "", "", false
	}
	// a single-member enum is a constant for CUE (and gets no option)
	if rt := m.Resolve(t); rt.Kind == smodel.KEnum && len(rt.Members) < 2 {
		return "", "", false
	}
	structWithBuilder := func(x smodel.T) (string, bool) {
		if x.Kind != smodel.KRef || x.Nullable {
			return "", false
		}
		d := m.Def(x.Ref)
		if d == nil || d.Type.Kind != smodel.KStruct {
			return "", false
		}
		// the nested object must be completable, or its builder fails
		if !c09Completable(m, x.Ref, visiting) {
			return "", false
		}
		return x.Ref, true
	}
	scalarLike := func(x smodel.T) bool {
		switch x.Kind {
		case smodel.KBool, smodel.KString, smodel.KInt, smodel.KFloat, smodel.KDateTime, smodel.KEnum:
			return x.Const == nil
		case smodel.KRef:
			d := m.Def(x.Ref)
			return d != nil && d.Type.Kind == smodel.KEnum
		}
		return false
	}
	switch {
	case scalarLike(t):
		return "", "", true
	case t.Kind == smodel.KArray && scalarLike(*t.Elem) && !t.Elem.Nullable:
		return "", "", true
	case t.Kind == smodel.KMap && scalarLike(*t.Elem) && !t.Elem.Nullable:
		return "", "", true
	case (t.Kind == smodel.KArray || t.Kind == smodel.KMap) && (t.Elem.Kind == smodel.KArray || t.Elem.Kind == smodel.KMap) && !t.Elem.Nullable && scalarLike(*t.Elem.Elem) && !t.Elem.Elem.Nullable:
		return "", "", true // a collection of collections of scalars is a plain value
	case t.Kind == smodel.KRef:
		if name, ok := structWithBuilder(t); ok {
			return "ref", name, true
		}
	case t.Kind == smodel.KArray:
		if name, ok := structWithBuilder(*t.Elem); ok {
			return "array", name, true
		}
	case t.Kind == smodel.KMap:
		if name, ok := structWithBuilder(*t.Elem); ok {
			return "map", name, true
		}
	}
	return "", "", false
}

func rawOf(v any) json.RawMessage {
	b, _ := json.Marshal(v)
	return b
}

// c09Baseline sets every required field that has an option to a valid value,
// so that Build() has no reason to fail.
func c09Baseline(rt *rapid.T, m *smodel.Model, def string, depth int) []c09Call {
	d := m.Def(def)
	var calls []c09Call
	for _, f := range d.Type.Fields {
		if !f.Required {
			continue
		}
		if call, ok := c09ValidCall(rt, m, f, depth); ok {
			calls = append(calls, call)
		}
	}
	return calls
}

// c09ValidCall draws a valid argument for the option of field f.
func c09ValidCall(rt *rapid.T, m *smodel.Model, f smodel.Field, depth int) (c09Call, bool) {
	shape, target, ok := c09Supported(m, f)
	if !ok {
		return c09Call{}, false
	}
	nonNull := f.Type
	nonNull.Nullable = false
	switch shape {
	case "":
		v := smodel.DrawValue(rt, m, nonNull)
		// empty collections are where Go's omitempty hides the value (listed
		// under C01): keep them out of this check
		if l, isList := v.([]any); isList && len(l) == 0 {
			v = []any{smodel.DrawValue(rt, m, *nonNull.Elem)}
		}
		if mm, isMap := v.(map[string]any); isMap && len(mm) == 0 {
			v = map[string]any{"k": smodel.DrawValue(rt, m, *nonNull.Elem)}
		}
		return c09Call{Field: f.Name, Value: rawOf(v)}, true
	case "ref":
		// a required reference is always followed (the models only recurse
		// through optional fields, arrays and maps): leaving it out would make
		// the nested object invalid
		if depth > 1 && !f.Required {
			return c09Call{}, false
		}
		return c09Call{Field: f.Name, Shape: "ref", Nested: []c09Program{{Def: target, Calls: c09NestedCalls(rt, m, target, depth+1)}}}, true
	case "array":
		if depth > 1 {
			return c09Call{}, false
		}
		n := rapid.IntRange(1, 2).Draw(rt, "nestedlen")
		call := c09Call{Field: f.Name, Shape: "array"}
		for i := 0; i < n; i++ {
			call.Nested = append(call.Nested, c09Program{Def: target, Calls: c09NestedCalls(rt, m, target, depth+1)})
		}
		return call, true
	case "map":
		if depth > 1 {
			return c09Call{}, false
		}
		call := c09Call{Field: f.Name, Shape: "map", NestedKeys: []string{"first", "other key"}}
		for range call.NestedKeys {
			call.Nested = append(call.Nested, c09Program{Def: target, Calls: c09NestedCalls(rt, m, target, depth+1)})
		}
		return call, true
	}
	return c09Call{}, false
}

// c09NestedCalls: the baseline of the nested object plus some optional fields.
func c09NestedCalls(rt *rapid.T, m *smodel.Model, def string, depth int) []c09Call {
	calls := c09Baseline(rt, m, def, depth)
	for _, f := range m.Def(def).Type.Fields {
		if f.Required || rapid.IntRange(0, 2).Draw(rt, "nestedoptional") != 0 {
			continue
		}
		if call, ok := c09ValidCall(rt, m, f, depth); ok {
			calls = append(calls, call)
		}
	}
	return calls
}

// c09Wrap builds a container of the same shape as the type with one element.
func c09Wrap(t smodel.T, inner any) any {
	if t.Kind == smodel.KMap {
		return map[string]any{"k": inner}
	}
	return []any{inner}
}

// drawC09Veneers copies one constrained option per struct definition and
// renames the argument of the copy; and merges the builder of a nested object
// (one or two references away) into the builder of its parent, possibly with a
// constant written below the same path by the parent's constructor.
func drawC09Veneers(rt *rapid.T, sc schemaCase) ([]string, map[string]string, []c09Merge) {
	m := sc.Model
	copies := map[string]string{}         // "Def.field" -> name of the copy
	optionRules := map[string][]string{}  // per package
	builderRules := map[string][]string{} // per package
	var merges []c09Merge
	for _, d := range m.Defs {
		if d.Type.Kind != smodel.KStruct {
			continue
		}
		for _, f := range d.Type.Fields {
			if _, _, ok := c09Supported(m, f); !ok || len(smodel.Violations(m.Resolve(f.Type))) == 0 {
				continue
			}
			if rapid.Bool().Draw(rt, "copyoption") {
				copies[d.Name+"."+f.Name] = f.Name + "Copy"
				pkg := sc.pkgOf(d.Name)
				optionRules[pkg] = append(optionRules[pkg], fmt.Sprintf("  - duplicate: {by_name: %s.%s, as: %sCopy}\n  - rename_arguments: {by_name: %s.%sCopy, as: [renamedArg]}\n", d.Name, f.Name, f.Name, d.Name, f.Name))
				break
			}
		}
	}
	// merges: Dest.f -> E (depth 1), Dest.f -> E.g -> F (depth 2)
	for _, d := range m.Defs {
		if d.Type.Kind != smodel.KStruct {
			continue
		}
		var candidates []c09Merge
		for _, f := range d.Type.Fields {
			shape, e, ok := c09Supported(m, f)
			if !ok || shape != "ref" || e == d.Name {
				continue
			}
			candidates = append(candidates, c09Merge{Dest: d.Name, Source: e, Path: []string{f.Name}, PathDefs: []string{e}})
			for _, g := range m.Def(e).Type.Fields {
				shape2, target2, ok2 := c09Supported(m, g)
				if !ok2 || shape2 != "ref" || target2 == d.Name || target2 == e {
					continue
				}
				candidates = append(candidates, c09Merge{Dest: d.Name, Source: target2, Path: []string{f.Name, g.Name}, PathDefs: []string{e, target2}})
			}
		}
		var usable []c09Merge
		for _, c := range candidates {
			// merge_into looks the source builder up in the destination's package
			if sc.pkgOf(c.Source) == sc.pkgOf(c.Dest) {
				usable = append(usable, c)
			}
		}
		if len(usable) == 0 || rapid.IntRange(0, 3).Draw(rt, "merge") == 0 {
			continue
		}
		// deeper paths first: they are rarer
		mg := usable[len(usable)-1]
		if rapid.Bool().Draw(rt, "mergepick") {
			mg = rapid.SampledFrom(usable).Draw(rt, "mergewhich")
		}
		src := m.Def(mg.Source)
		// a constructor that writes below the path (an initialize veneer, or the
		// constants of the source object, which merge_into copies) creates the
		// objects on the way with their types' defaults; if those are not valid
		// as they stand (a required bounded field), no program that leaves them
		// alone can be built: such veneers would make every other program of the
		// destination "refused" for a reason that is the veneer author's
		zeroValid := true
		for _, def := range mg.PathDefs {
			zeroValid = zeroValid && c09ZeroValid(m, def, map[string]bool{})
		}
		sourceHasConst := false
		for _, sf := range src.Type.Fields {
			if sf.Type.Const != nil || (m.Resolve(sf.Type).Kind == smodel.KEnum && len(m.Resolve(sf.Type).Members) < 2) {
				sourceHasConst = true
			}
		}
		if sourceHasConst && !zeroValid {
			continue
		}
		var renames []string
		for _, sf := range src.Type.Fields {
			renames = append(renames, fmt.Sprintf("%s: %s", sf.Name, mg.optionName(sf.Name)))
		}
		pkg := sc.pkgOf(d.Name)
		rule := fmt.Sprintf("  - merge_into: {destination: %s, source: %s, under_path: %s, rename_options: {%s}}\n", mg.Dest, mg.Source, strings.Join(mg.Path, "."), strings.Join(renames, ", "))
		// a constant written by the constructor below the same path
		if zeroValid && rapid.IntRange(0, 2).Draw(rt, "initialize") != 0 {
			for _, sf := range src.Type.Fields {
				k := sf.Type.Kind
				if sf.Type.Const != nil || sf.Type.Nullable || (k != smodel.KBool && k != smodel.KString && k != smodel.KInt && k != smodel.KFloat) {
					continue
				}
				v := smodel.DrawValue(rt, m, sf.Type)
				mg.InitField, mg.InitValue = sf.Name, rawOf(v)
				rule += fmt.Sprintf("  - initialize: {by_object: %s, set: [{property: %s.%s, value: %s}]}\n", mg.Dest, strings.Join(mg.Path, "."), sf.Name, string(mg.InitValue))
				break
			}
		}
		builderRules[pkg] = append(builderRules[pkg], rule)
		merges = append(merges, mg)
	}
	var files []string
	pkgSet := map[string]bool{}
	for pkg := range optionRules {
		pkgSet[pkg] = true
	}
	for pkg := range builderRules {
		pkgSet[pkg] = true
	}
	var pkgs []string
	for pkg := range pkgSet {
		pkgs = append(pkgs, pkg)
	}
	sort.Strings(pkgs)
	for _, pkg := range pkgs {
		file := fmt.Sprintf("language: all\npackage: %s\n", pkg)
		if len(builderRules[pkg]) > 0 {
			file += "builders:\n" + strings.Join(builderRules[pkg], "")
		}
		if len(optionRules[pkg]) > 0 {
			file += "options:\n" + strings.Join(optionRules[pkg], "")
		}
		files = append(files, file)
	}
	return files, copies, merges
}

// c09ZeroValid: the object the type's constructor makes is valid as it stands:
// no required field is bounded, and required references lead to such objects.
func c09ZeroValid(m *smodel.Model, def string, visiting map[string]bool) bool {
	if visiting[def] {
		return true
	}
	visiting[def] = true
	defer delete(visiting, def)
	d := m.Def(def)
	if d == nil || d.Type.Kind != smodel.KStruct {
		return false
	}
	for _, f := range d.Type.Fields {
		if !f.Required || f.Type.Const != nil {
			continue
		}
		rt := m.Resolve(f.Type)
		switch rt.Kind {
		case smodel.KBool, smodel.KString, smodel.KInt, smodel.KFloat, smodel.KEnum, smodel.KDateTime:
			if len(smodel.Violations(rt)) > 0 {
				return false
			}
		case smodel.KStruct:
			if f.Type.Kind != smodel.KRef || !c09ZeroValid(m, f.Type.Ref, visiting) {
				return false
			}
		default:
			return false
		}
	}
	return true
}

// c09MergedCalls: calls of the options merged into the destination builder that
// give every required field of the source object a valid value.
func c09MergedCalls(rt *rapid.T, m *smodel.Model, mg c09Merge, calls []c09Call) []c09Call {
	var out []c09Call
	for _, c := range calls {
		c.Option = mg.optionName(c.Field)
		c.Path, c.PathDefs = mg.Path, mg.PathDefs
		out = append(out, c)
	}
	return out
}

// c09MergePrograms: programs driving the options a merge_into veneer added.
func c09MergePrograms(rt *rapid.T, m *smodel.Model, mg c09Merge, base []c09Call) []c09Program {
	var out []c09Program
	src := m.Def(mg.Source)
	var first *smodel.Field
	for i, f := range m.Def(mg.Dest).Type.Fields {
		if f.Name == mg.Path[0] {
			first = &m.Def(mg.Dest).Type.Fields[i]
		}
	}
	if first == nil {
		return nil
	}
	hasRequired := func(def string) bool {
		for _, f := range m.Def(def).Type.Fields {
			if f.Required && f.Type.Const == nil {
				return true
			}
		}
		return false
	}
	// prefix: what must come before a merged option so that the object can be
	// built: the objects on the way (all but the last) need their own required
	// fields, which only the plain option of the first field can provide
	prefix := func(force bool) ([]c09Call, bool) {
		calls := append([]c09Call{}, base...)
		replaced := false
		needs := false
		for _, def := range mg.PathDefs[:len(mg.PathDefs)-1] {
			needs = needs || hasRequired(def)
		}
		if needs || force {
			if call, ok := c09ValidCall(rt, m, *first, 0); ok {
				calls = append(calls, call)
				replaced = true
			} else if needs {
				return nil, false
			}
		}
		return append(calls, c09MergedCalls(rt, m, mg, c09Baseline(rt, m, mg.Source, 1))...), replaced
	}
	for _, sf := range src.Type.Fields {
		if _, _, ok := c09Supported(m, sf); !ok {
			continue
		}
		call, ok := c09ValidCall(rt, m, sf, 1)
		if !ok {
			continue
		}
		merged := c09MergedCalls(rt, m, mg, []c09Call{call})[0]
		for _, force := range []bool{false, true} {
			calls, replaced := prefix(force)
			if calls == nil || (force && !replaced) {
				continue
			}
			kind := "merged-option"
			if replaced {
				kind = "merged-option-after-replaced-ancestor"
			}
			out = append(out, c09Program{Def: mg.Dest, Calls: append(calls, merged), Kind: kind})
		}
		// the ancestor replaced after the merged option: the last write wins
		if calls, _ := prefix(false); calls != nil {
			if repl, ok := c09ValidCall(rt, m, *first, 0); ok {
				out = append(out, c09Program{Def: mg.Dest, Calls: append(append(calls, merged), repl), Kind: "ancestor-replaced-after-merged-option"})
			}
		}
		for bound, bad := range smodel.Violations(m.Resolve(sf.Type)) {
			if calls, _ := prefix(false); calls != nil {
				v := c09Call{Field: sf.Name, Option: mg.optionName(sf.Name), Value: rawOf(bad), Path: mg.Path, PathDefs: mg.PathDefs}
				out = append(out, c09Program{Def: mg.Dest, Calls: append(calls, v), Kind: "violation", Invalid: strings.Join(mg.Path, ".") + "." + sf.Name + "(merged):" + bound})
			}
		}
	}
	return out
}

// drawC09Programs draws the programs of one schema.
func drawC09Programs(rt *rapid.T, m *smodel.Model, copies map[string]string, merges []c09Merge) []c09Program {
	var out []c09Program
	for _, d := range m.Defs {
		if d.Type.Kind != smodel.KStruct {
			continue
		}
		base := c09Baseline(rt, m, d.Name, 0)
		out = append(out, c09Program{Def: d.Name, Calls: base, Kind: "baseline"})
		var driven []smodel.Field
		for _, f := range d.Type.Fields {
			if _, _, ok := c09Supported(m, f); ok {
				driven = append(driven, f)
			}
		}
		for _, f := range driven {
			call, ok := c09ValidCall(rt, m, f, 0)
			if !ok {
				continue
			}
			kind := "single"
			if call.Shape != "" {
				kind = "nested-" + call.Shape
			}
			out = append(out, c09Program{Def: d.Name, Calls: append(append([]c09Call{}, base...), call), Kind: kind})
			// constraint violations, directly
			nonNull := m.Resolve(f.Type)
			for bound, bad := range smodel.Violations(nonNull) {
				out = append(out, c09Program{Def: d.Name, Calls: append(append([]c09Call{}, base...), c09Call{Field: f.Name, Value: rawOf(bad)}), Kind: "violation", Invalid: f.Name + ":" + bound})
			}
			// the copy of the option made by a veneer behaves like the original
			if copyName, ok := copies[d.Name+"."+f.Name]; ok {
				cp := call
				cp.Option = copyName
				out = append(out, c09Program{Def: d.Name, Calls: append(append([]c09Call{}, base...), cp), Kind: "copied-option"})
				for bound, bad := range smodel.Violations(nonNull) {
					out = append(out, c09Program{Def: d.Name, Calls: append(append([]c09Call{}, base...), c09Call{Field: f.Name, Option: copyName, Value: rawOf(bad)}), Kind: "violation", Invalid: f.Name + "(copy):" + bound})
				}
			}
			// violations inside collections: one element, off the diagonal of a
			// collection of collections
			if (nonNull.Kind == smodel.KArray || nonNull.Kind == smodel.KMap) && call.Shape == "" {
				inner := m.Resolve(*nonNull.Elem)
				if inner.Kind == smodel.KArray || inner.Kind == smodel.KMap {
					leaf := m.Resolve(*inner.Elem)
					for bound, bad := range smodel.Violations(leaf) {
						good := smodel.DrawValue(rt, m, leaf)
						var value any
						if inner.Kind == smodel.KArray && nonNull.Kind == smodel.KArray {
							value = []any{[]any{good, bad}, []any{good, good}} // [0][1]
						} else {
							value = c09Wrap(nonNull, c09Wrap(inner, bad))
						}
						out = append(out, c09Program{Def: d.Name, Calls: append(append([]c09Call{}, base...), c09Call{Field: f.Name, Value: rawOf(value)}), Kind: "violation-in-collection", Invalid: f.Name + "[][]:" + bound})
					}
				} else {
					for bound, bad := range smodel.Violations(inner) {
						out = append(out, c09Program{Def: d.Name, Calls: append(append([]c09Call{}, base...), c09Call{Field: f.Name, Value: rawOf(c09Wrap(nonNull, bad))}), Kind: "violation-in-collection", Invalid: f.Name + "[]:" + bound})
					}
				}
			}
			// ... and inside a nested builder
			if call.Shape != "" {
				target := call.Nested[0].Def
				for _, nf := range m.Def(target).Type.Fields {
					if _, _, ok := c09Supported(m, nf); !ok {
						continue
					}
					for bound, bad := range smodel.Violations(m.Resolve(nf.Type)) {
						broken := call
						broken.Nested = append([]c09Program{}, call.Nested...)
						last := broken.Nested[len(broken.Nested)-1]
						last.Calls = append(append([]c09Call{}, last.Calls...), c09Call{Field: nf.Name, Value: rawOf(bad)})
						broken.Nested[len(broken.Nested)-1] = last
						out = append(out, c09Program{Def: d.Name, Calls: append(append([]c09Call{}, base...), broken), Kind: "nested-violation", Invalid: f.Name + "." + nf.Name + ":" + bound})
						break
					}
				}
			}
		}
		for _, mg := range merges {
			if mg.Dest == d.Name {
				out = append(out, c09MergePrograms(rt, m, mg, base)...)
			}
		}
		// sequences: 2-3 options, possibly the same twice
		if len(driven) > 0 {
			n := rapid.IntRange(2, 3).Draw(rt, "seqlen")
			calls := append([]c09Call{}, base...)
			for i := 0; i < n; i++ {
				f := rapid.SampledFrom(driven).Draw(rt, "seqfield")
				if call, ok := c09ValidCall(rt, m, f, 0); ok {
					calls = append(calls, call)
				}
			}
			out = append(out, c09Program{Def: d.Name, Calls: calls, Kind: "sequence"})
		}
	}
	return out
}

// c09Expected computes the document a valid program must build: the object
// built by an empty program with each call's value written at its field, in
// order. The target of a merged option lies below a path: the objects missing
// on the way are the ones the types' constructors make (ctor).
func c09Expected(empty, ctor map[string]map[string]any, p c09Program) map[string]any {
	obj := deepCopyAny(empty[p.Def]).(map[string]any)
	for _, c := range p.Calls {
		target := obj
		for i, step := range c.Path {
			next, isObj := target[step].(map[string]any)
			if !isObj {
				made, _ := deepCopyAny(ctor[c.PathDefs[i]]).(map[string]any)
				if made == nil {
					made = map[string]any{}
				}
				next = made
				target[step] = next
			}
			target = next
		}
		switch c.Shape {
		case "":
			v, _ := smodel.ParseJSON(string(c.Value))
			target[c.Field] = v
		case "ref":
			target[c.Field] = c09Expected(empty, ctor, c.Nested[0])
		case "array":
			var list []any
			for _, n := range c.Nested {
				list = append(list, c09Expected(empty, ctor, n))
			}
			target[c.Field] = list
		case "map":
			mm := map[string]any{}
			for i, n := range c.Nested {
				mm[c.NestedKeys[i]] = c09Expected(empty, ctor, n)
			}
			target[c.Field] = mm
		}
	}
	return obj
}

// c09UsesPaths: some call of the program goes through a path.
func c09UsesPaths(p c09Program) (defs []string) {
	for _, c := range p.Calls {
		defs = append(defs, c.PathDefs...)
	}
	return defs
}

func deepCopyAny(v any) any {
	switch x := v.(type) {
	case map[string]any:
		out := make(map[string]any, len(x))
		for k, e := range x {
			out[k] = deepCopyAny(e)
		}
		return out
	case []any:
		out := make([]any, len(x))
		for i, e := range x {
			out[i] = deepCopyAny(e)
		}
		return out
	}
	return v
}

func (p c09Program) build(caseID string, goStyle bool) e2.BuildProgram {
	name := p.Def
	if goStyle {
		name = caseID + "/" + p.Def + "Builder"
	}
	bp := e2.BuildProgram{Builder: name}
	for _, c := range p.Calls {
		call := e2.BuildCall{Option: c.Field}
		if c.Option != "" {
			call.Option = c.Option
		}
		switch c.Shape {
		case "":
			call.Args = []e2.BuildArg{{JSON: string(c.Value)}}
		case "ref":
			n := c.Nested[0].build(caseID, goStyle)
			call.Args = []e2.BuildArg{{Builder: &n}}
		case "array":
			var list []e2.BuildProgram
			for _, n := range c.Nested {
				list = append(list, n.build(caseID, goStyle))
			}
			call.Args = []e2.BuildArg{{Builders: list}}
		case "map":
			mm := map[string]e2.BuildProgram{}
			for i, n := range c.Nested {
				mm[c.NestedKeys[i]] = n.build(caseID, goStyle)
			}
			call.Args = []e2.BuildArg{{BuilderMap: mm}}
		}
		bp.Calls = append(bp.Calls, call)
	}
	return bp
}

func c09CheckBatch(run *vlib.Run, cases []c09Case) (map[int][]vlib.Violation, error) {
	out := map[int][]vlib.Violation{}
	var schemas []schemaCase
	for _, c := range cases {
		schemas = append(schemas, c.Schema)
	}
	p, err := e2Prepare(run, "c09", schemas, c09Output)
	if err != nil {
		return nil, err
	}
	defer p.Close()
	type ref struct {
		caseIdx, progIdx int
		empty            bool
		def              string
	}
	var goReqs []e2.Request
	var pyReqs []e2.PyRequest
	var refs []ref
	for i, c := range cases {
		if !p.usable[i] {
			continue
		}
		id := p.ids[i]
		defs := map[string]bool{}
		for _, prog := range c.Programs {
			defs[prog.Def] = true
		}
		add := func(prog c09Program, r ref) {
			g := prog.build(id, true)
			py := prog.build(id, false)
			goReqs = append(goReqs, e2.Request{ID: len(goReqs), Op: "build", Build: &g})
			pyReqs = append(pyReqs, e2.PyRequest{ID: len(pyReqs), Op: "build", Module: id + ".builders." + pyModuleName(c.Schema.pkgOf(prog.Def)), Encoder: id + ".cog.encoder", Build: &py})
			refs = append(refs, r)
		}
		// what an empty program builds, for every struct definition (nested ones too)
		for _, d := range c.Schema.Model.Defs {
			if d.Type.Kind == smodel.KStruct {
				add(c09Program{Def: d.Name}, ref{caseIdx: i, empty: true, def: d.Name})
			}
		}
		for j, prog := range c.Programs {
			add(prog, ref{caseIdx: i, progIdx: j})
		}
	}
	if len(refs) == 0 {
		return out, nil
	}
	goResps, err := p.batch.Exec(goReqs)
	if err != nil {
		return nil, err
	}
	pyResps, err := p.py.Exec(pyReqs)
	if err != nil {
		return nil, err
	}
	// pass 1: the objects built by empty programs (Go: Build() may refuse an
	// object whose required constrained fields are unset; then the constructor
	// JSON is not observable through the builder: fall back to NewX())
	emptyGo, emptyPy := map[int]map[string]map[string]any{}, map[int]map[string]map[string]any{}
	emptyGoFromCtor := map[int]map[string]bool{}
	var ctorReqs []e2.Request
	type ctorRef struct {
		caseIdx int
		def     string
	}
	var ctorRefs []ctorRef
	for k, r := range refs {
		if !r.empty {
			continue
		}
		if emptyGo[r.caseIdx] == nil {
			emptyGo[r.caseIdx], emptyPy[r.caseIdx] = map[string]map[string]any{}, map[string]map[string]any{}
		}
		if goResps[k].Encoded != "" {
			v, _ := smodel.ParseJSON(goResps[k].Encoded)
			emptyGo[r.caseIdx][r.def], _ = v.(map[string]any)
		} else if goResps[k].Held != "" {
			// Build() refuses the object (required constrained fields unset):
			// the driver reads it out of the builder
			v, _ := smodel.ParseJSON(goResps[k].Held)
			emptyGo[r.caseIdx][r.def], _ = v.(map[string]any)
		} else if key, ok := p.goKey(r.caseIdx, r.def); ok {
			ctorReqs = append(ctorReqs, e2.Request{ID: len(ctorReqs), Key: key, Op: "default"})
			ctorRefs = append(ctorRefs, ctorRef{r.caseIdx, r.def})
		}
		if pyResps[k].Encoded != "" {
			v, _ := smodel.ParseJSON(pyResps[k].Encoded)
			emptyPy[r.caseIdx][r.def], _ = v.(map[string]any)
		}
	}
	if len(ctorReqs) > 0 {
		resps, err := p.batch.Exec(ctorReqs)
		if err != nil {
			return nil, err
		}
		for k, r := range resps {
			if r.Encoded != "" {
				v, _ := smodel.ParseJSON(r.Encoded)
				emptyGo[ctorRefs[k].caseIdx][ctorRefs[k].def], _ = v.(map[string]any)
				if emptyGoFromCtor[ctorRefs[k].caseIdx] == nil {
					emptyGoFromCtor[ctorRefs[k].caseIdx] = map[string]bool{}
				}
				emptyGoFromCtor[ctorRefs[k].caseIdx][ctorRefs[k].def] = true
			}
		}
	}
	// what the types' constructors make, for the definitions merged options go
	// through (NewX() / X())
	ctorGo, ctorPy := map[int]map[string]map[string]any{}, map[int]map[string]map[string]any{}
	{
		var gReqs []e2.Request
		var pReqs []e2.PyRequest
		var gRefs, pRefs []ctorRef
		for i, c := range cases {
			if !p.usable[i] {
				continue
			}
			ctorGo[i], ctorPy[i] = map[string]map[string]any{}, map[string]map[string]any{}
			seen := map[string]bool{}
			for _, mg := range c.Merges {
				for _, def := range mg.PathDefs {
					if seen[def] {
						continue
					}
					seen[def] = true
					if key, ok := p.goKey(i, def); ok {
						gReqs = append(gReqs, e2.Request{ID: len(gReqs), Key: key, Op: "default"})
						gRefs = append(gRefs, ctorRef{i, def})
					}
					pReqs = append(pReqs, e2.PyRequest{ID: len(pReqs), Op: "default", Module: p.ids[i] + ".models." + pyModuleName(c.Schema.pkgOf(def)), Encoder: p.ids[i] + ".cog.encoder", Class: def})
					pRefs = append(pRefs, ctorRef{i, def})
				}
			}
		}
		if len(gReqs) > 0 {
			resps, err := p.batch.Exec(gReqs)
			if err != nil {
				return nil, err
			}
			for k, r := range resps {
				if r.Encoded != "" {
					v, _ := smodel.ParseJSON(r.Encoded)
					ctorGo[gRefs[k].caseIdx][gRefs[k].def], _ = v.(map[string]any)
				}
			}
		}
		if len(pReqs) > 0 {
			resps, err := p.py.Exec(pReqs)
			if err != nil {
				return nil, err
			}
			for k, r := range resps {
				if r.Encoded != "" {
					v, _ := smodel.ParseJSON(r.Encoded)
					ctorPy[pRefs[k].caseIdx][pRefs[k].def], _ = v.(map[string]any)
				}
			}
		}
	}
	// the constants an initialize veneer writes are in the object an empty
	// program builds
	for i, c := range cases {
		if !p.usable[i] {
			continue
		}
		for _, mg := range c.Merges {
			if mg.InitField == "" {
				continue
			}
			want, _ := smodel.ParseJSON(string(mg.InitValue))
			for lang, empties := range map[string]map[string]map[string]any{"go": emptyGo[i], "python": emptyPy[i]} {
				obj := empties[mg.Dest]
				if obj == nil || (lang == "go" && emptyGoFromCtor[i][mg.Dest]) {
					continue
				}
				var at any = obj
				for _, step := range append(append([]string{}, mg.Path...), mg.InitField) {
					mm, _ := at.(map[string]any)
					at = mm[step]
				}
				count(run, "initialize_checked:"+lang, 1)
				if _, same := smodel.JSONEqual(want, at); !same {
					out[i] = append(out[i], vlib.V(fmt.Sprintf("initialize-not-applied:%s:%s", lang, c.Schema.Format), "%s schema, builder of %s: the constructor was told to set %s.%s = %s, an empty program builds %s", c.Schema.Format, mg.Dest, strings.Join(mg.Path, "."), mg.InitField, mg.InitValue, short200(string(rawOf(obj)))))
				}
			}
		}
	}
	// pass 2: the programs
	for k, r := range refs {
		if r.empty {
			continue
		}
		i := r.caseIdx
		c := cases[i]
		prog := c.Programs[r.progIdx]
		f := string(c.Schema.Format)
		tag := nestedTag(c.Schema)
		bad := func(sig string, format string, args ...any) {
			progJSON, _ := json.Marshal(prog)
			out[i] = append(out[i], vlib.V(sig, "%s schema, builder of %s, program %s: "+format, append([]any{c.Schema.Format, prog.Def, short200(string(progJSON))}, args...)...))
		}
		type outcome struct {
			lang, encoded, failure, where, noOption, argErr, panicMsg string
			missing                                                   bool
			empty, ctor                                               map[string]map[string]any
		}
		outcomes := []outcome{
			{lang: "go", encoded: goResps[k].Encoded, failure: goResps[k].BuildErr, where: "build", noOption: goResps[k].NoSuchOption, argErr: goResps[k].ArgErr, panicMsg: goResps[k].Panic, missing: goResps[k].Missing, empty: emptyGo[i], ctor: ctorGo[i]},
			{lang: "python", encoded: pyResps[k].Encoded, failure: pyResps[k].Error, where: pyResps[k].RaisedIn, noOption: pyResps[k].NoSuchOption, empty: emptyPy[i], ctor: ctorPy[i]},
		}
		for _, o := range outcomes {
			switch {
			case o.missing || strings.HasPrefix(o.noOption, "builder ") || (o.where == "" && strings.HasPrefix(o.failure, "ModuleNotFoundError")):
				count(run, "no_builder:"+o.lang, 1)
				continue
			case o.noOption != "":
				bad(fmt.Sprintf("no-such-option:%s:%s", o.lang, f), "the %s builder has no option for field %s", o.lang, o.noOption)
				continue
			case o.argErr != "":
				count(run, "argument_not_passable:"+o.lang, 1)
				note(run, "argument not passable (%s): %s", o.lang, o.argErr)
				continue
			case o.panicMsg != "":
				bad(fmt.Sprintf("builder-panics:%s:%s:%s%s", o.lang, f, prog.Kind, tag), "the generated %s builder panics: %s", o.lang, firstLine(o.panicMsg))
				continue
			}
			if run != nil {
				run.Eval(vlib.HashBytes([]byte(c.Schema.source()), rawOf(prog), []byte(o.lang)), "program:"+prog.Kind, "lang:"+o.lang)
			}
			count(run, "documents", 1)
			count(run, "disagreements_checked", 1)
			if prog.Invalid != "" {
				if o.failure == "" {
					bad(fmt.Sprintf("invalid-accepted:%s:%s:%s:%s%s", o.lang, f, prog.Kind, prog.Invalid[strings.LastIndex(prog.Invalid, ":")+1:], tag), "%s: the argument violating %s is not reported (built: %s)", o.lang, prog.Invalid, short200(o.encoded))
				}
				continue
			}
			if o.failure != "" && o.where == "build" && c09HasUndrivenRequired(c.Schema.Model, prog.Def) {
				// a required field the harness cannot set (union, anonymous struct,
				// nested collection...) keeps its zero value: Build() may refuse it
				count(run, "object_not_completable:"+o.lang, 1)
				continue
			}
			if o.failure != "" {
				bad(fmt.Sprintf("valid-rejected:%s:%s:%s:%s%s", o.lang, f, prog.Kind, o.where, tag), "%s: valid arguments are refused (%s): %s", o.lang, o.where, firstLine(o.failure))
				continue
			}
			if o.empty[prog.Def] == nil {
				count(run, "no_reference_object:"+o.lang, 1)
				continue
			}
			usable := true
			for _, def := range c09UsesPaths(prog) {
				if o.ctor[def] == nil {
					usable = false
				}
			}
			if !usable {
				count(run, "no_reference_object:"+o.lang, 1)
				continue
			}
			want := c09Expected(o.empty, o.ctor, prog)
			got, perr := smodel.ParseJSON(o.encoded)
			if perr != nil {
				bad(fmt.Sprintf("built-not-json:%s:%s", o.lang, f), "%s", o.encoded)
				continue
			}
			if d, same := smodel.JSONEqual(want, got); !same {
				bad(fmt.Sprintf("wrong-object:%s:%s:%s%s", o.lang, f, prog.Kind, tag), "%s: the built object is not the default object with the options' targets set: %s (built %s, expected %s)", o.lang, d, short200(o.encoded), short200(string(rawOf(want))))
			}
		}
	}
	for i := range out {
		out[i] = dedupeViolations(out[i])
	}
	return out, nil
}

// c09HasUndrivenRequired tells whether the definition (or a struct it must
// nest) has a required field no option call of the harness sets.
func c09HasUndrivenRequired(m *smodel.Model, def string) bool {
	return !c09Completable(m, def, map[string]bool{})
}

// c09Completable: every required, non-constant field of the definition can be
// given a valid value through its option (nested objects included).
func c09Completable(m *smodel.Model, def string, visiting map[string]bool) bool {
	if visiting[def] {
		return true // recursion only goes through optional fields / collections
	}
	visiting[def] = true
	defer delete(visiting, def)
	d := m.Def(def)
	if d == nil || d.Type.Kind != smodel.KStruct {
		return false
	}
	for _, f := range d.Type.Fields {
		if !f.Required || f.Type.Const != nil {
			continue
		}
		if rt := m.Resolve(f.Type); rt.Kind == smodel.KEnum && len(rt.Members) < 2 {
			continue
		}
		shape, target, ok := c09SupportedIn(m, f, visiting)
		if !ok {
			return false
		}
		if shape == "ref" && !c09Completable(m, target, visiting) {
			return false
		}
	}
	return true
}

func short200(s string) string {
	if len(s) > 200 {
		return s[:200] + "…"
	}
	return s
}

func c09Check(b c09Batch) []vlib.Violation {
	res, err := c09CheckBatch(nil, b.Cases)
	if err != nil {
		return []vlib.Violation{vlib.V("harness", "%v", err)}
	}
	var out []vlib.Violation
	for i := range b.Cases {
		out = append(out, res[i]...)
	}
	return dedupeViolations(out)
}

func c09GenConfig(f smodel.Format) smodel.GenConfig {
	cfg := smodel.DefaultGenConfig(f)
	cfg.ConstraintBias = true
	cfg.SafeNames = true
	cfg.NoBytes = true
	cfg.Focus = []string{"string_bounded", "int_bounded", "float_bounded", "ref", "array_ref", "map_ref", "array_scalar", "map_scalar", "enum_ref", "const_string", "default_string", "default_int", "nullable_scalar", "array_nested", "map_nested"}
	return cfg
}

func TestC09(t *testing.T) {
	run := vlib.Begin(t, "C09")
	defer run.Finish(t)
	run.Describe(
		"Batches of K schema models (K=4 quick, 8 thorough) per rapid case, in the three input formats, dense in bounded scalars, references to structs (nested builders), arrays and maps of struct references, arrays / maps of scalars, enums, constants, defaults, nullable scalars; cog generates Go and Python types + builders (no veneers), the Go packages are compiled and the Python modules imported. For every struct definition a family of builder PROGRAMS is drawn and executed through reflective drivers (Go: NewXBuilder().Option(args...).Build(); Python: X().option(args...).build()): the baseline (every required field set to a valid value); one program per option with a valid argument (scalars, lists, maps, nested builders built by their own programs, lists and maps of nested builders); one per numeric / length bound with an argument violating it by one unit; one with a violation inside a nested builder; a sequence of 2-3 options (possibly the same twice, last write wins). Oracle: a valid program builds exactly the object an EMPTY program builds with each call's value written at the option's field (JSON equality with exact numbers, so nothing else may change and constructor constants stay); a program holding a violation is reported (Go: Build() returns an error; Python: the option call or build() raises); a valid program is never refused. Non-trivial: every executed (schema, program, language).",
		"half of the schemas get a veneer that copies one constrained option per object and renames the copy's argument; the copy must behave like the original (and the original must keep working); otherwise every option corresponds to one field of the object; options of unions, anonymous structs, `any`, nested collections and constants are not driven (counted)",
		"a third of the models are reference chains (Entry.inner.inner); there, and wherever an object refers to a completable object of its package, a merge_into veneer copies the options of the object one or two references away into the ancestor's builder (renamed), 2/3 of the time with an initialize veneer writing a constant below the same path from the constructor; programs call each merged option on a fresh builder, after an option replacing an ancestor of its target, before one, and with a bound-violating argument. Expected object: the value written at the PATH, objects missing on the way being what the types' constructors make (nil guards); the initialize constant must be in the object an empty program builds. Veneers whose constructor would create an object that is invalid as constructed (required bounded field) are not drawn",
		"empty lists / maps are not used as arguments (Go omitempty hides them: listed under C01)",
		"field names avoid keywords of the target languages (C02's hostile-names finding)",
	)
	if vlib.RunReplay(t, run, c09Check) {
		return
	}
	k := 4
	if vlib.Thorough() {
		k = 8
	}
	rapid.Check(t, func(rt *rapid.T) {
		var cases []c09Case
		for i := 0; i < k; i++ {
			f := rapid.SampledFrom(smodel.Formats).Draw(rt, "format")
			cfg := c09GenConfig(f)
			chain := rapid.IntRange(0, 2).Draw(rt, "refchain") == 0
			if chain {
				cfg.RefChain, cfg.Dense = true, false
			}
			sc := drawSchemaCase(rt, cfg, 0)
			var copies map[string]string
			var merges []c09Merge
			if chain || rapid.Bool().Draw(rt, "veneers") {
				sc.Veneers, copies, merges = drawC09Veneers(rt, sc)
			}
			cases = append(cases, c09Case{Schema: sc, Programs: drawC09Programs(rt, sc.Model, copies, merges), Merges: merges})
		}
		res, err := c09CheckBatch(run, cases)
		if err != nil {
			run.Inconclusive("batch failed: %v", err)
			rt.Fatalf("harness: %v", err)
		}
		for i, c := range cases {
			run.Label(c.Schema.Model.Features()...)
			run.Label("input:" + string(c.Schema.Format))
			if i == 0 && len(c.Programs) > 1 {
				run.Sample(map[string]any{"format": c.Schema.Format, "program": c.Programs[len(c.Programs)/2]})
			}
		}
		for i := range cases {
			if vs := res[i]; len(vs) > 0 {
				// keep the programs of the violated definition only while shrinking
				vlib.Fail(rt, run.Judge(c09Batch{Cases: []c09Case{cases[i]}}, vs))
			}
		}
	})
	e2Health(run)
	_ = sort.Strings
	_ = fmt.Sprint
}
