package checks

// C09 — a builder option sets exactly its target; invalid input is reported,
// valid input never.
//
// This file: the program model, the oracle and the test. c09_families_test.go:
// what is done to the drawn model and which veneers are drawn per family
// (constant objects, alias objects, omitted builders, options rewritten into
// arguments / per-field options).

import (
	"encoding/json"
	"fmt"
	"sort"
	"strings"
	"testing"

	"github.com/grafana/cog/verifharness/e2"
	"github.com/grafana/cog/verifharness/smodel"
	"github.com/grafana/cog/verifharness/vlib"
	"pgregory.net/rapid"
)

// c09Program is one builder program and what is expected of it.
type c09Program struct {
	Def string `json:"def"`
	// Calls: field name + argument, in order
	Calls []c09Call `json:"calls"`
	// Invalid: a call carries a constraint-violating argument (itself or in a
	// nested builder): the program must be reported
	Invalid string `json:"invalid,omitempty"`
	// Kind: baseline | single | sequence | nested-ref | nested-array | nested-map |
	// violation | violation-in-collection | nested-violation | copied-option |
	// merged-option... | object... | object-violation | rewritten-...
	Kind string `json:"kind"`
}

type c09Call struct {
	Field string `json:"field"`
	// Option: name of the option called, when it is not the field's own (a
	// copy made by a veneer)
	Option string `json:"option,omitempty"`
	// Value: JSON of the argument; for nested builders the product expected
	Value json.RawMessage `json:"value,omitempty"`
	// Nested programs (one for a reference, several for an array / a map)
	Nested     []c09Program `json:"nested,omitempty"`
	NestedKeys []string     `json:"nested_keys,omitempty"`
	// Shape: "" | ref | array | map (nested builders) | obj | obj-array | obj-map
	// (the builder of the referred object is omitted by a veneer: the option
	// takes the plain object(s); the nested programs then DESCRIBE the object:
	// what the type's constructor makes, with each call's value written)
	Shape string `json:"shape,omitempty"`
	// Path: for an option merged into this builder from the builder of a nested
	// object (merge_into veneer), or rewritten to write the fields of a nested
	// object (struct_fields_as_arguments / _as_options): the fields leading to
	// that object, and the definitions they refer to
	Path     []string `json:"path,omitempty"`
	PathDefs []string `json:"path_defs,omitempty"`
	// Args: the option takes several arguments (struct_fields_as_arguments):
	// one entry per argument, each naming the field of the object at Path it is
	// written to (Field + Value / Nested / Shape)
	Args []c09Call `json:"args,omitempty"`
}

// c09Merge is one merge_into veneer (with, possibly, an initialize veneer
// writing a constant below the same path from the constructor).
type c09Merge struct {
	Dest     string   `json:"dest"`
	Source   string   `json:"source"`
	Path     []string `json:"path"`
	PathDefs []string `json:"path_defs"`
	// InitField / InitValue: the constructor of Dest sets Path.InitField
	InitField string          `json:"init_field,omitempty"`
	InitValue json.RawMessage `json:"init_value,omitempty"`
}

func (mg c09Merge) optionName(field string) string {
	name := field + "Via"
	for _, p := range mg.Path {
		name += strings.ToUpper(p[:1]) + p[1:]
	}
	return name
}

type c09Case struct {
	Schema   schemaCase   `json:"schema"`
	Programs []c09Program `json:"programs"`
	Merges   []c09Merge   `json:"merges,omitempty"`
	// Family: which model / veneer family the case was drawn from
	Family string `json:"family,omitempty"`
	// Omitted: definitions whose builder an `omit` veneer removes
	Omitted []string `json:"omitted,omitempty"`
	// GoOnly: the Python side is not driven (alias objects: see c09Objects)
	GoOnly bool `json:"go_only,omitempty"`
}

type c09Batch struct {
	Cases []c09Case `json:"cases"`
}

var c09Output = e2.OutputSpec{Types: true, Builders: true, Go: &e2.GoFlags{JSON: true}, Python: &e2.PyFlags{JSON: true}}

// c09Ctx is the model plus what the drawn veneers did to its builders.
type c09Ctx struct {
	m *smodel.Model
	// omitted: no builder (omit veneer): options take the plain object
	omitted map[string]bool
	// rewrites: "Def.field" -> the option of that field was rewritten
	rewrites map[string]*c09Rewrite
}

func newC09Ctx(m *smodel.Model, omitted []string) *c09Ctx {
	x := &c09Ctx{m: m, omitted: map[string]bool{}, rewrites: map[string]*c09Rewrite{}}
	for _, o := range omitted {
		x.omitted[o] = true
	}
	return x
}

// root follows alias definitions (`XAlias: X`) to the definition they stand for.
func (x *c09Ctx) root(def string) string {
	for hops := 0; hops < 8; hops++ {
		d := x.m.Def(def)
		if d == nil || d.Type.Kind != smodel.KRef || d.Type.Nullable || d.Type.Const != nil {
			return def
		}
		def = d.Type.Ref
	}
	return def
}

// structOf: the struct a definition is (directly, or as an alias of one).
func (x *c09Ctx) structOf(def string) *smodel.T {
	d := x.m.Def(x.root(def))
	if d == nil || d.Type.Kind != smodel.KStruct {
		return nil
	}
	return &d.Type
}

func (x *c09Ctx) fields(def string) []smodel.Field {
	if st := x.structOf(def); st != nil {
		return st.Fields
	}
	return nil
}

func (x *c09Ctx) field(def, name string) *smodel.Field {
	fields := x.fields(def)
	for i := range fields {
		if fields[i].Name == name {
			return &fields[i]
		}
	}
	return nil
}

// hasBuilder: cog derives a builder for the definition and no veneer omits it.
func (x *c09Ctx) hasBuilder(def string) bool {
	return x.structOf(def) != nil && !x.omitted[def]
}

// builderDefs: the definitions programs are drawn for.
func (x *c09Ctx) builderDefs() []string {
	var out []string
	for _, d := range x.m.Defs {
		if x.hasBuilder(d.Name) {
			out = append(out, d.Name)
		}
	}
	return out
}

// constOf: the constant a field of this type always holds: a literal constant,
// or a reference to a constant object (`type: OptionsType`, `OptionsType: "x"`).
func (x *c09Ctx) constOf(t smodel.T) (json.RawMessage, bool) {
	for hops := 0; hops < 8; hops++ {
		if t.Const != nil {
			return *t.Const, true
		}
		if t.Kind != smodel.KRef {
			return nil, false
		}
		d := x.m.Def(t.Ref)
		if d == nil {
			return nil, false
		}
		t = d.Type
	}
	return nil, false
}

// c09Supported tells how a field's option can be driven.
func c09Supported(x *c09Ctx, f smodel.Field) (shape string, target string, ok bool) {
	return c09SupportedIn(x, f, map[string]bool{})
}

func c09SupportedIn(x *c09Ctx, f smodel.Field, visiting map[string]bool) (shape string, target string, ok bool) {
	m := x.m
	t := f.Type
	if _, isConst := x.constOf(t); isConst {
		return "", "", false
	}
	// a single-member enum is a constant for CUE (and gets no option)
	if rt := m.Resolve(t); rt.Kind == smodel.KEnum && len(rt.Members) < 2 {
		return "", "", false
	}
	// structRef: a reference to a struct definition (possibly through alias
	// objects); the option takes its builder, or the object when the builder
	// is omitted
	structRef := func(r smodel.T) (string, bool) {
		if r.Kind != smodel.KRef || r.Nullable {
			return "", false
		}
		if x.structOf(r.Ref) == nil {
			return "", false
		}
		// the nested object must be completable, or its builder fails
		if !c09Completable(x, r.Ref, visiting) {
			return "", false
		}
		return r.Ref, true
	}
	scalarLike := func(s smodel.T) bool {
		switch s.Kind {
		case smodel.KBool, smodel.KString, smodel.KInt, smodel.KFloat, smodel.KDateTime, smodel.KEnum:
			return s.Const == nil
		case smodel.KRef:
			d := m.Def(s.Ref)
			return d != nil && d.Type.Kind == smodel.KEnum
		}
		return false
	}
	prefix := func(name string) string {
		if x.omitted[name] {
			return "obj"
		}
		return ""
	}
	switch {
	case scalarLike(t):
		return "", "", true
	case t.Kind == smodel.KArray && scalarLike(*t.Elem) && !t.Elem.Nullable:
		return "", "", true
	case t.Kind == smodel.KMap && scalarLike(*t.Elem) && !t.Elem.Nullable:
		return "", "", true
	case (t.Kind == smodel.KArray || t.Kind == smodel.KMap) && (t.Elem.Kind == smodel.KArray || t.Elem.Kind == smodel.KMap) && !t.Elem.Nullable && scalarLike(*t.Elem.Elem) && !t.Elem.Elem.Nullable:
		return "", "", true // a collection of collections of scalars is a plain value
	case t.Kind == smodel.KRef:
		if name, ok := structRef(t); ok {
			if prefix(name) != "" {
				return "obj", name, true
			}
			return "ref", name, true
		}
	case t.Kind == smodel.KArray:
		if name, ok := structRef(*t.Elem); ok {
			if prefix(name) != "" {
				return "obj-array", name, true
			}
			return "array", name, true
		}
	case t.Kind == smodel.KMap:
		if name, ok := structRef(*t.Elem); ok {
			if prefix(name) != "" {
				return "obj-map", name, true
			}
			return "map", name, true
		}
	}
	return "", "", false
}

func rawOf(v any) json.RawMessage {
	b, _ := json.Marshal(v)
	return b
}

// c09Baseline sets every required field that has an option to a valid value,
// so that Build() has no reason to fail.
func c09Baseline(rt *rapid.T, x *c09Ctx, def string, depth int) []c09Call {
	var calls []c09Call
	for _, f := range x.fields(def) {
		if !f.Required {
			continue
		}
		if call, ok := c09ValidCall(rt, x, def, f, depth); ok {
			calls = append(calls, call)
		}
	}
	return calls
}

// c09ValidCall draws a valid call of the option of field f of definition def.
func c09ValidCall(rt *rapid.T, x *c09Ctx, def string, f smodel.Field, depth int) (c09Call, bool) {
	if rw := x.rewrites[def+"."+f.Name]; rw != nil {
		// the option was rewritten: it takes the fields of the object as
		// arguments; or it was replaced by one option per field (those are only
		// applied to optional fields and driven by their own programs)
		if rw.Kind != "arguments" {
			return c09Call{}, false
		}
		return c09RewrittenCall(rt, x, rw, depth)
	}
	return c09PlainCall(rt, x, f, depth)
}

// c09PlainCall draws a valid argument for a field: what the option cog derives
// from the field takes.
func c09PlainCall(rt *rapid.T, x *c09Ctx, f smodel.Field, depth int) (c09Call, bool) {
	m := x.m
	shape, target, ok := c09Supported(x, f)
	if !ok {
		return c09Call{}, false
	}
	nonNull := f.Type
	nonNull.Nullable = false
	switch shape {
	case "":
		v := smodel.DrawValue(rt, m, nonNull)
		// empty collections are where Go's omitempty hides the value (listed
		// under C01): keep them out of this check
		if l, isList := v.([]any); isList && len(l) == 0 {
			v = []any{smodel.DrawValue(rt, m, *nonNull.Elem)}
		}
		if mm, isMap := v.(map[string]any); isMap && len(mm) == 0 {
			v = map[string]any{"k": smodel.DrawValue(rt, m, *nonNull.Elem)}
		}
		return c09Call{Field: f.Name, Value: rawOf(v)}, true
	case "ref", "obj":
		// a required reference is always followed (the models only recurse
		// through optional fields, arrays and maps): leaving it out would make
		// the nested object invalid
		if depth > 1 && !f.Required {
			return c09Call{}, false
		}
		return c09Call{Field: f.Name, Shape: shape, Nested: []c09Program{{Def: target, Calls: c09NestedCalls(rt, x, target, depth+1)}}}, true
	case "array", "obj-array":
		if depth > 1 {
			return c09Call{}, false
		}
		n := rapid.IntRange(1, 2).Draw(rt, "nestedlen")
		call := c09Call{Field: f.Name, Shape: shape}
		for i := 0; i < n; i++ {
			call.Nested = append(call.Nested, c09Program{Def: target, Calls: c09NestedCalls(rt, x, target, depth+1)})
		}
		return call, true
	case "map", "obj-map":
		if depth > 1 {
			return c09Call{}, false
		}
		call := c09Call{Field: f.Name, Shape: shape, NestedKeys: []string{"first", "other key"}}
		for range call.NestedKeys {
			call.Nested = append(call.Nested, c09Program{Def: target, Calls: c09NestedCalls(rt, x, target, depth+1)})
		}
		return call, true
	}
	return c09Call{}, false
}

// c09NestedCalls: the baseline of the nested object plus some optional fields.
func c09NestedCalls(rt *rapid.T, x *c09Ctx, def string, depth int) []c09Call {
	calls := c09Baseline(rt, x, def, depth)
	for _, f := range x.fields(def) {
		if f.Required || rapid.IntRange(0, 2).Draw(rt, "nestedoptional") != 0 {
			continue
		}
		if call, ok := c09ValidCall(rt, x, def, f, depth); ok {
			calls = append(calls, call)
		}
	}
	return calls
}

// c09Wrap builds a container of the same shape as the type with one element.
func c09Wrap(t smodel.T, inner any) any {
	if t.Kind == smodel.KMap {
		return map[string]any{"k": inner}
	}
	return []any{inner}
}

// c09Rules collects veneer rules per package.
type c09Rules struct {
	option  map[string][]string
	builder map[string][]string
}

func newC09Rules() *c09Rules {
	return &c09Rules{option: map[string][]string{}, builder: map[string][]string{}}
}

func (r *c09Rules) files() []string {
	pkgSet := map[string]bool{}
	for pkg := range r.option {
		pkgSet[pkg] = true
	}
	for pkg := range r.builder {
		pkgSet[pkg] = true
	}
	var files []string
	for _, pkg := range keysOf(pkgSet) {
		file := fmt.Sprintf("language: all\npackage: %s\n", pkg)
		if len(r.builder[pkg]) > 0 {
			file += "builders:\n" + strings.Join(r.builder[pkg], "")
		}
		if len(r.option[pkg]) > 0 {
			file += "options:\n" + strings.Join(r.option[pkg], "")
		}
		files = append(files, file)
	}
	return files
}

// drawC09Veneers copies one constrained option per struct definition and
// renames the argument of the copy; and merges the builder of a nested object
// (one or two references away) into the builder of its parent, possibly with a
// constant written below the same path by the parent's constructor.
func drawC09Veneers(rt *rapid.T, sc schemaCase, x *c09Ctx, rules *c09Rules) (map[string]string, []c09Merge) {
	m := sc.Model
	copies := map[string]string{} // "Def.field" -> name of the copy
	var merges []c09Merge
	for _, def := range x.builderDefs() {
		for _, f := range x.fields(def) {
			if _, _, ok := c09Supported(x, f); !ok || len(smodel.Violations(m.Resolve(f.Type))) == 0 {
				continue
			}
			if rapid.Bool().Draw(rt, "copyoption") {
				copies[def+"."+f.Name] = f.Name + "Copy"
				pkg := sc.pkgOf(def)
				rules.option[pkg] = append(rules.option[pkg], fmt.Sprintf("  - duplicate: {by_name: %s.%s, as: %sCopy}\n  - rename_arguments: {by_name: %s.%sCopy, as: [renamedArg]}\n", def, f.Name, f.Name, def, f.Name))
				break
			}
		}
	}
	// merges: Dest.f -> E (depth 1), Dest.f -> E.g -> F (depth 2)
	for _, def := range x.builderDefs() {
		var candidates []c09Merge
		for _, f := range x.fields(def) {
			shape, e, ok := c09Supported(x, f)
			if !ok || shape != "ref" || x.root(e) == x.root(def) {
				continue
			}
			candidates = append(candidates, c09Merge{Dest: def, Source: e, Path: []string{f.Name}, PathDefs: []string{e}})
			if x.root(e) != e {
				// cog refuses (with an error) to make a path that goes THROUGH a
				// field typed by an alias object: only the last step may be one
				continue
			}
			for _, g := range x.fields(e) {
				shape2, target2, ok2 := c09Supported(x, g)
				if !ok2 || shape2 != "ref" || x.root(target2) == x.root(def) || x.root(target2) == x.root(e) {
					continue
				}
				candidates = append(candidates, c09Merge{Dest: def, Source: target2, Path: []string{f.Name, g.Name}, PathDefs: []string{e, target2}})
			}
		}
		var usable []c09Merge
		for _, c := range candidates {
			// merge_into looks the source builder up in the destination's package
			if sc.pkgOf(c.Source) == sc.pkgOf(c.Dest) {
				usable = append(usable, c)
			}
		}
		if len(usable) == 0 || rapid.IntRange(0, 3).Draw(rt, "merge") == 0 {
			continue
		}
		// deeper paths first: they are rarer
		mg := usable[len(usable)-1]
		if rapid.Bool().Draw(rt, "mergepick") {
			mg = rapid.SampledFrom(usable).Draw(rt, "mergewhich")
		}
		// a constructor that writes below the path (an initialize veneer, or the
		// constants of the source object, which merge_into copies) creates the
		// objects on the way with their types' defaults; if those are not valid
		// as they stand (a required bounded field), no program that leaves them
		// alone can be built: such veneers would make every other program of the
		// destination "refused" for a reason that is the veneer author's
		zeroValid := true
		for _, pd := range mg.PathDefs {
			zeroValid = zeroValid && c09ZeroValid(x, pd, map[string]bool{})
		}
		sourceHasConst := false
		for _, sf := range x.fields(mg.Source) {
			if _, isConst := x.constOf(sf.Type); isConst || (m.Resolve(sf.Type).Kind == smodel.KEnum && len(m.Resolve(sf.Type).Members) < 2) {
				sourceHasConst = true
			}
		}
		if sourceHasConst && !zeroValid {
			continue
		}
		var renames []string
		for _, sf := range x.fields(mg.Source) {
			renames = append(renames, fmt.Sprintf("%s: %s", sf.Name, mg.optionName(sf.Name)))
		}
		pkg := sc.pkgOf(def)
		rule := fmt.Sprintf("  - merge_into: {destination: %s, source: %s, under_path: %s, rename_options: {%s}}\n", mg.Dest, mg.Source, strings.Join(mg.Path, "."), strings.Join(renames, ", "))
		// a constant written by the constructor below the same path
		throughAlias := false
		for _, pd := range mg.PathDefs {
			throughAlias = throughAlias || x.root(pd) != pd
		}
		if zeroValid && !throughAlias && rapid.IntRange(0, 2).Draw(rt, "initialize") != 0 {
			for _, sf := range x.fields(mg.Source) {
				k := sf.Type.Kind
				if sf.Type.Const != nil || sf.Type.Nullable || (k != smodel.KBool && k != smodel.KString && k != smodel.KInt && k != smodel.KFloat) {
					continue
				}
				v := smodel.DrawValue(rt, m, sf.Type)
				mg.InitField, mg.InitValue = sf.Name, rawOf(v)
				rule += fmt.Sprintf("  - initialize: {by_object: %s, set: [{property: %s.%s, value: %s}]}\n", mg.Dest, strings.Join(mg.Path, "."), sf.Name, string(mg.InitValue))
				break
			}
		}
		rules.builder[pkg] = append(rules.builder[pkg], rule)
		merges = append(merges, mg)
	}
	return copies, merges
}

// c09ZeroValid: the object the type's constructor makes is valid as it stands:
// no required field is bounded, and required references lead to such objects.
func c09ZeroValid(x *c09Ctx, def string, visiting map[string]bool) bool {
	if visiting[def] {
		return true
	}
	visiting[def] = true
	defer delete(visiting, def)
	if x.structOf(def) == nil {
		return false
	}
	for _, f := range x.fields(def) {
		if _, isConst := x.constOf(f.Type); !f.Required || isConst {
			continue
		}
		rt := x.m.Resolve(f.Type)
		switch rt.Kind {
		case smodel.KBool, smodel.KString, smodel.KInt, smodel.KFloat, smodel.KEnum, smodel.KDateTime:
			if len(smodel.Violations(rt)) > 0 {
				return false
			}
		case smodel.KStruct:
			if f.Type.Kind != smodel.KRef || !c09ZeroValid(x, f.Type.Ref, visiting) {
				return false
			}
		default:
			return false
		}
	}
	return true
}

// c09MergedCalls: the calls as calls of the options merged into the destination.
func c09MergedCalls(mg c09Merge, calls []c09Call) []c09Call {
	var out []c09Call
	for _, c := range calls {
		c.Option = mg.optionName(c.Field)
		c.Path, c.PathDefs = mg.Path, mg.PathDefs
		out = append(out, c)
	}
	return out
}

// c09MergePrograms: programs driving the options a merge_into veneer added.
func c09MergePrograms(rt *rapid.T, x *c09Ctx, mg c09Merge, base []c09Call) []c09Program {
	m := x.m
	var out []c09Program
	first := x.field(mg.Dest, mg.Path[0])
	if first == nil {
		return nil
	}
	hasRequired := func(def string) bool {
		for _, f := range x.fields(def) {
			if _, isConst := x.constOf(f.Type); f.Required && !isConst {
				return true
			}
		}
		return false
	}
	// prefix: what must come before a merged option so that the object can be
	// built: the objects on the way (all but the last) need their own required
	// fields, which only the plain option of the first field can provide
	prefix := func(force bool) ([]c09Call, bool) {
		calls := append([]c09Call{}, base...)
		replaced := false
		needs := false
		for _, def := range mg.PathDefs[:len(mg.PathDefs)-1] {
			needs = needs || hasRequired(def)
		}
		if needs || force {
			if call, ok := c09ValidCall(rt, x, mg.Dest, *first, 0); ok {
				calls = append(calls, call)
				replaced = true
			} else if needs {
				return nil, false
			}
		}
		return append(calls, c09MergedCalls(mg, c09Baseline(rt, x, mg.Source, 1))...), replaced
	}
	for _, sf := range x.fields(mg.Source) {
		if _, _, ok := c09Supported(x, sf); !ok {
			continue
		}
		call, ok := c09ValidCall(rt, x, mg.Source, sf, 1)
		if !ok {
			continue
		}
		merged := c09MergedCalls(mg, []c09Call{call})[0]
		for _, force := range []bool{false, true} {
			calls, replaced := prefix(force)
			if calls == nil || (force && !replaced) {
				continue
			}
			kind := "merged-option"
			if replaced {
				kind = "merged-option-after-replaced-ancestor"
			}
			out = append(out, c09Program{Def: mg.Dest, Calls: append(calls, merged), Kind: kind})
		}
		// the ancestor replaced after the merged option: the last write wins
		if calls, _ := prefix(false); calls != nil {
			if repl, ok := c09ValidCall(rt, x, mg.Dest, *first, 0); ok {
				out = append(out, c09Program{Def: mg.Dest, Calls: append(append(calls, merged), repl), Kind: "ancestor-replaced-after-merged-option"})
			}
		}
		for bound, bad := range smodel.Violations(m.Resolve(sf.Type)) {
			if calls, _ := prefix(false); calls != nil {
				v := c09Call{Field: sf.Name, Option: mg.optionName(sf.Name), Value: rawOf(bad), Path: mg.Path, PathDefs: mg.PathDefs}
				out = append(out, c09Program{Def: mg.Dest, Calls: append(calls, v), Kind: "violation", Invalid: strings.Join(mg.Path, ".") + "." + sf.Name + "(merged):" + bound})
			}
		}
	}
	return out
}

// c09Broken is a nested program with one violation somewhere inside.
type c09Broken struct {
	prog  c09Program
	where string // field(.field):bound
}

// c09DeepViolations: copies of a (valid) nested program with one more call
// that violates a bound of one of its fields (depth 0: one copy per field that
// has bounds), or of a field of an object it refers to (depth 1).
func c09DeepViolations(rt *rapid.T, x *c09Ctx, prog c09Program, depth int) []c09Broken {
	m := x.m
	var out []c09Broken
	with := func(c c09Call) c09Program {
		cp := prog
		cp.Calls = append(append([]c09Call{}, prog.Calls...), c)
		return cp
	}
	for _, nf := range x.fields(prog.Def) {
		shape, target, ok := c09Supported(x, nf)
		if !ok {
			continue
		}
		if depth > 0 {
			if shape != "ref" && shape != "obj" {
				continue
			}
			inner := c09Program{Def: target, Calls: c09Baseline(rt, x, target, 2)}
			for _, b := range c09DeepViolations(rt, x, inner, depth-1) {
				out = append(out, c09Broken{with(c09Call{Field: nf.Name, Shape: shape, Nested: []c09Program{b.prog}}), nf.Name + "." + b.where})
				break
			}
			continue
		}
		for bound, bad := range smodel.Violations(m.Resolve(nf.Type)) {
			out = append(out, c09Broken{with(c09Call{Field: nf.Name, Value: rawOf(bad)}), nf.Name + ":" + bound})
			break
		}
	}
	return out
}

// drawC09Programs draws the programs of one schema.
func drawC09Programs(rt *rapid.T, x *c09Ctx, copies map[string]string, merges []c09Merge) []c09Program {
	m := x.m
	var out []c09Program
	for _, def := range x.builderDefs() {
		base := c09Baseline(rt, x, def, 0)
		out = append(out, c09Program{Def: def, Calls: base, Kind: "baseline"})
		withBase := func(calls ...c09Call) []c09Call {
			return append(append([]c09Call{}, base...), calls...)
		}
		var driven []smodel.Field
		for _, f := range x.fields(def) {
			if _, _, ok := c09Supported(x, f); ok {
				driven = append(driven, f)
			}
		}
		for _, f := range driven {
			if rw := x.rewrites[def+"."+f.Name]; rw != nil {
				out = append(out, c09RewritePrograms(rt, x, rw, base)...)
				continue
			}
			call, ok := c09ValidCall(rt, x, def, f, 0)
			if !ok {
				continue
			}
			kind := "single"
			switch {
			case strings.HasPrefix(call.Shape, "obj"):
				kind = "object" + strings.TrimPrefix(call.Shape, "obj")
			case call.Shape != "":
				kind = "nested-" + call.Shape
			}
			out = append(out, c09Program{Def: def, Calls: withBase(call), Kind: kind})
			// constraint violations, directly
			nonNull := m.Resolve(f.Type)
			for bound, bad := range smodel.Violations(nonNull) {
				out = append(out, c09Program{Def: def, Calls: withBase(c09Call{Field: f.Name, Value: rawOf(bad)}), Kind: "violation", Invalid: f.Name + ":" + bound})
			}
			// the copy of the option made by a veneer behaves like the original
			if copyName, ok := copies[def+"."+f.Name]; ok {
				cp := call
				cp.Option = copyName
				out = append(out, c09Program{Def: def, Calls: withBase(cp), Kind: "copied-option"})
				for bound, bad := range smodel.Violations(nonNull) {
					out = append(out, c09Program{Def: def, Calls: withBase(c09Call{Field: f.Name, Option: copyName, Value: rawOf(bad)}), Kind: "violation", Invalid: f.Name + "(copy):" + bound})
				}
			}
			// violations inside collections: one element, off the diagonal of a
			// collection of collections
			if (nonNull.Kind == smodel.KArray || nonNull.Kind == smodel.KMap) && call.Shape == "" {
				inner := m.Resolve(*nonNull.Elem)
				if inner.Kind == smodel.KArray || inner.Kind == smodel.KMap {
					leaf := m.Resolve(*inner.Elem)
					for bound, bad := range smodel.Violations(leaf) {
						good := smodel.DrawValue(rt, m, leaf)
						var value any
						if inner.Kind == smodel.KArray && nonNull.Kind == smodel.KArray {
							value = []any{[]any{good, bad}, []any{good, good}} // [0][1]
						} else {
							value = c09Wrap(nonNull, c09Wrap(inner, bad))
						}
						out = append(out, c09Program{Def: def, Calls: withBase(c09Call{Field: f.Name, Value: rawOf(value)}), Kind: "violation-in-collection", Invalid: f.Name + "[][]:" + bound})
					}
				} else {
					for bound, bad := range smodel.Violations(inner) {
						out = append(out, c09Program{Def: def, Calls: withBase(c09Call{Field: f.Name, Value: rawOf(c09Wrap(nonNull, bad))}), Kind: "violation-in-collection", Invalid: f.Name + "[]:" + bound})
					}
				}
			}
			// ... inside a nested builder; and inside a plain object (directly and
			// one reference further down): there the builder of the parent is the
			// only one that can report it
			if call.Shape != "" {
				last := call.Nested[len(call.Nested)-1]
				depths := []int{0}
				kind := "nested-violation"
				if strings.HasPrefix(call.Shape, "obj") {
					depths, kind = []int{0, 1}, "object-violation"
				}
				for _, depth := range depths {
					for _, b := range c09DeepViolations(rt, x, last, depth) {
						broken := call
						broken.Nested = append([]c09Program{}, call.Nested...)
						broken.Nested[len(broken.Nested)-1] = b.prog
						out = append(out, c09Program{Def: def, Calls: withBase(broken), Kind: kind, Invalid: f.Name + "." + b.where})
					}
				}
			}
		}
		for _, mg := range merges {
			if mg.Dest == def {
				out = append(out, c09MergePrograms(rt, x, mg, base)...)
			}
		}
		// sequences: 2-3 options, possibly the same twice
		if len(driven) > 0 {
			n := rapid.IntRange(2, 3).Draw(rt, "seqlen")
			calls := append([]c09Call{}, base...)
			for i := 0; i < n; i++ {
				f := rapid.SampledFrom(driven).Draw(rt, "seqfield")
				if call, ok := c09ValidCall(rt, x, def, f, 0); ok {
					calls = append(calls, call)
				}
			}
			out = append(out, c09Program{Def: def, Calls: calls, Kind: "sequence"})
		}
	}
	return out
}

// c09Bases are the reference objects of one case in one language: what an
// empty program builds per definition (empty) and what the types' constructors
// make (ctor: NewX() / X()).
type c09Bases struct {
	empty, ctor map[string]map[string]any
}

// c09Expected computes the document a valid program must build: the object
// built by an empty program with each call's value written at its field, in
// order. The target of a merged / rewritten option lies below a path: the
// objects missing on the way are the ones the types' constructors make (ctor).
// plain: the program describes a plain object (no builder involved): it starts
// from what the type's constructor makes.
func c09Expected(b c09Bases, p c09Program, plain bool) map[string]any {
	base := b.empty[p.Def]
	if plain {
		base = b.ctor[p.Def]
	}
	obj, _ := deepCopyAny(base).(map[string]any)
	if obj == nil {
		obj = map[string]any{}
	}
	write := func(target map[string]any, c c09Call) {
		switch c.Shape {
		case "":
			v, _ := smodel.ParseJSON(string(c.Value))
			target[c.Field] = v
		case "ref", "obj":
			target[c.Field] = c09Expected(b, c.Nested[0], plain || c.Shape == "obj")
		case "array", "obj-array":
			var list []any
			for _, n := range c.Nested {
				list = append(list, c09Expected(b, n, plain || c.Shape == "obj-array"))
			}
			target[c.Field] = list
		case "map", "obj-map":
			mm := map[string]any{}
			for i, n := range c.Nested {
				mm[c.NestedKeys[i]] = c09Expected(b, n, plain || c.Shape == "obj-map")
			}
			target[c.Field] = mm
		}
	}
	for _, c := range p.Calls {
		target := obj
		for i, step := range c.Path {
			next, isObj := target[step].(map[string]any)
			if !isObj {
				made, _ := deepCopyAny(b.ctor[c.PathDefs[i]]).(map[string]any)
				if made == nil {
					made = map[string]any{}
				}
				next = made
				target[step] = next
			}
			target = next
		}
		if len(c.Args) > 0 {
			for _, a := range c.Args {
				write(target, a)
			}
			continue
		}
		write(target, c)
	}
	return obj
}

// c09NeedsCtor lists the definitions whose constructor-made object the
// expectation of the program rests on; c09HasPlain: some argument is a plain
// object.
func c09NeedsCtor(p c09Program, plain bool, defs map[string]bool) (hasPlain bool) {
	if plain {
		defs[p.Def] = true
	}
	var visit func(c c09Call)
	visit = func(c c09Call) {
		for _, d := range c.PathDefs {
			defs[d] = true
		}
		for _, a := range c.Args {
			visit(a)
		}
		isObj := strings.HasPrefix(c.Shape, "obj")
		hasPlain = hasPlain || isObj
		for _, n := range c.Nested {
			if c09NeedsCtor(n, plain || isObj, defs) {
				hasPlain = true
			}
		}
	}
	for _, c := range p.Calls {
		visit(c)
	}
	return hasPlain
}

func deepCopyAny(v any) any {
	switch x := v.(type) {
	case map[string]any:
		out := make(map[string]any, len(x))
		for k, e := range x {
			out[k] = deepCopyAny(e)
		}
		return out
	case []any:
		out := make([]any, len(x))
		for i, e := range x {
			out[i] = deepCopyAny(e)
		}
		return out
	}
	return v
}

// build turns the program into a driver program. Plain objects are passed as
// their JSON (computed from the constructor-made object: bases).
func (p c09Program) build(caseID string, goStyle bool, bases c09Bases) e2.BuildProgram {
	name := p.Def
	if goStyle {
		name = caseID + "/" + p.Def + "Builder"
	}
	bp := e2.BuildProgram{Builder: name}
	arg := func(c c09Call) e2.BuildArg {
		switch c.Shape {
		case "ref":
			n := c.Nested[0].build(caseID, goStyle, bases)
			return e2.BuildArg{Builder: &n}
		case "array":
			var list []e2.BuildProgram
			for _, n := range c.Nested {
				list = append(list, n.build(caseID, goStyle, bases))
			}
			return e2.BuildArg{Builders: list}
		case "map":
			mm := map[string]e2.BuildProgram{}
			for i, n := range c.Nested {
				mm[c.NestedKeys[i]] = n.build(caseID, goStyle, bases)
			}
			return e2.BuildArg{BuilderMap: mm}
		case "obj":
			return e2.BuildArg{JSON: string(rawOf(c09Expected(bases, c.Nested[0], true)))}
		case "obj-array":
			list := []any{}
			for _, n := range c.Nested {
				list = append(list, c09Expected(bases, n, true))
			}
			return e2.BuildArg{JSON: string(rawOf(list))}
		case "obj-map":
			mm := map[string]any{}
			for i, n := range c.Nested {
				mm[c.NestedKeys[i]] = c09Expected(bases, n, true)
			}
			return e2.BuildArg{JSON: string(rawOf(mm))}
		}
		return e2.BuildArg{JSON: string(c.Value)}
	}
	for _, c := range p.Calls {
		call := e2.BuildCall{Option: c.Field}
		if c.Option != "" {
			call.Option = c.Option
		}
		if len(c.Args) > 0 {
			for _, a := range c.Args {
				call.Args = append(call.Args, arg(a))
			}
		} else {
			call.Args = []e2.BuildArg{arg(c)}
		}
		bp.Calls = append(bp.Calls, call)
	}
	return bp
}

// c09At follows a path of fields in a JSON object.
func c09At(obj map[string]any, path []string) (any, bool) {
	var at any = obj
	for _, step := range path {
		mm, isObj := at.(map[string]any)
		if !isObj {
			return nil, false
		}
		at = mm[step]
	}
	return at, true
}

// c09MissingConstants: the required constants of the definition (literal
// constants and references to constant objects) that obj does not hold.
func c09MissingConstants(x *c09Ctx, def string, obj map[string]any) []string {
	var out []string
	for _, f := range x.fields(def) {
		want, isConst := x.constOf(f.Type)
		if !isConst || !f.Required {
			continue
		}
		wv, _ := smodel.ParseJSON(string(want))
		if _, same := smodel.JSONEqual(wv, obj[f.Name]); !same {
			out = append(out, fmt.Sprintf("%s = %s (found %s)", f.Name, want, rawOf(obj[f.Name])))
		}
	}
	return out
}

func c09CheckBatch(run *vlib.Run, cases []c09Case) (map[int][]vlib.Violation, error) {
	out := map[int][]vlib.Violation{}
	var schemas []schemaCase
	for _, c := range cases {
		schemas = append(schemas, c.Schema)
	}
	p, err := e2Prepare(run, "c09", schemas, c09Output)
	if err != nil {
		return nil, err
	}
	defer p.Close()
	ctxs := make([]*c09Ctx, len(cases))
	for i, c := range cases {
		ctxs[i] = newC09Ctx(c.Schema.Model, c.Omitted)
		if p.usable[i] {
			count(run, "usable:"+c.Family, 1)
		} else {
			count(run, "unusable:"+c.Family, 1)
		}
	}
	type ctorRef struct {
		caseIdx int
		def     string
	}
	// pass 0: what the types' constructors make (NewX() / X()), for every
	// struct definition: the objects nil guards must create on the way to the
	// target of a merged / rewritten option, and what plain objects start from
	ctorGo, ctorPy := map[int]map[string]map[string]any{}, map[int]map[string]map[string]any{}
	{
		var gReqs []e2.Request
		var pReqs []e2.PyRequest
		var gRefs, pRefs []ctorRef
		for i, c := range cases {
			if !p.usable[i] {
				continue
			}
			ctorGo[i], ctorPy[i] = map[string]map[string]any{}, map[string]map[string]any{}
			for _, d := range c.Schema.Model.Defs {
				if ctxs[i].structOf(d.Name) == nil {
					continue
				}
				if key, ok := p.goKey(i, d.Name); ok {
					gReqs = append(gReqs, e2.Request{ID: len(gReqs), Key: key, Op: "default"})
					gRefs = append(gRefs, ctorRef{i, d.Name})
				}
				if !c.GoOnly {
					pReqs = append(pReqs, e2.PyRequest{ID: len(pReqs), Op: "default", Module: p.ids[i] + ".models." + pyModuleName(c.Schema.pkgOf(d.Name)), Encoder: p.ids[i] + ".cog.encoder", Class: d.Name})
					pRefs = append(pRefs, ctorRef{i, d.Name})
				}
			}
		}
		if len(gReqs) > 0 {
			resps, err := p.batch.Exec(gReqs)
			if err != nil {
				return nil, err
			}
			for k, r := range resps {
				if r.Encoded != "" {
					v, _ := smodel.ParseJSON(r.Encoded)
					ctorGo[gRefs[k].caseIdx][gRefs[k].def], _ = v.(map[string]any)
				}
			}
		}
		if len(pReqs) > 0 {
			resps, err := p.py.Exec(pReqs)
			if err != nil {
				return nil, err
			}
			for k, r := range resps {
				if r.Encoded != "" {
					v, _ := smodel.ParseJSON(r.Encoded)
					ctorPy[pRefs[k].caseIdx][pRefs[k].def], _ = v.(map[string]any)
				}
			}
		}
	}
	// an alias object is the object it stands for: where cog emits no
	// constructor for it (two-hop aliases), the aliased type's is used
	for i := range cases {
		for _, d := range cases[i].Schema.Model.Defs {
			if p.usable[i] && ctorGo[i][d.Name] == nil && ctxs[i].structOf(d.Name) != nil && ctxs[i].root(d.Name) != d.Name {
				ctorGo[i][d.Name] = ctorGo[i][ctxs[i].root(d.Name)]
			}
		}
	}
	type ref struct {
		caseIdx, progIdx int
		empty            bool
		def              string
		goIdx, pyIdx     int // index of the request, -1: not driven in that language
		needs            map[string]bool
	}
	var goReqs []e2.Request
	var pyReqs []e2.PyRequest
	var refs []ref
	for i, c := range cases {
		if !p.usable[i] {
			continue
		}
		id := p.ids[i]
		add := func(prog c09Program, r ref) {
			r.goIdx, r.pyIdx = -1, -1
			r.needs = map[string]bool{}
			hasPlain := c09NeedsCtor(prog, false, r.needs)
			goOK := true
			for def := range r.needs {
				if ctorGo[i][def] == nil {
					goOK = false
					note(run, "no constructor-made %s (%s schema, family %s, aliases %v): %s", def, c.Schema.Format, c.Family, c.GoOnly, short200(string(rawOf(c.Schema.Model.Def(def)))))
				}
			}
			if goOK {
				g := prog.build(id, true, c09Bases{ctor: ctorGo[i]})
				r.goIdx = len(goReqs)
				goReqs = append(goReqs, e2.Request{ID: len(goReqs), Op: "build", Build: &g})
			} else {
				count(run, "no_reference_object:go", 1)
			}
			switch {
			case c.GoOnly:
				// alias objects: the generated Python constructors do not work at
				// all (see c09Objects): the region is excluded for Python
				count(run, "python_not_driven:alias-objects", 1)
			case hasPlain:
				// the shared Python driver passes JSON values or builders, not objects
				count(run, "python_not_driven:plain-object-argument", 1)
			default:
				py := prog.build(id, false, c09Bases{ctor: ctorPy[i]})
				r.pyIdx = len(pyReqs)
				pyReqs = append(pyReqs, e2.PyRequest{ID: len(pyReqs), Op: "build", Module: id + ".builders." + pyModuleName(c.Schema.pkgOf(prog.Def)), Encoder: id + ".cog.encoder", Build: &py})
			}
			refs = append(refs, r)
		}
		// what an empty program builds, for every definition with a builder (nested ones too)
		for _, def := range ctxs[i].builderDefs() {
			add(c09Program{Def: def}, ref{caseIdx: i, empty: true, def: def})
		}
		for j, prog := range c.Programs {
			add(prog, ref{caseIdx: i, progIdx: j})
		}
	}
	if len(refs) == 0 {
		return out, nil
	}
	var goResps []e2.Response
	var pyResps []e2.PyResponse
	if len(goReqs) > 0 {
		if goResps, err = p.batch.Exec(goReqs); err != nil {
			return nil, err
		}
	}
	if len(pyReqs) > 0 {
		if pyResps, err = p.py.Exec(pyReqs); err != nil {
			return nil, err
		}
	}
	// pass 1: the objects built by empty programs (Go: Build() may refuse an
	// object whose required constrained fields are unset; the driver then reads
	// it out of the builder; failing that: NewX())
	emptyGo, emptyPy := map[int]map[string]map[string]any{}, map[int]map[string]map[string]any{}
	emptyGoFromCtor := map[int]map[string]bool{}
	for _, r := range refs {
		if !r.empty {
			continue
		}
		if emptyGo[r.caseIdx] == nil {
			emptyGo[r.caseIdx], emptyPy[r.caseIdx] = map[string]map[string]any{}, map[string]map[string]any{}
			emptyGoFromCtor[r.caseIdx] = map[string]bool{}
		}
		if r.goIdx >= 0 {
			resp := goResps[r.goIdx]
			switch {
			case resp.Encoded != "":
				v, _ := smodel.ParseJSON(resp.Encoded)
				emptyGo[r.caseIdx][r.def], _ = v.(map[string]any)
			case resp.Held != "":
				// Build() refuses the object (required constrained fields unset):
				// the driver reads it out of the builder
				v, _ := smodel.ParseJSON(resp.Held)
				emptyGo[r.caseIdx][r.def], _ = v.(map[string]any)
			case !resp.Missing && ctorGo[r.caseIdx][r.def] != nil:
				emptyGo[r.caseIdx][r.def] = ctorGo[r.caseIdx][r.def]
				emptyGoFromCtor[r.caseIdx][r.def] = true
			}
		}
		if r.pyIdx >= 0 && pyResps[r.pyIdx].Encoded != "" {
			v, _ := smodel.ParseJSON(pyResps[r.pyIdx].Encoded)
			emptyPy[r.caseIdx][r.def], _ = v.(map[string]any)
		}
	}
	// the constants: "constructor constants are always present". The object an
	// empty program builds holds the required constants of its definition
	// (literal constants and references to constant objects); and, below the
	// path of a merge_into veneer, those of the merged builder's object. The
	// constants an initialize veneer writes are there too.
	for i, c := range cases {
		if !p.usable[i] {
			continue
		}
		x := ctxs[i]
		langs := []struct {
			lang    string
			empties map[string]map[string]any
		}{{"go", emptyGo[i]}, {"python", emptyPy[i]}}
		for _, l := range langs {
			for _, def := range x.builderDefs() {
				obj := l.empties[def]
				if obj == nil || (l.lang == "go" && emptyGoFromCtor[i][def]) {
					continue
				}
				count(run, "constants_checked:"+l.lang, 1)
				if missing := c09MissingConstants(x, def, obj); len(missing) > 0 {
					out[i] = append(out[i], vlib.V(fmt.Sprintf("constant-missing:%s:%s:constructor", l.lang, c.Schema.Format), "%s schema, builder of %s: the object an empty program builds lacks the constant %s: %s", c.Schema.Format, def, strings.Join(missing, ", "), short200(string(rawOf(obj)))))
				}
			}
			for _, mg := range c.Merges {
				obj := l.empties[mg.Dest]
				if obj == nil || (l.lang == "go" && emptyGoFromCtor[i][mg.Dest]) {
					continue
				}
				if len(c09MissingConstants(x, mg.Source, map[string]any{})) > 0 {
					// the merged builder's constructor held constants: merge_into keeps them
					count(run, "merged_constants_checked:"+l.lang, 1)
					at, _ := c09At(obj, mg.Path)
					below, _ := at.(map[string]any)
					if missing := c09MissingConstants(x, mg.Source, below); len(missing) > 0 {
						out[i] = append(out[i], vlib.V(fmt.Sprintf("constant-missing:%s:%s:merged-constructor", l.lang, c.Schema.Format), "%s schema, builder of %s with the builder of %s merged under %s: the object an empty program builds lacks the merged builder's constant %s: %s", c.Schema.Format, mg.Dest, mg.Source, strings.Join(mg.Path, "."), strings.Join(missing, ", "), short200(string(rawOf(obj)))))
					}
				}
				if mg.InitField == "" {
					continue
				}
				want, _ := smodel.ParseJSON(string(mg.InitValue))
				at, _ := c09At(obj, append(append([]string{}, mg.Path...), mg.InitField))
				count(run, "initialize_checked:"+l.lang, 1)
				if _, same := smodel.JSONEqual(want, at); !same {
					out[i] = append(out[i], vlib.V(fmt.Sprintf("initialize-not-applied:%s:%s", l.lang, c.Schema.Format), "%s schema, builder of %s: the constructor was told to set %s.%s = %s, an empty program builds %s", c.Schema.Format, mg.Dest, strings.Join(mg.Path, "."), mg.InitField, mg.InitValue, short200(string(rawOf(obj)))))
				}
			}
		}
	}
	// pass 2: the programs
	for _, r := range refs {
		if r.empty {
			continue
		}
		i := r.caseIdx
		c := cases[i]
		x := ctxs[i]
		prog := c.Programs[r.progIdx]
		f := string(c.Schema.Format)
		tag := nestedTag(c.Schema)
		bad := func(sig string, format string, args ...any) {
			progJSON, _ := json.Marshal(prog)
			out[i] = append(out[i], vlib.V(sig, "%s schema, builder of %s, program %s: "+format, append([]any{c.Schema.Format, prog.Def, short200(string(progJSON))}, args...)...))
		}
		type outcome struct {
			lang, encoded, failure, where, noOption, argErr, panicMsg string
			missing                                                   bool
			bases                                                     c09Bases
		}
		var outcomes []outcome
		if r.goIdx >= 0 {
			g := goResps[r.goIdx]
			outcomes = append(outcomes, outcome{lang: "go", encoded: g.Encoded, failure: g.BuildErr, where: "build", noOption: g.NoSuchOption, argErr: g.ArgErr, panicMsg: g.Panic, missing: g.Missing, bases: c09Bases{empty: emptyGo[i], ctor: ctorGo[i]}})
		}
		if r.pyIdx >= 0 {
			py := pyResps[r.pyIdx]
			outcomes = append(outcomes, outcome{lang: "python", encoded: py.Encoded, failure: py.Error, where: py.RaisedIn, noOption: py.NoSuchOption, bases: c09Bases{empty: emptyPy[i], ctor: ctorPy[i]}})
		}
		for _, o := range outcomes {
			switch {
			case o.missing || strings.HasPrefix(o.noOption, "builder ") || (o.where == "" && strings.HasPrefix(o.failure, "ModuleNotFoundError")):
				count(run, "no_builder:"+o.lang, 1)
				continue
			case o.noOption != "":
				bad(fmt.Sprintf("no-such-option:%s:%s", o.lang, f), "the %s builder has no option for field %s", o.lang, o.noOption)
				continue
			case o.argErr != "":
				count(run, "argument_not_passable:"+o.lang, 1)
				count(run, "argument_not_passable:"+o.lang+":"+prog.Kind, 1)
				note(run, "argument not passable (%s): %s", o.lang, o.argErr)
				continue
			case o.panicMsg != "":
				bad(fmt.Sprintf("builder-panics:%s:%s:%s%s", o.lang, f, prog.Kind, tag), "the generated %s builder panics: %s", o.lang, firstLine(o.panicMsg))
				continue
			}
			if run != nil {
				run.Eval(vlib.HashBytes([]byte(c.Schema.source()), rawOf(prog), []byte(o.lang)), "program:"+prog.Kind, "lang:"+o.lang, "family:"+c.Family)
			}
			count(run, "documents", 1)
			count(run, "disagreements_checked", 1)
			if prog.Invalid != "" {
				if o.failure == "" {
					bad(fmt.Sprintf("invalid-accepted:%s:%s:%s:%s%s", o.lang, f, prog.Kind, prog.Invalid[strings.LastIndex(prog.Invalid, ":")+1:], tag), "%s: the argument violating %s is not reported (built: %s)", o.lang, prog.Invalid, short200(o.encoded))
				}
				continue
			}
			if o.failure != "" && o.where == "build" && c09HasUndrivenRequired(x, prog.Def) {
				// a required field the harness cannot set (union, anonymous struct,
				// nested collection...) keeps its zero value: Build() may refuse it
				count(run, "object_not_completable:"+o.lang, 1)
				continue
			}
			if o.failure != "" {
				bad(fmt.Sprintf("valid-rejected:%s:%s:%s:%s%s", o.lang, f, prog.Kind, o.where, tag), "%s: valid arguments are refused (%s): %s", o.lang, o.where, firstLine(o.failure))
				continue
			}
			if o.bases.empty[prog.Def] == nil {
				count(run, "no_reference_object:"+o.lang, 1)
				continue
			}
			usable := true
			for def := range r.needs {
				if o.bases.ctor[def] == nil {
					usable = false
				}
			}
			if !usable {
				count(run, "no_reference_object:"+o.lang, 1)
				continue
			}
			want := c09Expected(o.bases, prog, false)
			gotAny, perr := smodel.ParseJSON(o.encoded)
			got, isObj := gotAny.(map[string]any)
			if perr != nil || !isObj {
				bad(fmt.Sprintf("built-not-json:%s:%s", o.lang, f), "%s", o.encoded)
				continue
			}
			if d, same := smodel.JSONEqual(want, got); !same {
				bad(fmt.Sprintf("wrong-object:%s:%s:%s%s", o.lang, f, prog.Kind, tag), "%s: the built object is not the default object with the options' targets set: %s (built %s, expected %s)", o.lang, d, short200(o.encoded), short200(string(rawOf(want))))
				continue
			}
			// constructor constants are always present: in the object itself, and
			// below the path of a merged builder as long as no option of the
			// program replaced an object on the way
			if missing := c09MissingConstants(x, prog.Def, got); len(missing) > 0 {
				bad(fmt.Sprintf("constant-missing:%s:%s:%s", o.lang, f, prog.Kind), "%s: the built object lacks the constant %s: %s", o.lang, strings.Join(missing, ", "), short200(o.encoded))
			}
			for _, mg := range c.Merges {
				if mg.Dest != prog.Def || len(c09MissingConstants(x, mg.Source, map[string]any{})) == 0 {
					continue
				}
				replaced := false
				for _, call := range prog.Calls {
					if len(call.Path) == 0 && call.Field == mg.Path[0] {
						replaced = true
					}
				}
				if replaced {
					continue
				}
				at, _ := c09At(got, mg.Path)
				below, _ := at.(map[string]any)
				if missing := c09MissingConstants(x, mg.Source, below); len(missing) > 0 {
					bad(fmt.Sprintf("constant-missing:%s:%s:%s:merged", o.lang, f, prog.Kind), "%s: below %s the built object lacks the constant of the merged builder %s: %s", o.lang, strings.Join(mg.Path, "."), strings.Join(missing, ", "), short200(o.encoded))
				}
			}
		}
	}
	for i := range out {
		out[i] = dedupeViolations(out[i])
	}
	return out, nil
}

// c09HasUndrivenRequired tells whether the definition (or a struct it must
// nest) has a required field no option call of the harness sets.
func c09HasUndrivenRequired(x *c09Ctx, def string) bool {
	return !c09Completable(x, def, map[string]bool{})
}

// c09Completable: every required, non-constant field of the definition can be
// given a valid value through its option (nested objects included).
func c09Completable(x *c09Ctx, def string, visiting map[string]bool) bool {
	if visiting[def] {
		return true // recursion only goes through optional fields / collections
	}
	visiting[def] = true
	defer delete(visiting, def)
	if x.structOf(def) == nil {
		return false
	}
	for _, f := range x.fields(def) {
		if _, isConst := x.constOf(f.Type); !f.Required || isConst {
			continue
		}
		if rt := x.m.Resolve(f.Type); rt.Kind == smodel.KEnum && len(rt.Members) < 2 {
			continue
		}
		shape, target, ok := c09SupportedIn(x, f, visiting)
		if !ok {
			return false
		}
		if (shape == "ref" || shape == "obj") && !c09Completable(x, target, visiting) {
			return false
		}
	}
	return true
}

func short200(s string) string {
	if len(s) > 200 {
		return s[:200] + "…"
	}
	return s
}

func c09Check(b c09Batch) []vlib.Violation {
	res, err := c09CheckBatch(nil, b.Cases)
	if err != nil {
		return []vlib.Violation{vlib.V("harness", "%v", err)}
	}
	var out []vlib.Violation
	for i := range b.Cases {
		out = append(out, res[i]...)
	}
	return dedupeViolations(out)
}

func c09GenConfig(f smodel.Format) smodel.GenConfig {
	cfg := smodel.DefaultGenConfig(f)
	cfg.ConstraintBias = true
	cfg.SafeNames = true
	cfg.NoBytes = true
	cfg.Focus = []string{"string_bounded", "int_bounded", "float_bounded", "ref", "array_ref", "map_ref", "array_scalar", "map_scalar", "enum_ref", "const_string", "default_string", "default_int", "nullable_scalar", "array_nested", "map_nested"}
	return cfg
}

// c09Families: the weights of the model / veneer families (of 16).
var c09Families = []string{
	"chain", "rewrite", "veneers", "objects",
	"chain", "rewrite", "veneers", "objects",
	"chain", "rewrite", "veneers", "objects",
	"chain", "rewrite", "veneers", "none",
}

// drawC09Case draws one schema, what its family does to it, and its programs.
func drawC09Case(rt *rapid.T) c09Case {
	f := rapid.SampledFrom(smodel.Formats).Draw(rt, "format")
	cfg := c09GenConfig(f)
	family := rapid.SampledFrom(c09Families).Draw(rt, "family")
	switch family {
	case "chain":
		cfg.RefChain, cfg.Dense = true, false
	case "rewrite", "objects":
		// mostly a handful of small structs: what matters there are the fields of
		// the objects referred to (and a good part of the dense models do not
		// compile: the listed nested-collection findings of C02)
		cfg.Dense = rapid.IntRange(0, 2).Draw(rt, "dense") == 0
	}
	sc := drawSchemaCase(rt, cfg, 0)
	c := c09Case{Family: family}
	rules := newC09Rules()
	var copies map[string]string
	x := newC09Ctx(sc.Model, nil)
	switch family {
	case "chain", "veneers":
		c09AddConstantObjects(rt, &sc)
		copies, c.Merges = drawC09Veneers(rt, sc, x, rules)
	case "rewrite":
		drawC09Rewrites(rt, &sc, x, rules)
	case "objects":
		c.GoOnly = c09AddAliases(rt, &sc, x)
		c.Omitted = drawC09Omitted(rt, sc, x)
		copies, c.Merges = drawC09Veneers(rt, sc, x, rules)
		c09OmitRules(sc, c.Omitted, rules)
	}
	sc.Veneers = rules.files()
	c.Schema = sc
	c.Programs = drawC09Programs(rt, x, copies, c.Merges)
	return c
}

func TestC09(t *testing.T) {
	run := vlib.Begin(t, "C09")
	defer run.Finish(t)
	run.Describe(
		"Batches of K schema models (K=8 quick, 10 thorough) per rapid case, in the three input formats, dense in bounded scalars, references to structs (nested builders), arrays and maps of struct references, arrays / maps of scalars, enums, constants, defaults, nullable scalars; cog generates Go and Python types + builders, the Go packages are compiled and the Python modules imported. For every definition with a builder a family of builder PROGRAMS is drawn and executed through reflective drivers (Go: NewXBuilder().Option(args...).Build(); Python: X().option(args...).build()): the baseline (every required field set to a valid value); one program per option with a valid argument (scalars, lists, maps, nested builders built by their own programs, lists and maps of nested builders); one per numeric / length bound with an argument violating it by one unit; one with a violation inside a nested builder; a sequence of 2-3 options (possibly the same twice, last write wins). Oracle: a valid program builds exactly the object an EMPTY program builds with each call's value written at the option's target (JSON equality with exact numbers, so nothing else may change); a program holding a violation is reported (Go: Build() returns an error; Python: the option call or build() raises); a valid program is never refused; CONSTANTS: the object an empty program builds, and every object a valid program builds, holds the required constants of its definition (literal constants and fields referring to a constant object), and below the path of a merged builder those of the merged builder's object (unless the program replaced an object on that path). Non-trivial: every executed (schema, program, language). Each model belongs to one family (of 16: 4 chain, 4 veneers, 4 rewrite, 3 objects, 1 without veneers; rewrite and objects models are dense like the others a third of the time, else a handful of small structs):",
		"veneers (and chain): a veneer copies one constrained option per object and renames the copy's argument; the copy must behave like the original (and the original must keep working). Half of the struct definitions get a required field referring to a CONSTANT OBJECT added to the model (`objectType: OptionsKind`, `OptionsKind: \"options-kind\"`): only builder constructors set those",
		"chain: reference chains (Entry.inner.inner); there, and in the veneers / objects families wherever an object refers to a completable object of its package (through required or OPTIONAL fields, directly or through an alias object), a merge_into veneer copies the options of the object one or two references away into the ancestor's builder (renamed), 2/3 of the time with an initialize veneer writing a constant below the same path from the constructor; programs call each merged option on a fresh builder, after an option replacing an ancestor of its target, before one, and with a bound-violating argument. Expected object: the value written at the PATH, objects missing on the way being what the types' constructors make (nil guards); the initialize constant and the constants of the merged builder must be in the object an empty program builds. Veneers whose constructor would create an object that is invalid as constructed (required bounded field) are not drawn",
		"rewrite: the entry point gets references to two new small structs (Widget, Gadget) or to other structs of the model; the structs referred to get 3-5 more fields first (bounded / plain scalars, lists and maps of scalars, collections of collections of bounded scalars, in drawn order, so that constrained scalars sit next to unconstrained collections); options of fields referring to a struct are then rewritten by struct_fields_as_arguments (all fields, or an explicit list holding every required field, a drawn part of the optional ones and sometimes constants, listed in any order) or, for optional fields, struct_fields_as_options. Programs: the rewritten option with valid arguments (each argument kind: scalars, enums, lists, maps, nested builders, lists / maps of builders), twice with other values (last write wins per field), with one argument violating one bound, with a violation inside a nested builder argument; each per-field option alone after the ones of the required fields, and with a violating argument; the rewritten option also takes part in baselines, sequences and nested programs. Expected object: each argument written at path.field, the object at the path created by a nil guard when missing, everything else as an empty program leaves it. Arguments whose object refers back to the builder's own are left out of the explicit list (the programs would nest for ever)",
		"objects (Go only): the model gets ALIAS objects (`XAlias: X`, 1/3 of the time a second hop `XAlias2: XAlias` used from optional fields / collections only) and part of the references to X are redirected to them; an `omit` veneer removes the builders of a drawn half of the referred definitions, so that their options take PLAIN OBJECTS (single, lists, maps): these are passed as JSON computed from what the type's constructor makes plus the nested program's values; violations are placed inside the plain object and inside an object it refers to: Build() of the parent is then the only place that can report them (its Validate() has to reach through fields typed by the struct, by an alias of it, lists and maps of either). Python is not driven there: the Python constructors generated for alias objects call a string (`LinkAlias: typing.TypeAlias = 'Link'`; `LinkAlias()` raises TypeError) and the shared Python driver cannot pass objects (counted: python_not_driven:*)",
		"otherwise every option corresponds to one field of the object; options of unions, anonymous structs, `any`, nested collections of objects and constants are not driven (counted)",
		"not generated because cog's output does not compile there (reported, outside this property): an OPTIONAL field referring to a constant object (Go option typed by a constant), a builder for a two-hop alias (NewXAlias2 undefined: two-hop aliases always have their builder omitted and are never required fields)",
		"empty lists / maps are not used as arguments (Go omitempty hides them: listed under C01)",
		"field names avoid keywords of the target languages (C02's hostile-names finding)",
	)
	if vlib.RunReplay(t, run, c09Check) {
		return
	}
	k := 8
	if vlib.Thorough() {
		k = 10
	}
	rapid.Check(t, func(rt *rapid.T) {
		var cases []c09Case
		for i := 0; i < k; i++ {
			cases = append(cases, drawC09Case(rt))
		}
		res, err := c09CheckBatch(run, cases)
		if err != nil {
			run.Inconclusive("batch failed: %v", err)
			rt.Fatalf("harness: %v", err)
		}
		for i, c := range cases {
			run.Label(c.Schema.Model.Features()...)
			run.Label("input:"+string(c.Schema.Format), "family:"+c.Family)
			if i == 0 && len(c.Programs) > 1 {
				run.Sample(map[string]any{"format": c.Schema.Format, "family": c.Family, "program": c.Programs[len(c.Programs)/2]})
			}
		}
		for i := range cases {
			if vs := res[i]; len(vs) > 0 {
				// keep the programs of the violated definition only while shrinking
				vlib.Fail(rt, run.Judge(c09Batch{Cases: []c09Case{cases[i]}}, vs))
			}
		}
	})
	e2Health(run)
	_ = sort.Strings
}
