package checks

// C19 helpers: keys whose content matters to the JSON encoder / decoder.
//
// The ordered map is generic in its key, but every use in cog has string keys
// that end up as JSON member names. Which string is used is irrelevant to
// set/get/remove/sort, but not to MarshalJSON / UnmarshalJSON: a member name
// has to be written with JSON escaping and read back with JSON unescaping.
// The generators here therefore produce keys from every class JSON treats
// specially, and JSON texts that spell a member name in any of the spellings
// the grammar allows.
//
// Representation. A replay file is JSON, and JSON cannot carry an arbitrary Go
// string (bytes that are not UTF-8 are replaced by U+FFFD by encoding/json).
// The Case therefore stores keys in a printable, lossless spelling (c19EncKey:
// '%', control bytes, DEL, bytes that are not UTF-8 and runes that are not
// printable are written %XX byte by byte); c19DecKey gives the key that is
// actually put in the map.

import (
	"encoding/json"
	"fmt"
	"strings"
	"unicode"
	"unicode/utf8"

	"github.com/grafana/cog/internal/orderedmap"
	"github.com/grafana/cog/verifharness/vlib"
	"pgregory.net/rapid"
)

const c19Hex = "0123456789ABCDEF"

// c19EncKey: raw key -> printable lossless spelling.
func c19EncKey(raw string) string {
	var sb strings.Builder
	for i := 0; i < len(raw); {
		r, size := utf8.DecodeRuneInString(raw[i:])
		plain := !(r == utf8.RuneError && size == 1) && r != '%' && unicode.IsPrint(r)
		if plain {
			sb.WriteString(raw[i : i+size])
		} else {
			for _, b := range []byte(raw[i : i+size]) {
				sb.WriteByte('%')
				sb.WriteByte(c19Hex[b>>4])
				sb.WriteByte(c19Hex[b&15])
			}
		}
		i += size
	}
	return sb.String()
}

func unhex(c byte) int {
	switch {
	case c >= '0' && c <= '9':
		return int(c - '0')
	case c >= 'A' && c <= 'F':
		return int(c-'A') + 10
	case c >= 'a' && c <= 'f':
		return int(c-'a') + 10
	}
	return -1
}

// c19DecKey: printable spelling -> raw key.
func c19DecKey(enc string) string {
	if !strings.Contains(enc, "%") {
		return enc
	}
	var sb strings.Builder
	for i := 0; i < len(enc); i++ {
		if enc[i] == '%' && i+2 < len(enc) {
			hi, lo := unhex(enc[i+1]), unhex(enc[i+2])
			if hi >= 0 && lo >= 0 {
				sb.WriteByte(byte(hi<<4 | lo))
				i += 2
				continue
			}
		}
		sb.WriteByte(enc[i])
	}
	return sb.String()
}

// c19JSONKey is the string a JSON text can carry for a Go string: the string
// itself when it is UTF-8, otherwise every byte that is not part of a UTF-8
// sequence becomes U+FFFD (what encoding/json does for a plain map[string]V;
// written here without encoding/json).
func c19JSONKey(raw string) string {
	if utf8.ValidString(raw) {
		return raw
	}
	var sb strings.Builder
	for i := 0; i < len(raw); {
		r, size := utf8.DecodeRuneInString(raw[i:])
		if r == utf8.RuneError && size == 1 {
			sb.WriteString("\uFFFD")
		} else {
			sb.WriteString(raw[i : i+size])
		}
		i += size
	}
	return sb.String()
}

// c19CanonLit writes s as a JSON string literal by the grammar of RFC 8259
// (the minimum of escaping), without encoding/json.
func c19CanonLit(s string) string {
	s = c19JSONKey(s)
	var sb strings.Builder
	sb.WriteByte('"')
	for _, r := range s {
		switch {
		case r == '"' || r == '\\':
			sb.WriteByte('\\')
			sb.WriteRune(r)
		case r < 0x20:
			fmt.Fprintf(&sb, "\\u%04x", r)
		default:
			sb.WriteRune(r)
		}
	}
	sb.WriteByte('"')
	return sb.String()
}

var c19Short = map[rune]string{'"': `\"`, '\\': `\\`, '/': `\/`, '\b': `\b`, '\f': `\f`, '\n': `\n`, '\r': `\r`, '\t': `\t`}

func c19U(r rune, upper bool) string {
	f := "\\u%04x"
	if upper {
		f = "\\u%04X"
	}
	if r > 0xFFFF {
		r -= 0x10000
		return fmt.Sprintf(f, 0xD800+(r>>10)) + fmt.Sprintf(f, 0xDC00+(r&0x3FF))
	}
	return fmt.Sprintf(f, r)
}

// c19DrawLit: any of the spellings RFC 8259 allows for the string s, chosen
// rune by rune (as is, two-character escape, \uXXXX in either case, surrogate
// pair). Shrinks towards the plainest spelling.
func c19DrawLit(rt *rapid.T, s string) string {
	s = c19JSONKey(s)
	{
		var sb strings.Builder
		sb.WriteByte('"')
		for _, r := range s {
			var opts []string
			if r >= 0x20 && r != '"' && r != '\\' {
				opts = append(opts, string(r))
			}
			if e, ok := c19Short[r]; ok {
				opts = append(opts, e)
			}
			opts = append(opts, c19U(r, false), c19U(r, true))
			sb.WriteString(opts[rapid.IntRange(0, len(opts)-1).Draw(rt, "spelling")])
		}
		sb.WriteByte('"')
		return sb.String()
	}
}

// c19SpecialRunes: runes on the borders of what JSON, UTF-8, UTF-16 and Go's
// own notion of "printable" treat differently.
var c19SpecialRunes = []rune{
	'"', '\\', '/', '<', '>', '&', '\'', '%', ' ',
	0x00, 0x01, 0x07, 0x08, 0x09, 0x0a, 0x0b, 0x0c, 0x0d, 0x1b, 0x1f, 0x7f,
	0x80, 0x85, 0x9f, 0xa0, 0xad, 0xe9, 0x3b1, 0x65e5,
	0x2028, 0x2029, 0xd7ff, 0xe000, 0xfeff, 0xfffd, 0xfffe, 0xffff,
	0x10000, 0x1f600, 0xe0001, 0xf0000, 0x10ffff,
}

// text that looks like an escape sequence of one of the notations around
var c19Snippets = []string{`\u0041`, `\n`, `\x41`, `\a`, `%41`, `\"`, `":`, `","`, `{}`, `null`, `\ud83d`, `\U0001F600`, "\xc0\xaf", "\xed\xa0\x80", "\xe2\x82", "\xf4\x90\x80\x80"}

// c19HostileKeyGen: a short key around one to three "atoms": any single byte
// (control characters, DEL, bytes that are not UTF-8), a special rune, any rune
// at all, or a snippet.
func c19HostileKeyGen() *rapid.Generator[string] {
	atom := rapid.OneOf(
		// one byte, by class: C0 control, DEL, a byte that is not UTF-8 on its own, printable ASCII
		rapid.Custom(func(rt *rapid.T) string {
			ranges := [][2]int{{0x00, 0x1f}, {0x7f, 0x7f}, {0x80, 0xff}, {0x20, 0x7e}}
			r := ranges[rapid.IntRange(0, len(ranges)-1).Draw(rt, "byte_class")]
			return string([]byte{byte(rapid.IntRange(r[0], r[1]).Draw(rt, "byte"))})
		}),
		rapid.Custom(func(rt *rapid.T) string { return string(rapid.SampledFrom(c19SpecialRunes).Draw(rt, "special")) }),
		rapid.Custom(func(rt *rapid.T) string { return string(rapid.Rune().Draw(rt, "rune")) }),
		rapid.SampledFrom(c19Snippets),
	)
	return rapid.Custom(func(rt *rapid.T) string {
		k := rapid.SampledFrom([]string{"a", "b", "c", "d", ""}).Draw(rt, "prefix")
		k += strings.Join(rapid.SliceOfN(atom, 0, 3).Draw(rt, "atoms"), "")
		k += rapid.SampledFrom([]string{"", "z"}).Draw(rt, "suffix")
		return k
	})
}

// c19KeyClasses names what is special about a key (labels).
func c19KeyClasses(k string) []string {
	var out []string
	if k == "" {
		out = append(out, "key_empty")
	}
	if !utf8.ValidString(k) {
		out = append(out, "key_not_utf8")
	}
	ctrl, del, quote, nonbmp, nonprint, html := false, false, false, false, false, false
	for _, r := range c19JSONKey(k) {
		switch {
		case r < 0x20 && !strings.ContainsRune("\n\r\t\b\f", r):
			ctrl = true
		case r < 0x20:
			nonprint = true
		case r == 0x7f:
			del = true
		case r == '"' || r == '\\':
			quote = true
		case r == '<' || r == '>' || r == '&' || r == 0x2028 || r == 0x2029:
			html = true
		case r > 0xFFFF:
			nonbmp = true
		case !unicode.IsPrint(r):
			nonprint = true
		}
	}
	for name, on := range map[string]bool{"key_control_char_without_short_escape": ctrl, "key_del": del, "key_quote_or_backslash": quote, "key_non_bmp": nonbmp, "key_other_non_printable": nonprint, "key_html_or_line_separator": html} {
		if on {
			out = append(out, name)
		}
	}
	return out
}

// c19DecodeText builds the JSON text of a decode_new / decode_zero operation
// (op holds raw keys). ws: 0 `{"k": v, "k": v}`, 1 no white space, 2 white
// space of every kind around every token.
func c19DecodeText(op omOp) string {
	open, colon, comma, closeB := "{", ": ", ", ", "}"
	switch op.Ws {
	case 1:
		colon, comma = ":", ","
	case 2:
		open, colon, comma, closeB = " \n{\t\r\n ", " \t:\n", "\r\n,\n\t ", "\n }\r\n\t "
	}
	var sb strings.Builder
	sb.WriteString(open)
	for i, p := range op.Pairs {
		if i > 0 {
			sb.WriteString(comma)
		}
		if p.Lit != "" {
			sb.WriteString(p.Lit)
		} else {
			sb.WriteString(c19CanonLit(p.K))
		}
		sb.WriteString(colon)
		fmt.Fprintf(&sb, "%d", p.V)
	}
	sb.WriteString(closeB)
	return sb.String()
}

// c19CheckLits: a literal stored in a case must spell its key (a hand-edited
// replay or a generator bug otherwise); judged by encoding/json.
func c19CheckLits(ops []omOp) error {
	for _, op := range ops {
		for _, p := range op.Pairs {
			if p.Lit == "" {
				continue
			}
			var s string
			if err := json.Unmarshal([]byte(p.Lit), &s); err != nil || s != c19JSONKey(p.K) {
				return fmt.Errorf("literal %s does not spell key %q (%v)", p.Lit, p.K, err)
			}
		}
	}
	return nil
}

// c19RawOps: the operations with keys as they are put in the map.
func c19RawOps(ops []omOp) []omOp {
	out := make([]omOp, len(ops))
	for i, op := range ops {
		out[i] = c19RawOp(op)
	}
	return out
}

func c19RawOp(op omOp) omOp {
	op.K = c19DecKey(op.K)
	if len(op.Pairs) > 0 {
		ps := make([]omKV, len(op.Pairs))
		for j, p := range op.Pairs {
			p.K = c19DecKey(p.K)
			ps[j] = p
		}
		op.Pairs = ps
	}
	return op
}

// firstByte: the comparator of the "tie" sorts (0 for the empty key).
func firstByte(k string) byte {
	if k == "" {
		return 0
	}
	return k[0]
}

// --- string-valued twin ------------------------------------------------------

type spair struct{ k, v string }

func orderedStringPairsFromJSON(raw []byte) ([]spair, error) {
	dec := json.NewDecoder(strings.NewReader(string(raw)))
	tok, err := dec.Token()
	if err != nil {
		return nil, err
	}
	if d, ok := tok.(json.Delim); !ok || d != '{' {
		return nil, fmt.Errorf("not an object")
	}
	var out []spair
	for dec.More() {
		kt, err := dec.Token()
		if err != nil {
			return nil, err
		}
		k, ok := kt.(string)
		if !ok {
			return nil, fmt.Errorf("key is %T", kt)
		}
		var v string
		if err := dec.Decode(&v); err != nil {
			return nil, err
		}
		out = append(out, spair{k, v})
	}
	if _, err := dec.Token(); err != nil {
		return nil, err
	}
	if dec.More() {
		return nil, fmt.Errorf("trailing data")
	}
	return out, nil
}

func fmtSPairs(ps []spair) string {
	var sb strings.Builder
	sb.WriteString("[")
	for i, p := range ps {
		if i > 0 {
			sb.WriteString(" ")
		}
		fmt.Fprintf(&sb, "%q=%q", p.k, p.v)
	}
	sb.WriteString("]")
	return sb.String()
}

// c19ObserveTwin: the same keys in the same order in a map whose VALUES are
// strings too (the value of the i-th pair is the key of the (i+v)-th pair, ""
// when v is 3): what MarshalJSON writes must be JSON that reads back as these
// pairs, and decoding that text must give these pairs back.
func c19ObserveTwin(model omModel) []vlib.Violation {
	var vs []vlib.Violation
	bad := func(obs string, format string, args ...any) {
		vs = append(vs, vlib.V("observation:"+obs, format, args...))
	}
	twin := orderedmap.New[string, string]()
	var want []spair // what the text must read as
	for i, p := range model {
		n := len(model)
		v := model[((i+p.v)%n+n)%n].k
		if p.v == 3 {
			v = ""
		}
		twin.Set(p.k, v)
		want = append(want, spair{c19JSONKey(p.k), c19JSONKey(v)})
	}
	var merged []spair // want, as successive Set calls
	for _, p := range want {
		found := false
		for j := range merged {
			if merged[j].k == p.k {
				merged[j].v, found = p.v, true
			}
		}
		if !found {
			merged = append(merged, p)
		}
	}
	raw, err := twin.MarshalJSON()
	if err != nil {
		bad("twin_marshal", "MarshalJSON of a map[string]string with pairs %s: %v", fmtSPairs(want), err)
		return vs
	}
	if !json.Valid(raw) {
		bad("twin_marshal", "MarshalJSON of a map[string]string with pairs %s is not valid JSON: %q", fmtSPairs(want), raw)
		return vs
	}
	got, perr := orderedStringPairsFromJSON(raw)
	if perr != nil {
		bad("twin_marshal", "MarshalJSON output %q is not a JSON object of strings: %v", raw, perr)
		return vs
	}
	if fmtSPairs(got) != fmtSPairs(want) {
		bad("twin_marshal", "MarshalJSON of a map[string]string reads as %s, expected %s", fmtSPairs(got), fmtSPairs(want))
	}
	back := orderedmap.New[string, string]()
	if err := json.Unmarshal(raw, back); err != nil {
		bad("twin_roundtrip", "UnmarshalJSON(%q): %v", raw, err)
		return vs
	}
	var it []spair
	back.Iterate(func(k, v string) { it = append(it, spair{k, v}) })
	if fmtSPairs(it) != fmtSPairs(merged) {
		bad("twin_roundtrip", "encode+decode of a map[string]string gives %s, expected %s", fmtSPairs(it), fmtSPairs(merged))
	}
	return vs
}
