package checks

// C02 — generator extensions private to this check: decorated reserved-word
// names, boundary ("exotic") schema fragments, and the rule that decides what
// is compiled on its own under skip_runtime.

import (
	"encoding/json"
	"fmt"
	"path/filepath"
	"sort"
	"strings"
	"unicode"

	"github.com/grafana/cog/internal/tools"
	"github.com/grafana/cog/verifharness/e2"
	"github.com/grafana/cog/verifharness/smodel"
	"pgregory.net/rapid"
)

// ------------------------------------------------------------ skip_runtime

// c02Standalone tells whether the file at path belongs to a language whose
// runtime the configuration skips: what such a run emits has to be well-formed
// on its own (cog's jennies leave out everything that needs the runtime when
// skip_runtime is set: builders, converters, strict decoders, Validate), so it
// is NOT completed with the runtime / builders of another run.
func c02Standalone(o e2.OutputSpec, path string) bool {
	switch filepath.Ext(path) {
	case ".go":
		return o.Go != nil && o.Go.SkipRuntime
	case ".py":
		return o.Python != nil && o.Python.SkipRuntime
	case ".java":
		// (the generator does not draw java.skip_runtime together with builders:
		// see TestC02)
		return o.Java != nil && o.Java.SkipRuntime
	}
	return false
}

// ------------------------------------------------------- decorated names

// c02Reserved: keywords of the compiled target languages (and a few Python
// builtins / soft keywords); a field named after one of them, once decorated,
// only stays well-formed when each language normalises the name BEFORE it
// decides whether the result needs escaping.
var c02Reserved = []string{
	// Python
	"from", "class", "global", "import", "in", "is", "not", "pass", "lambda", "def", "del", "and", "or", "as", "assert",
	"async", "await", "break", "continue", "elif", "else", "except", "finally", "for", "if", "nonlocal", "raise",
	"return", "try", "while", "with", "yield", "None", "True", "False",
	// Go
	"type", "func", "range", "map", "chan", "go", "select", "var", "package", "interface", "struct", "switch", "case",
	"default", "defer", "fallthrough", "goto", "const",
	// Java
	"new", "public", "static", "void", "int", "long", "final", "abstract", "native", "this", "super", "throws",
	"boolean", "double", "private", "protected", "synchronized", "volatile", "instanceof", "extends", "implements",
	// builtins
	"list", "dict", "str", "len", "id", "object", "print", "string", "error", "nil", "null",
}

// c02Decorations turn a reserved word into a name that is not the word itself
// but that a formatter may normalise back into it.
var c02Decorations = []struct {
	name  string
	apply func(string) string
}{
	{"_x", func(s string) string { return "_" + s }},
	{"$x", func(s string) string { return "$" + s }},
	{"__x", func(s string) string { return "__" + s }},
	{"$_x", func(s string) string { return "$_" + s }},
	{"_$x", func(s string) string { return "_$" + s }},
	{"x_", func(s string) string { return s + "_" }},
	{"x$", func(s string) string { return s + "$" }},
	{"x-", func(s string) string { return s + "-" }},
	{"-x", func(s string) string { return "-" + s }},
	{"x.", func(s string) string { return s + "." }},
	{" x", func(s string) string { return " " + s }},
	{"X", func(s string) string { return strings.ToUpper(s[:1]) + s[1:] }},
	{"XX", strings.ToUpper},
}

// c02NameKey is the coarsest normalisation any formatter applies: two names
// with the same key may collide in some language.
func c02NameKey(s string) string {
	var sb strings.Builder
	for _, r := range s {
		if unicode.IsLetter(r) || unicode.IsDigit(r) {
			sb.WriteRune(unicode.ToLower(r))
		}
	}
	return sb.String()
}

var c02PyKeywords = c02Set("False", "await", "else", "import", "pass", "None", "break", "except", "in", "raise",
	"True", "class", "finally", "is", "return", "and", "continue", "for", "lambda", "try",
	"as", "def", "from", "nonlocal", "while", "assert", "del", "global", "not", "with",
	"async", "elif", "if", "or", "yield")

var c02JavaKeywords = c02Set("abstract", "assert", "boolean", "break", "byte", "case", "catch", "char", "class", "const",
	"continue", "default", "do", "double", "else", "enum", "extends", "final", "finally", "float", "for", "goto", "if",
	"implements", "import", "instanceof", "int", "interface", "long", "native", "new", "package", "private", "protected",
	"public", "return", "short", "static", "strictfp", "super", "switch", "synchronized", "this", "throw", "throws",
	"transient", "try", "void", "volatile", "while", "true", "false", "null")

func c02IsIdent(s string) bool {
	for i, r := range s {
		if !(r == '_' || unicode.IsLetter(r) || (i > 0 && unicode.IsDigit(r))) {
			return false
		}
	}
	return s != ""
}

func c02Set(items ...string) map[string]bool {
	out := map[string]bool{}
	for _, i := range items {
		out[i] = true
	}
	return out
}

// c02NameExcluded names the region of defects of the CLEAN checkout (reported,
// same family as the listed hostile-names finding) a decorated name falls in,
// given the languages the run generates; "" = none.
func c02NameExcluded(name string, langs []string, reachesStructUnion bool, collection bool) string {
	for _, l := range langs {
		switch l {
		case "go":
			// golang converter.tmpl: the temporaries of an array / map argument are
			// named `tmp<RAW field name><var>` (`tmpabstract-arg1 := ...`)
			if collection && !c02IsIdent(name) {
				return "go-converter-raw-name-in-temporary"
			}
		case "python":
			// python rawtypes.go disjunctionFromJSON: the local `decoding_map_<hint>`
			// is named after the RAW field name (`decoding_map_-yield_union`)
			if reachesStructUnion && !c02IsIdent(name) {
				return "python-raw-name-in-decoding-map-variable"
			}
			// python.formatIdentifier = SnakeCase(escape(TrimLeft(name, "$_"))): the
			// reserved-word test sees the name before SnakeCase lowercases it and
			// drops its punctuation (`is$`, `pass.`, `RAISE`, `From` -> a bare keyword)
			t := strings.TrimLeft(name, "$_")
			if !c02PyKeywords[t] && c02PyKeywords[tools.SnakeCase(t)] {
				return "python-escape-before-snake-case"
			}
			// ... and what SnakeCase leaves of the punctuation is emitted as is (`in.`)
			if !c02IsIdent(tools.SnakeCase(t)) {
				return "python-name-not-an-identifier"
			}
		case "java":
			// java rawtypes: LowerCamelCase(escapeVarName(name)) — the same mistake:
			// `_class`, `while_`, `Extends` -> a bare keyword
			if !c02JavaKeywords[name] && c02JavaKeywords[tools.LowerCamelCase(name)] {
				return "java-escape-before-camel-case"
			}
			// Java builders of collections of builders declare `<raw name>Resource`
			// (the listed raw-name finding, with other diagnostics: `-globalResource`)
			if !c02IsIdent(strings.ReplaceAll(name, "$", "_")) {
				return "java-raw-name-in-builder-variable"
			}
		}
	}
	return ""
}

// c02ReachesStructUnion: the type is a union of structs, or a collection of /
// a reference to one (not through a struct).
func c02ReachesStructUnion(m *smodel.Model, t smodel.T, depth int) bool {
	if depth > 16 {
		return true
	}
	switch t.Kind {
	case smodel.KUStructs:
		return true
	case smodel.KArray, smodel.KMap:
		return t.Elem != nil && c02ReachesStructUnion(m, *t.Elem, depth+1)
	case smodel.KRef:
		if d := m.Def(t.Ref); d != nil && d.Type.Kind != smodel.KStruct {
			return c02ReachesStructUnion(m, d.Type, depth+1)
		}
	}
	return false
}

// c02IsCollection: an array / map, possibly behind references.
func c02IsCollection(m *smodel.Model, t smodel.T, depth int) bool {
	switch t.Kind {
	case smodel.KArray, smodel.KMap:
		return true
	case smodel.KRef:
		if d := m.Def(t.Ref); d != nil && depth < 16 {
			return c02IsCollection(m, d.Type, depth+1)
		}
	}
	return false
}

// drawC02Decorated renames up to three fields of the model's structs into
// decorated reserved words; returns the new names and the reasons of the
// names that were not used.
func drawC02Decorated(rt *rapid.T, f smodel.Format, m *smodel.Model, langs []string) (names []string, excluded []string) {
	taken := map[string]bool{}
	discs := map[string]bool{}
	hasObjectDefaults := false
	var structs []*smodel.T
	m.Walk(func(_ string, _ string, t *smodel.T) {
		for _, fl := range t.Fields {
			taken[c02NameKey(fl.Name)] = true
		}
		if t.Discriminator != "" {
			discs[t.Discriminator] = true
		}
		if (t.Kind == smodel.KRef || t.Kind == smodel.KStruct || t.Kind == smodel.KIntersection) && t.Default != nil {
			hasObjectDefaults = true
		}
		if t.Kind == smodel.KStruct && len(t.Fields) > 0 {
			structs = append(structs, t)
		}
	})
	if hasObjectDefaults || len(structs) == 0 {
		return nil, nil // object defaults are keyed by field names
	}
	n := rapid.IntRange(1, 3).Draw(rt, "ndecorated")
	for i := 0; i < n; i++ {
		st := structs[rapid.IntRange(0, len(structs)-1).Draw(rt, "decoratedstruct")]
		fi := rapid.IntRange(0, len(st.Fields)-1).Draw(rt, "decoratedfield")
		word := rapid.SampledFrom(c02Reserved).Draw(rt, "reservedword")
		deco := c02Decorations[rapid.IntRange(0, len(c02Decorations)-1).Draw(rt, "decoration")]
		name := deco.apply(word)
		if discs[st.Fields[fi].Name] || taken[c02NameKey(name)] {
			continue
		}
		if f == smodel.CUE && (strings.HasPrefix(name, "_") || strings.HasPrefix(name, "#")) {
			continue // hidden fields / definitions in CUE: not regular fields
		}
		if reason := c02NameExcluded(name, langs, c02ReachesStructUnion(m, st.Fields[fi].Type, 0), c02IsCollection(m, st.Fields[fi].Type, 0)); reason != "" {
			excluded = append(excluded, reason)
			continue
		}
		taken[c02NameKey(name)] = true
		st.Fields[fi].Name = name
		names = append(names, name)
	}
	return names, excluded
}

// ------------------------------------------------------- exotic fragments

// c02Exotic is a schema fragment at the border of what cog supports (enums,
// constants and defaults whose values are not of the kind the declared type
// announces, or of a kind the targets have no enum / constant for), spliced
// into the rendered source in one position.
type c02Exotic struct {
	Family string `json:"family"` // enum | const | default
	Place  string `json:"place"`  // inline | named | items | mapvalues
	// Declared: the declared type ("" = none); ValueKinds: the kinds of the
	// enum members / constant / default
	Declared   string   `json:"declared,omitempty"`
	ValueKinds []string `json:"value_kinds,omitempty"`
	NValues    int      `json:"n_values,omitempty"`
	// JSON: the fragment for JSON Schema / OpenAPI; CUE: for CUE
	JSON json.RawMessage `json:"json,omitempty"`
	CUE  string          `json:"cue,omitempty"`
}

var c02ValuePools = map[string][]any{
	"string":  {"a", "b", "on", "off", "with space", "1", "true"},
	"integer": {0, 1, 2, 7, 10}, // no negative next to its absolute value: the member names cog derives collide (N1)
	"number":  {0.5, 1.5, -2.25, 3.0},
	"boolean": {true, false},
	"array":   {[]any{1}, []any{"a"}, []any{}},
	"object":  {map[string]any{"a": 1}, map[string]any{}},
	"null":    {nil},
}

var c02ValueKinds = []string{"string", "integer", "number", "boolean", "array", "object"}

func c02DrawValues(rt *rapid.T, kind string, n int) []any {
	pool := c02ValuePools[kind]
	perm := rapid.Permutation(pool).Draw(rt, "values")
	if n > len(perm) {
		n = len(perm)
	}
	return append([]any{}, perm[:n]...)
}

func c02CueLit(v any) string {
	b, _ := json.Marshal(v)
	return string(b)
}

func c02KindOf(v any) string {
	switch x := v.(type) {
	case nil:
		return "null"
	case string:
		return "string"
	case bool:
		return "boolean"
	case int:
		return "integer"
	case float64:
		if x == float64(int64(x)) {
			return "integer" // 3.0 is written `3`
		}
		return "number"
	case []any:
		return "array"
	default:
		return "object"
	}
}

// drawC02Exotic draws one fragment for format f.
func drawC02Exotic(rt *rapid.T, f smodel.Format) c02Exotic {
	x := c02Exotic{
		Family: rapid.SampledFrom([]string{"enum", "enum", "enum", "const", "default"}).Draw(rt, "exoticfamily"),
		Place:  rapid.SampledFrom([]string{"inline", "named", "items", "mapvalues"}).Draw(rt, "exoticplace"),
	}
	// the declared type ("" = none) and the kind of the values: the same three
	// times out of four
	declared := rapid.SampledFrom(append([]string{""}, c02ValueKinds...)).Draw(rt, "declaredtype")
	kind := declared
	if declared == "" || rapid.IntRange(0, 3).Draw(rt, "mismatch") == 0 {
		kind = rapid.SampledFrom(c02ValueKinds).Draw(rt, "valuekind")
	}
	x.Declared = declared
	s := map[string]any{}
	if declared != "" {
		s["type"] = declared
		if declared == "array" && f == smodel.OpenAPI {
			s["items"] = map[string]any{} // required by the OpenAPI loader
		}
	}
	var values []any
	switch x.Family {
	case "enum":
		values = c02DrawValues(rt, kind, rapid.IntRange(1, 3).Draw(rt, "nvalues"))
		if rapid.IntRange(0, 5).Draw(rt, "mixed") == 0 {
			extra := c02DrawValues(rt, rapid.SampledFrom(c02ValueKinds).Draw(rt, "mixedkind"), 1)[0]
			dup := false
			for _, v := range values {
				dup = dup || c02CueLit(v) == c02CueLit(extra)
			}
			if !dup { // members are distinct
				values = append(values, extra)
			}
		}
		if rapid.IntRange(0, 5).Draw(rt, "withnull") == 0 {
			values = append(values, nil)
			if f == smodel.OpenAPI {
				s["nullable"] = true
			}
		}
		s["enum"] = values
	case "const":
		values = c02DrawValues(rt, kind, 1)
		if f == smodel.OpenAPI {
			s["enum"] = values // OpenAPI 3.0 has no `const`
		} else {
			s["const"] = values[0]
		}
	case "default":
		values = c02DrawValues(rt, kind, 1)
		s["default"] = values[0]
	}
	seen := map[string]bool{}
	for _, v := range values {
		if k := c02KindOf(v); !seen[k] {
			seen[k] = true
			x.ValueKinds = append(x.ValueKinds, k)
		}
	}
	sort.Strings(x.ValueKinds)
	x.NValues = len(values)
	if f == smodel.CUE {
		var lits []string
		for _, v := range values {
			lits = append(lits, c02CueLit(v))
		}
		switch x.Family {
		case "default":
			base := map[string]string{"": "_", "string": "string", "integer": "int", "number": "number", "boolean": "bool", "array": "[...]", "object": "{...}"}[declared]
			x.CUE = base + " | *" + lits[0]
		default:
			if rapid.IntRange(0, 3).Draw(rt, "cuedefault") == 0 && len(lits) > 1 {
				lits[0] = "*" + lits[0]
			}
			x.CUE = strings.Join(lits, " | ")
		}
		return x
	}
	b, _ := json.Marshal(s)
	x.JSON = b
	return x
}

// c02ExoticExcluded names the region of listed-in-the-report defects of the
// CLEAN checkout a fragment falls in ("" = none): such a fragment is not
// generated (the caller counts excluded_exotic:<reason>). Everything else is
// either refused by cog (an error: what the property asks of constructs a
// target cannot express) or generated as well-formed code.
func c02ExoticExcluded(f smodel.Format, x c02Exotic) string {
	only := func(kinds ...string) bool {
		for _, k := range x.ValueKinds {
			ok := false
			for _, a := range kinds {
				ok = ok || a == k
			}
			if !ok {
				return false
			}
		}
		return true
	}
	family := x.Family
	if family == "const" && f == smodel.OpenAPI {
		family = "enum" // rendered as a single-valued enum
	}
	if x.Place == "named" && (family != "enum" || (x.NValues == 1 && f != smodel.OpenAPI)) {
		// (a single-valued enum is a constant in JSON Schema and CUE)
		// a named scalar definition carrying a constant / default, referred to by
		// an optional field: Go assigns *string to *Named, compares a
		// non-pointer with nil...
		return "named-scalar-with-constant-or-default"
	}
	switch family {
	case "enum":
		switch f {
		case smodel.OpenAPI:
			switch x.Declared {
			case "boolean", "object", "array":
				return "" // refused: `only strings/numbers are supported`
			case "string":
				if !only("string") {
					return "openapi-string-enum-with-other-values-panics" // C04's matter
				}
			case "integer", "number":
				if !only("integer") {
					return "enum-members-not-checked-against-numeric-type"
				}
			default:
				if !only("string") && !only("integer") {
					return "untyped-enum-members-assumed-integers"
				}
			}
		case smodel.JSONSchema:
			// the declared type is ignored altogether; members that are not
			// strings are assumed to be integers
			if !only("string") && !only("integer") {
				return "untyped-enum-members-assumed-integers"
			}
		case smodel.CUE:
			if only("boolean") && x.Place == "named" {
				// `true | false` is a named bool (with a default when marked): the
				// named-scalar region above, and the PHP API reference prints
				// `unhandled type def kind: scalar` for a named scalar
				return "named-scalar-with-constant-or-default"
			}
			if only("object") {
				// `{} | {"a": 1}`: the PHP converter emits `case /* unhandled scalar type */:`
				return "cue-disjunction-of-struct-literals"
			}
			if !only("string") && !only("boolean") && !only("integer") && !only("array") {
				return "cue-disjunction-of-floats-or-mixed-literals"
			}
		}
	case "const":
		switch f {
		case smodel.JSONSchema:
			scalarMatch := len(x.ValueKinds) == 1 && (x.Declared == "" || x.Declared == x.ValueKinds[0] || (x.Declared == "number" && x.ValueKinds[0] == "integer"))
			if !(scalarMatch || x.Declared == "array" || x.Declared == "object") {
				return "constant-not-checked-against-declared-type"
			}
		}
	case "default":
		switch f {
		case smodel.JSONSchema:
			match := len(x.ValueKinds) == 1 && (x.Declared == "" || x.Declared == x.ValueKinds[0] || (x.Declared == "number" && x.ValueKinds[0] == "integer"))
			if !(match || x.Declared == "object") {
				return "default-not-checked-against-declared-type"
			}
		case smodel.CUE:
			if only("object") && x.Declared != "object" && x.Declared != "" {
				return "default-not-checked-against-declared-type"
			}
		}
	}
	return ""
}

const c02HolderName = "ZzHolder"

// c02Splice writes the fragments into the rendered source of the model: a new
// object definition ZzHolder with one property per fragment (the fragment
// itself, a reference to a new named definition holding it, an array of it, a
// map of it), which the entry point refers to (JSON Schema only declares what
// the root reaches).
func c02Splice(f smodel.Format, m *smodel.Model, source string, xs []c02Exotic) (string, error) {
	if f == smodel.CUE {
		var sb strings.Builder
		sb.WriteString(source)
		var holder strings.Builder
		fmt.Fprintf(&holder, "#%s: {\n", c02HolderName)
		for i, x := range xs {
			prop := fmt.Sprintf("zzExotic%d", i)
			switch x.Place {
			case "named":
				fmt.Fprintf(&sb, "#ZzNamed%d: %s\n\n", i, x.CUE)
				fmt.Fprintf(&holder, "\t%s?: #ZzNamed%d\n", prop, i)
			case "items":
				fmt.Fprintf(&holder, "\t%s?: [...(%s)]\n", prop, x.CUE)
			case "mapvalues":
				fmt.Fprintf(&holder, "\t%s?: [string]: %s\n", prop, x.CUE)
			default:
				fmt.Fprintf(&holder, "\t%s?: %s\n", prop, x.CUE)
			}
		}
		holder.WriteString("}\n")
		sb.WriteString(holder.String())
		return sb.String(), nil
	}
	var doc map[string]any
	dec := json.NewDecoder(strings.NewReader(source))
	dec.UseNumber()
	if err := dec.Decode(&doc); err != nil {
		return "", err
	}
	var defs map[string]any
	prefix := "#/definitions/"
	if f == smodel.OpenAPI {
		comps, _ := doc["components"].(map[string]any)
		defs, _ = comps["schemas"].(map[string]any)
		prefix = "#/components/schemas/"
	} else {
		defs, _ = doc["definitions"].(map[string]any)
	}
	entry, _ := defs[m.Entry].(map[string]any)
	props, _ := entry["properties"].(map[string]any)
	if defs == nil || props == nil {
		return "", fmt.Errorf("rendered source has no entry object %q", m.Entry)
	}
	holderProps := map[string]any{}
	for i, x := range xs {
		var frag any
		if err := json.Unmarshal(x.JSON, &frag); err != nil {
			return "", err
		}
		prop := fmt.Sprintf("zzExotic%d", i)
		switch x.Place {
		case "named":
			name := fmt.Sprintf("ZzNamed%d", i)
			defs[name] = frag
			holderProps[prop] = map[string]any{"$ref": prefix + name}
		case "items":
			holderProps[prop] = map[string]any{"type": "array", "items": frag}
		case "mapvalues":
			holderProps[prop] = map[string]any{"type": "object", "additionalProperties": frag}
		default:
			holderProps[prop] = frag
		}
	}
	defs[c02HolderName] = map[string]any{"type": "object", "properties": holderProps, "additionalProperties": false}
	props["zzHolder"] = map[string]any{"$ref": prefix + c02HolderName}
	out, err := json.MarshalIndent(doc, "", "  ")
	return string(out), err
}

func c02ExoticLabels(xs []c02Exotic) []string {
	set := map[string]bool{}
	for _, x := range xs {
		set["exotic:"+x.Family] = true
		set["exotic_place:"+x.Place] = true
	}
	out := make([]string, 0, len(set))
	for k := range set {
		out = append(out, k)
	}
	sort.Strings(out)
	return out
}
