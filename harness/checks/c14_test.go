package checks

// C14 — Go converters invert builders: the code they return rebuilds the
// object it was made from.

import (
	"fmt"
	"sort"
	"strings"
	"testing"

	"github.com/grafana/cog/verifharness/e2"
	"github.com/grafana/cog/verifharness/smodel"
	"github.com/grafana/cog/verifharness/vlib"
	"pgregory.net/rapid"
)

type c14Batch struct {
	Cases []schemaCase `json:"cases"`
}

var c14Output = e2.OutputSpec{Types: true, Builders: true, Converters: true, Go: &e2.GoFlags{JSON: true}}

// valueClass names a JSON value for signatures.
func valueClass(v any) string {
	switch x := v.(type) {
	case nil:
		return "null"
	case string:
		if x == "" {
			return "empty-string"
		}
		return "string"
	case bool:
		if !x {
			return "false"
		}
		return "true"
	case []any:
		if len(x) == 0 {
			return "empty-array"
		}
		return "array"
	case map[string]any:
		if len(x) == 0 {
			return "empty-object"
		}
		return "object"
	default:
		if s := fmt.Sprint(v); s == "0" || s == "0.0" {
			return "zero"
		}
		return "number"
	}
}

// rebuiltDiffs lists where the rebuilt object does not hold what v holds:
// every value present in v must be in the rebuilt object (objects and arrays
// compared recursively); what the rebuilt object has beyond v comes from the
// builders' defaults and is not judged.
func rebuiltDiffs(v, rebuilt any, path string, out *[][3]string) {
	switch x := v.(type) {
	case map[string]any:
		r, ok := rebuilt.(map[string]any)
		if !ok {
			*out = append(*out, [3]string{path, "altered", valueClass(v)})
			return
		}
		keys := make([]string, 0, len(x))
		for k := range x {
			keys = append(keys, k)
		}
		sort.Strings(keys)
		for _, k := range keys {
			rv, has := r[k]
			if !has {
				*out = append(*out, [3]string{path + "/" + k, "dropped", valueClass(x[k])})
				continue
			}
			rebuiltDiffs(x[k], rv, path+"/"+k, out)
		}
	case []any:
		r, ok := rebuilt.([]any)
		if !ok || len(r) != len(x) {
			*out = append(*out, [3]string{path, "altered", valueClass(v)})
			return
		}
		for i := range x {
			rebuiltDiffs(x[i], r[i], fmt.Sprintf("%s/%d", path, i), out)
		}
	default:
		if _, same := smodel.JSONEqual(v, rebuilt); !same {
			*out = append(*out, [3]string{path, "altered", valueClass(v)})
		}
	}
}

// hasNullStruct tells whether the value holds null where the model has a
// (nullable) reference to a struct or an inline struct: a builder cannot
// express it.
func hasNullStruct(m *smodel.Model, t smodel.T, v any, depth int) bool {
	if depth > 12 {
		return false
	}
	rt := m.Resolve(t)
	if bt, ok := m.UnionBranch(rt, v); ok {
		rt = bt
	}
	if v == nil {
		switch rt.Kind {
		case smodel.KStruct, smodel.KArray, smodel.KMap, smodel.KUStructs:
			return true
		}
		return false
	}
	switch rt.Kind {
	case smodel.KStruct:
		obj, ok := v.(map[string]any)
		if !ok {
			return false
		}
		for _, f := range rt.Fields {
			fv, present := obj[f.Name]
			if !present {
				continue
			}
			if hasNullStruct(m, f.Type, fv, depth+1) {
				return true
			}
		}
	case smodel.KArray:
		if list, ok := v.([]any); ok {
			for _, e := range list {
				if hasNullStruct(m, *rt.Elem, e, depth+1) {
					return true
				}
			}
		}
	case smodel.KMap:
		if mm, ok := v.(map[string]any); ok {
			for _, e := range mm {
				if hasNullStruct(m, *rt.Elem, e, depth+1) {
					return true
				}
			}
		}
	}
	return false
}

func c14CheckBatch(run *vlib.Run, cases []schemaCase) (map[int][]vlib.Violation, error) {
	out := map[int][]vlib.Violation{}
	p, err := e2Prepare(run, "c14", cases, c14Output)
	if err != nil {
		return nil, err
	}
	defer p.Close()
	type ref struct{ caseIdx, docIdx int }
	var reqs []e2.Request
	var refs []ref
	for i, c := range cases {
		if !p.usable[i] {
			continue
		}
		id := p.ids[i]
		for j, d := range c.Docs {
			goType, ok := goTypeFor(p.batch.Types[id], d.Def)
			if !ok {
				continue
			}
			conv := goType + "Converter"
			if _, has := p.batch.Converters[id][conv]; !has {
				count(run, "no_converter", 1)
				continue
			}
			if err := p.validators[i].Validate(d.Def, d.JSON); err != nil {
				count(run, "generator_oracle_mismatch:document", 1)
				continue
			}
			reqs = append(reqs, e2.Request{ID: len(reqs), Key: id + "/" + conv, Op: "convert", Doc: d.JSON})
			refs = append(refs, ref{i, j})
		}
	}
	if len(reqs) == 0 {
		return out, nil
	}
	resps, err := p.batch.Exec(reqs)
	if err != nil {
		return nil, err
	}
	programs := map[string][]string{}
	slot := map[int]int{} // request index -> index in programs[id]
	for k, r := range resps {
		i := refs[k].caseIdx
		c, d := cases[i], cases[i].Docs[refs[k].docIdx]
		if r.Panic != "" {
			ptag := nestedTag(c) + c14VeneerTag(c)
			if dv, perr := smodel.ParseJSON(d.JSON); perr == nil {
				if def := c.Model.Def(d.Def); def != nil && hasNullStruct(c.Model, def.Type, dv, 0) {
					ptag += ":null-struct"
				}
			}
			out[i] = append(out[i], vlib.V("converter-panics:"+string(c.Format)+ptag, "%s definition %s, document %s: the generated converter panics: %s", c.Format, d.Def, d.JSON, firstLine(r.Panic)))
			continue
		}
		if r.StdErr != "" || r.Missing {
			count(run, "documents_go_does_not_decode", 1)
			continue
		}
		slot[k] = len(programs[p.ids[i]])
		programs[p.ids[i]] = append(programs[p.ids[i]], r.Encoded)
	}
	results, err := p.batch.Stage2(programs)
	if err != nil {
		return nil, err
	}
	for k, r := range resps {
		idx, ok := slot[k]
		if !ok {
			continue
		}
		i := refs[k].caseIdx
		c, d := cases[i], cases[i].Docs[refs[k].docIdx]
		f := string(c.Format)
		tag := nestedTag(c) + c14VeneerTag(c)
		if dv, perr := smodel.ParseJSON(r.Encoded2); perr == nil {
			if def := c.Model.Def(d.Def); def != nil && hasNullStruct(c.Model, def.Type, dv, 0) {
				tag += ":null-struct"
			}
		}
		res := results[p.ids[i]][idx]
		bad := func(sig string, format string, args ...any) {
			out[i] = append(out[i], vlib.V(sig, "%s definition %s, value %s, converted code %s: "+format, append([]any{c.Format, d.Def, short200(r.Encoded2), short200(strings.ReplaceAll(r.Encoded, "\n", " "))}, args...)...))
		}
		if run != nil {
			run.Eval(vlib.HashBytes([]byte(c.source()), []byte(d.JSON)), "converted")
			run.Label(prefixAll("doc:", d.Features)...)
		}
		count(run, "documents", 1)
		count(run, "disagreements_checked", 1)
		if run != nil && len(r.Encoded) < 600 {
			run.Sample(map[string]any{"format": c.Format, "definition": d.Def, "value": r.Encoded2, "converted_code": r.Encoded, "rebuilt": res.Encoded})
		}
		switch {
		case res.NotAnExpression != "":
			// (the two-builders tag only matters here: see c14TwoBuildersTag)
			neTag := nestedTag(c) + c14VeneerTag(c) + c14TwoBuildersTag(c) + strings.TrimPrefix(tag, nestedTag(c)+c14VeneerTag(c))
			bad("not-an-expression:"+f+neTag, "is not a Go expression: %s", res.NotAnExpression)
			continue
		case res.CompileError != "":
			cls, ctag := diagClass("go", res.CompileError), tag
			if two := c14TwoBuildersTag(c); two != "" && strings.HasPrefix(cls, "not enough arguments in call") {
				// the argument left empty by guards that match no builder (listed
				// finding): `Links()` still parses, but does not compile
				cls = "not enough arguments in call"
				ctag = nestedTag(c) + c14VeneerTag(c) + two + strings.TrimPrefix(tag, nestedTag(c)+c14VeneerTag(c))
			}
			bad("converted-code-does-not-compile:"+f+":"+cls+ctag, "does not compile: %s", res.CompileError)
			continue
		case res.Panic != "":
			bad("converted-code-panics:"+f+tag, "panics: %s", firstLine(res.Panic))
			continue
		case res.BuildErr != "":
			bad("converted-code-build-fails:"+f+tag, "Build() fails: %s", firstLine(res.BuildErr))
			continue
		}
		// every option at most once in the outer chain
		seen := map[string]int{}
		for _, name := range res.Calls {
			seen[name]++
		}
		for name, n := range seen {
			// with an append-style option (array_to_append veneer) one call per
			// element is expected
			if n > 1 && !strings.Contains(strings.Join(c.Veneers, ""), "array_to_append") {
				bad("option-repeated:"+f+tag, "option %s appears %d times", name, n)
			}
		}
		v, err1 := smodel.ParseJSON(r.Encoded2)
		rebuilt, err2 := smodel.ParseJSON(res.Encoded)
		if err1 != nil || err2 != nil {
			bad("rebuilt-not-json:"+f, "%v %v", err1, err2)
			continue
		}
		var diffs [][3]string
		rebuiltDiffs(v, rebuilt, "", &diffs)
		reported := map[string]bool{}
		for _, df := range diffs {
			kind := modelKindAt(c.Model, d.Def, v, df[0])
			kind = strings.TrimSuffix(kind, ":value-is-null")
			// a value of the object with two builders that no guard matches is
			// converted to the empty string: inside a list / map it simply goes
			// missing (same listed finding as the empty argument)
			rtag := tag
			if two := c14TwoBuildersTag(c); two != "" && (df[1] == "dropped" || df[1] == "altered") {
				rtag = nestedTag(c) + c14VeneerTag(c) + two + strings.TrimPrefix(tag, nestedTag(c)+c14VeneerTag(c))
			}
			sig := fmt.Sprintf("rebuilt-differs:%s:%s:%s:at-%s%s", f, df[1], df[2], kind, rtag)
			if reported[sig] {
				continue
			}
			reported[sig] = true
			bad(sig, "the rebuilt object %s differs at %s (%s, value class %s)", short200(res.Encoded), df[0], df[1], df[2])
		}
	}
	for i := range out {
		out[i] = dedupeViolations(out[i])
	}
	return out, nil
}

// drawC14Veneers draws the veneers whose effect the converters must invert:
// options promoted to constructor arguments (required and optional scalar
// fields) and lists of unions exposed as one appending option per variant.
func drawC14Veneers(rt *rapid.T, sc schemaCase, multi *c14Multi) []string {
	m := sc.Model
	builders, options := map[string][]string{}, map[string][]string{}
	// promoting an OPTIONAL field is a listed finding (the converter
	// dereferences it unconditionally): one veneer set in three does it
	promoteOptional := rapid.IntRange(0, 2).Draw(rt, "promoteoptional") == 0
	for _, d := range m.Defs {
		if d.Type.Kind != smodel.KStruct {
			continue
		}
		pkg := sc.pkgOf(d.Name)
		var promoted []string
		for _, f := range d.Type.Fields {
			rt2 := m.Resolve(f.Type)
			switch {
			case f.Type.Const != nil:
			case f.Type.Kind == smodel.KArray && f.Type.Elem.Kind == smodel.KUStructs && !f.Type.Nullable:
				if rapid.Bool().Draw(rt, "appendunion") {
					options[pkg] = append(options[pkg], fmt.Sprintf("  - array_to_append: {by_name: %s.%s}\n  - disjunction_as_options: {by_name: %s.%s}\n", d.Name, f.Name, d.Name, f.Name))
				}
			case (rt2.Kind == smodel.KString || rt2.Kind == smodel.KInt || rt2.Kind == smodel.KBool || rt2.Kind == smodel.KFloat) && f.Type.Kind != smodel.KRef && !f.Type.Nullable:
				// the discriminating field of an object with two builders is a
				// constructor constant without option: promoting it too would
				// contradict that
				if multi != nil && d.Name == multi.Def && (f.Name == multi.Field || f.Name == "datasourceKind") {
					continue
				}
				if len(promoted) < 3 && (f.Required || promoteOptional) && rapid.IntRange(0, 2).Draw(rt, "promote") == 0 {
					promoted = append(promoted, f.Name)
				}
			}
		}
		if len(promoted) > 0 {
			builders[pkg] = append(builders[pkg], fmt.Sprintf("  - promote_options_to_constructor:\n      by_object: %s\n      options: [%s]\n", d.Name, strings.Join(promoted, ", ")))
		}
	}
	if multi != nil {
		pkg := sc.pkgOf(multi.Def)
		builders[pkg] = append([]string{multi.builderRules()}, builders[pkg]...)
		options[pkg] = append([]string{multi.optionRules()}, options[pkg]...)
	}
	pkgs := map[string]bool{}
	for p := range builders {
		pkgs[p] = true
	}
	for p := range options {
		pkgs[p] = true
	}
	var names []string
	for p := range pkgs {
		names = append(names, p)
	}
	sort.Strings(names)
	var files []string
	for _, p := range names {
		file := fmt.Sprintf("language: all\npackage: %s\n", p)
		if len(builders[p]) > 0 {
			file += "builders:\n" + strings.Join(builders[p], "")
		}
		if len(options[p]) > 0 {
			file += "options:\n" + strings.Join(options[p], "")
		}
		files = append(files, file)
	}
	return files
}

// c14Multi: one object gets two builders (duplicate veneer twice, the original
// omitted), told apart by a constant each constructor writes (initialize
// veneer) into a field that has no option any more. The converter of an object
// holding such values must pick, for each of them, the builder whose constants
// it matches.
type c14Multi struct {
	Def   string
	Field string
	// Plain: no constants at all: the object keeps its builder and gets a second
	// one, named so that it sorts first, that lacks the option of Field; the
	// converter has nothing to choose by and must keep to the first registered
	// builder (the complete one)
	Plain bool
	// Shared: the object also has a schema constant, written first by both
	// constructors
	Shared bool
}

func (mb c14Multi) builderRules() string {
	if mb.Plain {
		return fmt.Sprintf("  - duplicate: {by_name: %s, as: A%sLite, exclude_options: [%s]}\n", mb.Def, mb.Def, mb.Field)
	}
	return fmt.Sprintf("  - duplicate: {by_name: %s, as: %sFirst}\n  - duplicate: {by_name: %s, as: %sSecond}\n  - omit: {by_name: %s}\n  - initialize: {by_name: %sFirst, set: [{property: %s, value: first}]}\n  - initialize: {by_name: %sSecond, set: [{property: %s, value: second}]}\n",
		mb.Def, mb.Def, mb.Def, mb.Def, mb.Def, mb.Def, mb.Field, mb.Def, mb.Field)
}

func (mb c14Multi) optionRules() string {
	if mb.Plain {
		return ""
	}
	return fmt.Sprintf("  - omit: {by_builder: %sFirst.%s}\n  - omit: {by_builder: %sSecond.%s}\n", mb.Def, mb.Field, mb.Def, mb.Field)
}

// drawC14Multi picks an object other objects refer to, gives it the
// discriminating field (and, half of the time, a shared constant before it)
// and rewrites the documents so that every value of that object belongs to one
// of the two builders.
func drawC14Multi(rt *rapid.T, sc *schemaCase) *c14Multi {
	m := sc.Model
	referred := map[string]bool{}
	for _, d := range m.Defs {
		if d.Type.Kind != smodel.KStruct {
			continue
		}
		for _, f := range d.Type.Fields {
			t := f.Type
			if (t.Kind == smodel.KArray || t.Kind == smodel.KMap) && t.Elem != nil {
				t = *t.Elem
			}
			if t.Kind == smodel.KRef && !t.Nullable && t.Ref != d.Name {
				if td := m.Def(t.Ref); td != nil && td.Type.Kind == smodel.KStruct {
					referred[t.Ref] = true
				}
			}
		}
	}
	var candidates []string
	for _, d := range m.Defs {
		if !referred[d.Name] {
			continue
		}
		clash := false
		for _, f := range d.Type.Fields {
			if f.Name == "queryMode" || f.Name == "datasourceKind" {
				clash = true
			}
		}
		// variants of unions keep their builders: the union's options choose them
		for _, f := range d.Type.Fields {
			if f.Type.Const != nil && (f.Name == "kind" || f.Name == "type") {
				clash = true
			}
		}
		if !clash {
			candidates = append(candidates, d.Name)
		}
	}
	if len(candidates) == 0 {
		return nil
	}
	mb := &c14Multi{Def: rapid.SampledFrom(candidates).Draw(rt, "multidef"), Field: "queryMode", Shared: rapid.Bool().Draw(rt, "multishared")}
	if rapid.IntRange(0, 2).Draw(rt, "multiplain") == 0 {
		// an optional plain scalar field of the object, present in every value
		d := m.Def(mb.Def)
		var scalars []string
		hasConstant := false
		for _, f := range d.Type.Fields {
			rtf := m.Resolve(f.Type)
			if f.Type.Const != nil || rtf.Const != nil || (rtf.Kind == smodel.KEnum && len(rtf.Members) < 2) {
				// with constants both builders carry the same guards: which one
				// the converter takes is then the veneer author's ambiguity
				hasConstant = true
			}
		}
		for _, f := range d.Type.Fields {
			if hasConstant {
				break
			}
			k := f.Type.Kind
			if !f.Required && f.Type.Const == nil && !f.Type.Nullable && f.Type.Default == nil && (k == smodel.KString || k == smodel.KInt || k == smodel.KBool) && len(smodel.Violations(f.Type)) == 0 {
				scalars = append(scalars, f.Name)
			}
		}
		if len(scalars) > 0 {
			mb.Plain, mb.Shared = true, false
			mb.Field = rapid.SampledFrom(scalars).Draw(rt, "multiplainfield")
			for i, doc := range sc.Docs {
				v, err := smodel.ParseJSON(doc.JSON)
				if err != nil || m.Def(doc.Def) == nil {
					continue
				}
				c14PatchMulti(rt, m, smodel.T{Kind: smodel.KRef, Ref: doc.Def}, v, mb, 0)
				sc.Docs[i].JSON = string(rawOf(v))
			}
			return mb
		}
	}
	for i := range m.Defs {
		if m.Defs[i].Name != mb.Def {
			continue
		}
		var extra []smodel.Field
		if mb.Shared {
			extra = append(extra, smodel.Field{Name: "datasourceKind", Required: true, Type: smodel.T{Kind: smodel.KString, Const: smodel.Raw("prom")}})
		}
		extra = append(extra, smodel.Field{Name: "queryMode", Required: true, Type: smodel.T{Kind: smodel.KString}})
		m.Defs[i].Type.Fields = append(extra, m.Defs[i].Type.Fields...)
	}
	for i, d := range sc.Docs {
		v, err := smodel.ParseJSON(d.JSON)
		def := m.Def(d.Def)
		if err != nil || def == nil {
			continue
		}
		c14PatchMulti(rt, m, smodel.T{Kind: smodel.KRef, Ref: d.Def}, v, mb, 0)
		sc.Docs[i].JSON = string(rawOf(v))
	}
	return mb
}

// c14PatchMulti writes the discriminating field (and the shared constant) into
// every value of the object with two builders.
func c14PatchMulti(rt *rapid.T, m *smodel.Model, t smodel.T, v any, mb *c14Multi, depth int) {
	if depth > 12 || v == nil {
		return
	}
	isTarget := t.Kind == smodel.KRef && t.Ref == mb.Def
	rt2 := m.Resolve(t)
	if bt, ok := m.UnionBranch(rt2, v); ok {
		isTarget = isTarget || (bt.Kind == smodel.KRef && bt.Ref == mb.Def)
		rt2 = m.Resolve(bt)
	}
	switch rt2.Kind {
	case smodel.KStruct:
		obj, ok := v.(map[string]any)
		if !ok {
			return
		}
		if isTarget && mb.Plain {
			for _, f := range rt2.Fields {
				if f.Name == mb.Field {
					switch f.Type.Kind {
					case smodel.KString:
						obj[mb.Field] = "kept"
					case smodel.KInt:
						obj[mb.Field] = 7
					default:
						obj[mb.Field] = true
					}
				}
			}
		} else if isTarget {
			obj[mb.Field] = rapid.SampledFrom([]string{"first", "second"}).Draw(rt, "multivalue")
			if mb.Shared {
				obj["datasourceKind"] = "prom"
			}
		}
		for _, f := range rt2.Fields {
			if fv, present := obj[f.Name]; present {
				c14PatchMulti(rt, m, f.Type, fv, mb, depth+1)
			}
		}
	case smodel.KArray:
		if list, ok := v.([]any); ok {
			for _, e := range list {
				c14PatchMulti(rt, m, *rt2.Elem, e, mb, depth+1)
			}
		}
	case smodel.KMap:
		if mm, ok := v.(map[string]any); ok {
			for _, e := range mm {
				c14PatchMulti(rt, m, *rt2.Elem, e, mb, depth+1)
			}
		}
	}
}

// c14VeneerTag marks the cases whose veneers promote an optional field.
func c14VeneerTag(sc schemaCase) string {
	return c14PromotedTag(sc)
}

// c14TwoBuildersTag marks the cases where the object with two builders also has
// an OPTIONAL constant field: the guards choosing between its builders demand
// every constructor constant, so a value without that field matches no builder
// (listed finding).
func c14TwoBuildersTag(sc schemaCase) string {
	text := strings.Join(sc.Veneers, "")
	i := strings.Index(text, "  - duplicate: {by_name: ")
	if i < 0 {
		return ""
	}
	rest := text[i+len("  - duplicate: {by_name: "):]
	name := rest[:strings.Index(rest, ",")]
	d := sc.Model.Def(name)
	if d == nil {
		return ""
	}
	for _, f := range d.Type.Fields {
		rt := sc.Model.Resolve(f.Type)
		if !f.Required && (f.Type.Const != nil || rt.Const != nil || (rt.Kind == smodel.KEnum && len(rt.Members) < 2)) {
			return ":two-builders-optional-constant"
		}
	}
	return ""
}

func c14PromotedTag(sc schemaCase) string {
	text := strings.Join(sc.Veneers, "")
	if !strings.Contains(text, "promote_options_to_constructor") {
		return ""
	}
	for _, d := range sc.Model.Defs {
		if d.Type.Kind != smodel.KStruct || !strings.Contains(text, "by_object: "+d.Name+"\n") {
			continue
		}
		i := strings.Index(text, "by_object: "+d.Name+"\n")
		rest := text[i:]
		j := strings.Index(rest, "options: [")
		k := strings.Index(rest[j:], "]")
		for _, name := range strings.Split(rest[j+len("options: ["):j+k], ", ") {
			for _, f := range d.Type.Fields {
				if f.Name == name && !f.Required {
					return ":promoted-optional"
				}
			}
		}
	}
	return ""
}

func c14Check(b c14Batch) []vlib.Violation {
	res, err := c14CheckBatch(nil, b.Cases)
	if err != nil {
		return []vlib.Violation{vlib.V("harness", "%v", err)}
	}
	var out []vlib.Violation
	for i := range b.Cases {
		out = append(out, res[i]...)
	}
	return dedupeViolations(out)
}

func c14GenConfig(f smodel.Format) smodel.GenConfig {
	cfg := smodel.DefaultGenConfig(f)
	cfg.SafeNames = true
	cfg.NoBytes = true
	cfg.Focus = []string{"ref", "array_ref", "map_ref", "array_scalar", "map_scalar", "enum_ref", "const_string", "default_string", "default_int", "default_bool", "union_scalars", "union_structs", "array_union_structs", "nullable_scalar", "anon_struct"}
	return cfg
}

func TestC14(t *testing.T) {
	run := vlib.Begin(t, "C14")
	defer run.Finish(t)
	run.Describe(
		"Batches of K schema models (K=4 quick, 8 thorough) per rapid case in the three input formats (nested structs => nested builders, arrays and maps of struct references, unions of scalars and of structs, enums, constants, defaults, nullable scalars, anonymous structs, two-package OpenAPI inputs), 2 valid documents per struct definition. cog generates Go types + builders + converters (json on). Stage 1: the compiled XConverter(v) is called on every decoded document v and returns Go source text. Stage 2: every text must parse as a Go expression; all expressions of a case are wrapped in `(<expr>).Build()`, compiled as a package of the same module and executed. Oracle: stage 2 compiles and Build() succeeds; every value present in json(v) is present and equal in json(rebuilt) (objects and arrays recursively; what the rebuilt object has beyond v comes from builder defaults and is not judged); no option appears twice in the outer call chain. Non-trivial: every converted document; distinct by (schema, document).",
		"documents are valid by construction for the source schema; v is what Go decoded from them (its own encoding is the reference)",
		"cog.Dump, which converters call and cog does not emit (listed under C02), is supplied from the repository's own testdata runtime",
		"half of the schemas get veneers the converters must invert: scalar options (required and optional) promoted to constructor arguments, and lists of unions of structs exposed as one appending option per variant (array_to_append + disjunction_as_options)",
		"half of those also get TWO BUILDERS FOR ONE OBJECT: an object other objects refer to (directly, in a list or in a map) gets a required string field queryMode (and, half of the time, a constant datasourceKind before it); its builder is duplicated twice and omitted, each copy's constructor writes its own queryMode (initialize veneer: first / second) and the queryMode option is omitted; every value of that object in the documents is given one of the two modes. The converter of the referring object must pick, per value, the builder whose constants the value matches: the rebuilt object differs otherwise",
	)
	if vlib.RunReplay(t, run, c14Check) {
		return
	}
	k := 4
	if vlib.Thorough() {
		k = 8
	}
	rapid.Check(t, func(rt *rapid.T) {
		var cases []schemaCase
		for i := 0; i < k; i++ {
			f := rapid.SampledFrom(smodel.Formats).Draw(rt, "format")
			sc := drawSchemaCase(rt, c14GenConfig(f), 2)
			if rapid.Bool().Draw(rt, "veneers") {
				var multi *c14Multi
				if rapid.Bool().Draw(rt, "twobuilders") {
					multi = drawC14Multi(rt, &sc)
				}
				sc.Veneers = drawC14Veneers(rt, sc, multi)
			}
			cases = append(cases, sc)
		}
		res, err := c14CheckBatch(run, cases)
		if err != nil {
			run.Inconclusive("batch failed: %v", err)
			rt.Fatalf("harness: %v", err)
		}
		for _, c := range cases {
			if len(c.Veneers) > 0 {
				run.Label("veneers")
				if strings.Contains(strings.Join(c.Veneers, ""), "array_to_append") {
					run.Label("veneer:array_to_append+disjunction_as_options")
				}
				if strings.Contains(strings.Join(c.Veneers, ""), "promote_options_to_constructor") {
					run.Label("veneer:promote_options_to_constructor")
				}
				if strings.Contains(strings.Join(c.Veneers, ""), "duplicate:") {
					run.Label("veneer:two-builders-for-one-object")
					if strings.Contains(c.source(), "datasourceKind") {
						run.Label("veneer:two-builders-sharing-a-constant")
					}
				}
			}
			run.Label(c.Model.Features()...)
			run.Label("input:" + string(c.Format))
		}
		for i := range cases {
			if vs := res[i]; len(vs) > 0 {
				vlib.Fail(rt, run.Judge(c14Batch{Cases: []schemaCase{cases[i]}}, vs))
			}
		}
	})
	e2Health(run)
}
