package checks

// C12 — the JSON Schema / OpenAPI documents cog emits describe the same
// documents as the generated types.

import (
	"encoding/json"
	"errors"
	"fmt"
	"net/url"
	"sort"
	"strings"
	"testing"

	"github.com/getkin/kin-openapi/openapi3"
	"github.com/grafana/cog/internal/ast"
	"github.com/grafana/cog/verifharness/e2"
	"github.com/grafana/cog/verifharness/smodel"
	"github.com/grafana/cog/verifharness/vlib"
	"github.com/santhosh-tekuri/jsonschema/v5"
	"pgregory.net/rapid"
)

type c12Batch struct {
	Cases []c12Case `json:"cases"`
}

// emitted is one schema document cog wrote.
type c12Emitted struct {
	kind string // jsonschema | openapi
	pkg  string
	text string
	root map[string]any
	defs map[string]any
}

func c12FindEmitted(files e2.Files, pkg string, kind string) (*c12Emitted, bool) {
	suffix := "/" + pkg + "." + kind + ".json"
	for _, p := range files.Paths() {
		if strings.HasSuffix("/"+p, suffix) {
			e := &c12Emitted{kind: kind, pkg: pkg, text: string(files[p])}
			v, err := smodel.ParseJSON(e.text)
			if err != nil {
				return e, true
			}
			e.root, _ = v.(map[string]any)
			if kind == "jsonschema" {
				e.defs, _ = e.root["definitions"].(map[string]any)
			} else if comps, ok := e.root["components"].(map[string]any); ok {
				e.defs, _ = comps["schemas"].(map[string]any)
			}
			return e, true
		}
	}
	return nil, false
}

func (e *c12Emitted) defNames() []string {
	var out []string
	for k := range e.defs {
		out = append(out, k)
	}
	sort.Strings(out)
	return out
}

// defFor finds the emitted definition of a model definition.
func (e *c12Emitted) defFor(name string) (string, map[string]any, bool) {
	if d, ok := e.defs[name].(map[string]any); ok {
		return name, d, true
	}
	return "", nil, false
}

// jsLeaves returns the leaf causes of a JSON Schema validation error. Under
// anyOf/oneOf every branch reports why it failed: the branches that fail on a
// `const` (the discriminator of another variant) are not the reason when some
// other branch fails for a different reason.
func jsLeaves(e *jsonschema.ValidationError) []*jsonschema.ValidationError {
	if len(e.Causes) == 0 {
		return []*jsonschema.ValidationError{e}
	}
	kw := e.KeywordLocation
	if i := strings.LastIndex(kw, "/"); i >= 0 {
		kw = kw[i+1:]
	}
	if kw == "anyOf" || kw == "oneOf" {
		var plausible, all []*jsonschema.ValidationError
		for _, branch := range e.Causes {
			leaves := jsLeaves(branch)
			all = append(all, leaves...)
			wrongVariant := false
			for _, l := range leaves {
				if strings.HasSuffix(l.KeywordLocation, "/const") || strings.HasSuffix(l.KeywordLocation, "/enum") {
					wrongVariant = true
				}
			}
			if !wrongVariant {
				plausible = append(plausible, leaves...)
			}
		}
		if len(plausible) > 0 {
			return plausible
		}
		return all
	}
	var out []*jsonschema.ValidationError
	for _, c := range e.Causes {
		out = append(out, jsLeaves(c)...)
	}
	return out
}

// rejectionClass names a validation failure: the failing keyword, the kind of
// the source model's type at the failing position and whether the value there
// is null.
func rejectionClasses(m *smodel.Model, def string, encoded string, err error) []string {
	type at struct{ keyword, pointer string }
	var places []at
	switch e := err.(type) {
	case *jsonschema.ValidationError:
		for _, l := range jsLeaves(e) {
			keyword := l.KeywordLocation
			if i := strings.LastIndex(keyword, "/"); i >= 0 {
				keyword = keyword[i+1:]
			}
			places = append(places, at{keyword, l.InstanceLocation})
		}
	default:
		var se *openapi3.SchemaError
		if errors.As(err, &se) {
			pointer := "/" + strings.Join(se.JSONPointer(), "/")
			if pointer == "/" {
				pointer = ""
			}
			places = append(places, at{se.SchemaField, pointer})
		} else {
			places = append(places, at{"error", ""})
		}
	}
	doc, _ := smodel.ParseJSON(encoded)
	set := map[string]bool{}
	for _, pl := range places {
		set[pl.keyword+":at-"+modelKindAt(m, def, doc, pl.pointer)] = true
	}
	var classes []string
	for c := range set {
		classes = append(classes, c)
	}
	sort.Strings(classes)
	return classes
}

// modelKindAt walks the source model along a JSON pointer into a document.
func modelKindAt(m *smodel.Model, def string, doc any, pointer string) string {
	var segs []string
	if pointer != "" {
		segs = strings.Split(strings.TrimPrefix(pointer, "/"), "/")
	}
	d := m.Def(def)
	if d == nil {
		return "?"
	}
	t := d.Type
	cur := doc
	for _, seg := range segs {
		// santhosh writes instance locations as URL-escaped JSON pointers
		if un, err := url.PathUnescape(seg); err == nil {
			seg = un
		}
		seg = strings.NewReplacer("~1", "/", "~0", "~").Replace(seg)
		t = m.Resolve(t)
		if bt, ok := m.UnionBranch(t, cur); ok {
			t = bt
		}
		stop := false
		switch t.Kind {
		case smodel.KStruct:
			found := false
			for _, f := range t.Fields {
				if f.Name == seg {
					t, found = f.Type, true
					break
				}
			}
			if !found {
				t, stop = smodel.T{Kind: "undeclared"}, true
			}
		case smodel.KArray, smodel.KMap:
			t = *t.Elem
		default:
			t, stop = smodel.T{Kind: "under-" + t.Kind}, true
		}
		switch c := cur.(type) {
		case map[string]any:
			cur = c[seg]
		case []any:
			var idx int
			fmt.Sscanf(seg, "%d", &idx)
			if idx < len(c) {
				cur = c[idx]
			}
		}
		if stop {
			break
		}
	}
	kind := t.Kind
	if t.Nullable {
		kind = "nullable-" + kind
	}
	if cur == nil {
		kind += ":value-is-null"
	}
	return kind
}

// c12Walker compares the constraints, required-ness, enum values, constants
// and defaults of the source model with what an emitted document says.
type c12Walker struct {
	m      *smodel.Model
	e      *c12Emitted
	in     smodel.Format
	report func(sig string, msg string)
}

func (w *c12Walker) sig(what string, kind string) string {
	return fmt.Sprintf("carry:%s:%s:from-%s:%s", what, w.e.kind, w.in, kind)
}

func asMap(v any) map[string]any {
	m, _ := v.(map[string]any)
	return m
}

// unwrapNull strips the spellings of nullability.
func unwrapNull(n map[string]any) (map[string]any, bool) {
	if n == nil {
		return nil, false
	}
	if b, ok := n["nullable"].(bool); ok && b {
		return n, true
	}
	if types, ok := n["type"].([]any); ok {
		for _, t := range types {
			if t == "null" {
				return n, true
			}
		}
	}
	for _, key := range []string{"anyOf", "oneOf"} {
		branches, ok := n[key].([]any)
		if !ok || len(branches) != 2 {
			continue
		}
		for i, b := range branches {
			if bm := asMap(b); bm != nil && bm["type"] == "null" {
				return asMap(branches[1-i]), true
			}
		}
	}
	return n, false
}

func numEq(a any, b float64, integer bool) bool {
	_, same := smodel.JSONEqual(a, json.Number(numText(b, integer)))
	return same
}

func numText(f float64, integer bool) string {
	if integer || f == float64(int64(f)) {
		return fmt.Sprintf("%d", int64(f))
	}
	return fmt.Sprintf("%v", f)
}

func (w *c12Walker) walk(t smodel.T, n map[string]any, path string) {
	if n == nil {
		w.report(w.sig("node-missing", t.Kind), fmt.Sprintf("%s: nothing emitted for a %s", path, t.Kind))
		return
	}
	inner, nullable := unwrapNull(n)
	if t.Nullable && !nullable {
		w.report(w.sig("nullable-not-expressed", t.Kind), fmt.Sprintf("%s: the source allows null, the emitted schema %s does not", path, short80(n)))
	}
	n = inner
	if n == nil {
		return
	}
	checkBound := func(keyword string, want *float64, integer bool) {
		got, has := n[keyword]
		switch {
		case want == nil && has:
			w.report(w.sig("bound-invented:"+keyword, t.Kind), fmt.Sprintf("%s: the emitted schema has %s=%v, the source has no such bound", path, keyword, got))
		case want != nil && !has:
			w.report(w.sig("bound-missing:"+keyword, t.Kind), fmt.Sprintf("%s: the source bound %s=%s is not in the emitted schema %s", path, keyword, numText(*want, integer), short80(n)))
		case want != nil && !numEq(got, *want, integer):
			w.report(w.sig("bound-altered:"+keyword, t.Kind), fmt.Sprintf("%s: %s is %v in the emitted schema, %s in the source", path, keyword, got, numText(*want, integer)))
		}
	}
	checkType := func(want string) {
		if got, ok := n["type"].(string); ok && got != want {
			w.report(w.sig("type-altered", t.Kind), fmt.Sprintf("%s: emitted type %q, want %q", path, got, want))
		}
	}
	if t.Const != nil {
		want, _ := smodel.ParseJSON(string(*t.Const))
		got, has := n["const"]
		if !has {
			w.report(w.sig("const-missing", t.Kind), fmt.Sprintf("%s: the constant %s is not in the emitted schema %s", path, short80(want), short80(n)))
		} else if _, same := smodel.JSONEqual(want, got); !same {
			w.report(w.sig("const-altered", t.Kind), fmt.Sprintf("%s: constant %s emitted as %s", path, short80(want), short80(got)))
		}
	}
	switch t.Kind {
	case smodel.KRef:
		ref, _ := n["$ref"].(string)
		if !strings.HasSuffix(ref, "/"+t.Ref) {
			w.report(w.sig("ref-altered", t.Kind), fmt.Sprintf("%s: reference to %s emitted as %s", path, t.Ref, short80(n)))
		}
	case smodel.KStruct:
		checkType("object")
		props := asMap(n["properties"])
		wantReq, gotReq := map[string]bool{}, map[string]bool{}
		for _, f := range t.Fields {
			if f.Required {
				wantReq[f.Name] = true
			}
		}
		if list, ok := n["required"].([]any); ok {
			for _, r := range list {
				if s, ok := r.(string); ok {
					gotReq[s] = true
				}
			}
		}
		for _, f := range t.Fields {
			fp := path + "." + f.Name
			if wantReq[f.Name] != gotReq[f.Name] {
				w.report(w.sig(map[bool]string{true: "required-dropped", false: "required-invented"}[wantReq[f.Name]], f.Type.Kind), fmt.Sprintf("%s: required=%v in the source, %v in the emitted schema", fp, wantReq[f.Name], gotReq[f.Name]))
			}
			prop := asMap(props[f.Name])
			if prop == nil {
				w.report(w.sig("property-missing", f.Type.Kind), fmt.Sprintf("%s: no property of that name in the emitted schema (properties: %v)", fp, keysOfAny(props)))
				continue
			}
			got, has := prop["default"]
			switch {
			case f.Type.Default != nil:
				want, _ := smodel.ParseJSON(string(*f.Type.Default))
				if !has {
					w.report(w.sig("default-missing", f.Type.Kind), fmt.Sprintf("%s: the default %s is not in the emitted schema %s", fp, short80(want), short80(prop)))
				} else if _, same := smodel.JSONEqual(want, got); !same {
					w.report(w.sig("default-altered", f.Type.Kind), fmt.Sprintf("%s: default %s emitted as %s", fp, short80(want), short80(got)))
				}
			case has && w.m.Resolve(f.Type).Default == nil:
				w.report(w.sig("default-invented", f.Type.Kind), fmt.Sprintf("%s: the emitted schema declares the default %s, the source none", fp, short80(got)))
			}
			w.walk(f.Type, prop, fp)
		}
	case smodel.KString:
		checkType("string")
		var minLen, maxLen *float64
		if t.MinLen != nil {
			minLen = smodel.FloatPtr(float64(*t.MinLen))
		}
		if t.MaxLen != nil {
			maxLen = smodel.FloatPtr(float64(*t.MaxLen))
		}
		checkBound("minLength", minLen, true)
		checkBound("maxLength", maxLen, true)
	case smodel.KInt, smodel.KFloat:
		integer := t.Kind == smodel.KInt
		checkType(map[bool]string{true: "integer", false: "number"}[integer])
		var min, xmin, max, xmax *float64
		if t.Min != nil {
			if t.ExclMin {
				xmin = t.Min
			} else {
				min = t.Min
			}
		}
		if t.Max != nil {
			if t.ExclMax {
				xmax = t.Max
			} else {
				max = t.Max
			}
		}
		if w.in == smodel.CUE && integer && min != nil && *min == 0 {
			// cog reads `int64 & >=0` as an unsigned integer type
			if _, has := n["minimum"]; !has {
				w.report(w.sig("unsigned-without-minimum-zero", t.Kind), fmt.Sprintf("%s: the source bound >=0 became an unsigned type, the emitted schema %s accepts negative numbers", path, short80(n)))
			}
			min = nil
			delete(n, "minimum")
		}
		if t.Const == nil {
			checkBound("minimum", min, integer)
			checkBound("exclusiveMinimum", xmin, integer)
			checkBound("maximum", max, integer)
			checkBound("exclusiveMaximum", xmax, integer)
		}
	case smodel.KBool:
		checkType("boolean")
	case smodel.KEnum:
		var want []any
		for i := range t.Members {
			v, _ := smodel.ParseJSON(string(t.Members[i]))
			want = append(want, v)
		}
		got, _ := n["enum"].([]any)
		if c, has := n["const"]; has && len(want) == 1 && got == nil {
			got = []any{c} // a single-member enum is a constant
		}
		if _, same := smodel.JSONEqual(want, got); !same {
			w.report(w.sig("enum-values-altered", t.EnumKind), fmt.Sprintf("%s: enum values %s emitted as %s", path, short80(want), short80(n["enum"])))
		}
	case smodel.KArray:
		checkType("array")
		w.walk(*t.Elem, asMap(n["items"]), path+"[]")
	case smodel.KMap:
		checkType("object")
		w.walk(*t.Elem, asMap(n["additionalProperties"]), path+"{}")
	case smodel.KUStructs:
		branches, _ := n["anyOf"].([]any)
		if branches == nil {
			branches, _ = n["oneOf"].([]any)
		}
		got := map[string]bool{}
		for _, b := range branches {
			ref, _ := asMap(b)["$ref"].(string)
			got[ref[strings.LastIndex(ref, "/")+1:]] = true
		}
		for _, r := range t.Refs {
			if !got[r] {
				w.report(w.sig("union-branch-missing", t.Kind), fmt.Sprintf("%s: branch %s is not in the emitted schema %s", path, r, short80(n)))
			}
		}
		if len(got) != len(t.Refs) {
			w.report(w.sig("union-branches-altered", t.Kind), fmt.Sprintf("%s: %d branches in the source, emitted %s", path, len(t.Refs), short80(n)))
		}
	case smodel.KUScalars:
		branches, _ := n["anyOf"].([]any)
		if types, ok := n["type"].([]any); ok && branches == nil {
			branches = types
		}
		if len(branches) != len(t.Branches) {
			w.report(w.sig("union-branches-altered", t.Kind), fmt.Sprintf("%s: %d branches in the source, emitted %s", path, len(t.Branches), short80(n)))
		} else {
			// collections (of anonymous structs) as branches: compared one by one,
			// in the order of the source
			for i, b := range t.Branches {
				if bn := asMap(branches[i]); bn != nil && (b.Kind == smodel.KArray || b.Kind == smodel.KMap || b.Kind == smodel.KStruct) {
					w.walk(b, bn, fmt.Sprintf("%s|%d", path, i))
				}
			}
		}
	}
}

func keysOfAny(m map[string]any) []string {
	var out []string
	for k := range m {
		out = append(out, k)
	}
	sort.Strings(out)
	return out
}

// c12IRObject is what the IR says of one object: its struct fields and, per
// field ("" for an object that is no struct), the names of the fields of the
// anonymous structs nested below it (through lists, maps, unions).
type c12IRObject struct {
	fields []string
	nested map[string][]string
}

func c12NestedFieldNames(t ast.Type, out *[]string) {
	switch {
	case t.Struct != nil:
		for _, f := range t.Struct.Fields {
			*out = append(*out, f.Name)
			c12NestedFieldNames(f.Type, out)
		}
	case t.Array != nil:
		c12NestedFieldNames(t.Array.ValueType, out)
	case t.Map != nil:
		c12NestedFieldNames(t.Map.ValueType, out)
	case t.Disjunction != nil:
		for _, b := range t.Disjunction.Branches {
			c12NestedFieldNames(b, out)
		}
	case t.Intersection != nil:
		for _, b := range t.Intersection.Branches {
			c12NestedFieldNames(b, out)
		}
	}
}

// c12IRNames lists, per package, the object names and struct field names of
// the IR cog parsed (after the transformations of the run).
func c12IRNames(schemas ast.Schemas) map[string]map[string]c12IRObject {
	out := map[string]map[string]c12IRObject{}
	for _, s := range schemas {
		if out[s.Package] == nil {
			out[s.Package] = map[string]c12IRObject{}
		}
		s.Objects.Iterate(func(_ string, o ast.Object) {
			obj := c12IRObject{nested: map[string][]string{}}
			if o.Type.IsStruct() {
				for _, f := range o.Type.Struct.Fields {
					obj.fields = append(obj.fields, f.Name)
					var nested []string
					c12NestedFieldNames(f.Type, &nested)
					obj.nested[f.Name] = nested
				}
			} else {
				var nested []string
				c12NestedFieldNames(o.Type, &nested)
				obj.nested[""] = nested
			}
			out[s.Package][o.Name] = obj
		})
	}
	return out
}

// c12PropNames collects every property name declared below a node of an
// emitted document (references are not followed).
func c12PropNames(node any, out map[string]bool) {
	switch x := node.(type) {
	case map[string]any:
		for k, v := range x {
			if props, ok := v.(map[string]any); ok && k == "properties" {
				for name, sub := range props {
					out[name] = true
					c12PropNames(sub, out)
				}
				continue
			}
			c12PropNames(v, out)
		}
	case []any:
		for _, e := range x {
			c12PropNames(e, out)
		}
	}
}

// c12Refs collects every `$ref` of a document with the place it occurs at.
func c12Refs(node any, at string, out map[string]string) {
	switch x := node.(type) {
	case map[string]any:
		for k, v := range x {
			if ref, ok := v.(string); ok && k == "$ref" {
				if _, seen := out[ref]; !seen || at < out[ref] {
					out[ref] = at
				}
				continue
			}
			c12Refs(v, at+"/"+k, out)
		}
	case []any:
		for i, e := range x {
			c12Refs(e, fmt.Sprintf("%s/%d", at, i), out)
		}
	}
}

// c12Resolves tells whether a local reference (#/a/b) designates something.
func c12Resolves(root any, ref string) bool {
	if ref == "#" {
		return true
	}
	if !strings.HasPrefix(ref, "#/") {
		return false
	}
	cur := root
	for _, seg := range strings.Split(strings.TrimPrefix(ref, "#/"), "/") {
		if un, err := url.PathUnescape(seg); err == nil {
			seg = un
		}
		seg = strings.NewReplacer("~1", "/", "~0", "~").Replace(seg)
		switch c := cur.(type) {
		case map[string]any:
			next, ok := c[seg]
			if !ok {
				return false
			}
			cur = next
		case []any:
			var idx int
			if _, err := fmt.Sscanf(seg, "%d", &idx); err != nil || idx < 0 || idx >= len(c) {
				return false
			}
			cur = c[idx]
		default:
			return false
		}
	}
	return true
}

// c12RefPlace names where a dangling reference sits: the document root, or
// inside the definitions.
func c12RefPlace(at string) string {
	if at == "" {
		return "root"
	}
	return "definition"
}

// c12CompileRoot compiles the emitted JSON Schema as a whole (the root schema,
// not only its definitions one by one) with the independent loader.
func c12CompileRoot(text string) error {
	comp := jsonschema.NewCompiler()
	comp.Draft = jsonschema.Draft7
	if err := comp.AddResource("mem://emitted.json", strings.NewReader(text)); err != nil {
		return err
	}
	_, err := comp.Compile("mem://emitted.json")
	return err
}

func c12LoaderClass(err error) string {
	msg := err.Error()
	switch {
	case strings.Contains(msg, "cannot unmarshal number into field Schema.exclusiveM"):
		return "numeric-exclusive-bound"
	case strings.Contains(msg, "extra sibling fields: [const]"):
		return "const-keyword"
	case strings.Contains(msg, "not found") || strings.Contains(msg, "resolv") || strings.Contains(msg, "bad data in"):
		return "unresolved-ref"
	}
	return "invalid"
}

func c12CheckBatch(run *vlib.Run, cases []c12Case) (map[int][]vlib.Violation, error) {
	out := map[int][]vlib.Violation{}
	p, err := c12Prepare(run, cases)
	if err != nil {
		return nil, err
	}
	defer p.Close()
	type docRef struct {
		caseIdx, docIdx int
		def             string // the definition's name after the transformations
		assigned        bool   // value built by field assignment (probe), not by the generated decoder
	}
	var reqs []e2.Request
	var refs []docRef
	emitted := map[int]map[string]*c12Emitted{} // case -> kind/pkg -> document
	validators := map[int]map[string]*smodel.Validator{}
	for i, c := range cases {
		if !p.generated[i] {
			continue
		}
		eff := p.eff[i]
		f := string(c.Format)
		add := func(sig string, format string, args ...any) {
			out[i] = append(out[i], vlib.V(sig, "%s schema: "+format, append([]any{c.Format}, args...)...))
		}
		emitted[i] = map[string]*c12Emitted{}
		validators[i] = map[string]*smodel.Validator{}
		pkgs := []string{c.Model.Package}
		if c.SplitPkg != "" {
			pkgs = append(pkgs, c.SplitPkg)
		}
		// the IR cog parsed and transformed (names), loaded by a pipeline of its own
		var irNames map[string]map[string]c12IRObject
		irWork := workDir("c12ir")
		if pl, perr := e2.NewPipeline(irWork, "x", c.pipelineInputs(), e2.OutputSpec{CommonPasses: c.outputSpec("x").CommonPasses}); perr == nil {
			if schemas, lerr := e2.LoadSchemas(pl); lerr == nil {
				irNames = c12IRNames(schemas)
			}
		}
		removeAll(irWork)
		for _, pkg := range pkgs {
			for _, kind := range []string{"jsonschema", "openapi"} {
				e, ok := c12FindEmitted(p.files[i], pkg, kind)
				if !ok {
					add("output-missing:"+kind+":from-"+f, "no %s.%s.json was generated (files: %v)", pkg, kind, p.files[i].Paths())
					continue
				}
				if e.root == nil || e.defs == nil {
					add("output-not-a-document:"+kind+":from-"+f, "%s.%s.json is not a JSON document with definitions: %s", pkg, kind, short80(e.text))
					continue
				}
				emitted[i][kind+"/"+pkg] = e
				count(run, "emitted_documents", 1)
				// (0) every $ref designates something in the document (own resolver:
				// the loaders stop at the first thing they dislike)
				docRefs := map[string]string{}
				c12Refs(e.root, "", docRefs)
				for _, ref := range sortedKeys(docRefs) {
					if run != nil {
						run.Eval(vlib.HashBytes([]byte(c.source()), []byte(kind), []byte(ref), []byte(strings.Join(c.order(), ","))), "ref:"+kind)
					}
					if !c12Resolves(e.root, ref) {
						add("dangling-ref:"+kind+":from-"+f+":"+c12RefPlace(docRefs[ref]), "%s.%s.json: the $ref %q (at %s) designates nothing in the document (definitions: %v; order of the outputs: %v; passes: %v)", pkg, kind, ref, docRefs[ref]+"/$ref", e.defNames(), c.order(), c.Passes)
					}
				}
				// (1) independent loader
				format := smodel.JSONSchema
				if kind == "openapi" {
					format = smodel.OpenAPI
				}
				v, verr := smodel.NewValidatorFor(format, e.defNames(), e.text)
				if verr != nil {
					add("emitted-invalid:"+kind+":from-"+f+":"+c12LoaderClass(verr), "the independent loader refuses %s.%s.json: %s", pkg, kind, firstLine(verr.Error()))
				} else {
					validators[i][kind+"/"+pkg] = v
					if kind == "jsonschema" {
						// ... and the document as a whole (its root schema), not only its definitions
						if rerr := c12CompileRoot(e.text); rerr != nil {
							add("emitted-invalid:"+kind+":from-"+f+":"+c12LoaderClass(rerr), "the independent loader refuses the root schema of %s.%s.json: %s", pkg, kind, firstLine(rerr.Error()))
						}
					}
				}
				// (2) cog's own parser
				work := workDir("c12back")
				pl, perr := e2.NewPipeline(work, "x", []e2.InputSpec{{Format: format, Package: pkg, Source: e.text}}, e2.OutputSpec{})
				if perr == nil {
					_, msg, panicked := vlib.Guard(func() {
						if _, lerr := e2.LoadSchemas(pl); lerr != nil {
							cls := ""
							if strings.Contains(lerr.Error(), "cannot unmarshal number into field Schema.exclusiveM") {
								cls = ":numeric-exclusive-bound"
							} else if strings.Contains(lerr.Error(), "extra sibling fields: [const]") {
								cls = ":const-keyword"
							}
							add("cog-refuses-own-output:"+kind+":from-"+f+cls, "cog's %s parser refuses %s.%s.json: %s", kind, pkg, kind, firstLine(lerr.Error()))
						}
					})
					if panicked {
						add("cog-panics-on-own-output:"+kind+":from-"+f, "cog's %s parser panics on %s.%s.json: %s", kind, pkg, kind, firstLine(msg))
					}
				}
				removeAll(work)
				// (3) names: IR objects and fields (also those of nested anonymous structs)
				for _, obj := range sortedKeys(irNames[pkg]) {
					ir := irNames[pkg][obj]
					def := asMap(e.defs[obj])
					if def == nil {
						add("ir-object-missing:"+kind+":from-"+f, "IR object %s.%s has no definition of that name in %s.%s.json (definitions: %v; passes: %v)", pkg, obj, pkg, kind, e.defNames(), c.Passes)
						continue
					}
					props := asMap(def["properties"])
					for _, fl := range ir.fields {
						if _, ok := props[fl]; !ok {
							add("ir-field-missing:"+kind+":from-"+f, "IR field %s.%s.%s is not a property of the emitted definition (properties: %v)", pkg, obj, fl, keysOfAny(props))
							continue
						}
						below := map[string]bool{}
						c12PropNames(props[fl], below)
						for _, nested := range ir.nested[fl] {
							if !below[nested] {
								add("ir-field-missing:"+kind+":from-"+f+":nested", "IR field %s.%s.%s holds an anonymous struct with a field %q, which is no property below the emitted %s (order of the outputs: %v)", pkg, obj, fl, nested, short80(props[fl]), c.order())
							}
						}
					}
					if nested := ir.nested[""]; len(nested) > 0 {
						below := map[string]bool{}
						c12PropNames(def, below)
						for _, name := range nested {
							if !below[name] {
								add("ir-field-missing:"+kind+":from-"+f+":nested", "IR object %s.%s holds an anonymous struct with a field %q, which is no property below the emitted %s (order of the outputs: %v)", pkg, obj, name, short80(def), c.order())
							}
						}
					}
				}
				// (4) carry-over, against the source model as the passes leave it
				w := &c12Walker{m: eff.Model, e: e, in: c.Format, report: func(sig, msg string) {
					out[i] = append(out[i], vlib.V(sig, "%s schema, %s.%s.json: %s", c.Format, pkg, kind, msg))
				}}
				for _, d := range eff.Model.Defs {
					if eff.Pkg[d.Name] != pkg {
						continue
					}
					_, def, ok := e.defFor(d.Name)
					if !ok {
						if c.Format == smodel.JSONSchema {
							count(run, "jsonschema_definition_not_reachable_from_root", 1)
							continue
						}
						add("definition-missing:"+kind+":from-"+f, "definition %s of the source is not in %s.%s.json (definitions: %v; passes: %v)", d.Name, pkg, kind, e.defNames(), c.Passes)
						continue
					}
					if run != nil {
						run.Eval(vlib.HashBytes([]byte(c.source()), []byte(d.Name), []byte(kind)), "carry:"+d.Type.Kind, "emitted:"+kind)
					}
					w.walk(d.Type, def, d.Name)
				}
			}
		}
		// (5) Go values: decoded by the generated decoder, and built by assignment
		if !p.usable[i] {
			continue // the Go tree does not compile (C02's matter): only the documents were judged
		}
		for j, d := range c.Docs {
			if err := p.validators[i].Validate(d.Def, d.JSON); err != nil {
				count(run, "generator_oracle_mismatch:document", 1)
				continue
			}
			for _, name := range eff.Names[d.Def] {
				if key, ok := p.goKey(i, name); ok {
					reqs = append(reqs, e2.Request{ID: len(reqs), Key: key, Op: "roundtrip", Doc: d.JSON})
					refs = append(refs, docRef{i, j, name, false})
				}
				if key, ok := p.probeKey(i, name); ok {
					reqs = append(reqs, e2.Request{ID: len(reqs), Key: key, Op: "roundtrip", Doc: d.JSON})
					refs = append(refs, docRef{i, j, name, true})
				}
			}
		}
	}
	if len(reqs) > 0 {
		resps, err := p.batch.Exec(reqs)
		if err != nil {
			return nil, err
		}
		for k, r := range resps {
			i, j := refs[k].caseIdx, refs[k].docIdx
			c, d, eff := cases[i], cases[i].Docs[j], p.eff[i]
			def := refs[k].def
			how := "decoded"
			if refs[k].assigned {
				how = "assigned"
			}
			if r.Panic != "" || r.StdErr != "" || r.EncodeErr != "" || r.Encoded == "" {
				if refs[k].assigned {
					count(run, "values_not_assignable", 1) // the probe does not know the shape
					note(run, "probe: %s", firstLine(r.StdErr+r.Panic+r.EncodeErr))
				} else {
					count(run, "documents_go_does_not_decode", 1) // C01's matter
				}
				continue
			}
			count(run, "documents", 1)
			count(run, "go_values:"+how, 1)
			count(run, "disagreements_checked", 1)
			pkg := eff.Pkg[def]
			for _, kind := range []string{"jsonschema", "openapi"} {
				v := validators[i][kind+"/"+pkg]
				e := emitted[i][kind+"/"+pkg]
				if v == nil || e == nil {
					continue
				}
				if _, _, ok := e.defFor(def); !ok {
					continue
				}
				if run != nil {
					run.Eval(vlib.HashBytes([]byte(c.source()), []byte(def), []byte(r.Encoded), []byte(kind), []byte(how)), "go-value:"+kind, "from:"+string(c.Format), "value:"+how)
					run.Label(prefixAll("doc:", d.Features)...)
				}
				if verr := v.Validate(def, r.Encoded); verr != nil {
					// one violation per reason (a document can be rejected for several)
					for _, cls := range rejectionClasses(eff.Model, def, r.Encoded, verr) {
						out[i] = append(out[i], vlib.V(fmt.Sprintf("go-value-rejected:%s:from-%s:%s", kind, c.Format, cls),
							"%s schema, definition %s: the Go encoding %s (value %s from document %s; Go flags %+v) is rejected by the emitted %s.%s.json [%s]: %s", c.Format, def, r.Encoded, how, d.JSON, c.goFlags(), pkg, kind, cls, strings.ReplaceAll(verr.Error(), "\n", " | ")))
					}
				}
			}
		}
	}
	return out, nil
}

func c12Check(b c12Batch) []vlib.Violation {
	res, err := c12CheckBatch(nil, b.Cases)
	if err != nil {
		return []vlib.Violation{vlib.V("harness", "%v", err)}
	}
	var out []vlib.Violation
	for i := range b.Cases {
		out = append(out, res[i]...)
	}
	return dedupeViolations(out)
}

func c12GenConfig(f smodel.Format) smodel.GenConfig {
	cfg := smodel.DefaultGenConfig(f)
	cfg.ConstraintBias = true
	cfg.Focus = []string{"string_bounded", "int_bounded", "float_bounded", "enum_ref", "enum_anon", "const_string", "default_string", "default_int", "default_bool", "default_float", "default_list", "nullable_scalar", "nullable_ref", "map_ref", "union_structs", "union_scalars", "ref", "nullable_collection"}
	return cfg
}

// drawC12Case draws a schema case and the configuration of its run.
func drawC12Case(rt *rapid.T) c12Case {
	f := rapid.SampledFrom(smodel.Formats).Draw(rt, "format")
	sc := drawSchemaCase(rt, c12GenConfig(f), 2)
	if f == smodel.OpenAPI && sc.SplitPkg == "" && rapid.Bool().Draw(rt, "split") {
		drawSplit(rt, &sc)
	}
	c := c12Case{schemaCase: sc}
	// unions with a collection of anonymous structs as a branch (the shared
	// generator only has unions of scalars and of references)
	if rapid.IntRange(0, 2).Draw(rt, "unionshapes") != 0 {
		added, excluded := c12AddUnionShapes(rt, c.Model)
		c.Excluded = append(c.Excluded, excluded...)
		if added > 0 {
			c.Docs = nil
			for _, def := range c.Model.DocDefs() {
				for k := 0; k < 2; k++ {
					c.Docs = append(c.Docs, smodel.DrawDoc(rt, c.Model, def))
				}
			}
		}
	}
	// the Go output's configuration
	flag := func(name string, oneIn int) bool { return rapid.IntRange(0, oneIn-1).Draw(rt, name) == 0 }
	c.Go = &e2.GoFlags{JSON: true, SkipRuntime: flag("go.skip_runtime", 3), Strict: flag("go.strict", 4), Equal: flag("go.equal", 4), Validate: flag("go.validate", 4), AnyAsInterface: flag("go.any_as_interface", 4)}
	if c.Model.HasBytes() && (c.Go.Strict || c.Go.Equal || c.Go.Validate) {
		// the generated Equals / Validate / strict decoder of a `bytes` field do
		// not compile (listed under C02): such a case would only be counted as
		// uncompilable. Excluded by construction, counted.
		c.Go.Strict, c.Go.Equal, c.Go.Validate = false, false, false
		c.Excluded = append(c.Excluded, "go.strict/equal/validate-with-bytes-field")
	}
	// sibling languages and the order of the outputs
	if flag("siblings", 3) {
		for _, s := range c12SiblingPool {
			if rapid.Bool().Draw(rt, "sibling."+s) {
				c.Siblings = append(c.Siblings, s)
			}
		}
	}
	c.Order = rapid.Permutation(append(append([]string{}, c12Required...), c.Siblings...)).Draw(rt, "order")
	// object-level transformations
	if flag("passes", 2) {
		drawC12Passes(rt, &c)
	}
	return c
}

func c12Labels(c c12Case) []string {
	var out []string
	g := c.goFlags()
	for name, on := range map[string]bool{"go.skip_runtime": g.SkipRuntime, "go.strict": g.Strict, "go.equal": g.Equal, "go.validate": g.Validate, "go.any_as_interface": g.AnyAsInterface} {
		if on {
			out = append(out, name)
		}
	}
	pos := map[string]int{}
	for i, l := range c.order() {
		pos[l] = i
	}
	for _, target := range []string{"jsonschema", "openapi"} {
		var before []string
		for l, i := range pos {
			if l != "jsonschema" && l != "openapi" && i < pos[target] {
				before = append(before, l)
			}
		}
		sort.Strings(before)
		for _, l := range before {
			out = append(out, l+"-before-"+target)
		}
	}
	entryNow := c.Model.Entry
	for _, p := range c.Passes {
		label := "pass:" + p.Kind
		if p.Object == entryNow {
			label += ":on-entry"
			if p.Kind == "rename_object" {
				entryNow = p.To
			}
		}
		out = append(out, label)
	}
	if len(c.Passes) > 0 {
		out = append(out, map[bool]string{true: "passes:common", false: "passes:input"}[c.PassesCommon])
	}
	for _, d := range c.Model.Defs {
		for _, f := range d.Type.Fields {
			if f.Type.Kind != smodel.KUScalars {
				continue
			}
			for _, b := range f.Type.Branches {
				if (b.Kind == smodel.KArray || b.Kind == smodel.KMap) && b.Elem != nil {
					inner := *b.Elem
					if inner.Kind == smodel.KArray && inner.Elem != nil {
						inner = *inner.Elem
					}
					if inner.Kind == smodel.KStruct {
						out = append(out, "union-branch:"+b.Kind+"-of-anonymous-struct")
					}
				}
			}
		}
	}
	sort.Strings(out)
	return out
}

func TestC12(t *testing.T) {
	run := vlib.Begin(t, "C12")
	defer run.Finish(t)
	run.Describe(
		"Batches of K cases (K=6 quick, 12 thorough) per rapid case. A case is a schema model in one of the three input formats, dense in constraints, enums, constants, defaults, nullable fields, maps, unions; two thirds of the models also get unions one branch of which is a list / map (/ map of lists) of ANONYMOUS structs; half of the OpenAPI cases are split into TWO packages (cross-package chains of depth >= 2). Each case carries the configuration of its run: the Go output's flags (json always; skip_runtime 1/3, strict / equal / validate / any_as_interface 1/4 each; a skip_runtime tree is completed with the runtime package of the same configuration), sibling languages generated in the same run (types of python / java / typescript / php, 1/3 of the cases), the ORDER in which the output languages are processed (a drawn permutation: Pipeline.Run ranges over a map, every order is one of its behaviours; the check runs the same steps as Pipeline.Run in that order), and in half of the cases 1-3 object-level transformations (rename_object - a third of them aimed at the entry point, some towards the package's own name -, duplicate_object, schema_set_entry_point) given as a transformation file of the input or as common passes. The expected model is the source model with those passes applied. cog generates jsonschema + openapi + Go. Oracles: (0) every `$ref` of every emitted document, the root one included, designates something in that document (own resolver); (1) every emitted *.jsonschema.json compiles under santhosh draft-07, definition by definition AND as a whole (root schema), every *.openapi.json loads and validates under kin-openapi; (2) cog's own parsers accept them; (3) every object of the IR (as the transformations leave it, loaded by a pipeline of its own) and every struct field appears under its own name, and so do the fields of the anonymous structs nested below a field (through lists, maps, unions); every definition / property of the expected model too; (4) required sets, numeric and length bounds, enum values (in order), constants and defaults extracted from the emitted JSON equal the expected model's, nullability is expressed, union branches are compared one by one; (5) for every valid-by-construction document and every name the object goes by (renamed, duplicated), TWO values of the COMPILED generated Go type are encoded with encoding/json and validated against the emitted definition of that object in both documents: the value the generated decoder makes of the document, and the value built by FIELD ASSIGNMENT from the document (a reflective overlay added to the generated package: struct fields by json tag, the branch of a union struct chosen by the JSON value's shape and the variants' constants; no generated decoder involved). Non-trivial: every (schema, $ref, order), every (schema, definition, emitted document) comparison and every (schema, Go value, how it was built, emitted document) validation.",
		"documents are valid by construction for the source schema (reference validator precondition)",
		"JSON Schema inputs: cog only declares what the root $ref reaches; unreachable definitions are not expected in the output",
		"a document the generated decoder does not decode is C01's matter (counted); a value the overlay cannot assign (shape it does not know) is counted, not judged",
		"a sibling language that refuses the schema is skipped (counted); the run goes on with the others, as far as the three judged outputs are concerned",
		"the transformations drawn only rename / duplicate / designate objects: the documents of the source schema stay the documents of the transformed one",
	)
	if vlib.RunReplay(t, run, c12Check) {
		return
	}
	k := 6
	if vlib.Thorough() {
		k = 12
	}
	rapid.Check(t, func(rt *rapid.T) {
		var cases []c12Case
		for i := 0; i < k; i++ {
			cases = append(cases, drawC12Case(rt))
		}
		res, err := c12CheckBatch(run, cases)
		if err != nil {
			run.Inconclusive("batch failed: %v", err)
			rt.Fatalf("harness: %v", err)
		}
		for i, c := range cases {
			run.Label(c.Model.Features()...)
			run.Label("input:" + string(c.Format))
			run.Label(c12Labels(c)...)
			for _, x := range c.Excluded {
				run.Count("excluded:"+x, 1)
			}
			if c.SplitPkg != "" {
				run.Label("two-packages")
			}
			if i == 0 && len(c.source()) < 2500 {
				run.Sample(map[string]any{"format": c.Format, "schema": c.source(), "split": c.Moved, "go": c.goFlags(), "order": c.order(), "passes": c.Passes})
			}
		}
		for i := range cases {
			if vs := dedupeViolations(res[i]); len(vs) > 0 {
				vlib.Fail(rt, run.Judge(c12Batch{Cases: []c12Case{cases[i]}}, vs))
			}
		}
	})
	e2Health(run)
}
