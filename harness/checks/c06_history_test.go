package checks

// C06, second relation: what a pass puts in the place of a type keeps the
// nullability the position needs. The normal form says "every non-required
// field is nullable"; NotRequiredFieldAsNullableType establishes it early in
// every chain, and every later pass that REPLACES the type of such a field
// (a union by a reference to the object generated for it, a union by a scalar,
// an enum by a reference, a reference by what it refers to, ...) has to carry
// the flag over. The positional walker of c06Scan sees the end state only; this
// file keeps a precise table of the struct fields after every prefix of the
// chain (object + field names + branch indices: no two fields share a key) and
// tells "a field that conformed until pass P rewrote its type" from "a field of
// an object that P created and never normalised".

import (
	"fmt"
	"sort"
	"strings"

	"github.com/grafana/cog/internal/ast"
)

type c06Field struct {
	obj      string // pkg.Object
	required bool
	nullable bool
	kind     string
	desc     string
}

func c06TypeDesc(t ast.Type) string {
	switch t.Kind {
	case ast.KindRef:
		if t.Ref != nil {
			return "ref to " + t.Ref.ReferredPkg + "." + t.Ref.ReferredType
		}
	case ast.KindScalar:
		if t.Scalar != nil {
			return "scalar " + string(t.Scalar.ScalarKind)
		}
	case ast.KindDisjunction:
		if t.Disjunction != nil {
			var parts []string
			for _, b := range t.Disjunction.Branches {
				parts = append(parts, ast.TypeName(b))
			}
			return "union " + strings.Join(parts, "|")
		}
	}
	return string(t.Kind)
}

// c06Fields lists every struct field of every object under a precise key.
func c06Fields(schemas ast.Schemas) map[string]c06Field {
	out := map[string]c06Field{}
	var walk func(obj string, path string, t ast.Type)
	walk = func(obj string, path string, t ast.Type) {
		switch t.Kind {
		case ast.KindStruct:
			if t.Struct == nil {
				return
			}
			for _, f := range t.Struct.Fields {
				p := path + "." + f.Name
				out[obj+p] = c06Field{obj: obj, required: f.Required, nullable: f.Type.Nullable, kind: string(f.Type.Kind), desc: c06TypeDesc(f.Type)}
				walk(obj, p, f.Type)
			}
		case ast.KindArray:
			if t.Array != nil {
				walk(obj, path+"[]", t.Array.ValueType)
			}
		case ast.KindMap:
			if t.Map != nil {
				walk(obj, path+"{k}", t.Map.IndexType)
				walk(obj, path+"{v}", t.Map.ValueType)
			}
		case ast.KindDisjunction:
			if t.Disjunction != nil {
				for i, b := range t.Disjunction.Branches {
					walk(obj, fmt.Sprintf("%s|%d", path, i), b)
				}
			}
		case ast.KindIntersection:
			if t.Intersection != nil {
				for i, b := range t.Intersection.Branches {
					walk(obj, fmt.Sprintf("%s&%d", path, i), b)
				}
			}
		}
	}
	for _, schema := range schemas {
		if schema == nil || schema.Objects == nil {
			continue
		}
		schema.Objects.Iterate(func(_ string, o ast.Object) {
			walk(schema.Package+"."+o.Name, "", o.Type)
		})
	}
	return out
}

// c06PathClass: the containers on the way to a field, innermost last.
func c06PathClass(path string) string {
	var parts []string
	add := func(name string) {
		if len(parts) == 0 || parts[len(parts)-1] != name {
			parts = append(parts, name)
		}
	}
	for i := 0; i < len(path); i++ {
		switch {
		case path[i] == '.':
			add("field")
		case strings.HasPrefix(path[i:], "[]"):
			add("array")
		case strings.HasPrefix(path[i:], "{k}"):
			add("mapkey")
		case strings.HasPrefix(path[i:], "{v}"):
			add("map")
		case path[i] == '|':
			add("union")
		case path[i] == '&':
			add("allof")
		}
	}
	if len(parts) > 3 {
		parts = parts[len(parts)-3:]
	}
	return strings.Join(parts, ">")
}

type c06Drop struct {
	key, obj, pos, change, pass, before, after string
}

// c06Dropped: the fields of the final IR that are not required and not
// nullable although the same field was not required and nullable before the
// pass after which it last stopped conforming.
func c06Dropped(L string, final map[string]c06Field, snaps []map[string]c06Field, passNames []string) []c06Drop {
	if !inSet(L, "go", "java", "php", "python") {
		return nil
	}
	bad := func(f c06Field, ok bool) bool { return ok && !f.required && !f.nullable }
	keys := make([]string, 0, len(final))
	for k, f := range final {
		if bad(f, true) {
			keys = append(keys, k)
		}
	}
	sort.Strings(keys)
	var out []c06Drop
	for _, key := range keys {
		f := final[key]
		k := len(snaps) - 1
		if last, ok := snaps[k][key]; !bad(last, ok) {
			continue // the chain of the pipeline and the replayed chain disagree: not judged here
		}
		for k > 0 {
			prev, ok := snaps[k-1][key]
			if !bad(prev, ok) {
				break
			}
			k--
		}
		if k == 0 {
			continue // not nullable from the start: c06Scan's "never-normalised"
		}
		before, ok := snaps[k-1][key]
		if !ok || before.required || !before.nullable {
			continue // the field did not exist, or was required: not a replacement that lost the flag
		}
		after := snaps[k][key]
		path := strings.TrimPrefix(key, f.obj)
		out = append(out, c06Drop{
			key: key, obj: f.obj, pos: c06PathClass(path), change: before.kind + ">" + after.kind,
			pass: passNames[k], before: before.desc, after: after.desc,
		})
	}
	return out
}
