package checks

// c17Canon renders a value exactly as walk.Canon renders it once its
// PassesTrail / VeneerTrail fields are zeroed (stripTrailsCanon), but without
// copying or touching the value: the trail fields are rendered as empty.

import (
	"reflect"
	"sort"
	"strconv"
	"strings"
)

func c17Canon(v any) string {
	var sb strings.Builder
	c17canon(&sb, reflect.ValueOf(v), 0)
	return sb.String()
}

func c17canon(sb *strings.Builder, v reflect.Value, depth int) {
	if depth > 200 {
		sb.WriteString("<too deep>")
		return
	}
	if !v.IsValid() {
		sb.WriteString("nil")
		return
	}
	switch v.Kind() {
	case reflect.Bool:
		sb.WriteString(strconv.FormatBool(v.Bool()))
	case reflect.Int, reflect.Int8, reflect.Int16, reflect.Int32, reflect.Int64:
		sb.WriteString(strconv.FormatInt(v.Int(), 10))
	case reflect.Uint, reflect.Uint8, reflect.Uint16, reflect.Uint32, reflect.Uint64, reflect.Uintptr:
		sb.WriteString(strconv.FormatUint(v.Uint(), 10))
	case reflect.Float32, reflect.Float64:
		sb.WriteString(strconv.FormatFloat(v.Float(), 'g', -1, 64))
	case reflect.String:
		sb.WriteString(strconv.Quote(v.String()))
	case reflect.Interface:
		if v.IsNil() {
			sb.WriteString("nil")
			return
		}
		e := v.Elem()
		sb.WriteString("(" + e.Type().String() + ")")
		c17canon(sb, e, depth+1)
	case reflect.Ptr:
		if v.IsNil() {
			sb.WriteString("nil")
			return
		}
		sb.WriteString("&")
		c17canon(sb, v.Elem(), depth+1)
	case reflect.Slice, reflect.Array:
		sb.WriteString("[")
		for i := 0; i < v.Len(); i++ {
			if i > 0 {
				sb.WriteString(",")
			}
			c17canon(sb, v.Index(i), depth+1)
		}
		sb.WriteString("]")
	case reflect.Map:
		type kv struct {
			k string
			v reflect.Value
		}
		var kvs []kv
		iter := v.MapRange()
		for iter.Next() {
			var ks strings.Builder
			c17canon(&ks, iter.Key(), depth+1)
			kvs = append(kvs, kv{ks.String(), iter.Value()})
		}
		sort.Slice(kvs, func(i, j int) bool { return kvs[i].k < kvs[j].k })
		sb.WriteString("{")
		for i, e := range kvs {
			if i > 0 {
				sb.WriteString(",")
			}
			sb.WriteString(e.k + ":")
			c17canon(sb, e.v, depth+1)
		}
		sb.WriteString("}")
	case reflect.Struct:
		t := v.Type()
		sb.WriteString(t.Name() + "{")
		for i := 0; i < v.NumField(); i++ {
			if i > 0 {
				sb.WriteString(",")
			}
			name := t.Field(i).Name
			sb.WriteString(name + ":")
			if (name == "PassesTrail" || name == "VeneerTrail") && v.Field(i).Kind() == reflect.Slice {
				sb.WriteString("[]")
				continue
			}
			c17canon(sb, v.Field(i), depth+1)
		}
		sb.WriteString("}")
	case reflect.Func:
		if v.IsNil() {
			sb.WriteString("nil")
		} else {
			sb.WriteString("func")
		}
	default:
		sb.WriteString("<" + v.Kind().String() + ">")
	}
}
