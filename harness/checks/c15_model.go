package checks

// Reference models of cog's user-facing schema transformations, written from
// the doc comments / docs/reference/schema_transformations.md plus the
// documented matching rule (package exact, object and field names
// case-insensitive). They work on the plain IR specification and share no
// code with cog.

import (
	"fmt"
	"strings"

	"github.com/grafana/cog/verifharness/irgen"
	"github.com/grafana/cog/verifharness/passgen"
)

type c15ModelResult struct {
	IR irgen.IRSpec
	// Touched lists "pkg.Object" (names after the transformation) whose
	// content the transformation is documented to change; every other object
	// must come out exactly as it went in (trails, comments, defaults, order).
	Touched map[string]bool
	// Matched: the transformation found at least one target.
	Matched bool
	// ExpectError: the documented outcome is an error.
	ExpectError bool
	// Unspecified: the documentation is silent on this corner: any outcome is
	// accepted.
	Unspecified string
	// IgnoreEnumMemberNames: member names of enums are not compared
	// (PrefixObjectNames re-prefixes them; undocumented, tolerated).
	IgnoreEnumMemberNames bool
}

func cloneIR(in irgen.IRSpec) irgen.IRSpec {
	out := make(irgen.IRSpec, len(in))
	for i, p := range in {
		np := p
		np.Objects = make([]irgen.ObjSpec, len(p.Objects))
		for j, o := range p.Objects {
			np.Objects[j] = cloneObj(o)
		}
		out[i] = np
	}
	return out
}

func cloneObj(o irgen.ObjSpec) irgen.ObjSpec {
	n := o
	n.Type = cloneType(o.Type)
	n.Comments = append([]string(nil), o.Comments...)
	return n
}

func cloneType(t irgen.TypeSpec) irgen.TypeSpec {
	n := t
	if t.Default != nil {
		d := cloneVal(*t.Default)
		n.Default = &d
	}
	if t.Value != nil {
		d := cloneVal(*t.Value)
		n.Value = &d
	}
	if t.RefValue != nil {
		d := cloneVal(*t.RefValue)
		n.RefValue = &d
	}
	n.Constraints = append([]irgen.ConstraintSpec(nil), t.Constraints...)
	n.Fields = make([]irgen.FieldSpec, len(t.Fields))
	for i, f := range t.Fields {
		nf := f
		nf.Type = cloneType(f.Type)
		nf.Comments = append([]string(nil), f.Comments...)
		n.Fields[i] = nf
	}
	if len(t.Fields) == 0 {
		n.Fields = nil
	}
	if t.Elem != nil {
		e := cloneType(*t.Elem)
		n.Elem = &e
	}
	if t.Index != nil {
		e := cloneType(*t.Index)
		n.Index = &e
	}
	n.Members = append([]irgen.EnumMemberSpec(nil), t.Members...)
	if len(t.Branches) > 0 {
		n.Branches = make([]irgen.TypeSpec, len(t.Branches))
		for i, b := range t.Branches {
			n.Branches[i] = cloneType(b)
		}
	}
	if t.Mapping != nil {
		n.Mapping = map[string]string{}
		for k, v := range t.Mapping {
			n.Mapping[k] = v
		}
	}
	if t.Hints != nil {
		n.Hints = map[string]irgen.Val{}
		for k, v := range t.Hints {
			n.Hints[k] = cloneVal(v)
		}
	}
	return n
}

func cloneVal(v irgen.Val) irgen.Val {
	n := v
	if v.L != nil {
		n.L = make([]irgen.Val, len(v.L))
		for i := range v.L {
			n.L[i] = cloneVal(v.L[i])
		}
	}
	if v.M != nil {
		n.M = map[string]irgen.Val{}
		for k, e := range v.M {
			n.M[k] = cloneVal(e)
		}
	}
	return n
}

func eqFold(a, b string) bool { return strings.EqualFold(a, b) }

// forEachType visits every TypeSpec of the IR, including nested ones.
func forEachType(ir irgen.IRSpec, fn func(pkg, obj string, t *irgen.TypeSpec)) {
	ir.Walk(func(pkg string, obj string, _ string, t *irgen.TypeSpec) { fn(pkg, obj, t) })
}

func parseObjRef(s string) (string, string) {
	parts := strings.Split(s, ".")
	return parts[0], parts[1]
}

func parseFieldRef(s string) (string, string, string) {
	parts := strings.Split(s, ".")
	return parts[0], parts[1], parts[2]
}

// c15Model applies the documented effect of one transformation.
func c15Model(in irgen.IRSpec, ps passgen.PassSpec) c15ModelResult {
	ir := cloneIR(in)
	res := c15ModelResult{Touched: map[string]bool{}}
	findPkg := func(pkg string) *irgen.PkgSpec {
		for i := range ir {
			if ir[i].Package == pkg {
				return &ir[i]
			}
		}
		return nil
	}
	matchObjs := func(pkg, obj string) []*irgen.ObjSpec {
		var out []*irgen.ObjSpec
		if p := findPkg(pkg); p != nil {
			for i := range p.Objects {
				if eqFold(p.Objects[i].Name, obj) {
					out = append(out, &p.Objects[i])
				}
			}
		}
		return out
	}
	// objects whose type tree holds something fn changes are touched
	rewriteRefs := func(fn func(t *irgen.TypeSpec) bool) {
		forEachType(ir, func(pkg, obj string, t *irgen.TypeSpec) {
			if fn(t) {
				res.Touched[pkg+"."+obj] = true
			}
		})
	}

	switch ps.Kind {
	case "rename_object":
		// references (and the entry point) are rewritten whether or not the
		// object itself is (still) there
		objs := matchObjs(ps.Pkg, ps.Obj)
		if len(objs) > 0 {
			res.Matched = true
		}
		for _, o := range objs {
			o.Name = ps.To
		}
		rewriteRefs(func(t *irgen.TypeSpec) bool {
			changed := false
			if (t.Kind == "ref" || t.Kind == "constant_ref") && t.Pkg == ps.Pkg && eqFold(t.Name, ps.Obj) {
				t.Name = ps.To
				changed = true
			}
			if t.Kind == "disjunction" {
				for _, b := range t.Branches {
					// b was possibly already renamed (pre-order walk visits the
					// union before its branches: compare against both names)
					if b.Kind == "ref" && b.Pkg == ps.Pkg && (eqFold(b.Name, ps.Obj) || b.Name == ps.To) {
						for k, v := range t.Mapping {
							if eqFold(v, ps.Obj) {
								t.Mapping[k] = ps.To
								changed = true
							}
						}
					}
				}
			}
			return changed
		})
		// a renamed object's own references were rewritten under its old name
		if res.Touched[ps.Pkg+"."+ps.Obj] {
			delete(res.Touched, ps.Pkg+"."+ps.Obj)
		}
		for k := range res.Touched {
			pkg, obj := parseObjRef(k)
			if pkg == ps.Pkg && eqFold(obj, ps.Obj) {
				delete(res.Touched, k)
			}
		}
		if len(objs) > 0 {
			res.Touched[ps.Pkg+"."+ps.To] = true
		}
		if p := findPkg(ps.Pkg); p != nil && p.EntryPoint != "" && eqFold(p.EntryPoint, ps.Obj) {
			p.EntryPoint = ps.To
		}

	case "prefix_object_names":
		if ps.Prefix == "" {
			break
		}
		res.Matched = true
		res.IgnoreEnumMemberNames = true
		for pi := range ir {
			for oi := range ir[pi].Objects {
				ir[pi].Objects[oi].Name = ps.Prefix + ir[pi].Objects[oi].Name
				res.Touched[ir[pi].Package+"."+ir[pi].Objects[oi].Name] = true
			}
			if ir[pi].EntryPoint != "" {
				ir[pi].EntryPoint = ps.Prefix + ir[pi].EntryPoint
			}
		}
		forEachType(ir, func(_, _ string, t *irgen.TypeSpec) {
			if t.Kind == "ref" || t.Kind == "constant_ref" {
				t.Name = ps.Prefix + t.Name
			}
			for k, v := range t.Mapping {
				t.Mapping[k] = ps.Prefix + v
			}
		})

	case "append_comment_objects":
		res.Matched = true
		for pi := range ir {
			for oi := range ir[pi].Objects {
				ir[pi].Objects[oi].Comments = append(ir[pi].Objects[oi].Comments, ps.Comment)
				res.Touched[ir[pi].Package+"."+ir[pi].Objects[oi].Name] = true
			}
		}

	case "omit":
		for pi := range ir {
			kept := ir[pi].Objects[:0]
			for _, o := range ir[pi].Objects {
				drop := false
				for _, ref := range ps.Objects {
					pkg, obj := parseObjRef(ref)
					if pkg == ir[pi].Package && eqFold(obj, o.Name) {
						drop = true
					}
				}
				if drop {
					res.Matched = true
					continue
				}
				kept = append(kept, o)
			}
			ir[pi].Objects = kept
		}

	case "omit_fields":
		for pi := range ir {
			for oi := range ir[pi].Objects {
				o := &ir[pi].Objects[oi]
				if o.Type.Kind != "struct" {
					continue
				}
				kept := o.Type.Fields[:0]
				for _, f := range o.Type.Fields {
					drop := false
					for _, ref := range ps.Fields {
						pkg, obj, fld := parseFieldRef(ref)
						if pkg == ir[pi].Package && eqFold(obj, o.Name) && eqFold(fld, f.Name) {
							drop = true
						}
					}
					if drop {
						res.Matched = true
						res.Touched[ir[pi].Package+"."+o.Name] = true
						continue
					}
					kept = append(kept, f)
				}
				o.Type.Fields = kept
			}
		}

	case "add_fields":
		for _, o := range matchObjs(ps.Pkg, ps.Obj) {
			res.Matched = true
			if o.Type.Kind != "struct" {
				res.ExpectError = true
				continue
			}
			res.Touched[ps.Pkg+"."+o.Name] = true
			for _, nf := range ps.NewFields {
				exists := false
				for _, f := range o.Type.Fields {
					if f.Name == nf.Name {
						exists = true
					}
				}
				if !exists {
					o.Type.Fields = append(o.Type.Fields, irgen.FieldSpec{Name: nf.Name, Type: cloneType(nf.Type), Required: nf.Required, Comments: append([]string(nil), nf.Comments...)})
				}
			}
		}

	case "add_object":
		p := findPkg(ps.Pkg)
		if p == nil {
			break
		}
		res.Matched = true
		for _, o := range p.Objects {
			if eqFold(o.Name, ps.Obj) {
				res.Unspecified = "add_object over an existing object name"
			}
		}
		p.Objects = append(p.Objects, irgen.ObjSpec{Name: ps.Obj, Type: cloneType(*ps.Type), Comments: append([]string(nil), ps.Comments...)})
		res.Touched[ps.Pkg+"."+ps.Obj] = true

	case "duplicate_object":
		var src *irgen.ObjSpec
		if p := findPkg(ps.Pkg); p != nil {
			for i := range p.Objects {
				if p.Objects[i].Name == ps.Obj {
					src = &p.Objects[i]
				} else if eqFold(p.Objects[i].Name, ps.Obj) {
					res.Unspecified = "duplicate_object with a differently-cased source name"
				}
			}
		}
		dst := findPkg(ps.ToPkg)
		if src == nil || dst == nil {
			break
		}
		res.Matched = true
		for _, o := range dst.Objects {
			if eqFold(o.Name, ps.To) {
				res.Unspecified = "duplicate_object over an existing object name"
			}
		}
		dup := cloneObj(*src)
		dup.Name = ps.To
		if dup.Type.Kind == "struct" && len(ps.OmitFields) > 0 {
			kept := dup.Type.Fields[:0]
			for _, f := range dup.Type.Fields {
				drop := false
				for _, of := range ps.OmitFields {
					if eqFold(of, f.Name) {
						drop = true
					}
				}
				if !drop {
					kept = append(kept, f)
				}
			}
			dup.Type.Fields = kept
		}
		dst.Objects = append(dst.Objects, dup)
		res.Touched[ps.ToPkg+"."+ps.To] = true

	case "retype_object":
		for _, o := range matchObjs(ps.Pkg, ps.Obj) {
			res.Matched = true
			o.Type = cloneType(*ps.Type)
			if ps.Comments != nil {
				o.Comments = append([]string(nil), ps.Comments...)
			}
			res.Touched[ps.Pkg+"."+o.Name] = true
		}

	case "retype_field":
		for _, o := range matchObjs(ps.Pkg, ps.Obj) {
			if o.Type.Kind != "struct" {
				continue
			}
			for fi := range o.Type.Fields {
				if eqFold(o.Type.Fields[fi].Name, ps.Field) {
					res.Matched = true
					o.Type.Fields[fi].Type = cloneType(*ps.Type)
					if ps.Comments != nil {
						o.Type.Fields[fi].Comments = append([]string(nil), ps.Comments...)
					}
					res.Touched[ps.Pkg+"."+o.Name] = true
					break
				}
			}
		}

	case "fields_set_required", "fields_set_not_required":
		for _, ref := range ps.Fields {
			pkg, obj, fld := parseFieldRef(ref)
			for _, o := range matchObjs(pkg, obj) {
				if o.Type.Kind != "struct" {
					continue
				}
				for fi := range o.Type.Fields {
					if eqFold(o.Type.Fields[fi].Name, fld) {
						res.Matched = true
						req := ps.Kind == "fields_set_required"
						o.Type.Fields[fi].Required = req
						o.Type.Fields[fi].Type.Nullable = !req
						res.Touched[pkg+"."+o.Name] = true
					}
				}
			}
		}

	case "fields_set_default":
		for _, d := range ps.Defaults {
			pkg, obj, fld := parseFieldRef(d.Ref)
			for _, o := range matchObjs(pkg, obj) {
				if o.Type.Kind != "struct" {
					continue
				}
				for fi := range o.Type.Fields {
					if eqFold(o.Type.Fields[fi].Name, fld) {
						res.Matched = true
						v := cloneVal(d.Value)
						o.Type.Fields[fi].Type.Default = &v
						res.Touched[pkg+"."+o.Name] = true
					}
				}
			}
		}

	case "replace_reference":
		rewriteRefs(func(t *irgen.TypeSpec) bool {
			changed := false
			if t.Kind == "disjunction" {
				for _, b := range t.Branches {
					if b.Kind == "ref" && b.Pkg == ps.Pkg && eqFold(b.Name, ps.Obj) {
						for k, v := range t.Mapping {
							if v == b.Name {
								t.Mapping[k] = ps.To
								changed = true
							}
						}
					}
				}
			}
			if t.Kind == "ref" && t.Pkg == ps.Pkg && eqFold(t.Name, ps.Obj) {
				res.Matched = true
				t.Pkg, t.Name = ps.ToPkg, ps.To
				changed = true
			}
			return changed
		})

	case "constant_to_enum":
		for _, ref := range ps.Objects {
			pkg, obj := parseObjRef(ref)
			for _, o := range matchObjs(pkg, obj) {
				if o.Type.Kind == "scalar" && o.Type.Scalar == "string" && o.Type.Value != nil && o.Type.Value.S != nil {
					res.Matched = true
					v := *o.Type.Value.S
					o.Type = irgen.TypeSpec{Kind: "enum", EnumScalar: "string", Members: []irgen.EnumMemberSpec{{Name: v, Value: *irgen.VS(v)}}}
					res.Touched[pkg+"."+o.Name] = true
				}
			}
		}

	case "trim_enum_values":
		forEachType(ir, func(pkg, obj string, t *irgen.TypeSpec) {
			if t.Kind != "enum" {
				return
			}
			for mi := range t.Members {
				if t.Members[mi].Value.S != nil {
					trimmed := strings.TrimSpace(*t.Members[mi].Value.S)
					if trimmed != *t.Members[mi].Value.S {
						res.Matched = true
						res.Touched[pkg+"."+obj] = true
						t.Members[mi].Value = *irgen.VS(trimmed)
					}
				}
			}
		})

	case "hint_object":
		for _, o := range matchObjs(ps.Pkg, ps.Obj) {
			res.Matched = true
			if o.Type.Hints == nil {
				o.Type.Hints = map[string]irgen.Val{}
			}
			for k, v := range ps.Hints {
				o.Type.Hints[k] = cloneVal(v)
			}
			res.Touched[ps.Pkg+"."+o.Name] = true
		}

	case "schema_set_identifier":
		if p := findPkg(ps.Pkg); p != nil {
			res.Matched = true
			p.Identifier = ps.Identifier
		}

	case "schema_set_entry_point":
		if p := findPkg(ps.Pkg); p != nil {
			res.Matched = true
			p.EntryPoint = ps.Obj
		}

	default:
		panic(fmt.Sprintf("c15Model: no model for %s", ps.Kind))
	}
	res.IR = ir
	return res
}
