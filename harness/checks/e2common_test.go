package checks

// Shared plumbing of the generated-code (E2) checks: a case is a schema model
// in one input format plus documents; cases are compiled and driven in batches.

import (
	"fmt"
	"os"
	"path/filepath"
	"sort"
	"strings"

	"github.com/grafana/cog/verifharness/e2"
	"github.com/grafana/cog/verifharness/smodel"
	"github.com/grafana/cog/verifharness/vlib"
	"pgregory.net/rapid"
)

// schemaCase is one generated schema with its documents.
type schemaCase struct {
	Format smodel.Format `json:"format"`
	Model  *smodel.Model `json:"model"`
	Docs   []smodel.Doc  `json:"docs"`
	// SplitPkg (OpenAPI only): the Moved definitions live in a second package
	// and the first one refers to them across files.
	SplitPkg string   `json:"split_pkg,omitempty"`
	Moved    []string `json:"moved,omitempty"`
	// Raw: a hand-written source instead of a model (Model is nil)
	Raw        string        `json:"raw,omitempty"`
	RawPackage string        `json:"raw_package,omitempty"`
	Meta       *e2.InputMeta `json:"meta,omitempty"`
	// Transforms: transformation files (`passes:` lists) of this input
	Transforms []string `json:"transforms,omitempty"`
	// Veneers: veneer files of the pipeline the case is generated with
	Veneers []string `json:"veneers,omitempty"`
}

// source is the single-document rendering (what the reference validator reads).
func (c schemaCase) source() string { return smodel.Render(c.Format, c.Model) }

// inputs are the pipeline inputs of the case.
func (c schemaCase) inputs() []e2.InputSpec {
	if c.Raw != "" {
		return []e2.InputSpec{{Format: c.Format, Package: c.RawPackage, Source: c.Raw, Meta: c.Meta}}
	}
	if c.SplitPkg == "" || c.Format != smodel.OpenAPI {
		return []e2.InputSpec{{Format: c.Format, Package: c.Model.Package, Source: c.source(), Meta: c.Meta, Transforms: c.Transforms}}
	}
	moved := map[string]bool{}
	for _, n := range c.Moved {
		moved[n] = true
	}
	a, b := smodel.RenderOpenAPISplit(c.Model, c.SplitPkg, moved)
	return []e2.InputSpec{
		{Format: smodel.OpenAPI, Package: c.Model.Package, Source: a, FileName: c.Model.Package + ".json", Transforms: c.Transforms},
		{Format: smodel.OpenAPI, Package: c.SplitPkg, Source: b, FileName: c.SplitPkg + ".json"},
	}
}

// pkgOf tells which package a definition lives in.
func (c schemaCase) pkgOf(def string) string {
	for _, n := range c.Moved {
		if n == def && c.SplitPkg != "" {
			return c.SplitPkg
		}
	}
	return c.Model.Package
}

// drawSplit moves the definitions that can live in a second package there.
func drawSplit(rt *rapid.T, c *schemaCase) {
	if c.Format != smodel.OpenAPI {
		return
	}
	movable := c.Model.MovableDefs()
	var names []string
	for _, d := range c.Model.Defs {
		if movable[d.Name] {
			names = append(names, d.Name)
		}
	}
	if len(names) == 0 {
		return
	}
	c.SplitPkg = "common"
	if c.Model.Package == "common" {
		c.SplitPkg = "shared"
	}
	c.Moved = names
}

func drawSchemaCase(rt *rapid.T, cfg smodel.GenConfig, docsPerDef int) schemaCase {
	cfg.NestedCollections = rapid.IntRange(0, 2).Draw(rt, "nestedcollections") == 0
	cfg.NamedUnions = rapid.IntRange(0, 2).Draw(rt, "namedunions") == 0
	m := smodel.Draw(rt, cfg)
	c := schemaCase{Format: cfg.Format, Model: m}
	// one OpenAPI case in three is spread over two packages (cross-file refs)
	if cfg.Format == smodel.OpenAPI && rapid.IntRange(0, 2).Draw(rt, "twopackages") == 0 {
		drawSplit(rt, &c)
	}
	for _, def := range m.DocDefs() {
		for i := 0; i < docsPerDef; i++ {
			c.Docs = append(c.Docs, smodel.DrawDoc(rt, m, def))
		}
	}
	return c
}

var workSeq int

func workDir(prefix string) string {
	base := os.Getenv("VERIF_WORK")
	if base == "" {
		base = os.TempDir()
	}
	workSeq++
	d := filepath.Join(base, fmt.Sprintf("%s_%d_%d", prefix, os.Getpid(), workSeq))
	_ = os.MkdirAll(d, 0o755)
	return d
}

// goTypeFor finds the generated Go type for a schema definition.
func goTypeFor(types map[string]bool, def string) (string, bool) {
	norm := func(s string) string { return strings.ToLower(strings.NewReplacer("_", "", "-", "").Replace(s)) }
	var names []string
	for t := range types {
		names = append(names, t)
	}
	sort.Strings(names)
	for _, t := range names {
		if norm(t) == norm(def) {
			return t, true
		}
	}
	return "", false
}

// genResult is the outcome of generating one case.
type genResult struct {
	caseID   string
	files    e2.Files
	genErr   error
	genPanic string
	panicSig string
}

// generateGo runs cog's pipeline for one case (Go output only).
func generateGo(work string, caseID string, c schemaCase, out e2.OutputSpec) genResult {
	res := genResult{caseID: caseID}
	if len(c.Veneers) > 0 {
		out.Veneers = append(append([]string{}, out.Veneers...), c.Veneers...)
	}
	if out.Go != nil {
		g := *out.Go
		g.PackageRoot = "verifgen/" + caseID
		out.Go = &g
	}
	sig, msg, panicked := vlib.Guard(func() {
		p, err := e2.NewPipeline(filepath.Join(work, caseID+"_in"), caseID, c.inputs(), out)
		if err != nil {
			res.genErr = err
			return
		}
		res.files, res.genErr = e2.Run(p)
	})
	if panicked {
		res.genPanic, res.panicSig = msg, sig
	}
	return res
}

func removeAll(dir string) { _ = os.RemoveAll(dir) }

func count(run *vlib.Run, counter string, n int) {
	if run != nil {
		run.Count(counter, n)
	}
}

func note(run *vlib.Run, format string, args ...any) {
	if run != nil {
		run.Note(format, args...)
	}
}

func keysOf(m map[string]bool) []string {
	var out []string
	for k := range m {
		out = append(out, k)
	}
	sort.Strings(out)
	return out
}

func prefixAll(prefix string, items []string) []string {
	out := make([]string, len(items))
	for i, s := range items {
		out[i] = prefix + s
	}
	return out
}

func firstDocs(docs []smodel.Doc, n int) []string {
	var out []string
	for i, d := range docs {
		if i >= n {
			break
		}
		out = append(out, d.JSON)
	}
	return out
}

// e2Health turns generator health problems into an inconclusive verdict.
func e2Health(run *vlib.Run) {
	c := run.Counters()
	programs, rejected := c["programs"], c["rejected"]
	if total := programs + rejected + c["uncompilable"]; total > 0 && rejected*5 > total {
		run.Inconclusive("cog refused %d of %d generated schemas (> 20%%): the generator is not testing what it claims", rejected, total)
	}
	docs := c["documents"]
	mism := c["generator_oracle_mismatch:document"]
	if docs+mism > 0 && mism*100 > docs+mism {
		run.Inconclusive("the reference validator rejected %d of %d by-construction valid documents (> 1%%)", mism, docs+mism)
	}
}

// e2Prepared is a batch of cases generated, compiled and ready to be driven.
type e2Prepared struct {
	py         *e2.PyBatch
	batch      *e2.Batch
	work       string
	ids        []string
	validators []*smodel.Validator
	// usable[i]: the case was generated, compiles and has a reference validator
	usable []bool
	// files[i]: everything cog generated for the case
	files []e2.Files
}

func (p *e2Prepared) Close() {
	if p.py != nil {
		p.py.Close()
	}
	p.batch.Close()
	removeAll(p.work)
}

// e2Prepare generates and compiles a batch of cases for Go output.
func e2Prepare(run *vlib.Run, prefix string, cases []schemaCase, out e2.OutputSpec) (*e2Prepared, error) {
	p := &e2Prepared{work: workDir(prefix)}
	batch, err := e2.NewBatch(p.work + "/mod")
	if err != nil {
		return nil, err
	}
	p.batch = batch
	if out.Python != nil {
		py, err := e2.NewPyBatch(p.work + "/py")
		if err != nil {
			return nil, err
		}
		p.py = py
	}
	p.validators = make([]*smodel.Validator, len(cases))
	p.usable = make([]bool, len(cases))
	p.files = make([]e2.Files, len(cases))
	for i, c := range cases {
		id := fmt.Sprintf("c%02d", i)
		p.ids = append(p.ids, id)
		v, verr := smodel.NewValidator(c.Format, c.Model, c.source())
		if verr != nil {
			count(run, "generator_oracle_mismatch:rendering", 1)
			continue
		}
		p.validators[i] = v
		g := generateGo(p.work, id, c, out)
		switch {
		case g.genPanic != "":
			count(run, "skipped_panics", 1)
			count(run, "skipped_panic:"+g.panicSig, 1)
		case g.genErr != nil:
			count(run, "rejected", 1)
			count(run, "rejected:"+string(c.Format), 1)
			note(run, "cog refused a %s schema: %v", c.Format, firstLine(g.genErr.Error()))
		default:
			p.files[i] = g.files
			if out.Converters && out.Go != nil {
				// converters call cog.Dump, which no jenny emits (listed under C02)
				hasDump := false
				for path, content := range g.files {
					if strings.HasSuffix(path, ".go") && strings.Contains(string(content), "func Dump(") {
						hasDump = true
					}
				}
				if !hasDump {
					g.files[id+"/cog/zz_dump_overlay.go"] = []byte(e2.DumpRuntime)
				}
			}
			if err := batch.Add(id, g.files); err != nil {
				p.Close()
				return nil, err
			}
			if p.py != nil {
				if err := p.py.Add(id, g.files); err != nil {
					p.Close()
					return nil, err
				}
			}
			p.usable[i] = true
		}
	}
	if err := batch.Build(); err != nil {
		p.Close()
		return nil, err
	}
	for i := range cases {
		if p.usable[i] && len(batch.CompileErrors[p.ids[i]]) > 0 {
			p.usable[i] = false
			count(run, "uncompilable", 1)
			note(run, "uncompilable %s package: %s", cases[i].Format, batch.CompileErrors[p.ids[i]][0])
		} else if p.usable[i] {
			count(run, "programs", 1)
		}
	}
	return p, nil
}

// goKey returns the driver key of a definition's Go type.
func (p *e2Prepared) goKey(i int, def string) (string, bool) {
	t, ok := goTypeFor(p.batch.Types[p.ids[i]], def)
	if !ok {
		return "", false
	}
	return p.ids[i] + "/" + t, true
}

// nestedTag tags signatures of cases whose model holds collections directly
// inside collections / named collections (listed findings live there).
func nestedTag(c schemaCase) string {
	if c.Model.HasNestedCollections() {
		return ":nested-collections"
	}
	return ""
}
