package checks

// C17, step oracle: the rules of a case are replayed one prefix at a time, in
// the order in which the rewriter applies them, and every single step is
// judged against the builders *as they are at that point* (not as they were
// derived): what the rule's selector selects there (an independent model of
// the documented selectors, evaluated on the evolved builders: a builder may
// by then carry a name of its own, exist twice for one object, have renamed
// or duplicated options), that everything the selector does not select comes
// out of the step unchanged (builder by builder, option by option), and that
// omit / rename / duplicate / add_comments / rename_arguments did to the
// selected ones what they document.

import (
	"fmt"
	"reflect"
	"sort"
	"strings"

	"github.com/grafana/cog/internal/ast"
	"github.com/grafana/cog/internal/veneers/rewrite"
	cogyaml "github.com/grafana/cog/internal/yaml"
	"github.com/grafana/cog/verifharness/vlib"
	"github.com/grafana/cog/verifharness/walk"
	"gopkg.in/yaml.v3"
)

// c17ApplicationOrder returns the indices of the rules in the order in which
// Rewriter.ApplyTo applies them, given the file layout of c17VeneerFiles (one
// file per (scope, package) in order of first appearance, `builders:` and
// `options:` lists in order of appearance): the common builder rules file
// after file, the common option rules, then the same for the language.
func c17ApplicationOrder(rules []c17Rule, lang string) []int {
	type key struct{ scope, pkg string }
	fileOf := map[key]int{}
	var files [][]int
	for i, r := range rules {
		k := key{r.Scope, r.Pkg}
		fi, ok := fileOf[k]
		if !ok {
			fi = len(files)
			fileOf[k] = fi
			files = append(files, nil)
		}
		files[fi] = append(files[fi], i)
	}
	var order []int
	for _, scope := range []string{"all", lang} {
		for _, builderStage := range []bool{true, false} {
			for _, f := range files {
				for _, i := range f {
					if rules[i].Scope == scope && (rules[i].On == "builder") == builderStage {
						order = append(order, i)
					}
				}
			}
		}
	}
	return order
}

// c17Ordered holds the rules decoded one veneers document per rule, in the
// given order: the first k entries give a rewriter for the first k rules, and
// the order of the entries is the order of application within each stage.
// The documents are decoded in memory with the loader's own types and
// conversions (yaml.Veneers, KnownFields, AsRewriteRule, rewrite.NewRewrite):
// what yaml.VeneersLoader does, minus the files. The whole-sequence run of
// c17Check goes through the loader itself, and its outcome is the last state
// the steps are judged against.
type c17Ordered struct {
	rules []rewrite.LanguageRules
}

func c17LoadOrdered(rules []c17Rule) (*c17Ordered, error) {
	f := &c17Ordered{}
	for _, r := range rules {
		section := "options"
		if r.On == "builder" {
			section = "builders"
		}
		content := fmt.Sprintf("language: %s\npackage: %s\n%s:\n  %s\n", r.Scope, r.Pkg, section, r.yaml())
		veneers := &cogyaml.Veneers{}
		decoder := yaml.NewDecoder(strings.NewReader(content))
		decoder.KnownFields(true)
		if err := decoder.Decode(&veneers); err != nil {
			return nil, err
		}
		lr := rewrite.LanguageRules{Language: veneers.Language}
		for _, rule := range veneers.Builders {
			br, err := rule.AsRewriteRule(veneers.Package)
			if err != nil {
				return nil, err
			}
			lr.BuilderRules = append(lr.BuilderRules, br)
		}
		for _, rule := range veneers.Options {
			or, err := rule.AsRewriteRule(veneers.Package)
			if err != nil {
				return nil, err
			}
			lr.OptionRules = append(lr.OptionRules, or)
		}
		f.rules = append(f.rules, lr)
	}
	return f, nil
}

// apply applies the first k rules to a deep copy of the builders. ok is false
// when a rule refuses or cog panics (the whole-sequence run reports those).
func (f *c17Ordered) apply(k int, schemas ast.Schemas, builders ast.Builders, lang string) (out ast.Builders, ok bool) {
	cp := make(ast.Builders, 0, len(builders))
	for _, b := range builders {
		cp = append(cp, b.DeepCopy())
	}
	if k == 0 {
		// what ApplyTo does without rules: builders without options are dismissed
		kept := cp[:0]
		for _, b := range cp {
			if len(b.Options) != 0 {
				kept = append(kept, b)
			}
		}
		return kept, true
	}
	rw := rewrite.NewRewrite(f.rules[:k], rewrite.Config{})
	var aerr error
	_, _, panicked := vlib.Guard(func() { out, aerr = rw.ApplyTo(schemas, cp, lang) })
	if panicked || aerr != nil {
		return nil, false
	}
	return out, true
}

func c17InOrder(rules []c17Rule, lang string) []c17Rule {
	order := c17ApplicationOrder(rules, lang)
	ordered := make([]c17Rule, 0, len(order))
	for _, i := range order {
		ordered = append(ordered, rules[i])
	}
	return ordered
}

// c17State is a set of builders with the canonical forms (trails stripped) of
// every builder and option, computed once.
type c17State struct {
	bs       ast.Builders
	keys     []string
	bcanon   []string
	ocanon   [][]string
	keyCount map[string]int
}

// c17BuilderCanon: canonical form of a builder (trails ignored), given the
// canonical forms of its options.
func c17BuilderCanon(b ast.Builder, ocanon []string) string {
	b.Options = nil
	return c17Canon(b) + "\x00" + strings.Join(ocanon, "\x01")
}

func c17CanonOfBuilder(b ast.Builder) string {
	oc := make([]string, 0, len(b.Options))
	for _, o := range b.Options {
		oc = append(oc, c17Canon(o))
	}
	return c17BuilderCanon(b, oc)
}

func c17CanonOfOption(o ast.Option) string { return c17Canon(o) }

// c17DiffNoTrails: first difference between two builders, trails aside.
func c17DiffNoTrails(a, b ast.Builder) (string, string) {
	a, b = a.DeepCopy(), b.DeepCopy()
	isTrail := func(_ reflect.Type, f reflect.StructField) bool {
		return f.Name == "PassesTrail" || f.Name == "VeneerTrail"
	}
	walk.ZeroFields(&a, isTrail)
	walk.ZeroFields(&b, isTrail)
	p, d, _ := walk.Diff(a, b)
	return p, d
}

// c17Mentioned: some rule of the case names the builder, the object it builds
// or the name it is given (selector, merge source, `as`), in its package. A
// builder no rule mentions has to come out of the whole sequence unchanged
// (c17Check, I3); the steps are judged on the mentioned ones.
func c17Mentioned(rules []c17Rule, b ast.Builder) bool {
	for _, r := range rules {
		if r.SelKind == "by_variant" || r.SelKind == "generated_from_disjunction" {
			return true
		}
		if !strings.EqualFold(r.Pkg, b.Package) && !strings.EqualFold(r.Pkg, b.For.SelfRef.ReferredPkg) {
			continue
		}
		for _, n := range []string{r.SelA, r.Source, r.As} {
			if n != "" && (strings.EqualFold(n, b.Name) || strings.EqualFold(n, b.For.Name)) {
				return true
			}
		}
	}
	return false
}

// c17NewState keeps the builders the rules mention.
func c17NewState(all ast.Builders, rules []c17Rule) *c17State {
	bs := make(ast.Builders, 0, len(all))
	for _, b := range all {
		if c17Mentioned(rules, b) {
			bs = append(bs, b)
		}
	}
	st := &c17State{bs: bs, keyCount: map[string]int{}}
	for _, b := range bs {
		k := builderKey(b)
		st.keys = append(st.keys, k)
		st.keyCount[k]++
		oc := make([]string, 0, len(b.Options))
		for _, o := range b.Options {
			oc = append(oc, c17Canon(o))
		}
		st.ocanon = append(st.ocanon, oc)
		st.bcanon = append(st.bcanon, c17BuilderCanon(b, oc))
	}
	return st
}

// has: a builder with that key and exactly that content exists.
func (st *c17State) has(key, canon string) bool {
	for i := range st.bs {
		if st.keys[i] == key && st.bcanon[i] == canon {
			return true
		}
	}
	return false
}

func (st *c17State) firstWithKey(key string) int {
	for i := range st.bs {
		if st.keys[i] == key {
			return i
		}
	}
	return -1
}

func containsStr(list []string, s string) bool {
	for _, x := range list {
		if x == s {
			return true
		}
	}
	return false
}

func countStr(list []string, s string) int {
	n := 0
	for _, x := range list {
		if x == s {
			n++
		}
	}
	return n
}

func c17OwnName(b ast.Builder) bool { return b.Name != b.For.Name }

// c17StepJudge judges one rule applied to `before`, yielding `after`.
func c17StepJudge(r c17Rule, step int, schemas ast.Schemas, before, after *c17State) []vlib.Violation {
	var vs []vlib.Violation
	seen := map[string]bool{}
	bad := func(what string, format string, args ...any) {
		sig := "step:" + r.On + ":" + r.Kind + ":" + what + ":" + r.SelKind
		if seen[sig] {
			return
		}
		seen[sig] = true
		vs = append(vs, vlib.V(sig, "step %d, %s: "+format, append([]any{step, r}, args...)...))
	}
	unchanged := func(i int, why string) {
		key := before.keys[i]
		if after.has(key, before.bcanon[i]) {
			return
		}
		j := after.firstWithKey(key)
		tag := ""
		if c17OwnName(before.bs[i]) {
			tag = ":own-name"
		}
		if j < 0 {
			bad("unselected-builder-removed"+tag, "builder %s (%s) is gone", key, why)
			return
		}
		p, d := c17DiffNoTrails(after.bs[j], before.bs[i])
		bad("unselected-builder-changed:"+lastSegments(p)+tag, "builder %s (%s) changed at %s: %s", key, why, p, d)
	}

	if r.On == "builder" {
		if r.SelKind != "by_object" && r.SelKind != "by_name" {
			return nil
		}
		var sel []int
		for i, b := range before.bs {
			if selectsBuilder(r, schemas, b) {
				sel = append(sel, i)
				continue
			}
			unchanged(i, "not selected by the rule's selector")
		}
		for _, i := range sel {
			s := before.bs[i]
			switch r.Kind {
			case "omit":
				if after.firstWithKey(before.keys[i]) >= 0 {
					bad("not-removed", "builder %s is selected but still there", before.keys[i])
				}
			case "rename":
				want := s.DeepCopy()
				want.Name = r.As
				if !after.has(builderKey(want), c17CanonOfBuilder(want)) {
					bad("not-renamed", "no builder equal to %s under the name %q afterwards", before.keys[i], r.As)
				}
				if r.As != s.Name && after.firstWithKey(before.keys[i]) >= 0 {
					bad("old-name-remains", "builder %s is still there under its old name", before.keys[i])
				}
			case "duplicate":
				want := s.DeepCopy()
				want.Name = r.As
				if len(r.Names) > 0 {
					kept := want.Options[:0]
					for _, o := range want.Options {
						ex := false
						for _, n := range r.Names {
							if strings.EqualFold(n, o.Name) {
								ex = true
							}
						}
						if !ex {
							kept = append(kept, o)
						}
					}
					want.Options = kept
				}
				// a copy left without options is dismissed by the rewriter
				if len(want.Options) > 0 && !after.has(builderKey(want), c17CanonOfBuilder(want)) {
					bad("no-identical-copy", "no identical copy of %s under the name %q", before.keys[i], r.As)
				}
				if !after.has(before.keys[i], before.bcanon[i]) {
					bad("source-changed", "the duplicated builder %s itself changed or is gone", before.keys[i])
				}
			}
		}
		// builders that come out of the step must come from somewhere
		for j, a := range after.bs {
			if before.has(after.keys[j], after.bcanon[j]) || selectsBuilder(r, schemas, a) {
				continue
			}
			explained := false
			if (r.Kind == "rename" || r.Kind == "duplicate") && a.Name == r.As {
				for _, i := range sel {
					if before.bs[i].For.SelfRef == a.For.SelfRef && before.bs[i].Package == a.Package {
						explained = true
					}
				}
			}
			if !explained {
				bad("unexpected-builder", "builder %s comes out of the step; it was not there before and is not the product of a selected builder", after.keys[j])
			}
		}
		return vs
	}

	// option rules
	switch r.SelKind {
	case "opt_by_name", "opt_by_builder", "opt_by_names_object", "opt_by_names_builder":
	default:
		return nil
	}
	for j := range after.bs {
		if before.keyCount[after.keys[j]] == 0 {
			bad("created-builder", "an option rule yields builder %s, which was not there before", after.keys[j])
		}
	}
	cannotRemove := map[string]bool{"rename": true, "duplicate": true, "add_comments": true, "rename_arguments": true, "array_to_append": true, "map_to_index": true, "unfold_boolean": true}
	for i, b := range before.bs {
		var selIdx []int
		for oi, o := range b.Options {
			if selectsOption(r, b, o) {
				selIdx = append(selIdx, oi)
			}
		}
		if len(selIdx) == 0 {
			unchanged(i, "none of its options is selected by the rule's selector")
			continue
		}
		key := before.keys[i]
		if before.keyCount[key] > 1 {
			continue // two builders under one key: which is which afterwards is not decidable here
		}
		j := after.firstWithKey(key)
		if j < 0 {
			// a builder left without options is dismissed by the rewriter
			if len(selIdx) < len(b.Options) {
				bad("builder-gone", "builder %s is gone although only %d of its %d options were selected", key, len(selIdx), len(b.Options))
			} else if cannotRemove[r.Kind] {
				bad("builder-gone", "builder %s is gone although the rule removes no option", key)
			}
			continue
		}
		aoc := after.ocanon[j]
		isSel := map[int]bool{}
		for _, oi := range selIdx {
			isSel[oi] = true
		}
		// options the selector does not select are still there, unchanged
		for oi, o := range b.Options {
			if isSel[oi] {
				continue
			}
			co := before.ocanon[i][oi]
			need := 0
			for oj := range b.Options {
				if !isSel[oj] && before.ocanon[i][oj] == co {
					need++
				}
			}
			if countStr(aoc, co) < need {
				tag := ""
				if c17OwnName(b) {
					tag = ":own-name"
				}
				bad("unselected-option-changed"+tag, "option %s.%s is not selected by the rule's selector but changed or is gone", key, o.Name)
			}
		}
		for _, oi := range selIdx {
			o := b.Options[oi]
			co := before.ocanon[i][oi]
			tag := ""
			if c17OwnName(b) {
				tag = ":own-name"
			}
			switch r.Kind {
			case "omit":
				if containsStr(aoc, co) {
					bad("not-removed"+tag, "option %s.%s is selected but still there", key, o.Name)
				}
			case "rename":
				want := o.DeepCopy()
				want.Name = r.As
				if !containsStr(aoc, c17CanonOfOption(want)) {
					bad("not-renamed"+tag, "no option equal to %s.%s under the name %q", key, o.Name, r.As)
				}
				if r.As != o.Name && containsStr(aoc, co) {
					bad("old-name-remains"+tag, "option %s.%s is still there under its old name", key, o.Name)
				}
			case "duplicate":
				want := o.DeepCopy()
				want.Name = r.As
				if !containsStr(aoc, c17CanonOfOption(want)) || !containsStr(aoc, co) {
					bad("no-identical-copy"+tag, "duplicating %s.%s as %q: identical copy present=%v, original kept=%v", key, o.Name, r.As, containsStr(aoc, c17CanonOfOption(want)), containsStr(aoc, co))
				}
			case "add_comments":
				want := o.DeepCopy()
				want.Comments = append(append([]string{}, want.Comments...), r.Names...)
				if !containsStr(aoc, c17CanonOfOption(want)) {
					bad("comments-not-added"+tag, "no option equal to %s.%s with the comments %q appended", key, o.Name, r.Names)
				}
			case "rename_arguments":
				if len(r.Names) == len(o.Args) && len(o.Args) > 0 {
					found := false
					for _, x := range after.bs[j].Options {
						if x.Name == o.Name && strings.Join(argNames(x.Args), ",") == strings.Join(r.Names, ",") {
							found = true
						}
					}
					if !found {
						bad("arguments-not-renamed"+tag, "no option %s.%s with arguments %v afterwards", key, o.Name, r.Names)
					}
				}
			}
		}
	}
	return vs
}

// c17Steps replays the rules prefix by prefix in application order (each
// prefix through one Rewriter.ApplyTo over a fresh copy of the derived
// builders) and judges every step. The last state is what ApplyTo made of the
// case's veneer files (out): were the rewriter to apply the rules in another
// order than the documented one (common builder rules, common option rules,
// the language's builder rules, its option rules; file after file, in order of
// appearance), the last step would not be the last rule's doing.
func c17Steps(c c17Case, schemas ast.Schemas, builders ast.Builders, out ast.Builders) []vlib.Violation {
	ordered := c17InOrder(c.Rules, c.Lang)
	if len(ordered) != len(c.Rules) {
		return nil
	}
	files, err := c17LoadOrdered(ordered)
	if err != nil {
		return nil
	}
	var vs []vlib.Violation
	s0, _ := files.apply(0, schemas, builders, c.Lang)
	before := c17NewState(s0, c.Rules)
	for k := 1; k <= len(ordered); k++ {
		sk := out
		if k < len(ordered) {
			var ok bool
			sk, ok = files.apply(k, schemas, builders, c.Lang)
			if !ok {
				return vs // refused / panicked: reported (or excused) by the whole-sequence run
			}
		}
		after := c17NewState(sk, c.Rules)
		vs = append(vs, c17StepJudge(ordered[k-1], k, schemas, before, after)...)
		before = after
	}
	return vs
}

// c17Evolved: the builders as the rules drawn so far leave them (nil when
// they are refused): what the next rule is drawn against.
func c17Evolved(schemas ast.Schemas, builders ast.Builders, lang string, prior []c17Rule) ast.Builders {
	ordered := c17InOrder(prior, lang)
	files, err := c17LoadOrdered(ordered)
	if err != nil {
		return nil
	}
	out, ok := files.apply(len(ordered), schemas, builders, lang)
	if !ok {
		return nil
	}
	return out
}

// c17Focus: the builders of `cur` that the last builder rule produced or
// selected (the renamed builder, the copy and its source): where a following
// rule meets a builder that has a name of its own.
func c17Focus(schemas ast.Schemas, cur ast.Builders, prior []c17Rule) ast.Builders {
	var focus ast.Builders
	for i := len(prior) - 1; i >= 0; i-- {
		p := prior[i]
		if p.On != "builder" || (p.Kind != "rename" && p.Kind != "duplicate") {
			continue
		}
		for _, b := range cur {
			if b.Name == p.As || selectsBuilder(p, schemas, b) {
				focus = append(focus, b)
			}
		}
		if len(focus) > 0 {
			break
		}
	}
	sort.SliceStable(focus, func(i, j int) bool { return builderKey(focus[i]) < builderKey(focus[j]) })
	return focus
}
