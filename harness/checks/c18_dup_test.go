package checks

// C18, second half: the places where cog *uses* its copies.
//
//   - duplicate_object (schema transformation), with and without omit_fields,
//     run through compiler.Passes.Process (the copy cog makes before every
//     transformation chain);
//   - the builder veneer `duplicate`, with and without exclude_options;
//   - the option veneer `duplicate`.
//
// The oracle never looks at how the rule is written: whatever the rule hands
// back as "the duplicate" has to equal its source in every declared field
// except the ones the rule documents as different (the name / self reference,
// one more trail entry, the omitted fields / excluded options), and it must
// share no mutable structure with the source.

import (
	"fmt"
	"reflect"
	"sort"
	"strings"

	cogast "github.com/grafana/cog/internal/ast"
	"github.com/grafana/cog/internal/ast/compiler"
	"github.com/grafana/cog/internal/orderedmap"
	vbuilder "github.com/grafana/cog/internal/veneers/builder"
	voption "github.com/grafana/cog/internal/veneers/option"
	"github.com/grafana/cog/verifharness/irfill"
	"github.com/grafana/cog/verifharness/vlib"
	"github.com/grafana/cog/verifharness/walk"
)

const (
	c18ModeDeepCopy   = ""
	c18ModeDupObject  = "duplicate_object"
	c18ModeDupBuilder = "duplicate_builder"
	c18ModeDupOption  = "duplicate_option"
)

// c18Step is one application of a duplicate rule. All numbers are reduced
// modulo what the generated IR offers, so that every drawn step is meaningful.
type c18Step struct {
	Src   int    `json:"src"`            // which object / builder / option is the source (0: the one injected for the purpose)
	Dst   int    `json:"dst,omitempty"`  // objects: the schema receiving the duplicate
	As    string `json:"as"`             // name of the duplicate
	Omit  []int  `json:"omit,omitempty"` // fields / options left out: index into the source's, beyond that a name nothing bears
	Fold  bool   `json:"fold,omitempty"` // spell the names to leave out in another case
	Every bool   `json:"every,omitempty"`
}

// c18Stats describes what a case reached (labels / non-triviality).
type c18Stats struct {
	labels []string
	nmut   int
	canon  string
}

func (s *c18Stats) label(l string) {
	for _, x := range s.labels {
		if x == l {
			return
		}
	}
	s.labels = append(s.labels, l)
}

func c18Filler(c c18Case, depth int) (*irfill.Tape, *irfill.Filler) {
	tape := irfill.NewTape(c.Tape)
	return tape, &irfill.Filler{T: tape, MaxDepth: depth}
}

// c18FillSchemas: 1..3 schemas populated in every field, packages distinct and
// self references consistent (both are what cog's front ends guarantee).
func c18FillSchemas(tape *irfill.Tape, f *irfill.Filler) cogast.Schemas {
	n := tape.N(3) + 1
	s := cogast.Schemas{}
	seen := map[string]bool{}
	for i := 0; i < n; i++ {
		sch := &cogast.Schema{}
		f.Fill(reflect.ValueOf(sch).Elem(), 1, "Schema")
		if sch.Objects == nil {
			sch.Objects = orderedmap.New[string, cogast.Object]()
		}
		if sch.Package == "" || seen[sch.Package] {
			sch.Package += fmt.Sprintf("_%d", i)
		}
		seen[sch.Package] = true
		objs := orderedmap.New[string, cogast.Object]()
		sch.Objects.Iterate(func(k string, o cogast.Object) {
			o.SelfRef.ReferredPkg, o.SelfRef.ReferredType = sch.Package, o.Name
			objs.Set(k, o)
		})
		sch.Objects = objs
		s = append(s, sch)
	}
	return s
}

// c18ForceStruct turns t into a struct type, keeping every non-member field
// (nullable, default, hints, passes trail, and whatever is added later).
func c18ForceStruct(t *cogast.Type, f *irfill.Filler, depth int) {
	if t.Kind == cogast.KindStruct && t.Struct != nil {
		return
	}
	v := reflect.ValueOf(t).Elem()
	for i := 0; i < v.NumField(); i++ {
		if v.Field(i).Kind() == reflect.Ptr { // the per-kind members
			v.Field(i).Set(reflect.Zero(v.Field(i).Type()))
		}
	}
	st := &cogast.StructType{}
	f.Fill(reflect.ValueOf(st).Elem(), depth, "Struct")
	t.Kind = cogast.KindStruct
	t.Struct = st
}

type c18ObjRef struct{ pkg, name string }

func c18Objects(s cogast.Schemas, first *c18ObjRef) []c18ObjRef {
	var out []c18ObjRef
	if first != nil {
		out = append(out, *first)
	}
	for _, sch := range s {
		sch.Objects.Iterate(func(_ string, o cogast.Object) {
			r := c18ObjRef{sch.Package, o.Name}
			if first != nil && r == *first {
				return
			}
			out = append(out, r)
		})
	}
	return out
}

func c18Find(s cogast.Schemas, r c18ObjRef) (cogast.Object, bool) {
	var found cogast.Object
	ok := false
	for _, sch := range s {
		if sch.Package != r.pkg {
			continue
		}
		sch.Objects.Iterate(func(k string, o cogast.Object) {
			if k == r.name && !ok {
				found, ok = o, true
			}
		})
	}
	return found, ok
}

func c18FlipCase(s string) string {
	up := strings.ToUpper(s)
	if up != s {
		return up
	}
	return strings.ToLower(s)
}

// c18OmitNames turns the drawn indices into names: names of the source's own
// elements (possibly in another case) and names nothing bears.
func c18OmitNames(idx []int, names []string, fold bool) []string {
	var out []string
	for _, i := range idx {
		if i < 0 {
			i = -i
		}
		k := i % (len(names) + 2)
		switch {
		case k < len(names):
			n := names[k]
			if fold {
				n = c18FlipCase(n)
			}
			out = append(out, n)
		default:
			out = append(out, fmt.Sprintf("noSuchName%d", k-len(names)))
		}
	}
	return out
}

// c18Keep says which of the source's named elements a duplicate that leaves
// `omit` out has to keep. An element whose exact name is listed must go; one
// whose name matches no listed name in any case must stay; the ones that only
// match in another case may all stay or all go (cog compares case-insensitively,
// the documentation does not say): what the duplicate's length says decides.
func c18Keep(srcNames []string, gotLen int, omit []string) []bool {
	exact := func(n string) bool {
		for _, o := range omit {
			if o == n {
				return true
			}
		}
		return false
	}
	fold := func(n string) bool {
		for _, o := range omit {
			if strings.EqualFold(o, n) {
				return true
			}
		}
		return false
	}
	notExact := 0
	for _, n := range srcNames {
		if !exact(n) {
			notExact++
		}
	}
	foldStays := gotLen == notExact
	keep := make([]bool, len(srcNames))
	for i, n := range srcNames {
		switch {
		case exact(n):
			keep[i] = false
		case fold(n):
			keep[i] = foldStays
		default:
			keep[i] = true
		}
	}
	return keep
}

func c18HasPrefix(s, prefix []string) bool {
	if len(s) < len(prefix) {
		return false
	}
	for i := range prefix {
		if s[i] != prefix[i] {
			return false
		}
	}
	return true
}

// c18Independent: the duplicate shares no mutable structure with its source,
// and overwriting everything reachable from the duplicate leaves the source as
// it was. dupPtr must be a pointer to (a struct copy of) the duplicate.
func c18Independent(rule string, src any, dupPtr any) []vlib.Violation {
	var vs []vlib.Violation
	before := walk.Canon(src)
	oa, ca := walk.Addrs(src), walk.Addrs(reflect.ValueOf(dupPtr).Elem().Interface())
	var shared []string
	for a, p := range ca {
		if _, ok := oa[a]; ok {
			shared = append(shared, p)
		}
	}
	sort.Strings(shared)
	if len(shared) > 0 {
		best := shared[0]
		for _, s := range shared {
			if len(s) < len(best) {
				best = s
			}
		}
		vs = append(vs, vlib.V("shared:"+rule+":"+best, "the duplicate made by %s shares mutable structure with its source at %s (%d shared addresses, e.g. %v)", rule, best, len(shared), firstN(shared, 4)))
	}
	walk.Scrub(dupPtr)
	if after := walk.Canon(src); after != before && len(shared) == 0 {
		vs = append(vs, vlib.V("mutation-visible:"+rule, "overwriting the duplicate made by %s changed its source:\nbefore %s\nafter  %s", rule, before, after))
	}
	return vs
}

// ---------------------------------------------------------------- objects

func c18TypeLabels(st *c18Stats, prefix string, t cogast.Type) {
	if t.Nullable {
		st.label(prefix + "_nullable")
	}
	if t.Default != nil {
		st.label(prefix + "_default")
	}
	if len(t.Hints) > 0 {
		st.label(prefix + "_hints")
	}
	if len(t.PassesTrail) > 0 {
		st.label(prefix + "_trail")
	}
}

// c18JudgeObject compares a duplicated object with its source.
func c18JudgeObject(rule string, src, dup cogast.Object, omit []string) []vlib.Violation {
	var vs []vlib.Violation
	exp, got := src, dup // struct copies: what is overwritten below is local
	got.Name = exp.Name
	got.SelfRef.ReferredPkg, got.SelfRef.ReferredType = exp.SelfRef.ReferredPkg, exp.SelfRef.ReferredType
	if c18HasPrefix(dup.PassesTrail, src.PassesTrail) {
		got.PassesTrail = exp.PassesTrail // the rule adds its own entry
	}
	if src.Type.Kind == cogast.KindStruct && src.Type.Struct != nil && dup.Type.Kind == cogast.KindStruct && dup.Type.Struct != nil && len(omit) > 0 {
		var names []string
		for _, fld := range src.Type.Struct.Fields {
			names = append(names, fld.Name)
		}
		keep := c18Keep(names, len(dup.Type.Struct.Fields), omit)
		st := *src.Type.Struct
		st.Fields = nil
		for i, fld := range src.Type.Struct.Fields {
			if keep[i] {
				st.Fields = append(st.Fields, fld)
			}
		}
		exp.Type.Struct = &st
	}
	if p, d, differs := walk.Diff(exp, got); differs {
		vs = append(vs, vlib.V("unfaithful:"+rule+":"+p, "the duplicate made by %s differs from its source at %s (leaving out %q): %s", rule, p, omit, d))
	}
	return vs
}

func c18CheckDupObject(c c18Case, st *c18Stats) []vlib.Violation {
	tape, f := c18Filler(c, 6)
	cur := c18FillSchemas(tape, f)
	// the object made for the purpose: most of the time a struct whose own type
	// carries nullable / default / hints / trail
	var o cogast.Object
	f.Fill(reflect.ValueOf(&o).Elem(), 1, "Object")
	if tape.N(5) != 0 {
		c18ForceStruct(&o.Type, f, 3)
	}
	if o.Name == "" {
		o.Name = "obj"
	}
	home := cur[tape.N(len(cur))]
	o.SelfRef.ReferredPkg, o.SelfRef.ReferredType = home.Package, o.Name
	home.Objects.Set(o.Name, o)
	first := &c18ObjRef{home.Package, o.Name}

	st.canon = walk.Canon(cur)
	st.nmut = len(walk.Addrs(cur))

	var vs []vlib.Violation
	for si, step := range c.Steps {
		rule := c18ModeDupObject
		objs := c18Objects(cur, first)
		srcRef := objs[abs(step.Src)%len(objs)]
		dst := cur[abs(step.Dst)%len(cur)]
		as := step.As
		if as == "" {
			as = "Dup"
		}
		if dst.Package == srcRef.pkg && as == srcRef.name {
			as += "Dup" // the duplicate would replace its own source
		}
		inSrc, _ := c18Find(cur, srcRef)
		var names []string
		if inSrc.Type.Kind == cogast.KindStruct && inSrc.Type.Struct != nil {
			st.label("src_struct")
			c18TypeLabels(st, "src_struct_type", inSrc.Type)
			for _, fld := range inSrc.Type.Struct.Fields {
				names = append(names, fld.Name)
			}
		} else {
			st.label("src_not_struct")
		}
		omit := c18OmitNames(step.Omit, names, step.Fold)
		if len(omit) > 0 {
			st.label("omit_fields")
			if len(names) > 0 {
				st.label("omit_fields_on_struct_with_fields")
			}
		}
		if dst.Package != srcRef.pkg {
			st.label("other_package")
		}
		if si > 0 {
			st.label("second_step")
		}
		pass := &compiler.DuplicateObject{
			Object:     compiler.ObjectReference{Package: srcRef.pkg, Object: srcRef.name},
			As:         compiler.ObjectReference{Package: dst.Package, Object: as},
			OmitFields: omit,
		}
		before := walk.Canon(cur)
		var out cogast.Schemas
		var err error
		sig, msg, panicked := vlib.Guard(func() { out, err = compiler.Passes{pass}.Process(cur) })
		if panicked {
			return append(vs, vlib.V("panic:"+rule+":"+sig, "%s panicked: %s", rule, msg))
		}
		if err != nil {
			return append(vs, vlib.V("error:"+rule, "%s refused: %v", rule, err))
		}
		// the copy made before the chain: the chain's input is left alone and
		// nothing of it is reachable from the result
		if after := walk.Canon(cur); after != before {
			vs = append(vs, vlib.V("chain-modified-input", "compiler.Passes.Process changed the schemas it was given:\nbefore %s\nafter  %s", short18(before), short18(after)))
		}
		ia, oa := walk.Addrs(cur), walk.Addrs(out)
		nshared := 0
		eg := ""
		for a, p := range oa {
			if _, ok := ia[a]; ok {
				nshared++
				if eg == "" || len(p) < len(eg) {
					eg = p
				}
			}
		}
		if nshared > 0 {
			vs = append(vs, vlib.V("chain-shared:"+eg, "the result of compiler.Passes.Process shares mutable structure with its input at %s (%d addresses)", eg, nshared))
		}
		outSrc, ok := c18Find(out, srcRef)
		if !ok {
			return append(vs, vlib.V("source-lost:"+rule, "%s: the source %s.%s is gone from the result", rule, srcRef.pkg, srcRef.name))
		}
		if p, d, differs := walk.Diff(inSrc, outSrc); differs {
			vs = append(vs, vlib.V("source-changed:"+rule+":"+p, "%s changed its source at %s: %s", rule, p, d))
		}
		dup, ok := c18Find(out, c18ObjRef{dst.Package, as})
		if !ok {
			return append(vs, vlib.V("duplicate-missing:"+rule, "%s: no object %s.%s in the result", rule, dst.Package, as))
		}
		vs = append(vs, c18JudgeObject(rule, outSrc, dup, omit)...)
		dupCopy := dup
		vs = append(vs, c18Independent(rule, outSrc, &dupCopy)...)
		if len(vs) > 0 {
			return vs
		}
		if si == len(c.Steps)-1 {
			break
		}
		// the duplicate was overwritten: go on from a fresh run of the same step
		out, _ = compiler.Passes{pass}.Process(cur)
		cur = out
	}
	return vs
}

func short18(s string) string {
	if len(s) > 600 {
		return s[:600] + "…"
	}
	return s
}

func abs(i int) int {
	if i < 0 {
		return -i
	}
	return i
}

// --------------------------------------------------------------- builders

func c18FillBuilders(tape *irfill.Tape, f *irfill.Filler) cogast.Builders {
	n := tape.N(3) + 1
	var bs cogast.Builders
	for i := 0; i < n; i++ {
		var b cogast.Builder
		f.Fill(reflect.ValueOf(&b).Elem(), 1, "Builder")
		bs = append(bs, b)
	}
	return bs
}

func c18JudgeBuilder(rule string, src, dup cogast.Builder, exclude []string) []vlib.Violation {
	var vs []vlib.Violation
	exp, got := src, dup
	got.Name = exp.Name
	if c18HasPrefix(dup.VeneerTrail, src.VeneerTrail) {
		got.VeneerTrail = exp.VeneerTrail
	}
	if len(exclude) > 0 {
		var names []string
		for _, o := range src.Options {
			names = append(names, o.Name)
		}
		keep := c18Keep(names, len(dup.Options), exclude)
		exp.Options = nil
		for i, o := range src.Options {
			if keep[i] {
				exp.Options = append(exp.Options, o)
			}
		}
	}
	if p, d, differs := walk.Diff(exp, got); differs {
		vs = append(vs, vlib.V("unfaithful:"+rule+":"+p, "the duplicate made by %s differs from its source at %s (leaving out %q): %s", rule, p, exclude, d))
	}
	return vs
}

func c18CheckDupBuilder(c c18Case, st *c18Stats) []vlib.Violation {
	tape, f := c18Filler(c, 6)
	cur := c18FillBuilders(tape, f)
	schemas := cogast.Schemas{}
	st.canon = walk.Canon(cur)
	st.nmut = len(walk.Addrs(cur))
	rule := c18ModeDupBuilder

	var vs []vlib.Violation
	for si, step := range c.Steps {
		src := cur[abs(step.Src)%len(cur)]
		as := step.As
		if as == "" {
			as = "Dup"
		}
		var names []string
		for _, o := range src.Options {
			names = append(names, o.Name)
		}
		exclude := c18OmitNames(step.Omit, names, step.Fold)
		if len(exclude) > 0 {
			st.label("exclude_options")
			if len(names) > 0 {
				st.label("exclude_options_on_builder_with_options")
			}
		}
		if len(src.Factories) > 0 {
			st.label("src_has_factories")
		}
		if len(src.Properties) > 0 {
			st.label("src_has_properties")
		}
		if si > 0 {
			st.label("second_step")
		}
		selector := vbuilder.ByName(src.For.SelfRef.ReferredPkg, src.Name)
		if step.Every {
			selector = vbuilder.EveryBuilder()
			st.label("every_builder")
		}
		var selected []int
		for i, b := range cur {
			if selector(schemas, b) {
				selected = append(selected, i)
			}
		}
		before := walk.Canon(cur)
		in := make(cogast.Builders, len(cur))
		copy(in, cur)
		var out cogast.Builders
		var err error
		sig, msg, panicked := vlib.Guard(func() { out, err = vbuilder.Duplicate(selector, as, exclude)(schemas, in) })
		if panicked {
			return append(vs, vlib.V("panic:"+rule+":"+sig, "%s panicked: %s", rule, msg))
		}
		if err != nil {
			return append(vs, vlib.V("error:"+rule, "%s refused: %v", rule, err))
		}
		if after := walk.Canon(cur); after != before {
			vs = append(vs, vlib.V("source-changed:"+rule, "%s changed the builders it was given:\nbefore %s\nafter  %s", rule, short18(before), short18(after)))
		}
		if len(out) != len(cur)+len(selected) {
			return append(vs, vlib.V("duplicate-missing:"+rule, "%s: %d builders selected out of %d, %d builders returned", rule, len(selected), len(cur), len(out)))
		}
		for i := range cur {
			if p, d, differs := walk.Diff(cur[i], out[i]); differs {
				vs = append(vs, vlib.V("source-changed:"+rule+":"+p, "%s changed builder #%d at %s: %s", rule, i, p, d))
			}
		}
		for k, i := range selected {
			dup := out[len(cur)+k]
			vs = append(vs, c18JudgeBuilder(rule, out[i], dup, exclude)...)
		}
		if len(vs) > 0 {
			return vs
		}
		// independence, last (it overwrites the duplicates): each duplicate
		// against every builder that was there before it
		for k := range selected {
			dupCopy := out[len(cur)+k]
			vs = append(vs, c18Independent(rule, cogast.Builders(out[:len(cur)]), &dupCopy)...)
		}
		if len(vs) > 0 {
			return vs
		}
		if si == len(c.Steps)-1 {
			break
		}
		// go on from a fresh application (the duplicates above are overwritten)
		in = make(cogast.Builders, len(cur))
		copy(in, cur)
		cur, _ = vbuilder.Duplicate(selector, as, exclude)(schemas, in)
		if len(cur) > 6 {
			cur = cur[:6]
		}
	}
	return vs
}

// ---------------------------------------------------------------- options

func c18JudgeOption(rule string, src, dup cogast.Option) []vlib.Violation {
	exp, got := src, dup
	got.Name = exp.Name
	if c18HasPrefix(dup.VeneerTrail, src.VeneerTrail) {
		got.VeneerTrail = exp.VeneerTrail
	}
	if p, d, differs := walk.Diff(exp, got); differs {
		return []vlib.Violation{vlib.V("unfaithful:"+rule+":"+p, "the duplicate made by %s differs from its source at %s: %s", rule, p, d)}
	}
	return nil
}

func c18CheckDupOption(c c18Case, st *c18Stats) []vlib.Violation {
	_, f := c18Filler(c, 6)
	var b cogast.Builder
	f.Fill(reflect.ValueOf(&b).Elem(), 1, "Builder")
	var o cogast.Option
	f.Fill(reflect.ValueOf(&o).Elem(), 2, "Option")
	b.Options = append([]cogast.Option{o}, b.Options...)
	schemas := cogast.Schemas{}
	st.canon = walk.Canon(b)
	st.nmut = len(walk.Addrs(b))
	rule := c18ModeDupOption

	var vs []vlib.Violation
	for si, step := range c.Steps {
		if len(b.Options) == 0 {
			break
		}
		src := b.Options[abs(step.Src)%len(b.Options)]
		as := step.As
		if as == "" {
			as = "Dup"
		}
		for as == src.Name { // the duplicate is told from its source by its name
			as += "Dup"
		}
		if src.Default != nil {
			st.label("src_has_default")
		}
		if len(src.Assignments) > 0 {
			st.label("src_has_assignments")
		}
		if si > 0 {
			st.label("second_step")
		}
		r := voption.Duplicate(voption.EveryOption(), as)
		before := walk.Canon(b)
		var out []cogast.Option
		sig, msg, panicked := vlib.Guard(func() { out = r.Action(schemas, b, src) })
		if panicked {
			return append(vs, vlib.V("panic:"+rule+":"+sig, "%s panicked: %s", rule, msg))
		}
		if after := walk.Canon(b); after != before {
			vs = append(vs, vlib.V("source-changed:"+rule, "%s changed the builder it was given:\nbefore %s\nafter  %s", rule, short18(before), short18(after)))
		}
		di, oi := -1, -1
		for i, x := range out {
			if x.Name == as && di < 0 {
				di = i
			} else if _, _, differs := walk.Diff(src, x); !differs && oi < 0 {
				oi = i
			}
		}
		if di < 0 {
			return append(vs, vlib.V("duplicate-missing:"+rule, "%s: no option %q among the %d returned", rule, as, len(out)))
		}
		if oi < 0 {
			return append(vs, vlib.V("source-changed:"+rule+":returned", "%s: the source option is not among the %d returned as it was", rule, len(out)))
		}
		vs = append(vs, c18JudgeOption(rule, out[oi], out[di])...)
		if len(vs) > 0 {
			return vs
		}
		dupCopy := out[di]
		vs = append(vs, c18Independent(rule, out[oi], &dupCopy)...)
		if len(vs) > 0 {
			return vs
		}
		if si == len(c.Steps)-1 {
			break
		}
		fresh := r.Action(schemas, b, src)
		if len(b.Options) < 6 && len(fresh) == 2 {
			b.Options = append(b.Options, fresh[di])
		}
	}
	return vs
}
