package checks

// C20 — config files are decoded strictly and match the published schemas.
//
// Documents are generated from two independent sources of truth: (G) the Go
// structs the three loaders decode into (yaml.v3's own key rule), and (S) the
// published JSON Schemas (schemas/*.json). Oracles, all key-level:
//   - a G-document must not trip an `additionalProperties` rule of the schema;
//   - an S-document must not trip yaml's "field … not found in type" error;
//   - a document with one unknown key injected at a closed mapping node must be
//     refused by the loader with an error naming that key AND by the schema
//     with an additionalProperties error at that node;
//   - struct by struct, the loader's key set equals the schema's property set;
//   - a rule entry with no recognised action is refused; each action key
//     yields exactly one rule.
//
// Compiler-pass and veneer documents are submitted through every route by which
// cog reads such a file (reader, readers, file names, a generated pipeline),
// at a position among valid sibling files: see c20_routes_test.go. The same
// oracles apply to what the route answers, plus: an accepted set of files
// yields as many passes / rules as its documents declare entries.

import (
	"bytes"
	"encoding/json"
	"fmt"
	"os"
	"path/filepath"
	"reflect"
	"sort"
	"strings"
	"testing"

	"github.com/grafana/cog/internal/codegen"
	"github.com/grafana/cog/internal/veneers/rewrite"
	cogyaml "github.com/grafana/cog/internal/yaml"
	"github.com/grafana/cog/verifharness/vlib"
	"github.com/santhosh-tekuri/jsonschema/v5"
	"gopkg.in/yaml.v3"
	"pgregory.net/rapid"
)

const c20Unknown = "zzz_unknown_key"

type c20Case struct {
	Loader string `json:"loader"` // pipeline | compiler | veneers
	YAML   string `json:"yaml"`
	// Source: "go-types" or "schema" (which generator produced the document)
	Source string `json:"source"`
	// InjectedAt: JSON pointer of the mapping node that received the unknown
	// key ("" = no injection); InjectedType: Go struct / schema def at that node.
	Injected     bool   `json:"injected"`
	InjectedAt   string `json:"injected_at,omitempty"`
	InjectedType string `json:"injected_type,omitempty"`
	// Expect: "" | "reject-empty-rule" | "one-rule"
	Expect string `json:"expect,omitempty"`

	// Route: how cog is made to read the document ("" = the loader's plain
	// entry point; readers | files | pipeline: see c20_routes_test.go).
	Route string `json:"route,omitempty"`
	// Siblings: valid files of the same kind loaded in the same call; Pos: the
	// position of the document among them.
	Siblings []string `json:"siblings,omitempty"`
	Pos      int      `json:"pos,omitempty"`
	// pipeline route. Slots, per file in order: compiler 0 = transformations.schemas,
	// 1 / 2 = transformations of input 0 / 1; veneers: directory 0 / 1.
	// Kinds: the pipeline's inputs; Lang: its output language; Interp: paths
	// written as %__config_dir%/... and the pipeline loaded with parameters.
	Slots  []int    `json:"slots,omitempty"`
	Kinds  []string `json:"kinds,omitempty"`
	Lang   string   `json:"lang,omitempty"`
	Interp bool     `json:"interp,omitempty"`
}

// ---- generic document tree -------------------------------------------------

type ynode struct {
	kind   string // map | list | leaf
	closed bool   // a map decoded into a Go struct / schema object with additionalProperties:false
	typ    string // Go struct name or schema def
	keys   []string
	vals   []*ynode
	items  []*ynode
	leaf   any
}

func (n *ynode) toAny() any {
	switch n.kind {
	case "map":
		m := map[string]any{}
		for i, k := range n.keys {
			m[k] = n.vals[i].toAny()
		}
		return m
	case "list":
		out := make([]any, 0, len(n.items))
		for _, it := range n.items {
			out = append(out, it.toAny())
		}
		return out
	}
	return n.leaf
}

func (n *ynode) yaml() string {
	raw, _ := json.Marshal(n.toOrdered())
	// JSON is YAML; keep key order for readability through a custom encoder
	return string(raw) + "\n"
}

// toOrdered renders maps as json.RawMessage keeping key order.
func (n *ynode) toOrdered() any {
	switch n.kind {
	case "map":
		var sb bytes.Buffer
		sb.WriteString("{")
		for i, k := range n.keys {
			if i > 0 {
				sb.WriteString(", ")
			}
			kk, _ := json.Marshal(k)
			vv, _ := json.Marshal(n.vals[i].toOrdered())
			sb.Write(kk)
			sb.WriteString(": ")
			sb.Write(vv)
		}
		sb.WriteString("}")
		return json.RawMessage(sb.Bytes())
	case "list":
		out := make([]any, 0, len(n.items))
		for _, it := range n.items {
			out = append(out, it.toOrdered())
		}
		return out
	}
	return n.leaf
}

// closedMaps lists (pointer, node) of every closed mapping node.
func (n *ynode) closedMaps(ptr string, out *[]struct {
	ptr  string
	node *ynode
}) {
	switch n.kind {
	case "map":
		if n.closed {
			*out = append(*out, struct {
				ptr  string
				node *ynode
			}{ptr, n})
		}
		for i, k := range n.keys {
			n.vals[i].closedMaps(ptr+"/"+strings.NewReplacer("~", "~0", "/", "~1").Replace(k), out)
		}
	case "list":
		for i, it := range n.items {
			it.closedMaps(fmt.Sprintf("%s/%d", ptr, i), out)
		}
	}
}

func (n *ynode) clone() *ynode {
	c := *n
	c.keys = append([]string(nil), n.keys...)
	c.vals = make([]*ynode, len(n.vals))
	for i, v := range n.vals {
		c.vals[i] = v.clone()
	}
	c.items = make([]*ynode, len(n.items))
	for i, v := range n.items {
		c.items[i] = v.clone()
	}
	return &c
}

// ---- (G) documents from the Go types --------------------------------------

type yamlKey struct {
	key   string
	typ   reflect.Type
	owner string
}

// yamlKeys applies yaml.v3's key rule: tag name, else lower-cased field name;
// ",inline" structs are flattened; "-" and unexported fields are skipped.
func yamlKeys(t reflect.Type) []yamlKey {
	var out []yamlKey
	for i := 0; i < t.NumField(); i++ {
		f := t.Field(i)
		if f.PkgPath != "" && !f.Anonymous {
			continue
		}
		tag := f.Tag.Get("yaml")
		name, opts, _ := strings.Cut(tag, ",")
		if name == "-" {
			continue
		}
		if strings.Contains(","+opts+",", ",inline,") {
			ft := f.Type
			for ft.Kind() == reflect.Ptr {
				ft = ft.Elem()
			}
			if ft.Kind() == reflect.Struct {
				out = append(out, yamlKeys(ft)...)
			}
			continue
		}
		if f.PkgPath != "" {
			continue
		}
		if name == "" {
			name = strings.ToLower(f.Name)
		}
		if f.Type.Kind() == reflect.Func || f.Type.Kind() == reflect.Chan {
			continue
		}
		out = append(out, yamlKey{key: name, typ: f.Type, owner: t.Name()})
	}
	return out
}

type chooser func(n int) int // returns a number in [0,n)

// goInstance builds a document node for Go type t. include decides, per key,
// whether it is present (full instance: always).
func goInstance(t reflect.Type, depth int, pick chooser, full bool, strVariant int) *ynode {
	for t.Kind() == reflect.Ptr {
		t = t.Elem()
	}
	switch t.Kind() {
	case reflect.Struct:
		n := &ynode{kind: "map", closed: true, typ: t.String()}
		for _, k := range yamlKeys(t) {
			kt := k.typ
			isPtr := false
			for kt.Kind() == reflect.Ptr {
				kt = kt.Elem()
				isPtr = true
			}
			// cut recursion: beyond the depth bound only plain leaves remain
			if depth >= 5 && (kt.Kind() == reflect.Struct || kt.Kind() == reflect.Slice || kt.Kind() == reflect.Map) {
				if isPtr || kt.Kind() != reflect.Struct {
					continue
				}
			}
			if !full && pick(3) == 0 {
				continue
			}
			n.keys = append(n.keys, k.key)
			n.vals = append(n.vals, goInstance(k.typ, depth+1, pick, full, strVariant))
		}
		return n
	case reflect.Slice, reflect.Array:
		n := &ynode{kind: "list"}
		cnt := 1
		if !full {
			cnt = pick(3)
		}
		for i := 0; i < cnt; i++ {
			n.items = append(n.items, goInstance(t.Elem(), depth+1, pick, full, strVariant))
		}
		return n
	case reflect.Map:
		n := &ynode{kind: "map", closed: false, typ: t.String()}
		n.keys = []string{"some_key"}
		n.vals = []*ynode{goInstance(t.Elem(), depth+1, pick, full, strVariant)}
		return n
	case reflect.Bool:
		return &ynode{kind: "leaf", leaf: true}
	case reflect.Int, reflect.Int8, reflect.Int16, reflect.Int32, reflect.Int64, reflect.Uint, reflect.Uint8, reflect.Uint16, reflect.Uint32, reflect.Uint64:
		return &ynode{kind: "leaf", leaf: 1}
	case reflect.Float32, reflect.Float64:
		return &ynode{kind: "leaf", leaf: 1.5}
	case reflect.String:
		return &ynode{kind: "leaf", leaf: []string{"pkg.Obj", "pkg.Obj.field", "name"}[strVariant%3]}
	case reflect.Interface:
		return &ynode{kind: "leaf", leaf: "any value"}
	}
	return &ynode{kind: "leaf", leaf: nil}
}

// ---- (S) documents from the published schemas ------------------------------

type c20Schema struct {
	name     string
	raw      map[string]any
	compiled *jsonschema.Schema
}

func (s *c20Schema) resolve(node map[string]any) (map[string]any, string) {
	name := ""
	for hops := 0; hops < 10; hops++ {
		ref, ok := node["$ref"].(string)
		if !ok {
			return node, name
		}
		name = strings.TrimPrefix(ref, "#/$defs/")
		node = s.raw["$defs"].(map[string]any)[name].(map[string]any)
	}
	return node, name
}

func schemaInstance(s *c20Schema, node map[string]any, depth int, pick chooser, full bool) *ynode {
	node, defName := s.resolve(node)
	if len(node) == 0 {
		return &ynode{kind: "leaf", leaf: "any value"}
	}
	typ, _ := node["type"].(string)
	switch {
	case typ == "object" || node["properties"] != nil:
		props, _ := node["properties"].(map[string]any)
		if props == nil {
			n := &ynode{kind: "map", closed: false, typ: defName}
			if ap, ok := node["additionalProperties"].(map[string]any); ok {
				n.keys = []string{"some_key"}
				n.vals = []*ynode{schemaInstance(s, ap, depth+1, pick, full)}
			} else {
				n.keys = []string{"some_key"}
				n.vals = []*ynode{{kind: "leaf", leaf: "v"}}
			}
			return n
		}
		closed := node["additionalProperties"] == false
		n := &ynode{kind: "map", closed: closed, typ: defName}
		keys := make([]string, 0, len(props))
		for k := range props {
			keys = append(keys, k)
		}
		sort.Strings(keys)
		for _, k := range keys {
			sub, _ := props[k].(map[string]any)
			if sub == nil {
				sub = map[string]any{}
			}
			rsub, _ := s.resolve(sub)
			st, _ := rsub["type"].(string)
			composite := st == "object" || st == "array" || rsub["properties"] != nil
			if depth >= 5 && composite {
				continue
			}
			if !full && pick(3) == 0 {
				continue
			}
			n.keys = append(n.keys, k)
			n.vals = append(n.vals, schemaInstance(s, sub, depth+1, pick, full))
		}
		return n
	case typ == "array":
		n := &ynode{kind: "list"}
		items, _ := node["items"].(map[string]any)
		if items == nil {
			items = map[string]any{}
		}
		cnt := 1
		if !full {
			cnt = pick(3)
		}
		for i := 0; i < cnt; i++ {
			n.items = append(n.items, schemaInstance(s, items, depth+1, pick, full))
		}
		return n
	case typ == "boolean":
		return &ynode{kind: "leaf", leaf: true}
	case typ == "integer":
		return &ynode{kind: "leaf", leaf: 1}
	case typ == "number":
		return &ynode{kind: "leaf", leaf: 1.5}
	case typ == "string":
		return &ynode{kind: "leaf", leaf: "pkg.Obj"}
	}
	return &ynode{kind: "leaf", leaf: "any value"}
}

// ---- loaders and schemas ---------------------------------------------------

var c20Roots = map[string]reflect.Type{
	"pipeline": reflect.TypeOf(codegen.Pipeline{}),
	"compiler": reflect.TypeOf(cogyaml.Compiler{}),
	"veneers":  reflect.TypeOf(cogyaml.Veneers{}),
}

var c20SchemaFiles = map[string]string{"pipeline": "pipeline.json", "compiler": "compiler_passes.json", "veneers": "veneers.json"}

func repoDir() string {
	if r := os.Getenv("VERIF_REPO"); r != "" {
		return r
	}
	return "/repo"
}

var c20SchemaCache = map[string]*c20Schema{}

func c20LoadSchema(loader string) (*c20Schema, error) {
	if s, ok := c20SchemaCache[loader]; ok {
		return s, nil
	}
	path := filepath.Join(repoDir(), "schemas", c20SchemaFiles[loader])
	raw, err := os.ReadFile(path)
	if err != nil {
		return nil, err
	}
	var m map[string]any
	if err := json.Unmarshal(raw, &m); err != nil {
		return nil, err
	}
	comp := jsonschema.NewCompiler()
	url := "mem://" + c20SchemaFiles[loader]
	if err := comp.AddResource(url, bytes.NewReader(raw)); err != nil {
		return nil, err
	}
	compiled, err := comp.Compile(url)
	if err != nil {
		return nil, err
	}
	s := &c20Schema{name: loader, raw: m, compiled: compiled}
	c20SchemaCache[loader] = s
	return s, nil
}

var c20FileSeq int

// c20Load runs the real loader on the YAML text. rules = number of
// passes/rules produced (-1 if unknown).
func c20Load(loader string, text string) (rules int, err error) {
	dir := os.Getenv("VERIF_WORK")
	if dir == "" {
		dir = os.TempDir()
	}
	c20FileSeq++
	switch loader {
	case "compiler":
		passes, e := cogyaml.NewCompilerLoader().Load(strings.NewReader(text))
		return len(passes), e
	case "pipeline":
		path := filepath.Join(dir, fmt.Sprintf("c20_pipeline_%d.yaml", os.Getpid()))
		if e := os.WriteFile(path, []byte(text), 0o644); e != nil {
			return -1, e
		}
		defer os.Remove(path)
		_, e := codegen.PipelineFromFile(path)
		return -1, e
	case "veneers":
		path := filepath.Join(dir, fmt.Sprintf("c20_veneers_%d.yaml", os.Getpid()))
		if e := os.WriteFile(path, []byte(text), 0o644); e != nil {
			return -1, e
		}
		defer os.Remove(path)
		rw, e := cogyaml.NewVeneersLoader().RewriterFrom([]string{path}, rewrite.Config{})
		return c20RewriterRules(rw), e
	}
	return -1, fmt.Errorf("unknown loader %s", loader)
}

// additionalPropertiesErrors returns the instance locations at which the
// schema complains about an undeclared property.
func additionalPropertiesErrors(err error) []string {
	ve, ok := err.(*jsonschema.ValidationError)
	if !ok {
		return nil
	}
	var out []string
	var rec func(e *jsonschema.ValidationError)
	rec = func(e *jsonschema.ValidationError) {
		if strings.HasSuffix(e.KeywordLocation, "/additionalProperties") {
			out = append(out, e.InstanceLocation+" :: "+e.Message)
		}
		for _, c := range e.Causes {
			rec(c)
		}
	}
	rec(ve)
	return out
}

func yamlToGeneric(text string) (any, error) {
	var v any
	if err := yaml.Unmarshal([]byte(text), &v); err != nil {
		return nil, err
	}
	return normalizeYAML(v), nil
}

func normalizeYAML(v any) any {
	switch x := v.(type) {
	case map[string]any:
		for k, e := range x {
			x[k] = normalizeYAML(e)
		}
		return x
	case map[any]any:
		m := map[string]any{}
		for k, e := range x {
			m[fmt.Sprint(k)] = normalizeYAML(e)
		}
		return m
	case []any:
		for i, e := range x {
			x[i] = normalizeYAML(e)
		}
		return x
	case int:
		return float64(x)
	case int64:
		return float64(x)
	}
	return v
}

func c20Check(c c20Case) []vlib.Violation {
	schema, err := c20LoadSchema(c.Loader)
	if err != nil {
		return []vlib.Violation{vlib.V("harness:schema", "cannot load published schema: %v", err)}
	}
	if c.Loader == "pipeline" {
		c.Route = ""
	}
	via := ""
	if c.Route != "" {
		via = ":via-" + c.Route
	}
	var rules int
	var lerr error
	sig, msg, panicked := vlib.Guard(func() {
		if c.Route == "" {
			rules, lerr = c20Load(c.Loader, c.YAML)
		} else {
			rules, lerr = c20LoadVia(c, true)
		}
	})
	if panicked {
		return []vlib.Violation{vlib.V("skip:panic:"+sig, "loader panicked: %s", msg)}
	}
	if lerr != nil && strings.HasPrefix(lerr.Error(), "harness:") {
		return []vlib.Violation{vlib.V("harness:route", "the route %q could not be set up: %v", c.Route, lerr)}
	}
	generic, gerr := yamlToGeneric(c.YAML)
	if gerr != nil {
		return []vlib.Violation{vlib.V("harness:yaml", "generated document is not YAML: %v", gerr)}
	}
	serr := schema.compiled.Validate(generic)
	apErrs := additionalPropertiesErrors(serr)
	var vs []vlib.Violation
	lmsg := ""
	if lerr != nil {
		lmsg = lerr.Error()
	}
	// what the route was given besides the document: the rules its siblings declare
	siblingRules, countable := 0, true
	for _, sib := range c.Siblings {
		if c.Route == "" {
			break
		}
		n, ok := c20DeclaredRules(c.Loader, sib)
		if !ok {
			countable = false
		}
		siblingRules += n
	}
	// a refusal only counts if the route accepts the siblings alone
	controlled := func() bool {
		if c.Route == "" || lerr == nil {
			return true
		}
		var cerr error
		_, _, cpanic := vlib.Guard(func() { _, cerr = c20LoadVia(c, false) })
		if cpanic || cerr != nil {
			vs = append(vs, vlib.V("harness:control"+via, "the route %q fails without the document under test (siblings alone): %v", c.Route, cerr))
			return false
		}
		return true
	}
	emptyEntries := c20EmptyEntries(c.Loader, generic)
	switch {
	case c.Expect == "reject-empty-rule":
		if lerr == nil {
			vs = append(vs, vlib.V("empty-rule-accepted:"+c.Loader+":"+c.InjectedType+via, "a rule entry with no recognised action was accepted%s: %s", c20RouteText(c), strings.TrimSpace(c.YAML)))
		}
		controlled()
	case c.Expect == "one-rule":
		if lerr != nil && (strings.Contains(lmsg, "empty compiler pass") || strings.Contains(lmsg, "empty rule")) {
			vs = append(vs, vlib.V("action-not-recognised:"+c.Loader+":"+c.InjectedType+via, "the action key %s is part of the configuration language but the loader treats the entry as empty: %v", c.InjectedType, lerr))
		}
		if lerr == nil && rules >= 0 && countable && rules != 1+siblingRules {
			vs = append(vs, vlib.V("action-yields-no-rule:"+c.Loader+":"+c.InjectedType+via, "one %s entry (and siblings declaring %d rules) produced %d passes / rules%s", c.InjectedType, siblingRules, rules, c20RouteText(c)))
		}
	case c.Injected:
		if lerr == nil {
			vs = append(vs, vlib.V("loader-ignores-unknown-key:"+c.Loader+":"+c.InjectedType+via, "an unknown key at %s (a %s) was silently accepted by the %s loader%s", c.InjectedAt, c.InjectedType, c.Loader, c20RouteText(c)))
		} else if !strings.Contains(lmsg, c20Unknown) {
			vs = append(vs, vlib.V("loader-ignores-unknown-key:"+c.Loader+":"+c.InjectedType+via, "an unknown key at %s (a %s) was not reported by the %s loader%s (it failed with: %s)", c.InjectedAt, c.InjectedType, c.Loader, c20RouteText(c), firstLine(lmsg)))
		}
		found := false
		for _, e := range apErrs {
			if strings.HasPrefix(e, c.InjectedAt+" :: ") && strings.Contains(e, c20Unknown) {
				found = true
			}
		}
		if !found {
			vs = append(vs, vlib.V("schema-accepts-unknown-key:"+c.Loader+":"+c.InjectedType, "the published schema %s does not reject an unknown key at %s (a %s)", c20SchemaFiles[c.Loader], c.InjectedAt, c.InjectedType))
		}
	default:
		if c.Source == "go-types" {
			for _, e := range apErrs {
				vs = append(vs, vlib.V("schema-rejects-loader-key:"+c.Loader+":"+apKey(e), "the loader's structs declare a key the published schema %s forbids: %s", c20SchemaFiles[c.Loader], e))
			}
		}
		if lerr != nil && strings.Contains(lmsg, "not found in type") {
			vs = append(vs, vlib.V("loader-rejects-schema-key:"+c.Loader+":"+notFoundKey(lmsg)+via, "a document built from %s (published keys only) is refused by the loader%s: %s", c20SchemaFiles[c.Loader], c20RouteText(c), firstLine(strings.ReplaceAll(lmsg, "\n", " | "))))
		}
		// an entry of a rule list that holds no key at all has no recognised action
		if len(emptyEntries) > 0 {
			if lerr == nil {
				vs = append(vs, vlib.V("empty-rule-accepted:"+c.Loader+":"+c20ListOf(emptyEntries[0])+via, "the rule entry %s has no recognised action but the document was accepted%s: %s", emptyEntries[0], c20RouteText(c), firstLine(c.YAML)))
			}
			controlled()
		}
		// every declared rule entry of an accepted document yields one pass / rule
		if declared, ok := c20DeclaredRules(c.Loader, c.YAML); ok && countable && lerr == nil && rules >= 0 && rules != declared+siblingRules {
			vs = append(vs, vlib.V("rules-dropped:"+c.Loader+via, "the document declares %d rule entries and its siblings %d, the loader accepted them%s and produced %d passes / rules", declared, siblingRules, c20RouteText(c), rules))
		}
	}
	return vs
}

func c20RouteText(c c20Case) string {
	if c.Route == "" {
		return ""
	}
	extra := ""
	if c.Route == "pipeline" {
		n := c
		c20NormalizeRoute(&n)
		extra = fmt.Sprintf(", slots %v, inputs %v, output %s", n.Slots, n.Kinds, n.Lang)
	}
	return fmt.Sprintf(" through the route %q (file %d of %d%s)", c.Route, c.Pos+1, len(c.Siblings)+1, extra)
}

func c20ListOf(entry string) string {
	if i := strings.IndexByte(entry, '['); i >= 0 {
		return entry[:i]
	}
	return entry
}

// c20EmptyEntries lists the entries of passes / builders / options that are
// mappings without any key ("passes[2]").
func c20EmptyEntries(loader string, generic any) []string {
	m, ok := generic.(map[string]any)
	if !ok {
		return nil
	}
	var keys []string
	switch loader {
	case "compiler":
		keys = []string{"passes"}
	case "veneers":
		keys = []string{"builders", "options"}
	}
	var out []string
	for _, k := range keys {
		list, _ := m[k].([]any)
		for i, e := range list {
			if em, isMap := e.(map[string]any); isMap && len(em) == 0 {
				out = append(out, fmt.Sprintf("%s[%d]", k, i))
			}
		}
	}
	return out
}

func firstLine(s string) string {
	if i := strings.IndexByte(s, '\n'); i >= 0 {
		s = s[:i]
	}
	if len(s) > 300 {
		s = s[:300]
	}
	return s
}

func apKey(e string) string {
	// message: additionalProperties 'x', 'y' not allowed
	if i := strings.Index(e, "additionalProperties "); i >= 0 {
		return strings.TrimSuffix(strings.TrimSpace(e[i+len("additionalProperties "):]), " not allowed")
	}
	return "?"
}

func notFoundKey(msg string) string {
	// "line N: field X not found in type T"
	i := strings.Index(msg, "field ")
	j := strings.Index(msg, " not found in type ")
	if i >= 0 && j > i {
		rest := msg[j+len(" not found in type "):]
		if k := strings.IndexAny(rest, "\n "); k >= 0 {
			rest = rest[:k]
		}
		return rest + "." + msg[i+len("field "):j]
	}
	return "?"
}

// compareKeySets walks Go type and schema in parallel (direction B).
func compareKeySets(s *c20Schema, t reflect.Type, node map[string]any, seen map[reflect.Type]bool, report func(sig, msg string)) {
	for t.Kind() == reflect.Ptr {
		t = t.Elem()
	}
	node, defName := s.resolve(node)
	switch t.Kind() {
	case reflect.Struct:
		if seen[t] {
			return
		}
		seen[t] = true
		props, _ := node["properties"].(map[string]any)
		goKeys := map[string]reflect.Type{}
		for _, k := range yamlKeys(t) {
			goKeys[k.key] = k.typ
		}
		var missingInSchema, missingInGo []string
		for k := range goKeys {
			if _, ok := props[k]; !ok {
				missingInSchema = append(missingInSchema, k)
			}
		}
		for k := range props {
			if _, ok := goKeys[k]; !ok {
				missingInGo = append(missingInGo, k)
			}
		}
		sort.Strings(missingInSchema)
		sort.Strings(missingInGo)
		if len(missingInSchema) > 0 {
			report("keyset:loader-only:"+t.String(), fmt.Sprintf("%s: the loader accepts %v but the published definition %s of %s does not declare them", t, missingInSchema, defName, c20SchemaFiles[s.name]))
		}
		if len(missingInGo) > 0 {
			report("keyset:schema-only:"+t.String(), fmt.Sprintf("%s: the published definition %s of %s declares %v which the loader does not accept", t, defName, c20SchemaFiles[s.name], missingInGo))
		}
		if node["additionalProperties"] != false {
			report("keyset:schema-open:"+t.String(), fmt.Sprintf("%s: the loader decodes strictly but the published definition %s allows additional properties", t, defName))
		}
		for k, kt := range goKeys {
			if sub, ok := props[k].(map[string]any); ok {
				compareKeySets(s, kt, sub, seen, report)
			}
		}
	case reflect.Slice, reflect.Array:
		if items, ok := node["items"].(map[string]any); ok {
			compareKeySets(s, t.Elem(), items, seen, report)
		}
	case reflect.Map:
		if ap, ok := node["additionalProperties"].(map[string]any); ok {
			compareKeySets(s, t.Elem(), ap, seen, report)
		}
	}
}

func c20Inject(root *ynode, idx int) (*ynode, string, string) {
	cp := root.clone()
	var maps []struct {
		ptr  string
		node *ynode
	}
	cp.closedMaps("", &maps)
	if len(maps) == 0 {
		return nil, "", ""
	}
	m := maps[idx%len(maps)]
	pos := 0
	if len(m.node.keys) > 0 {
		pos = idx % (len(m.node.keys) + 1)
	}
	m.node.keys = append(m.node.keys[:pos], append([]string{c20Unknown}, m.node.keys[pos:]...)...)
	m.node.vals = append(m.node.vals[:pos], append([]*ynode{{kind: "leaf", leaf: 1}}, m.node.vals[pos:]...)...)
	return cp, m.ptr, m.node.typ
}

// ruleListKinds: the "rule entry" struct of each rule list.
var c20RuleLists = []struct {
	loader, listKey string
	entry           reflect.Type
	wrap            func(entry string) string
}{
	{"compiler", "passes", reflect.TypeOf(cogyaml.CompilerPass{}), func(e string) string { return "{\"passes\": [" + e + "]}\n" }},
	{"veneers", "builders", reflect.TypeOf(cogyaml.BuilderRule{}), func(e string) string {
		return "{\"language\": \"all\", \"package\": \"pkg\", \"builders\": [" + e + "]}\n"
	}},
	{"veneers", "options", reflect.TypeOf(cogyaml.OptionRule{}), func(e string) string {
		return "{\"language\": \"all\", \"package\": \"pkg\", \"options\": [" + e + "]}\n"
	}},
}

func TestC20(t *testing.T) {
	run := vlib.Begin(t, "C20")
	defer run.Finish(t)
	run.Describe(
		"Enumerated completely: (B) struct by struct, yaml.v3's key set of every type reachable from codegen.Pipeline / yaml.Compiler / yaml.Veneers vs the property set (and additionalProperties:false) of the matching definition in schemas/*.json; (A) the full instance of every rule kind built from the published schema must not trip yaml's unknown-field error, and the full instance built from the Go types must not trip an additionalProperties rule; (C) one unknown key injected at EVERY closed mapping node of those full instances must be refused by the loader with an error naming the key and by the schema at that node; (D) `{}` entries in passes/builders/options are refused and every action key yields one rule. ROUTES: a schema-transformation / builder-transformation file is not only handed to the loader's plain entry point (CompilerLoader.Load on a reader, VeneersLoader.RewriterFrom on one file) but read the ways cog reads it: CompilerLoader.LoadAll (readers), CompilerLoader.PassesFrom / VeneersLoader.RewriterFrom on a list of file names, and a generated pipeline file (PipelineFromFile, then Pipeline.LoadSchemas for passes listed under transformations.schemas and under the transformations of 1-2 jsonschema / openapi / cue inputs, Pipeline.Run with builders in one of the seven output languages for veneers spread over 1-2 transformations.builders directories; paths absolute or written with %__config_dir% and loaded with parameters), each time at a position among 0-2 valid sibling files (every action key's valid instance is a sibling candidate). Every injection node of (C) on compiler / veneers documents and every case of (D) is repeated through each route (alone, after a sibling, before a sibling). Oracle through a route: the same as through the plain entry point (an injected key is named by the error the route returns; an entry with no action makes the route fail while the siblings alone pass — the control —; a published-keys-only document is not refused for an unknown field), plus counting: an accepted document yields as many passes / rewrite rules as it declares entries, siblings included (LoadAll / PassesFrom return them, the Rewriter's rule lists are counted by reflection). Generated with rapid: random sub-documents (each key kept with probability 2/3, lists of 0-2 entries) from either source, with a random injection node, or with an empty `{}` / unknown-key-only entry inserted at a random index of a rule list next to real entries, through a random route. Non-trivial: an injection below the top level, an inserted entry, or a base document with >= 2 nesting levels; distinct by (loader, route and its layout, document).",
		"free-form maps (parameters, templates_data, defaults, hints, composition_map, rename_options, ...) are exempt from unknown-key injection on both sides",
		"semantic post-validation of the loaders (reference formats, exactly one selector) is not judged: only errors naming an unknown field count, and an injected key must be named in the loader's error",
		"the santhosh-tekuri/jsonschema validator (draft 2020-12) is trusted as the reader of schemas/*.json",
		"null rule entries (listed finding) are only submitted to the plain entry points; the routes are given `{}` and unknown-key-only entries",
		"through the pipeline route nothing is asked of a valid document beyond 'no unknown-field error' (its passes / veneers are applied to a small fixed schema and may fail there for reasons of their own); sibling files that make the pipeline fail on their own are dropped from the case by the generator (counter pipeline_siblings_dropped)",
	)
	defer func() {
		if dir, err := c20WorkDir(); err == nil {
			_ = os.RemoveAll(dir)
		}
	}()
	if vlib.RunReplay(t, run, c20Check) {
		return
	}
	judge := func(c c20Case) bool {
		vs := skipPanics(run, c20Check(c))
		if un := run.Judge(c, vs); len(un) > 0 {
			vlib.Fail(t, un)
			return false
		}
		return true
	}
	always := func(int) int { return 1 }
	evalKey := func(c c20Case) uint64 {
		return vlib.HashBytes([]byte(c.Loader), []byte(c.YAML), []byte(c20RouteText(c)), []byte(strings.Join(c.Siblings, "\x00")), []byte(fmt.Sprint(c.Interp)))
	}

	// (B) key sets, type by type
	for loader, rt := range c20Roots {
		s, err := c20LoadSchema(loader)
		if err != nil {
			t.Fatalf("schema: %v", err)
		}
		var vs []vlib.Violation
		seen := map[reflect.Type]bool{}
		compareKeySets(s, rt, s.raw, seen, func(sig, msg string) { vs = append(vs, vlib.V(sig, "%s", msg)) })
		run.Count("types_compared", len(seen))
		run.Eval(vlib.Hash("keysets:"+loader), "keysets:"+loader)
		if un := run.Judge(c20Case{Loader: loader, Source: "keysets"}, vs); len(un) > 0 {
			vlib.Fail(t, un)
			return
		}
	}

	// sibling pool: per loader, the valid single-entry document of every action
	// key (filled by (D) below, which runs first for that reason)
	pool := map[string][]string{}
	// pipelinePool: the members of pool the pipeline route accepts on their own
	pipelinePool := map[string][]string{}

	// (D) empty rule entries, and one entry per action key
	for _, rl := range c20RuleLists {
		for _, k := range yamlKeys(rl.entry) {
			ok := false
			var last c20Case
			for variant := 0; variant < 3; variant++ {
				inst := goInstance(k.typ, 1, always, true, variant)
				// selectors: keep a single selector key (the loaders want exactly one)
				pruneSelectors(inst)
				entry := &ynode{kind: "map", closed: true, keys: []string{k.key}, vals: []*ynode{inst}}
				c := c20Case{Loader: rl.loader, Source: "rules", YAML: rl.wrap(strings.TrimSpace(entry.yaml())), Expect: "one-rule", InjectedType: rl.listKey + "." + k.key}
				last = c
				run.Eval(evalKey(c), "action:"+rl.listKey)
				if !judge(c) {
					return
				}
				if _, err := c20Load(c.Loader, c.YAML); err == nil {
					ok = true
					pool[rl.loader] = append(pool[rl.loader], c.YAML)
					break
				}
			}
			if ok {
				run.Count("actions_loaded", 1)
			} else {
				run.Count("actions_never_semantically_valid", 1)
				run.Note("no semantically valid instance found for %s (last: %s)", last.InjectedType, strings.TrimSpace(last.YAML))
			}
		}
	}
	for _, loader := range []string{"compiler", "veneers"} {
		for _, doc := range pool[loader] {
			okAll := true
			for slot := 0; slot < 2 && okAll; slot++ {
				probe := c20Case{Loader: loader, Route: "pipeline", Siblings: []string{doc}, Pos: 1, Slots: []int{slot, slot}}
				var perr error
				_, _, panicked := vlib.Guard(func() { _, perr = c20LoadVia(probe, false) })
				if panicked || perr != nil {
					okAll = false
				}
			}
			if okAll {
				pipelinePool[loader] = append(pipelinePool[loader], doc)
			}
		}
		run.Count("sibling_pool:"+loader, len(pool[loader]))
		run.Count("sibling_pool_pipeline:"+loader, len(pipelinePool[loader]))
		if len(pool[loader]) == 0 || len(pipelinePool[loader]) == 0 {
			t.Fatalf("harness: no valid sibling document for the %s routes (pool %d, pipeline pool %d)", loader, len(pool[loader]), len(pipelinePool[loader]))
		}
	}
	// routeLayouts: the fixed layouts every enumerated case is repeated through.
	routeLayouts := func(loader string, i int) []c20Case {
		sib := pool[loader][i%len(pool[loader])]
		psib := pipelinePool[loader][i%len(pipelinePool[loader])]
		kinds := [][]string{{"jsonschema"}, {"openapi"}, {"cue"}, {"openapi", "jsonschema"}}[i%4]
		lang := []string{"go", "typescript", "python", "java", "php", "jsonschema", "openapi"}[i%7]
		out := []c20Case{
			{Route: "files"},
			{Route: "files", Siblings: []string{sib}, Pos: 1},
			{Route: "files", Siblings: []string{sib}, Pos: 0},
		}
		if loader == "compiler" {
			out = append(out,
				c20Case{Route: "readers", Siblings: []string{sib}, Pos: i % 2},
				c20Case{Route: "pipeline", Kinds: kinds, Slots: []int{0}, Interp: i%2 == 0},
				c20Case{Route: "pipeline", Kinds: kinds, Slots: []int{len(kinds)}, Interp: i%2 == 1},
				c20Case{Route: "pipeline", Kinds: kinds, Siblings: []string{psib}, Pos: i % 2, Slots: []int{i % 2, (i + 1) % 2}},
			)
		} else {
			out = append(out,
				c20Case{Route: "pipeline", Lang: lang, Slots: []int{0}, Interp: i%2 == 0},
				c20Case{Route: "pipeline", Lang: lang, Siblings: []string{psib}, Pos: i % 2, Slots: []int{i % 2, (i / 2) % 2}},
			)
		}
		return out
	}
	sampledRoute := map[string]bool{}
	viaRoutes := func(c c20Case, i int, label string) bool {
		if c.Loader == "pipeline" {
			return true
		}
		for _, lay := range routeLayouts(c.Loader, i) {
			rc := c
			rc.Route, rc.Siblings, rc.Pos, rc.Slots, rc.Kinds, rc.Lang, rc.Interp = lay.Route, lay.Siblings, lay.Pos, lay.Slots, lay.Kinds, lay.Lang, lay.Interp
			run.Eval(evalKey(rc), label+":via-"+rc.Route)
			if rc.Route == "pipeline" && len(rc.Siblings) > 0 && !sampledRoute[rc.Loader] {
				sampledRoute[rc.Loader] = true
				run.Sample(rc)
			}
			if !judge(rc) {
				return false
			}
		}
		return true
	}
	seq := 0
	for _, rl := range c20RuleLists {
		for _, empty := range []string{"{}", "{\"" + c20Unknown + "\": 1}", "null"} {
			c := c20Case{Loader: rl.loader, Source: "rules", YAML: rl.wrap(empty), Expect: "reject-empty-rule", InjectedType: rl.listKey}
			if empty == "null" {
				c.InjectedType += ":null-entry"
			}
			run.Eval(evalKey(c), "empty_rule")
			if !judge(c) {
				return
			}
			if empty == "null" {
				// listed finding (null entries are dropped by the decoder): not repeated through the routes
				run.Count("null_entry_not_routed", 1)
				continue
			}
			seq++
			if !viaRoutes(c, seq, "empty_rule") {
				return
			}
		}
	}
	// one entry per action key through the counting routes (the documents of the pool)
	for _, loader := range []string{"compiler", "veneers"} {
		for i, doc := range pool[loader] {
			c := c20Case{Loader: loader, Source: "rules", YAML: doc}
			if !viaRoutes(c, i, "action") {
				return
			}
		}
	}

	// (A)+(C) full instances, every closed mapping node
	type base struct {
		loader, source string
		root           *ynode
	}
	var bases []base
	for loader, rt := range c20Roots {
		s, _ := c20LoadSchema(loader)
		for variant := 0; variant < 3; variant++ {
			bases = append(bases, base{loader, "go-types", goInstance(rt, 0, always, true, variant)})
		}
		bases = append(bases, base{loader, "schema", schemaInstance(s, s.raw, 0, always, true)})
	}
	injections := 0
	for _, b := range bases {
		c := c20Case{Loader: b.loader, Source: b.source, YAML: b.root.yaml()}
		run.Eval(evalKey(c), "full_instance:"+b.source)
		if !judge(c) {
			return
		}
		if !viaRoutes(c, injections, "full_instance") {
			return
		}
		var maps []struct {
			ptr  string
			node *ynode
		}
		b.root.closedMaps("", &maps)
		for i := range maps {
			inj, ptr, typ := c20Inject(b.root, i)
			ci := c20Case{Loader: b.loader, Source: b.source, YAML: inj.yaml(), Injected: true, InjectedAt: ptr, InjectedType: typ}
			injections++
			run.Eval(evalKey(ci), "exhaustive_injection:"+b.loader)
			if injections%37 == 1 {
				run.Sample(ci)
			}
			if !judge(ci) {
				return
			}
			if !viaRoutes(ci, injections, "exhaustive_injection") {
				return
			}
		}
	}
	run.Count("exhaustive_injection_nodes", injections)

	// random sub-documents
	loaders := []string{"pipeline", "compiler", "compiler", "veneers", "veneers"}
	rapid.Check(t, func(rt *rapid.T) {
		loader := rapid.SampledFrom(loaders).Draw(rt, "loader")
		source := rapid.SampledFrom([]string{"go-types", "schema"}).Draw(rt, "source")
		tape := rapid.SliceOfN(rapid.IntRange(0, 2), 0, 200).Draw(rt, "tape")
		pos := 0
		pick := func(n int) int {
			if pos >= len(tape) {
				return 1 % n
			}
			v := tape[pos] % n
			pos++
			return v
		}
		var root *ynode
		if source == "go-types" {
			root = goInstance(c20Roots[loader], 0, pick, false, rapid.IntRange(0, 2).Draw(rt, "strvariant"))
		} else {
			s, _ := c20LoadSchema(loader)
			root = schemaInstance(s, s.raw, 0, pick, false)
		}
		c := c20Case{Loader: loader, Source: source, YAML: root.yaml()}
		labels := []string{"random:" + source, "loader:" + loader}
		nontrivial := strings.Count(c.YAML, "{") >= 3
		mode := rapid.SampledFrom([]string{"plain", "inject", "inject", "empty-entry"}).Draw(rt, "mode")
		switch {
		case mode == "inject":
			inj, ptr, typ := c20Inject(root, rapid.IntRange(0, 1000).Draw(rt, "injectidx"))
			if inj != nil {
				c = c20Case{Loader: loader, Source: source, YAML: inj.yaml(), Injected: true, InjectedAt: ptr, InjectedType: typ}
				labels = append(labels, "random_injection", fmt.Sprintf("injection_depth:%d", strings.Count(ptr, "/")))
				nontrivial = ptr != ""
			}
		case mode == "empty-entry" && loader != "pipeline":
			// an entry with no recognised action at a random index of a rule list, next to the drawn entries
			listKeys := []string{"passes"}
			if loader == "veneers" {
				listKeys = []string{"builders", "options"}
			}
			listKey := rapid.SampledFrom(listKeys).Draw(rt, "emptylist")
			entry := &ynode{kind: "map", closed: true}
			if rapid.Bool().Draw(rt, "emptywithunknown") {
				entry.keys, entry.vals = []string{c20Unknown}, []*ynode{{kind: "leaf", leaf: 1}}
			}
			cp := root.clone()
			var list *ynode
			for i, k := range cp.keys {
				if k == listKey && cp.vals[i].kind == "list" {
					list = cp.vals[i]
				}
			}
			if list == nil {
				list = &ynode{kind: "list"}
				cp.keys = append(cp.keys, listKey)
				cp.vals = append(cp.vals, list)
			}
			at := rapid.IntRange(0, len(list.items)).Draw(rt, "emptyat")
			list.items = append(list.items[:at], append([]*ynode{entry}, list.items[at:]...)...)
			c = c20Case{Loader: loader, Source: source, YAML: cp.yaml(), Expect: "reject-empty-rule", InjectedType: listKey}
			labels = append(labels, "random_empty_entry", fmt.Sprintf("empty_entry_among:%d", len(list.items)-1))
			nontrivial = true
		}
		if loader != "pipeline" {
			route := rapid.SampledFrom(append([]string{""}, c20Routes[loader]...)).Draw(rt, "route")
			if route != "" {
				c.Route = route
				from := pool[loader]
				if route == "pipeline" {
					from = pipelinePool[loader]
					c.Interp = rapid.Bool().Draw(rt, "interp")
					if loader == "compiler" {
						c.Kinds = rapid.SliceOfN(rapid.SampledFrom(c20InputKinds), 1, 2).Draw(rt, "kinds")
					} else {
						c.Lang = rapid.SampledFrom([]string{"go", "typescript", "python", "java", "php", "jsonschema", "openapi"}).Draw(rt, "lang")
					}
				}
				nsib := rapid.IntRange(0, 2).Draw(rt, "siblings")
				for i := 0; i < nsib; i++ {
					c.Siblings = append(c.Siblings, from[rapid.IntRange(0, len(from)-1).Draw(rt, "sibling")])
				}
				c.Pos = rapid.IntRange(0, nsib).Draw(rt, "pos")
				if route == "pipeline" {
					c.Slots = rapid.SliceOfN(rapid.IntRange(0, 2), nsib+1, nsib+1).Draw(rt, "slots")
					c20NormalizeRoute(&c)
					if nsib > 0 {
						// siblings that do not pass together through this very pipeline are dropped
						var cerr error
						_, _, cpanic := vlib.Guard(func() { _, cerr = c20LoadVia(c, false) })
						if cpanic || cerr != nil {
							run.Count("pipeline_siblings_dropped", 1)
							target := c.Slots[c.Pos]
							c.Siblings, c.Pos, c.Slots = nil, 0, []int{target}
						}
					}
				}
				labels = append(labels, "route:"+route, fmt.Sprintf("route_files:%d", len(c.Siblings)+1))
				if route == "pipeline" {
					labels = append(labels, fmt.Sprintf("pipeline_target_slot:%s:%d", loader, c.Slots[c.Pos]))
				}
			} else {
				labels = append(labels, "route:plain")
			}
		}
		key := uint64(0)
		if nontrivial {
			key = evalKey(c)
		}
		run.Eval(key, labels...)
		if (c.Injected && strings.Count(c.InjectedAt, "/") >= 3 || c.Route != "") && len(c.YAML) < 1500 {
			run.Sample(c)
		}
		vs := skipPanics(run, c20Check(c))
		vlib.Fail(rt, run.Judge(c, vs))
	})
}

// pruneSelectors keeps only the first of the mutually exclusive selector keys.
func pruneSelectors(n *ynode) {
	if n.kind != "map" {
		for _, it := range n.items {
			pruneSelectors(it)
		}
		return
	}
	selectors := map[string]bool{"by_object": true, "by_name": true, "by_variant": true, "generated_from_disjunction": true, "by_builder": true, "by_names": true}
	kept := false
	var keys []string
	var vals []*ynode
	for i, k := range n.keys {
		if selectors[k] {
			if kept {
				continue
			}
			kept = true
		}
		keys = append(keys, k)
		vals = append(vals, n.vals[i])
	}
	n.keys, n.vals = keys, vals
	for _, v := range n.vals {
		pruneSelectors(v)
	}
}
