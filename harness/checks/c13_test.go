package checks

// C13 — generated Equals is an equivalence matching equality of the encoded
// values. The generated Go code is compiled and its Equals methods executed on
// pairs/triples of decoded documents, including every single-leaf mutation.

import (
	"fmt"
	"testing"

	"github.com/grafana/cog/verifharness/e2"
	"github.com/grafana/cog/verifharness/smodel"
	"github.com/grafana/cog/verifharness/vlib"
	"pgregory.net/rapid"
)

type c13Batch struct {
	Cases []schemaCase `json:"cases"`
}

var c13Output = e2.OutputSpec{Types: true, Go: &e2.GoFlags{JSON: true, Equal: true}}

func encEqual(a, b string) bool {
	va, err1 := smodel.ParseJSON(a)
	vb, err2 := smodel.ParseJSON(b)
	if err1 != nil || err2 != nil {
		return a == b
	}
	_, ok := smodel.JSONEqual(smodel.NormalizeEmpty(va), smodel.NormalizeEmpty(vb))
	return ok
}

func encStrictlyEqual(a, b string) bool {
	va, err1 := smodel.ParseJSON(a)
	vb, err2 := smodel.ParseJSON(b)
	if err1 != nil || err2 != nil {
		return a == b
	}
	_, ok := smodel.JSONEqual(va, vb)
	return ok
}

func c13CheckBatch(run *vlib.Run, cases []schemaCase) (map[int][]vlib.Violation, error) {
	out := map[int][]vlib.Violation{}
	p, err := e2Prepare(run, "c13", cases, c13Output)
	if err != nil {
		return nil, err
	}
	defer p.Close()
	type ref struct {
		caseIdx int
		def     string
		kind    string // same | pair | mutation
		a, b    string
		mut     *smodel.Mutation
		// pair indices for transitivity
		ia, ib int
	}
	var reqs []e2.Request
	var refs []ref
	for i, c := range cases {
		if !p.usable[i] {
			continue
		}
		byDef := map[string][]smodel.Doc{}
		var defs []string
		for _, d := range c.Docs {
			if _, ok := byDef[d.Def]; !ok {
				defs = append(defs, d.Def)
			}
			byDef[d.Def] = append(byDef[d.Def], d)
		}
		for _, def := range defs {
			key, ok := p.goKey(i, def)
			if !ok {
				count(run, "definition_without_go_type", 1)
				continue
			}
			docs := byDef[def]
			for ai, a := range docs {
				reqs = append(reqs, e2.Request{ID: len(reqs), Key: key, Op: "equals", Doc: a.JSON, Doc2: a.JSON})
				refs = append(refs, ref{caseIdx: i, def: def, kind: "same", a: a.JSON, b: a.JSON})
				for bi := ai + 1; bi < len(docs); bi++ {
					reqs = append(reqs, e2.Request{ID: len(reqs), Key: key, Op: "equals", Doc: a.JSON, Doc2: docs[bi].JSON})
					refs = append(refs, ref{caseIdx: i, def: def, kind: "pair", a: a.JSON, b: docs[bi].JSON, ia: ai, ib: bi})
				}
				muts, merr := smodel.Mutations(c.Model, def, a.JSON)
				if merr != nil {
					return nil, merr
				}
				for mi := range muts {
					m := muts[mi]
					reqs = append(reqs, e2.Request{ID: len(reqs), Key: key, Op: "equals", Doc: a.JSON, Doc2: m.JSON})
					refs = append(refs, ref{caseIdx: i, def: def, kind: "mutation", a: a.JSON, b: m.JSON, mut: &m})
				}
			}
		}
	}
	if len(reqs) == 0 {
		return out, nil
	}
	resps, err := p.batch.Exec(reqs)
	if err != nil {
		return nil, err
	}
	type pairKey struct {
		caseIdx int
		def     string
		ia, ib  int
	}
	eqOf := map[pairKey]bool{}
	for k, r := range resps {
		rf := refs[k]
		c := cases[rf.caseIdx]
		f := string(c.Format)
		count(run, "documents", 1)
		bad := func(sig string, format string, args ...any) {
			out[rf.caseIdx] = append(out[rf.caseIdx], vlib.V(sig, "%s definition %s: "+format, append([]any{c.Format, rf.def}, args...)...))
		}
		if r.Panic != "" {
			bad("panic:"+f, "Equals panicked on %s vs %s: %s", rf.a, rf.b, r.Panic)
			continue
		}
		if r.StdErr != "" {
			count(run, "undecodable", 1)
			continue
		}
		if !r.HasEquals {
			bad("no-equals:"+f, "the generated type has no Equals method")
			continue
		}
		if r.Equal != r.EqualRev {
			where := rf.kind
			if rf.mut != nil {
				where = rf.mut.Class + ":" + ctxClass(rf.mut.Context)
			}
			bad("asymmetric:"+f+":"+where, "a.Equals(b)=%v but b.Equals(a)=%v for a=%s b=%s", r.Equal, r.EqualRev, rf.a, rf.b)
			continue
		}
		same := encEqual(r.Encoded, r.Encoded2)
		switch rf.kind {
		case "same":
			if !r.Equal {
				bad("not-reflexive:"+f+":"+c13DocClass(c, rf.def, rf.a), "two decodings of the same document are not Equals: %s", rf.a)
			}
		case "pair":
			eqOf[pairKey{rf.caseIdx, rf.def, rf.ia, rf.ib}] = r.Equal
			if same && encStrictlyEqual(r.Encoded, r.Encoded2) && !r.Equal {
				bad("equal-encodings-not-equal:"+f, "values encode identically (%s) but are not Equals", r.Encoded)
			}
			if !same && r.Equal {
				bad("equals-but-encodings-differ:"+f+":pair", "Equals is true but the encodings differ: %s vs %s", r.Encoded, r.Encoded2)
			}
		case "mutation":
			m := rf.mut
			if run != nil {
				key := uint64(0)
				if m.Depth >= 2 || len(m.Context) > 0 {
					key = vlib.HashBytes([]byte(c.source()), []byte(rf.a), []byte(m.Path), []byte(m.Class))
				}
				run.Eval(key, "mutation:"+m.Class, "mutation_ctx:"+ctxClass(m.Context))
			}
			if !same && r.Equal {
				bad(fmt.Sprintf("mutation-not-detected:%s:%s:%s", f, m.Class, ctxClass(m.Context)), "a single-leaf difference (%s at %s) is not seen by Equals: %s vs %s (encodings %s vs %s)", m.Class, m.Path, rf.a, rf.b, r.Encoded, r.Encoded2)
			}
			if same && encStrictlyEqual(r.Encoded, r.Encoded2) && !r.Equal {
				bad("equal-encodings-not-equal:"+f, "values encode identically (%s) but are not Equals", r.Encoded)
			}
		}
	}
	// transitivity over the document triples of each definition
	for k1, e1 := range eqOf {
		if !e1 {
			continue
		}
		for k2, e2v := range eqOf {
			if !e2v || k1.caseIdx != k2.caseIdx || k1.def != k2.def || k1.ib != k2.ia {
				continue
			}
			if e3, ok := eqOf[pairKey{k1.caseIdx, k1.def, k1.ia, k2.ib}]; ok && !e3 {
				c := cases[k1.caseIdx]
				out[k1.caseIdx] = append(out[k1.caseIdx], vlib.V("not-transitive:"+string(c.Format), "%s definition %s: documents %d=%d and %d=%d but not %d=%d", c.Format, k1.def, k1.ia, k1.ib, k2.ia, k2.ib, k1.ia, k2.ib))
			}
		}
	}
	return out, nil
}

// c13DocClass tells which construct a document exercises (for signatures of
// reflexivity failures).
func c13DocClass(c schemaCase, def string, doc string) string {
	for _, d := range c.Docs {
		if d.Def == def && d.JSON == doc {
			for _, f := range d.Features {
				if f == "datetime" {
					return "datetime"
				}
			}
			for _, f := range d.Features {
				if f == "any" {
					return "any"
				}
			}
		}
	}
	return "other"
}

func c13Check(b c13Batch) []vlib.Violation {
	res, err := c13CheckBatch(nil, b.Cases)
	if err != nil {
		return []vlib.Violation{vlib.V("harness", "%v", err)}
	}
	var out []vlib.Violation
	for i := range b.Cases {
		out = append(out, res[i]...)
	}
	return dedupeViolations(out)
}

func c13GenConfig(f smodel.Format) smodel.GenConfig {
	cfg := smodel.DefaultGenConfig(f)
	cfg.Focus = []string{"array_ref", "map_ref", "map_scalar", "map_struct", "array_struct", "nullable_ref", "nullable_scalar", "enum_ref", "enum_anon", "any", "union_structs", "datetime", "array_nested", "anon_struct", "union_scalars", "ref_named_collection", "map_nested", "array_named_collection", "array_nullable_scalar", "map_nullable_scalar", "array_nullable_enum_ref", "map_nullable_enum_ref", "ref_named_scalar", "array_named_scalar", "map_named_scalar"}
	cfg.NamedScalars = true
	cfg.TypeLists = true
	// `bytes` fields make the generated Equals uncompilable (listed under C02): nothing to judge there
	cfg.NoBytes = true
	return cfg
}

func TestC13(t *testing.T) {
	run := vlib.Begin(t, "C13")
	defer run.Finish(t)
	run.Describe(
		"Batches of K schema models (K=6 quick, 12 thorough) rich in nested arrays/maps of (nullable) references, optional scalars, enums, any-typed fields, union structs and date-times, in the three input formats, generated with Go json+equal, compiled and executed. Per struct definition: 3 independently drawn documents; every document against itself (decoded twice), every pair, every triple (transitivity), and against EVERY single-leaf mutation of itself (value changed per scalar kind, optional property removed, map key renamed keeping the value, map entry dropped, array element dropped, two array elements swapped) at every depth. Oracle: Equals symmetric; same document => equal; equal encodings => equal; Equals => encodings equal after removing null/[]/{} members; hence every mutation that changes the encoding => not equal; transitive on triples. Non-trivial mutation: depth >= 2 or under an array/map/optional/reference/union; distinct by (schema, document, path, class).",
		"values are obtained by decoding JSON documents with the standard decoder; a mutated document that no longer decodes is skipped and counted",
		"absent / null / empty collections are identified when comparing encodings (the tolerance the property states)",
	)
	if vlib.RunReplay(t, run, c13Check) {
		return
	}
	k := 6
	if vlib.Thorough() {
		k = 12
	}
	rapid.Check(t, func(rt *rapid.T) {
		var cases []schemaCase
		for i := 0; i < k; i++ {
			f := rapid.SampledFrom(smodel.Formats).Draw(rt, "format")
			cases = append(cases, drawSchemaCase(rt, c13GenConfig(f), 3))
		}
		res, err := c13CheckBatch(run, cases)
		if err != nil {
			run.Inconclusive("batch failed: %v", err)
			rt.Fatalf("harness: %v", err)
		}
		for i, c := range cases {
			run.Label(append([]string{"format:" + string(c.Format)}, c.Model.Features()...)...)
			if i == 0 && len(c.source()) < 2500 {
				run.Sample(map[string]any{"format": c.Format, "schema": c.source(), "documents": firstDocs(c.Docs, 1)})
			}
		}
		for i := range cases {
			if vs := dedupeViolations(res[i]); len(vs) > 0 {
				vlib.Fail(rt, run.Judge(c13Batch{Cases: []schemaCase{cases[i]}}, vs))
			}
		}
	})
	e2Health(run)
}
