package checks

// C12: object-level schema transformations (rename_object, duplicate_object,
// schema_set_entry_point) with the model they are expected to produce, and the
// extra model shapes C12 adds to the shared generator's models.

import (
	"encoding/json"
	"fmt"
	"strings"

	"github.com/grafana/cog/verifharness/smodel"
	"pgregory.net/rapid"
)

// c12Pass is one transformation. Object is the name the object goes by when
// the pass runs (after the passes before it).
type c12Pass struct {
	Kind   string `json:"kind"` // rename_object | duplicate_object | schema_set_entry_point
	Object string `json:"object"`
	To     string `json:"to,omitempty"`
}

// c12Effective is what the schemas are expected to be once the passes ran.
type c12Effective struct {
	Model *smodel.Model
	// Pkg: definition name -> package
	Pkg map[string]string
	// Names: source definition name -> the names it goes by afterwards (the
	// renamed object and its duplicates)
	Names map[string][]string
	// Entry: package -> explicitly designated entry point
	Entry map[string]string
	// YAML: the transformation file
	YAML string
}

func c12CloneModel(m *smodel.Model) *smodel.Model {
	raw, err := json.Marshal(m)
	if err != nil {
		panic(err)
	}
	var out smodel.Model
	if err := json.Unmarshal(raw, &out); err != nil {
		panic(err)
	}
	return &out
}

func c12NewEffective(c c12Case) *c12Effective {
	e := &c12Effective{Model: c12CloneModel(c.Model), Pkg: map[string]string{}, Names: map[string][]string{}, Entry: map[string]string{}}
	for _, d := range c.Model.Defs {
		e.Pkg[d.Name] = c.pkgOf(d.Name)
		e.Names[d.Name] = []string{d.Name}
	}
	if c.Format == smodel.JSONSchema {
		e.Entry[c.Model.Package] = c.Model.Entry
	}
	return e
}

// apply advances the expectation by one pass and returns its YAML.
func (e *c12Effective) apply(p c12Pass) string {
	pkg, known := e.Pkg[p.Object]
	if !known {
		return ""
	}
	switch p.Kind {
	case "rename_object":
		if e.Model.Def(p.To) != nil {
			return ""
		}
		e.Model.RenameDef(p.Object, p.To)
		e.Pkg[p.To] = pkg
		delete(e.Pkg, p.Object)
		for src, names := range e.Names {
			for i, n := range names {
				if n == p.Object {
					e.Names[src][i] = p.To
				}
			}
		}
		for k, v := range e.Entry {
			if k == pkg && v == p.Object {
				e.Entry[k] = p.To
			}
		}
		return fmt.Sprintf("  - rename_object:\n      from: %s.%s\n      to: %s\n", pkg, p.Object, p.To)
	case "duplicate_object":
		if e.Model.Def(p.To) != nil {
			return ""
		}
		src := e.Model.Def(p.Object)
		raw, _ := json.Marshal(src)
		var dup smodel.Def
		_ = json.Unmarshal(raw, &dup)
		dup.Name = p.To
		e.Model.Defs = append(e.Model.Defs, dup)
		e.Pkg[p.To] = pkg
		for s, names := range e.Names {
			for _, n := range names {
				if n == p.Object {
					e.Names[s] = append(e.Names[s], p.To)
					break
				}
			}
		}
		return fmt.Sprintf("  - duplicate_object:\n      object: %s.%s\n      as: %s.%s\n", pkg, p.Object, pkg, p.To)
	case "schema_set_entry_point":
		e.Entry[pkg] = p.Object
		return fmt.Sprintf("  - schema_set_entry_point:\n      package: %s\n      entry_point: %s\n", pkg, p.Object)
	}
	return ""
}

// c12Effect replays the passes of a case over its model.
func c12Effect(c c12Case) *c12Effective {
	e := c12NewEffective(c)
	var sb strings.Builder
	sb.WriteString("passes:\n")
	for _, p := range c.Passes {
		sb.WriteString(e.apply(p))
	}
	e.YAML = sb.String()
	return e
}

func c12PassesYAML(c c12Case) string { return c12Effect(c).YAML }

var c12FreshNames = []string{"Board", "Widget", "Gauge", "Canvas", "Row", "Heatmap", "Slot"}

// drawC12Passes draws 1-3 passes. The entry point is a frequent target.
func drawC12Passes(rt *rapid.T, c *c12Case) {
	n := rapid.IntRange(1, 3).Draw(rt, "npasses")
	base := *c
	base.Passes = nil
	e := c12NewEffective(base)
	entry := c.Model.Entry
	taken := map[string]bool{}
	for _, d := range c.Model.Defs {
		taken[strings.ToLower(d.Name)] = true
	}
	fresh := func(pkg string, allowPackageName bool) (string, bool) {
		pool := append([]string{}, c12FreshNames...)
		if allowPackageName {
			// an object named like its package is what InferEntrypoint looks for
			pool = append(pool, strings.ToUpper(pkg[:1])+pkg[1:])
		}
		var free []string
		for _, n := range pool {
			if !taken[strings.ToLower(n)] {
				free = append(free, n)
			}
		}
		if len(free) == 0 {
			return "", false
		}
		name := rapid.SampledFrom(free).Draw(rt, "freshname")
		taken[strings.ToLower(name)] = true
		return name, true
	}
	for i := 0; i < n; i++ {
		kind := rapid.SampledFrom([]string{"rename_object", "rename_object", "rename_object", "duplicate_object", "schema_set_entry_point"}).Draw(rt, "passkind")
		// a JSON Schema input only declares what its root reaches: the other
		// definitions are no objects of the IR, a pass cannot designate them
		reachable := c12Reachable(e.Model, c.Format)
		var names []string
		for _, d := range e.Model.Defs {
			if kind == "schema_set_entry_point" && d.Type.Kind != smodel.KStruct {
				continue
			}
			if !reachable[d.Name] {
				continue
			}
			names = append(names, d.Name)
		}
		if len(names) == 0 {
			continue
		}
		object := rapid.SampledFrom(names).Draw(rt, "passobject")
		if kind != "schema_set_entry_point" && rapid.IntRange(0, 2).Draw(rt, "passonentry") == 0 {
			// whatever the entry point is called by now
			if cur := e.Names[entry]; len(cur) > 0 {
				object = cur[0]
			}
		}
		p := c12Pass{Kind: kind, Object: object}
		if kind != "schema_set_entry_point" {
			to, ok := fresh(e.Pkg[object], kind == "rename_object")
			if !ok {
				continue
			}
			p.To = to
		}
		if e.apply(p) != "" {
			c.Passes = append(c.Passes, p)
		}
	}
	// a transformation file of one input only sees that input's schemas: with
	// two packages the passes have to be common ones (references from the other
	// package are rewritten too)
	c.PassesCommon = c.SplitPkg != "" || rapid.Bool().Draw(rt, "passescommon")
}

var c12ShapeFieldNames = []string{"hyperlinks", "overrides", "mappings"}

// c12AddUnionShapes adds, to a struct definition, fields that are unions one
// branch of which is a collection of ANONYMOUS structs (or an anonymous struct
// itself): `[...{url: string}] | string`. Language passes name such structs
// (in place), which the other outputs of the run must not see.
//
// GENUINE DEFECT, repaired in cog since (fix 63cc8bf; regression replay
// replays/regression/C12/union_map_branch_name_collision.json): the Go pass DisjunctionToType
// names the struct it makes for a union after its branches, and ast.TypeName of
// a map is "Map" whatever its value type: `string | {[string]: A}` and
// `string | {[string]: B}` in one package are both "StringOrMap", the second
// field silently gets the first one's type and its values are encoded as A's.
// It used to be kept out by allowing one union with a map branch per model.
func c12AddUnionShapes(rt *rapid.T, m *smodel.Model) (int, []string) {
	var structs []int
	for i, d := range m.Defs {
		if d.Type.Kind != smodel.KStruct {
			continue
		}
		variant := false
		for _, f := range d.Type.Fields {
			if f.Type.Const != nil && (f.Name == "kind" || f.Name == "type") {
				variant = true
			}
		}
		if !variant {
			structs = append(structs, i)
		}
	}
	if len(structs) == 0 {
		return 0, nil
	}
	var excluded []string
	mapBranchUsed := false
	n := rapid.IntRange(1, 2).Draw(rt, "nunionshapes")
	names := rapid.Permutation(c12ShapeFieldNames).Draw(rt, "unionshapenames")[:n]
	added := 0
	for _, name := range names {
		at := structs[0]
		if rapid.IntRange(0, 2).Draw(rt, "unionshapeat") == 0 {
			at = rapid.SampledFrom(structs).Draw(rt, "unionshapedef")
		}
		clash := false
		for _, f := range m.Defs[at].Type.Fields {
			if strings.EqualFold(f.Name, name) {
				clash = true
			}
		}
		if clash {
			continue
		}
		anon := func() smodel.T {
			st := smodel.T{Kind: smodel.KStruct}
			fields := rapid.Permutation([]string{"url", "label", "weight", "visible"}).Draw(rt, "anonfields")[:rapid.IntRange(1, 3).Draw(rt, "nanonfields")]
			for _, fn := range fields {
				ft := smodel.T{Kind: smodel.KString}
				switch fn {
				case "weight":
					ft = smodel.T{Kind: smodel.KInt}
				case "visible":
					ft = smodel.T{Kind: smodel.KBool}
				}
				st.Fields = append(st.Fields, smodel.Field{Name: fn, Type: ft, Required: rapid.Bool().Draw(rt, "anonrequired")})
			}
			// at least one required field: the struct is told from a map by it
			st.Fields[0].Required = true
			return st
		}
		var coll smodel.T
		shape := rapid.IntRange(0, 3).Draw(rt, "unionshapekind")
		// (a second union with a map branch used to be turned into a list: the
		// name collision described above is repaired in cog, fix 63cc8bf)
		if shape >= 2 && mapBranchUsed {
			excluded = append(excluded, "second-union-with-a-map-branch-drawn")
		}
		if shape >= 2 {
			mapBranchUsed = true
		}
		switch shape {
		case 0, 1:
			e := anon()
			coll = smodel.T{Kind: smodel.KArray, Elem: &e}
		case 2:
			e := anon()
			coll = smodel.T{Kind: smodel.KMap, Elem: &e}
		default:
			inner := anon()
			e := smodel.T{Kind: smodel.KArray, Elem: &inner}
			coll = smodel.T{Kind: smodel.KMap, Elem: &e}
		}
		scalar := smodel.T{Kind: rapid.SampledFrom([]string{smodel.KString, smodel.KString, smodel.KBool, smodel.KInt}).Draw(rt, "unionshapescalar")}
		branches := []smodel.T{coll, scalar}
		if rapid.Bool().Draw(rt, "unionshapeorder") {
			branches = []smodel.T{scalar, coll}
		}
		m.Defs[at].Type.Fields = append(m.Defs[at].Type.Fields, smodel.Field{
			Name:     name,
			Type:     smodel.T{Kind: smodel.KUScalars, Branches: branches},
			Required: rapid.Bool().Draw(rt, "unionshaperequired"),
		})
		added++
	}
	return added, excluded
}

// c12Reachable: the definitions that are objects of the IR. A JSON Schema
// input only declares what its root reference reaches (duplicates made by
// earlier passes are objects too).
func c12Reachable(m *smodel.Model, f smodel.Format) map[string]bool {
	out := map[string]bool{}
	if f != smodel.JSONSchema {
		for _, d := range m.Defs {
			out[d.Name] = true
		}
		return out
	}
	var visit func(name string)
	visitType := func(t smodel.T) {}
	visitType = func(t smodel.T) {
		if t.Kind == smodel.KRef {
			visit(t.Ref)
		}
		for _, r := range t.Refs {
			visit(r)
		}
		for _, fl := range t.Fields {
			visitType(fl.Type)
		}
		if t.Elem != nil {
			visitType(*t.Elem)
		}
		for _, b := range t.Branches {
			visitType(b)
		}
	}
	visit = func(name string) {
		if out[name] {
			return
		}
		d := m.Def(name)
		if d == nil {
			return
		}
		out[name] = true
		visitType(d.Type)
	}
	visit(m.Entry)
	return out
}
