package checks

// C09 — what the families do to the drawn model and which veneers they draw:
// constant objects, alias objects + omitted builders (plain-object arguments),
// options rewritten into arguments / per-field options.

import (
	"fmt"
	"sort"
	"strings"

	"github.com/grafana/cog/verifharness/smodel"
	"pgregory.net/rapid"
)

// ------------------------------------------------------------ model helpers

// c09AddDef adds a definition next to the definition it belongs to: when that
// one lives in the second package of a split OpenAPI case, so does the new one
// (the moved set stays closed under references).
func c09AddDef(sc *schemaCase, def smodel.Def, nextTo string) {
	sc.Model.Defs = append(sc.Model.Defs, def)
	for _, moved := range sc.Moved {
		if moved == nextTo && sc.SplitPkg != "" {
			sc.Moved = append(sc.Moved, def.Name)
			return
		}
	}
}

// c09Variants: the struct definitions that are branches of a union (their
// constants are discriminators: the model leaves them alone).
func c09Variants(m *smodel.Model) map[string]bool {
	out := map[string]bool{}
	m.Walk(func(_ string, _ string, t *smodel.T) {
		if t.Kind == smodel.KUStructs || t.Kind == smodel.KIntersection {
			for _, r := range t.Refs {
				out[r] = true
			}
		}
	})
	return out
}

// c09Reaches: definition `from` refers (through any of its types) to `to`.
func c09Reaches(m *smodel.Model, from, to string) bool {
	seen := map[string]bool{}
	var rec func(name string) bool
	rec = func(name string) bool {
		if name == to {
			return true
		}
		if seen[name] {
			return false
		}
		seen[name] = true
		d := m.Def(name)
		if d == nil {
			return false
		}
		found := false
		var walk func(t smodel.T)
		walk = func(t smodel.T) {
			if t.Kind == smodel.KRef && rec(t.Ref) {
				found = true
			}
			for _, r := range t.Refs {
				if rec(r) {
					found = true
				}
			}
			for _, f := range t.Fields {
				walk(f.Type)
			}
			if t.Elem != nil {
				walk(*t.Elem)
			}
			for _, b := range t.Branches {
				walk(b)
			}
		}
		walk(d.Type)
		return found
	}
	return rec(from)
}

// c09Order: the order in which cog sees the fields of a struct: declaration
// order in CUE; JSON Schema / OpenAPI properties are rendered (and read) in
// byte order of their names.
func c09Order(f smodel.Format, fields []smodel.Field) []smodel.Field {
	out := append([]smodel.Field{}, fields...)
	if f != smodel.CUE {
		sort.SliceStable(out, func(i, j int) bool { return out[i].Name < out[j].Name })
	}
	return out
}

// c09AddReferences makes sure the entry point refers to other struct
// definitions the way the family needs (shapes: ref / array / map): always
// when it does not yet (or when asked to), else half of the time. The target is
// another completable struct definition of the model or a new small one
// (newDef: `Widget`, fields as c09AddFields draws them).
func c09AddReferences(rt *rapid.T, sc *schemaCase, x *c09Ctx, shapes []string, newDef string, always bool) {
	m := sc.Model
	entry := m.Def(m.Entry)
	if entry == nil || entry.Type.Kind != smodel.KStruct {
		return
	}
	has := map[string]bool{}
	for _, f := range entry.Type.Fields {
		if shape, target, ok := c09Supported(x, f); ok && x.root(target) != m.Entry {
			has[shape] = true
		}
	}
	for _, shape := range shapes {
		if has[shape] && !always && rapid.Bool().Draw(rt, "addreference") {
			continue
		}
		name := strings.ToLower(newDef) + map[string]string{"ref": "", "array": "List", "map": "Map"}[shape]
		if x.field(m.Entry, name) != nil {
			continue
		}
		targets := []string{newDef, newDef}
		variants := c09Variants(m)
		for _, d := range m.Defs {
			if d.Type.Kind == smodel.KStruct && d.Name != m.Entry && !variants[d.Name] && c09Completable(x, d.Name, map[string]bool{}) {
				targets = append(targets, d.Name)
			}
		}
		target := rapid.SampledFrom(targets).Draw(rt, "referencetarget")
		if m.Def(target) == nil {
			m.Defs = append(m.Defs, smodel.Def{Name: newDef, Type: smodel.T{Kind: smodel.KStruct, Fields: []smodel.Field{{Name: "name", Type: smodel.T{Kind: smodel.KString}, Required: rapid.Bool().Draw(rt, "widgetnamerequired")}}}})
			entry = m.Def(m.Entry) // the slice moved
			c09AddFields(rt, m, newDef)
		}
		t := smodel.T{Kind: smodel.KRef, Ref: target}
		required := rapid.Bool().Draw(rt, "referencerequired")
		switch shape {
		case "array":
			t = smodel.T{Kind: smodel.KArray, Elem: &smodel.T{Kind: smodel.KRef, Ref: target}}
		case "map":
			t = smodel.T{Kind: smodel.KMap, Elem: &smodel.T{Kind: smodel.KRef, Ref: target}}
		}
		entry.Type.Fields = append(entry.Type.Fields, smodel.Field{Name: name, Type: t, Required: required})
	}
}

// ------------------------------------------------------- constant objects

// c09AddConstantObjects gives half of the struct definitions a required field
// that refers to a CONSTANT OBJECT (`objectType: OptionsKind`,
// `OptionsKind: "options-kind"`). The types' constructors do not always set
// such a field (Go's NewX() does not): the builder's constructor does, so they
// tell a builder-made object from a constructor-made one.
//
// Not generated: an OPTIONAL field referring to a constant object. cog gives
// it an option whose Go parameter is typed by the constant
// (`func (b *XBuilder) ObjectType(objectType OptionsKind)` with
// `const OptionsKind = "options-kind"`): the generated package does not
// compile (a defect outside this property: reported, see the run description).
func c09AddConstantObjects(rt *rapid.T, sc *schemaCase) {
	m := sc.Model
	variants := c09Variants(m)
	n := len(m.Defs)
	for i := 0; i < n; i++ {
		name := m.Defs[i].Name
		if m.Defs[i].Type.Kind != smodel.KStruct || variants[name] || m.Def(name+"Kind") != nil {
			continue
		}
		if !rapid.Bool().Draw(rt, "constantobject") {
			continue
		}
		c09AddDef(sc, smodel.Def{Name: name + "Kind", Type: smodel.T{Kind: smodel.KString, Const: smodel.Raw(strings.ToLower(name) + "-kind")}}, name)
		st := &m.Defs[i].Type
		field := smodel.Field{Name: "objectType", Type: smodel.T{Kind: smodel.KRef, Ref: name + "Kind"}, Required: true}
		at := rapid.IntRange(0, len(st.Fields)).Draw(rt, "constantobjectat")
		fields := append([]smodel.Field{}, st.Fields[:at]...)
		fields = append(fields, field)
		st.Fields = append(fields, st.Fields[at:]...)
	}
}

// ------------------------------------------------ aliases, omitted builders

// c09AddAliases adds alias objects (`XAlias: X`; sometimes a second hop
// `XAlias2: XAlias`) for struct definitions some field refers to, and
// redirects part of those references (plain, list element, map element) to
// the alias. It tells whether the model now holds aliases.
//
// Two regions are excluded by construction because cog's output does not work
// there at all (defects outside this property, reported in the description):
//   - Python: `XAlias: typing.TypeAlias = 'X'` is a string, and the generated
//     constructors call it (`XAlias()`: TypeError): cases with aliases are
//     driven in Go only (GoOnly, counted python_not_driven:alias-objects);
//   - Go: the builder of a two-hop alias calls an undefined NewXAlias2(), and
//     so does the constructor of a struct with a required field of that type:
//     two-hop aliases are only referred to from optional fields, lists and
//     maps, and their builder is always omitted.
func c09AddAliases(rt *rapid.T, sc *schemaCase, x *c09Ctx) bool {
	m := sc.Model
	c09AddReferences(rt, sc, x, []string{"ref", "array", "map"}, "Widget", false)
	type site struct {
		t        *smodel.T
		optional bool // optional field, list or map element: no constructor call
	}
	sites := map[string][]site{}
	var order []string
	for i := range m.Defs {
		if m.Defs[i].Type.Kind != smodel.KStruct {
			continue
		}
		fields := m.Defs[i].Type.Fields
		for j := range fields {
			t := &fields[j].Type
			optional := !fields[j].Required
			if (t.Kind == smodel.KArray || t.Kind == smodel.KMap) && t.Elem != nil {
				t, optional = t.Elem, true
			}
			if t.Kind != smodel.KRef || t.Nullable || t.Default != nil {
				continue
			}
			if d := m.Def(t.Ref); d == nil || d.Type.Kind != smodel.KStruct {
				continue
			}
			if len(sites[t.Ref]) == 0 {
				order = append(order, t.Ref)
			}
			sites[t.Ref] = append(sites[t.Ref], site{t, optional})
		}
	}
	added := false
	for _, name := range order {
		if m.Def(name+"Alias") != nil || m.Def(name+"Alias2") != nil || rapid.IntRange(0, 3).Draw(rt, "alias") == 0 {
			continue
		}
		added = true
		c09AddDef(sc, smodel.Def{Name: name + "Alias", Type: smodel.T{Kind: smodel.KRef, Ref: name}}, name)
		var redirected []site
		for _, s := range sites[name] {
			if rapid.Bool().Draw(rt, "aliasredirect") {
				redirected = append(redirected, s)
			}
		}
		if len(redirected) == 0 {
			redirected = append(redirected, rapid.SampledFrom(sites[name]).Draw(rt, "aliasredirectone"))
		}
		var far []site
		for _, s := range redirected {
			s.t.Ref = name + "Alias"
			if s.optional {
				far = append(far, s)
			}
		}
		if len(far) > 0 && rapid.IntRange(0, 2).Draw(rt, "alias2") == 0 {
			c09AddDef(sc, smodel.Def{Name: name + "Alias2", Type: smodel.T{Kind: smodel.KRef, Ref: name + "Alias"}}, name)
			x.omitted[name+"Alias2"] = true
			moved := 0
			for _, s := range far {
				if rapid.Bool().Draw(rt, "alias2redirect") {
					s.t.Ref = name + "Alias2"
					moved++
				}
			}
			if moved == 0 {
				far[0].t.Ref = name + "Alias2"
			}
		}
	}
	return added
}

// drawC09Omitted draws the definitions whose builder an `omit` veneer removes
// (never the entry point's): the options of the fields referring to them take
// the plain object.
func drawC09Omitted(rt *rapid.T, sc schemaCase, x *c09Ctx) []string {
	for _, d := range sc.Model.Defs {
		if x.structOf(d.Name) == nil || d.Name == sc.Model.Entry || x.omitted[d.Name] {
			continue
		}
		if rapid.Bool().Draw(rt, "omitbuilder") {
			x.omitted[d.Name] = true
		}
	}
	return keysOf(x.omitted)
}

// c09OmitRules: the omit veneers. They come after the merge_into veneers:
// those resolve the builders on their path, omitted or not.
func c09OmitRules(sc schemaCase, omitted []string, rules *c09Rules) {
	for _, name := range omitted {
		pkg := sc.pkgOf(name)
		rules.builder[pkg] = append(rules.builder[pkg], fmt.Sprintf("  - omit: {by_object: %s}\n", name))
	}
}

// ------------------------------------------------------- rewritten options

// c09Rewrite is one struct_fields_as_arguments / struct_fields_as_options
// veneer on the option of Def.Field (a reference to the struct Target).
type c09Rewrite struct {
	Def, Field, Target string
	// Kind: arguments (the option takes the fields as arguments) | options (the
	// option is replaced by one option per field)
	Kind string
	// Fields: the explicit `fields:` list (nil: every field)
	Fields []string
	// Args: the fields that become arguments / options, in cog's order
	Args []string
}

var c09ExtraNames = []string{"zaExtra", "zbExtra", "zcExtra", "zdExtra", "zeExtra"}

// c09Bounded draws bounds every input format can spell (see smodel's bounded).
func c09Bounded(rt *rapid.T, kind string) smodel.T {
	t := smodel.T{Kind: kind}
	which := rapid.IntRange(0, 2).Draw(rt, "extrabound")
	switch kind {
	case smodel.KString:
		lo, hi := rapid.IntRange(1, 3).Draw(rt, "extraminlen"), rapid.IntRange(3, 8).Draw(rt, "extramaxlen")
		if which != 1 {
			t.MinLen = smodel.IntPtr(lo)
		}
		if which != 0 {
			t.MaxLen = smodel.IntPtr(hi)
		}
	case smodel.KInt:
		lo := float64(rapid.IntRange(0, 5).Draw(rt, "extraimin"))
		hi := lo + float64(rapid.IntRange(4, 100).Draw(rt, "extraispan"))
		if which != 1 {
			t.Min = &lo
		}
		if which != 0 {
			t.Max = &hi
		}
	case smodel.KFloat:
		lo := rapid.SampledFrom([]float64{0, 1, 2}).Draw(rt, "extrafmin")
		hi := lo + rapid.SampledFrom([]float64{2, 10, 100}).Draw(rt, "extrafspan")
		if which != 1 {
			t.Min = &lo
		}
		if which != 0 {
			t.Max = &hi
		}
	}
	return t
}

// c09AddFields appends 3-5 fields to a struct: bounded and plain scalars,
// lists and maps of scalars, collections of collections of bounded scalars,
// in drawn order (their names sort after every
// other field, so that the order is the same for the three input formats).
func c09AddFields(rt *rapid.T, m *smodel.Model, def string) {
	d := m.Def(def)
	if d == nil || d.Type.Kind != smodel.KStruct {
		return
	}
	for _, f := range d.Type.Fields {
		if strings.HasSuffix(f.Name, "Extra") {
			return
		}
	}
	n := rapid.IntRange(3, len(c09ExtraNames)).Draw(rt, "extrafields")
	for i := 0; i < n; i++ {
		var t smodel.T
		switch c := rapid.SampledFrom([]string{"string_bounded", "array_string", "int_bounded", "map_string", "float_bounded", "array_int", "string", "string_bounded", "map_float", "int_bounded", "array_string", "int", "map_int", "bool", "nested_bounded", "nested_bounded"}).Draw(rt, "extraclass"); c {
		case "string_bounded":
			t = c09Bounded(rt, smodel.KString)
		case "int_bounded":
			t = c09Bounded(rt, smodel.KInt)
		case "float_bounded":
			t = c09Bounded(rt, smodel.KFloat)
		case "string":
			t = smodel.T{Kind: smodel.KString}
		case "int":
			t = smodel.T{Kind: smodel.KInt}
		case "bool":
			t = smodel.T{Kind: smodel.KBool}
		case "nested_bounded":
			// a collection of collections of bounded scalars (a plain value for the
			// option; Go's Validate() has to reach the leaves)
			leaf := c09Bounded(rt, rapid.SampledFrom([]string{smodel.KString, smodel.KInt, smodel.KFloat}).Draw(rt, "extraleaf"))
			inner := smodel.T{Kind: rapid.SampledFrom([]string{smodel.KArray, smodel.KMap}).Draw(rt, "extrainner"), Elem: &leaf}
			t = smodel.T{Kind: rapid.SampledFrom([]string{smodel.KArray, smodel.KMap}).Draw(rt, "extraouter"), Elem: &inner}
		default:
			kind, elem, _ := strings.Cut(c, "_")
			t = smodel.T{Kind: kind, Elem: &smodel.T{Kind: elem}}
		}
		d.Type.Fields = append(d.Type.Fields, smodel.Field{Name: c09ExtraNames[i], Type: t, Required: rapid.Bool().Draw(rt, "extrarequired")})
	}
}

// drawC09Rewrites rewrites options of fields that refer to a struct:
// struct_fields_as_arguments (all fields, or an explicit list) and, for
// optional fields, struct_fields_as_options.
func drawC09Rewrites(rt *rapid.T, sc *schemaCase, x *c09Ctx, rules *c09Rules) {
	m := sc.Model
	c09AddReferences(rt, sc, x, []string{"ref"}, "Widget", true)
	c09AddReferences(rt, sc, x, []string{"ref"}, "Gadget", true)
	type candidate struct {
		def    string
		field  smodel.Field
		target string
	}
	find := func() []candidate {
		var out []candidate
		for _, def := range x.builderDefs() {
			for _, f := range x.fields(def) {
				shape, target, ok := c09Supported(x, f)
				if !ok || shape != "ref" || f.Type.Default != nil || x.root(target) == x.root(def) {
					continue
				}
				if d := m.Def(target); d == nil || d.Type.Kind != smodel.KStruct {
					continue
				}
				out = append(out, candidate{def, f, target})
			}
		}
		return out
	}
	// more fields for the structs whose fields become arguments: constrained
	// scalars next to unconstrained scalars and collections
	extended := map[string]bool{}
	for _, c := range find() {
		if !extended[c.target] && rapid.IntRange(0, 3).Draw(rt, "extend") != 0 {
			c09AddFields(rt, m, c.target)
		}
		extended[c.target] = true
	}
	norm := func(s string) string { return strings.ToLower(strings.ReplaceAll(s, "_", "")) }
	taken := map[string]map[string]bool{} // option names per builder
	for _, def := range x.builderDefs() {
		taken[def] = map[string]bool{"build": true}
		for _, f := range x.fields(def) {
			taken[def][norm(f.Name)] = true
		}
	}
	for _, c := range find() {
		if rapid.IntRange(0, 5).Draw(rt, "rewrite") == 0 {
			continue
		}
		rw := &c09Rewrite{Def: c.def, Field: c.field.Name, Target: c.target, Kind: "arguments"}
		allOK, skip := true, false
		var required, optional, constants []string
		for _, g := range c09Order(sc.Format, x.fields(c.target)) {
			if g.Type.Const != nil {
				// a literal constant: written by the rewritten option, no argument
				if g.Required {
					constants = append(constants, g.Name)
				} else {
					allOK = false
				}
				continue
			}
			shape, gTarget, ok := c09Supported(x, g)
			if !ok {
				allOK = false // no argument the harness can pass: only explicit lists
				continue
			}
			// an argument that leads back to the builder (or to its own object)
			// would make the programs nest for ever: left out. Lists and maps can
			// stay unset even when required; a required plain reference cannot
			if shape != "" && (c09Reaches(m, gTarget, x.root(c.def)) || c09Reaches(m, gTarget, c.target)) {
				allOK = false
				if g.Required && (shape == "ref" || shape == "obj") {
					skip = true
				}
				continue
			}
			if g.Required {
				required = append(required, g.Name)
			} else {
				optional = append(optional, g.Name)
			}
		}
		if skip {
			continue
		}
		// one option per field instead of arguments: only for optional fields
		// (nothing else can complete the object then), only fields whose name no
		// option of the builder has yet
		asOptions := !c.field.Required && rapid.Bool().Draw(rt, "asoptions")
		for _, name := range required {
			asOptions = asOptions && !taken[c.def][norm(name)]
		}
		chosen := map[string]bool{}
		switch {
		case asOptions:
			rw.Kind, rw.Fields = "options", []string{}
			for _, name := range required {
				chosen[name] = true
			}
			for _, name := range optional {
				if !taken[c.def][norm(name)] && rapid.IntRange(0, 2).Draw(rt, "optionalfieldoption") != 0 {
					chosen[name] = true
				}
			}
			for name := range chosen {
				taken[c.def][norm(name)] = true
			}
		case allOK && rapid.IntRange(0, 2).Draw(rt, "allfields") == 0:
			for _, name := range append(append([]string{}, required...), optional...) {
				chosen[name] = true
			}
		default:
			rw.Fields = []string{}
			for _, name := range required {
				chosen[name] = true
			}
			for _, name := range optional {
				if rapid.Bool().Draw(rt, "optionalargument") {
					chosen[name] = true
				}
			}
			if len(chosen) == 0 && len(optional) > 0 {
				chosen[rapid.SampledFrom(optional).Draw(rt, "oneargument")] = true
			}
		}
		for _, g := range c09Order(sc.Format, x.fields(c.target)) {
			if chosen[g.Name] {
				rw.Args = append(rw.Args, g.Name)
			}
		}
		if len(rw.Args) == 0 {
			continue
		}
		if rw.Fields != nil {
			rw.Fields = append(rw.Fields, rw.Args...)
			if rw.Kind == "arguments" {
				for _, name := range constants {
					if rapid.Bool().Draw(rt, "listconstant") {
						rw.Fields = append(rw.Fields, name)
					}
				}
			}
		}
		fields := ""
		if rw.Fields != nil {
			listed := rapid.Permutation(rw.Fields).Draw(rt, "fieldsorder") // the order of the list does not matter
			fields = ", fields: [" + strings.Join(listed, ", ") + "]"
		}
		pkg := sc.pkgOf(c.def)
		rules.option[pkg] = append(rules.option[pkg], fmt.Sprintf("  - struct_fields_as_%s: {by_name: %s.%s%s}\n", rw.Kind, c.def, c.field.Name, fields))
		x.rewrites[c.def+"."+c.field.Name] = rw
	}
}

// c09RewrittenCall draws a valid call of an option rewritten by
// struct_fields_as_arguments: one argument per field.
func c09RewrittenCall(rt *rapid.T, x *c09Ctx, rw *c09Rewrite, depth int) (c09Call, bool) {
	call := c09Call{Field: rw.Field, Path: []string{rw.Field}, PathDefs: []string{rw.Target}}
	if depth > 1 {
		depth = 1 // every argument is needed; optional ones never lead back here
	}
	for _, name := range rw.Args {
		g := x.field(rw.Target, name)
		if g == nil {
			return c09Call{}, false
		}
		arg, ok := c09PlainCall(rt, x, *g, depth)
		if !ok {
			return c09Call{}, false
		}
		call.Args = append(call.Args, arg)
	}
	return call, len(call.Args) > 0
}

// c09RewritePrograms: the programs driving a rewritten option.
func c09RewritePrograms(rt *rapid.T, x *c09Ctx, rw *c09Rewrite, base []c09Call) []c09Program {
	m := x.m
	var out []c09Program
	withBase := func(calls ...c09Call) []c09Call {
		return append(append([]c09Call{}, base...), calls...)
	}
	if rw.Kind == "arguments" {
		first, ok := c09RewrittenCall(rt, x, rw, 0)
		if !ok {
			return nil
		}
		out = append(out, c09Program{Def: rw.Def, Calls: withBase(first), Kind: "rewritten-arguments"})
		if second, ok := c09RewrittenCall(rt, x, rw, 0); ok {
			out = append(out, c09Program{Def: rw.Def, Calls: withBase(first, second), Kind: "rewritten-arguments-twice"})
		}
		for k, arg := range first.Args {
			g := x.field(rw.Target, arg.Field)
			if arg.Shape == "" {
				for bound, bad := range smodel.Violations(m.Resolve(g.Type)) {
					broken := first
					broken.Args = append([]c09Call{}, first.Args...)
					broken.Args[k] = c09Call{Field: arg.Field, Value: rawOf(bad)}
					out = append(out, c09Program{Def: rw.Def, Calls: withBase(broken), Kind: "violation", Invalid: rw.Field + "." + arg.Field + "(argument):" + bound})
				}
				continue
			}
			if strings.HasPrefix(arg.Shape, "obj") {
				continue
			}
			for _, v := range c09DeepViolations(rt, x, arg.Nested[len(arg.Nested)-1], 0) {
				broken := first
				broken.Args = append([]c09Call{}, first.Args...)
				nestedArg := arg
				nestedArg.Nested = append([]c09Program{}, arg.Nested...)
				nestedArg.Nested[len(nestedArg.Nested)-1] = v.prog
				broken.Args[k] = nestedArg
				out = append(out, c09Program{Def: rw.Def, Calls: withBase(broken), Kind: "nested-violation", Invalid: rw.Field + "." + arg.Field + "(argument)." + v.where})
				break
			}
		}
		return out
	}
	// one option per field: the ones of the required fields come first, so that
	// the object a nil guard creates can be built
	asOption := func(c c09Call) c09Call {
		c.Path, c.PathDefs = []string{rw.Field}, []string{rw.Target}
		return c
	}
	prefix := func() ([]c09Call, bool) {
		calls := append([]c09Call{}, base...)
		for _, name := range rw.Args {
			g := x.field(rw.Target, name)
			if g == nil || !g.Required {
				continue
			}
			call, ok := c09PlainCall(rt, x, *g, 1)
			if !ok {
				return nil, false
			}
			calls = append(calls, asOption(call))
		}
		return calls, true
	}
	for _, name := range rw.Args {
		g := x.field(rw.Target, name)
		if g == nil {
			continue
		}
		call, ok := c09PlainCall(rt, x, *g, 1)
		if !ok {
			continue
		}
		if calls, ok := prefix(); ok {
			out = append(out, c09Program{Def: rw.Def, Calls: append(calls, asOption(call)), Kind: "rewritten-field-option"})
		}
		for bound, bad := range smodel.Violations(m.Resolve(g.Type)) {
			if calls, ok := prefix(); ok {
				out = append(out, c09Program{Def: rw.Def, Calls: append(calls, asOption(c09Call{Field: g.Name, Value: rawOf(bad)})), Kind: "violation", Invalid: rw.Field + "." + g.Name + "(option):" + bound})
			}
		}
	}
	return out
}
