package checks

// C04 — no input or configuration makes cog panic or hang.
//
// Cases run in a WORKER subprocess (this test binary re-executed with
// VERIF_WORKER=1): a panic is recovered there and reported with its signature,
// a fatal error (stack overflow) kills the worker and is classified from its
// stderr, a hang is cut by the parent's watchdog (SIGQUIT, goroutine dump).

import (
	"bufio"
	"bytes"
	"encoding/json"
	"fmt"
	"io"
	"os"
	"os/exec"
	"path/filepath"
	"regexp"
	"runtime/debug"
	"sort"
	"strings"
	"syscall"
	"testing"
	"time"

	"github.com/grafana/cog/verifharness/e2"
	"github.com/grafana/cog/verifharness/smodel"
	"github.com/grafana/cog/verifharness/vlib"
	"pgregory.net/rapid"
)

// c04Case is one run of cog: inputs (raw texts), configuration, languages.
type c04Case struct {
	Inputs    []e2.InputSpec `json:"inputs"`
	Config    e2.OutputSpec  `json:"config"`
	Languages []string       `json:"languages"`
	// Mutations applied to the well-formed documents (for labels / reading)
	Mutations []string `json:"mutations,omitempty"`
}

type c04Answer struct {
	ID int `json:"id"`
	// Outcome: files | error | panic
	Outcome string `json:"outcome"`
	Sig     string `json:"sig,omitempty"`
	Msg     string `json:"msg,omitempty"`
	// ParsedIR: the front ends accepted the inputs (an IR was built)
	ParsedIR bool `json:"parsed_ir,omitempty"`
}

// runC04InProcess executes the case (worker side).
func runC04InProcess(work string, c c04Case) (ans c04Answer) {
	pc := pipeCase{Config: c.Config, Languages: c.Languages}
	o := pc.spec(c.Languages)
	sig, msg, panicked := vlib.Guard(func() {
		pl, err := e2.NewPipeline(work, "x/%l", c.Inputs, o)
		if err != nil {
			ans.Outcome, ans.Msg = "error", firstLine(err.Error())
			return
		}
		if _, err := e2.LoadSchemas(pl); err == nil {
			ans.ParsedIR = true
		}
		pl, err = e2.NewPipeline(work, "x/%l", c.Inputs, o)
		if err != nil {
			ans.Outcome, ans.Msg = "error", firstLine(err.Error())
			return
		}
		if _, err := e2.Run(pl); err != nil {
			ans.Outcome, ans.Msg = "error", firstLine(err.Error())
			return
		}
		ans.Outcome = "files"
	})
	if panicked {
		ans.Outcome, ans.Sig, ans.Msg = "panic", sig, firstLine(msg)
	}
	return ans
}

// TestC04Worker is the worker loop (only with VERIF_WORKER=1).
func TestC04Worker(t *testing.T) {
	if os.Getenv("VERIF_WORKER") != "1" {
		t.Skip("worker mode only")
	}
	debug.SetMaxStack(96 << 20) // die fast on unbounded recursion
	work, err := os.MkdirTemp(os.Getenv("VERIF_WORK"), "c04w")
	if err != nil {
		t.Fatal(err)
	}
	defer os.RemoveAll(work)
	in := bufio.NewReader(os.Stdin)
	out := json.NewEncoder(os.Stdout)
	for {
		line, err := in.ReadBytes('\n')
		if len(line) > 1 {
			var req struct {
				ID   int     `json:"id"`
				Case c04Case `json:"case"`
			}
			if jerr := json.Unmarshal(line, &req); jerr == nil {
				ans := runC04InProcess(filepath.Join(work, "in"), req.Case)
				ans.ID = req.ID
				_ = os.RemoveAll(filepath.Join(work, "in"))
				fmt.Fprint(os.Stdout, "\n@@C04 ")
				_ = out.Encode(ans)
			}
		}
		if err != nil {
			return
		}
	}
}

// c04Worker is the parent's handle on a worker process.
type c04Worker struct {
	cmd    *exec.Cmd
	stdin  io.WriteCloser
	lines  chan string
	stderr *bytes.Buffer
	nextID int
}

func startC04Worker() (*c04Worker, error) {
	cmd := exec.Command(os.Args[0], "-test.run", "^TestC04Worker$", "-test.count", "1", "-test.timeout", "0")
	cmd.Env = append(os.Environ(), "VERIF_WORKER=1", "GOTRACEBACK=all")
	stdin, err := cmd.StdinPipe()
	if err != nil {
		return nil, err
	}
	stdout, err := cmd.StdoutPipe()
	if err != nil {
		return nil, err
	}
	w := &c04Worker{cmd: cmd, stdin: stdin, lines: make(chan string, 16), stderr: &bytes.Buffer{}}
	cmd.Stderr = w.stderr
	if err := cmd.Start(); err != nil {
		return nil, err
	}
	go func() {
		sc := bufio.NewScanner(stdout)
		sc.Buffer(make([]byte, 1<<20), 64<<20)
		for sc.Scan() {
			if l := sc.Text(); strings.HasPrefix(l, "@@C04 ") {
				w.lines <- strings.TrimPrefix(l, "@@C04 ")
			}
		}
		close(w.lines)
	}()
	return w, nil
}

func (w *c04Worker) stop() {
	_ = w.stdin.Close()
	done := make(chan struct{})
	go func() { _ = w.cmd.Wait(); close(done) }()
	select {
	case <-done:
	case <-time.After(3 * time.Second):
		_ = w.cmd.Process.Kill()
		<-done
	}
}

var (
	reCogFrame = regexp.MustCompile(`(?m)^github\.com/grafana/cog/((?:internal|cmd)/[A-Za-z0-9_/]+\.(?:\(\*?[A-Za-z0-9_]+(?:\[[^\]]*\])?\)\.)?[A-Za-z0-9_]+(?:\.[A-Za-z0-9_]+)*)`)
	reFatal    = regexp.MustCompile(`(?m)^(fatal error: [^\n]+|runtime: goroutine stack exceeds[^\n]+)`)
)

func cleanFrame(fn string) string {
	fn = regexp.MustCompile(`\[[^\]]*\]`).ReplaceAllString(fn, "")
	return fn
}

// firstCogFrameIn returns the first cog function of a goroutine dump.
func firstCogFrameIn(dump string) string {
	if m := reCogFrame.FindStringSubmatch(dump); m != nil {
		return cleanFrame(m[1])
	}
	return "?"
}

// recursingCogFrameIn returns the cog function that occurs most often in a
// dump: for an unbounded recursion that names the cycle, whatever frame
// happened to be on top when the stack ran out.
func recursingCogFrameIn(dump string) string {
	counts := map[string]int{}
	for _, m := range reCogFrame.FindAllStringSubmatch(dump, -1) {
		counts[cleanFrame(m[1])]++
	}
	best, n := "?", 0
	var names []string
	for fn := range counts {
		names = append(names, fn)
	}
	sort.Strings(names)
	for _, fn := range names {
		if counts[fn] > n {
			best, n = fn, counts[fn]
		}
	}
	return best
}

// exec runs one case in the worker; on death or timeout the worker is gone
// (the caller starts another one).
func (w *c04Worker) exec(c c04Case, timeout time.Duration) (ans c04Answer, alive bool) {
	w.nextID++
	req, _ := json.Marshal(map[string]any{"id": w.nextID, "case": c})
	if _, err := w.stdin.Write(append(req, '\n')); err != nil {
		return c04Answer{Outcome: "death", Sig: "worker-death:cannot-write @ ?", Msg: err.Error()}, false
	}
	select {
	case line, ok := <-w.lines:
		if !ok {
			_ = w.cmd.Wait()
			dump := w.stderr.String()
			class := "exit"
			if m := reFatal.FindString(dump); m != "" {
				class = vlib.PanicClass(m)
			}
			frame := firstCogFrameIn(dump)
			if strings.Contains(class, "stack") {
				frame = recursingCogFrameIn(dump)
			}
			return c04Answer{Outcome: "death", Sig: "worker-death:" + class + " @ " + frame, Msg: firstLine(strings.TrimSpace(tailOf(dump, 300)))}, false
		}
		if err := json.Unmarshal([]byte(line), &ans); err != nil {
			return c04Answer{Outcome: "death", Sig: "worker-death:bad-answer @ ?", Msg: err.Error()}, false
		}
		return ans, true
	case <-time.After(timeout):
		_ = w.cmd.Process.Signal(syscall.SIGQUIT)
		done := make(chan struct{})
		go func() { _ = w.cmd.Wait(); close(done) }()
		select {
		case <-done:
		case <-time.After(5 * time.Second):
			_ = w.cmd.Process.Kill()
			<-done
		}
		dump := w.stderr.String()
		// the goroutine running the case is the one inside the worker loop
		// where a run is stuck at the moment of the dump is arbitrary; what
		// identifies it is the outermost component it is in: the last cog
		// frame that is not the pipeline driver (a jenny's Generate, a pass'
		// Process, the veneer rewriter...)
		frame := "?"
		for _, g := range strings.Split(dump, "\n\n") {
			if !strings.Contains(g, "runC04InProcess") {
				continue
			}
			for _, m := range reCogFrame.FindAllStringSubmatch(g, -1) {
				fn := cleanFrame(m[1])
				if strings.HasPrefix(fn, "internal/codegen.") || strings.HasPrefix(fn, "internal/jennies/common.") {
					continue
				}
				frame = fn
			}
			break
		}
		return c04Answer{Outcome: "hang", Sig: "hang @ " + frame, Msg: fmt.Sprintf("no answer within %s", timeout)}, false
	}
}

func tailOf(s string, n int) string {
	if len(s) > n {
		return s[len(s)-n:]
	}
	return s
}

// ---------------------------------------------------------------- generation

// hostile JSON Schema / OpenAPI fragments swapped in for a well-formed node
var hostileFragments = []string{
	`{"enum":[null]}`, `{"enum":[]}`, `{"enum":[1,"a"]}`, `{"enum":["a"],"type":"integer"}`, `{"enum":[1.5]}`, `{"enum":[true]}`,
	`{"type":"string","enum":[1,true]}`, `{"type":"string","enum":[null,1]}`, `{"type":"number","enum":[{"a":1}]}`, `{"type":"string","enum":[["a"]]}`, `{"type":"boolean","enum":[true,false]}`, `{"type":"integer","enum":[1,-1]}`,
	`{"type":"array"}`, `{"type":"array","items":[{"type":"string"},{"type":"integer"}]}`, `{"type":"array","items":true}`,
	`{"type":["string","null"]}`, `{"type":["integer","string","null"]}`, `{"type":[]}`, `{"type":"null"}`, `{"type":"whatever"}`, `{"type":5}`,
	`{"oneOf":[]}`, `{"anyOf":[]}`, `{"allOf":[]}`, `{"allOf":[{"type":"string"}]}`, `{"oneOf":[{"type":"null"}]}`, `{"anyOf":[{"type":"null"},{"type":"null"}]}`,
	`{"$ref":"#/definitions/Missing"}`, `{"$ref":"#/components/schemas/Missing"}`, `{"$ref":"#"}`, `{"$ref":""}`, `{"$ref":"other.json#/components/schemas/X"}`,
	`{"type":"object","additionalProperties":true}`, `{"type":"object","additionalProperties":false}`, `{"additionalProperties":true}`, `{"type":"object","properties":{}}`,
	`{"type":"object","additionalProperties":{"$ref":"#"}}`, `{"type":"object","properties":{"":{"type":"string"}}}`, `{"type":"object","properties":{"a b":{"type":"string"},"a-b":{"type":"string"},"a_b":{"type":"string"}}}`,
	`{"const":1.5}`, `{"const":null}`, `{"const":{"a":1}}`, `{"const":[1]}`, `{"type":"string","const":5}`,
	`{"type":"integer","default":"x"}`, `{"type":"string","default":5}`, `{"type":"boolean","default":"yes"}`, `{"type":"array","items":{"type":"integer"},"default":"x"}`, `{"type":"object","default":[1]}`, `{"default":{"a":[1,{"b":null}]}}`,
	`{"type":"integer","minimum":"1"}`, `{"type":"string","minLength":-1}`, `{"type":"number","multipleOf":0}`, `{"type":"string","pattern":"^(a$"}`, `{"type":"string","format":"date-time","default":"yesterday"}`,
	`{"oneOf":[{"$ref":"#/definitions/Missing"},{"type":"string"}],"discriminator":{"propertyName":"kind"}}`,
	`{"oneOf":[{"type":"string"},{"type":"integer"}],"discriminator":{"propertyName":"kind","mapping":{"a":"#/components/schemas/Missing"}}}`,
	`{}`, `true`, `false`, `null`, `[]`, `"string"`, `42`,
}

// mutateJSONDoc applies n random structural mutations to a JSON document.
func mutateJSONDoc(rt *rapid.T, doc any, n int, defsKey []string) (any, []string) {
	var applied []string
	for k := 0; k < n; k++ {
		// collect the paths of all nodes below the definitions
		type slot struct {
			parent any
			key    string
			idx    int
			path   string
		}
		var slots []slot
		var walk func(v any, path string, depth int)
		walk = func(v any, path string, depth int) {
			if depth > 12 {
				return
			}
			switch x := v.(type) {
			case map[string]any:
				keys := make([]string, 0, len(x))
				for key := range x {
					keys = append(keys, key)
				}
				sort.Strings(keys)
				for _, key := range keys {
					slots = append(slots, slot{parent: x, key: key, path: path + "/" + key})
					walk(x[key], path+"/"+key, depth+1)
				}
			case []any:
				for i := range x {
					slots = append(slots, slot{parent: x, idx: i, path: fmt.Sprintf("%s/%d", path, i)})
					walk(x[i], fmt.Sprintf("%s/%d", path, i), depth+1)
				}
			}
		}
		root := doc
		for _, key := range defsKey {
			if m, ok := root.(map[string]any); ok {
				root = m[key]
			}
		}
		walk(root, "", 0)
		if len(slots) == 0 {
			break
		}
		// two times out of three aim at a schema position (an object that has a
		// type / $ref / enum / union keyword): elsewhere the damage mostly stops
		// in the front end's syntax checks
		var schemaSlots []slot
		for _, sl := range slots {
			var v any
			if m, ok := sl.parent.(map[string]any); ok {
				v = m[sl.key]
			} else if l, ok := sl.parent.([]any); ok {
				v = l[sl.idx]
			}
			if m, ok := v.(map[string]any); ok {
				for _, kw := range []string{"type", "$ref", "enum", "anyOf", "oneOf", "allOf", "const"} {
					if _, has := m[kw]; has {
						schemaSlots = append(schemaSlots, sl)
						break
					}
				}
			}
		}
		s := slots[rapid.IntRange(0, len(slots)-1).Draw(rt, "slot")]
		if len(schemaSlots) > 0 && rapid.IntRange(0, 2).Draw(rt, "schemaslot") != 0 {
			s = schemaSlots[rapid.IntRange(0, len(schemaSlots)-1).Draw(rt, "schemaslotidx")]
		}
		op := rapid.SampledFrom([]string{"replace", "replace", "replace", "delete", "null", "retype", "self-ref"}).Draw(rt, "op")
		set := func(v any) {
			if m, ok := s.parent.(map[string]any); ok {
				m[s.key] = v
			} else if l, ok := s.parent.([]any); ok {
				l[s.idx] = v
			}
		}
		switch op {
		case "replace":
			frag := rapid.SampledFrom(hostileFragments).Draw(rt, "fragment")
			var v any
			_ = json.Unmarshal([]byte(frag), &v)
			set(v)
			applied = append(applied, "replace "+s.path+" by "+frag)
		case "delete":
			if m, ok := s.parent.(map[string]any); ok {
				delete(m, s.key)
				applied = append(applied, "delete "+s.path)
			}
		case "null":
			set(nil)
			applied = append(applied, "null at "+s.path)
		case "retype":
			if m, ok := s.parent.(map[string]any); ok && s.key == "type" {
				m[s.key] = rapid.SampledFrom([]any{"array", "object", "string", "integer", "number", "boolean", "null", []any{"string", "integer"}}).Draw(rt, "newtype")
				applied = append(applied, "retype "+s.path)
			}
		case "self-ref":
			// an alias cycle between two definitions
			if defs, ok := root.(map[string]any); ok && len(defs) > 0 {
				names := make([]string, 0, len(defs))
				for name := range defs {
					names = append(names, name)
				}
				sort.Strings(names)
				a := rapid.SampledFrom(names).Draw(rt, "cyclea")
				b := rapid.SampledFrom(names).Draw(rt, "cycleb")
				prefix := "#/" + strings.Join(defsKey, "/") + "/"
				defs[a] = map[string]any{"$ref": prefix + b}
				defs[b] = map[string]any{"$ref": prefix + a}
				applied = append(applied, "alias cycle "+a+" <-> "+b)
			}
		}
	}
	return doc, applied
}

// hostile CUE definitions appended to a well-formed package
var hostileCUE = []string{
	"#CycA: #CycB\n#CycB: #CycA", "#SelfAlias: #SelfAlias", "#Empty: {}", "#Tuple: [string, int]", "#JustNull: null", "#Mixed: \"a\" | 1",
	"#DefaultOnly: *1 | string", "#Rec: {a: #Rec}", "#RecList: [...#RecList]", "#Top: _", "#Bottom: _|_", "#NumEnum: 1 | 2 | 3 @cog(kind=\"enum\",memberNames=\"a|b\")",
	"#BadHint: string @cog(kind=\"enum\")", "#OpenStruct: {a: string, ...}", "#PatternOnly: {[=~\"^x\"]: int}", "#Bytes: bytes", "#Float32: float32 & >=0.5",
	"#NestedDefault: {a: {b: *{c: 1} | {c: int}}}", "#Conj: #Empty & {x: int}", "#NullUnion: null | null", "#ListOfNull: [...null]", "#MapOfTop: {[string]: _}",
	"#DisjStruct: {kind: \"a\"} | {kind: 1}", "#DisjNoDisc: {a: int} | {b: string}", "#Big: 1e400", "#Neg: int & <0 & >-5", "#Str: =~\"^[a-z]+$\"",
}

func drawC04Case(rt *rapid.T) c04Case {
	var c c04Case
	f := rapid.SampledFrom(smodel.Formats).Draw(rt, "format")
	cfg := smodel.DefaultGenConfig(f)
	cfg.MaxDefs = 5
	cfg.NestedCollections = rapid.Bool().Draw(rt, "nestedcollections")
	cfg.NamedUnions = rapid.Bool().Draw(rt, "namedunions")
	cfg.Intersections = rapid.Bool().Draw(rt, "intersections")
	cfg.SafeNames = rapid.Bool().Draw(rt, "safenames")
	m := smodel.Draw(rt, cfg)
	source := smodel.Render(f, m)
	n := rapid.IntRange(0, 4).Draw(rt, "nmutations")
	switch f {
	case smodel.JSONSchema, smodel.OpenAPI:
		var doc any
		_ = json.Unmarshal([]byte(source), &doc)
		key := []string{"definitions"}
		if f == smodel.OpenAPI {
			key = []string{"components", "schemas"}
		}
		doc, c.Mutations = mutateJSONDoc(rt, doc, n, key)
		raw, _ := json.MarshalIndent(doc, "", " ")
		source = string(raw)
	case smodel.CUE:
		for k := 0; k < n; k++ {
			frag := rapid.SampledFrom(hostileCUE).Draw(rt, "cuefragment")
			name := strings.SplitN(strings.SplitN(frag, ":", 2)[0], "\n", 2)[0]
			if strings.Contains(source, "\n"+name+":") {
				continue
			}
			source += "\n" + frag + "\n"
			// refer to it from the entry point, sometimes
			if rapid.Bool().Draw(rt, "refer") {
				source = strings.Replace(source, "#"+m.Entry+": {\n", "#"+m.Entry+": {\n\tzzHostile"+fmt.Sprint(k)+"?: "+name+"\n", 1)
			}
			c.Mutations = append(c.Mutations, "append "+frag)
		}
	}
	in := e2.InputSpec{Format: f, Package: m.Package, Source: source}
	if rapid.IntRange(0, 3).Draw(rt, "allowedobjects") == 0 {
		// allowed_objects: the entry point, a random definition, a missing one
		in.AllowedObjects = []string{m.Entry}
		if rapid.Bool().Draw(rt, "allowmore") {
			in.AllowedObjects = append(in.AllowedObjects, rapid.SampledFrom(m.Defs).Draw(rt, "alloweddef").Name)
		}
		if rapid.IntRange(0, 3).Draw(rt, "allowmissing") == 0 {
			in.AllowedObjects = append(in.AllowedObjects, "NoSuchObject")
		}
	}
	if rapid.IntRange(0, 3).Draw(rt, "transform") == 0 {
		in.Transforms = []string{drawHostilePasses(rt, m)}
	}
	c.Inputs = []e2.InputSpec{in}
	c.Config = drawC02Config(rt)
	if rapid.IntRange(0, 2).Draw(rt, "veneers") == 0 {
		c.Config.Builders = true
		c.Config.Veneers = []string{drawHostileVeneers(rt, m)}
	}
	if rapid.Bool().Draw(rt, "severallanguages") {
		for _, l := range allLanguages {
			if rapid.IntRange(0, 2).Draw(rt, "lang."+l) != 0 {
				c.Languages = append(c.Languages, l)
			}
		}
	}
	if len(c.Languages) == 0 {
		c.Languages = []string{rapid.SampledFrom(allLanguages).Draw(rt, "onelang")}
	}
	return c
}

// drawHostilePasses: a `passes:` file whose rules point at existing and
// missing objects with well- and ill-typed arguments.
func drawHostilePasses(rt *rapid.T, m *smodel.Model) string {
	obj := func() string {
		if rapid.IntRange(0, 4).Draw(rt, "missingobj") == 0 {
			return m.Package + ".NoSuchObject"
		}
		return m.Package + "." + rapid.SampledFrom(m.Defs).Draw(rt, "passobj").Name
	}
	field := func() string {
		d := rapid.SampledFrom(m.Defs).Draw(rt, "passfieldobj")
		if len(d.Type.Fields) == 0 || rapid.IntRange(0, 4).Draw(rt, "missingfield") == 0 {
			return m.Package + "." + d.Name + ".noSuchField"
		}
		return m.Package + "." + d.Name + "." + rapid.SampledFrom(d.Type.Fields).Draw(rt, "passfield").Name
	}
	rules := []func() string{
		func() string {
			return fmt.Sprintf("  - rename_object: {from: %q, to: %q}", obj(), rapid.SampledFrom([]string{"Renamed", "", "a b", m.Entry}).Draw(rt, "renameto"))
		},
		func() string { return fmt.Sprintf("  - omit: {objects: [%q, %q]}", obj(), obj()) },
		func() string { return fmt.Sprintf("  - omit_fields: {fields: [%q]}", field()) },
		func() string { return fmt.Sprintf("  - duplicate_object: {object: %q, as: %q}", obj(), obj()) },
		func() string { return fmt.Sprintf("  - fields_set_required: {fields: [%q]}", field()) },
		func() string { return fmt.Sprintf("  - fields_set_not_required: {fields: [%q]}", field()) },
		func() string {
			return fmt.Sprintf("  - fields_set_default: {defaults: {%q: %s}}", field(), rapid.SampledFrom([]string{"1", "\"x\"", "[1, \"a\"]", "{a: {b: null}}", "null", "true", "1.5"}).Draw(rt, "defaultvalue"))
		},
		func() string { return fmt.Sprintf("  - replace_reference: {from: %q, to: %q}", obj(), obj()) },
		func() string {
			return fmt.Sprintf("  - retype_object: {object: %q, as: {kind: ref, ref: {referred_pkg: %q, referred_type: %q}}}", obj(), m.Package, rapid.SampledFrom(m.Defs).Draw(rt, "retypeto").Name)
		},
		func() string {
			return fmt.Sprintf("  - retype_object: {object: %q, as: {kind: scalar, scalar: {scalar_kind: string}}}", obj())
		},
		func() string {
			return fmt.Sprintf("  - hint_object: {object: %q, hints: {skip_variant_plugin_registration: true}}", obj())
		},
		func() string { return fmt.Sprintf("  - retype_field: {field: %q, as: {kind: array}}", field()) },
		func() string { return fmt.Sprintf("  - constant_to_enum: {objects: [%q]}", obj()) },
		func() string { return fmt.Sprintf("  - dataquery_identification: {}") },
		func() string { return fmt.Sprintf("  - disjunction_of_anonymous_structs_to_explicit: {}") },
		func() string {
			return fmt.Sprintf("  - name_anonymous_struct: {field: %q, as: %q}", field(), rapid.SampledFrom([]string{"Named", "", m.Entry}).Draw(rt, "nameas"))
		},
		func() string {
			return fmt.Sprintf("  - add_fields: {to: %q, fields: [{name: extra, type: {kind: scalar, scalar: {scalar_kind: int64}}}]}", obj())
		},
		func() string { return "  - unspec: {}" },
		func() string {
			return fmt.Sprintf("  - schema_set_identifier: {package: %q, identifier: \"\"}", m.Package)
		},
		func() string { return fmt.Sprintf("  - trim_enum_values: {}") },
		func() string { return fmt.Sprintf("  - anonymous_structs_to_named: {}") },
	}
	n := rapid.IntRange(1, 3).Draw(rt, "npasses")
	var lines []string
	for i := 0; i < n; i++ {
		lines = append(lines, rapid.SampledFrom(rules).Draw(rt, "pass")())
	}
	return "passes:\n" + strings.Join(lines, "\n") + "\n"
}

// drawHostileVeneers: builder / option rules with existing and missing
// selectors, short or long argument lists, rules chained on each other.
func drawHostileVeneers(rt *rapid.T, m *smodel.Model) string {
	var structs []smodel.Def
	for _, d := range m.Defs {
		if d.Type.Kind == smodel.KStruct && len(d.Type.Fields) > 0 {
			structs = append(structs, d)
		}
	}
	if len(structs) == 0 {
		return "language: all\npackage: " + m.Package + "\n"
	}
	opt := func() (string, string) {
		d := rapid.SampledFrom(structs).Draw(rt, "veneerobj")
		if rapid.IntRange(0, 5).Draw(rt, "missingoption") == 0 {
			return d.Name, "noSuchOption"
		}
		return d.Name, rapid.SampledFrom(d.Type.Fields).Draw(rt, "veneerfield").Name
	}
	names := func(n int) string {
		pool := []string{"a", "b", "c", "d"}
		return "[" + strings.Join(pool[:n], ", ") + "]"
	}
	optionRules := []func() string{
		func() string {
			o, f := opt()
			return fmt.Sprintf("  - rename: {by_name: %s.%s, as: %s}", o, f, rapid.SampledFrom([]string{"renamed", "type", "a b"}).Draw(rt, "as"))
		},
		func() string { o, f := opt(); return fmt.Sprintf("  - omit: {by_name: %s.%s}", o, f) },
		func() string {
			o, f := opt()
			return fmt.Sprintf("  - duplicate: {by_name: %s.%s, as: %sCopy}", o, f, f)
		},
		func() string {
			o, f := opt()
			return fmt.Sprintf("  - rename_arguments: {by_name: %s.%s, as: %s}", o, f, names(rapid.IntRange(0, 3).Draw(rt, "nargnames")))
		},
		func() string {
			o, f := opt()
			return fmt.Sprintf("  - struct_fields_as_arguments: {by_name: %s.%s}", o, f)
		},
		func() string {
			o, f := opt()
			return fmt.Sprintf("  - struct_fields_as_options: {by_name: %s.%s}", o, f)
		},
		func() string { o, f := opt(); return fmt.Sprintf("  - array_to_append: {by_name: %s.%s}", o, f) },
		func() string { o, f := opt(); return fmt.Sprintf("  - map_to_index: {by_name: %s.%s}", o, f) },
		func() string {
			o, f := opt()
			return fmt.Sprintf("  - disjunction_as_options: {by_name: %s.%s, argument_index: %d}", o, f, rapid.IntRange(0, 2).Draw(rt, "argidx"))
		},
		func() string {
			o, f := opt()
			return fmt.Sprintf("  - unfold_boolean: {by_name: %s.%s, true_as: on, false_as: off}", o, f)
		},
		func() string { o, f := opt(); return fmt.Sprintf("  - promote_to_constructor: {by_name: %s.%s}", o, f) },
		func() string {
			// an option with several arguments (the fields of a referred struct),
			// then a list of argument names that may be shorter or longer
			o, f := opt()
			for _, d := range structs {
				for _, fl := range d.Type.Fields {
					if fl.Type.Kind == smodel.KRef && !fl.Type.Nullable {
						if t := m.Def(fl.Type.Ref); t != nil && t.Type.Kind == smodel.KStruct && len(t.Type.Fields) >= 2 {
							o, f = d.Name, fl.Name
						}
					}
				}
			}
			return fmt.Sprintf("  - struct_fields_as_arguments: {by_name: %s.%s}\n  - rename_arguments: {by_name: %s.%s, as: %s}", o, f, o, f, names(rapid.IntRange(1, 3).Draw(rt, "nargnames2")))
		},
	}
	builderRules := []func() string{
		func() string { o, _ := opt(); return fmt.Sprintf("  - omit: {by_object: %s}", o) },
		func() string {
			o, _ := opt()
			return fmt.Sprintf("  - rename: {by_object: %s, as: %s}", o, rapid.SampledFrom([]string{"Renamed", "", "type"}).Draw(rt, "bas"))
		},
		func() string {
			o, f := opt()
			return fmt.Sprintf("  - promote_options_to_constructor: {by_object: %s, options: [%s, noSuchOption]}", o, f)
		},
		func() string {
			o, f := opt()
			return fmt.Sprintf("  - properties: {by_object: %s, set: [{name: %s, type: {kind: scalar, scalar: {scalar_kind: string}}}]}", o, f)
		},
		func() string { o, _ := opt(); return fmt.Sprintf("  - duplicate: {by_object: %s, as: %sCopy}", o, o) },
		func() string {
			o, _ := opt()
			o2, _ := opt()
			return fmt.Sprintf("  - merge_into: {destination: %s, source: %s, under_path: %s}", o, o2, rapid.SampledFrom([]string{"noSuchField", "a.b", ""}).Draw(rt, "underpath"))
		},
		func() string {
			o, f := opt()
			return fmt.Sprintf("  - initialize: {by_object: %s, set: [{property: %s, value: 1}]}", o, f)
		},
		func() string {
			o, _ := opt()
			return fmt.Sprintf("  - compose: {by_object: %s, source_builder_name: %s.NoSuch, plugin_discriminator_field: kind}", o, m.Package)
		},
	}
	var b, o []string
	for i, n := 0, rapid.IntRange(0, 2).Draw(rt, "nbuilderrules"); i < n; i++ {
		b = append(b, rapid.SampledFrom(builderRules).Draw(rt, "builderrule")())
	}
	for i, n := 0, rapid.IntRange(0, 3).Draw(rt, "noptionrules"); i < n; i++ {
		o = append(o, rapid.SampledFrom(optionRules).Draw(rt, "optionrule")())
	}
	text := "language: " + rapid.SampledFrom([]string{"all", "all", "go", "python"}).Draw(rt, "veneerlang") + "\npackage: " + m.Package + "\n"
	if len(b) > 0 {
		text += "builders:\n" + strings.Join(b, "\n") + "\n"
	}
	if len(o) > 0 {
		text += "options:\n" + strings.Join(o, "\n") + "\n"
	}
	return text
}

// ---------------------------------------------------------------- the check

var c04WorkerHandle *c04Worker

func c04Exec(c c04Case, timeout time.Duration) c04Answer {
	if c04WorkerHandle == nil {
		w, err := startC04Worker()
		if err != nil {
			return c04Answer{Outcome: "death", Sig: "worker-death:cannot-start @ ?", Msg: err.Error()}
		}
		c04WorkerHandle = w
	}
	ans, alive := c04WorkerHandle.exec(c, timeout)
	if !alive {
		c04WorkerHandle = nil
	}
	return ans
}

func c04Judge(run *vlib.Run, c c04Case, timeout time.Duration) []vlib.Violation {
	ans := c04Exec(c, timeout)
	if ans.Outcome == "hang" {
		// a watchdog hit must reproduce alone, with a larger budget
		count(run, "watchdog_hits", 1)
		again := c04Exec(c, 2*timeout)
		if again.Outcome != "hang" {
			count(run, "watchdog_hits_not_reproduced", 1)
			ans = again
		}
	}
	if run != nil {
		tags := []string{"outcome:" + ans.Outcome}
		if ans.ParsedIR {
			tags = append(tags, "ir-built")
		}
		if ans.ParsedIR || ans.Outcome == "panic" || ans.Outcome == "death" || ans.Outcome == "hang" {
			raw, _ := json.Marshal(c)
			run.Eval(vlib.HashBytes(raw), tags...)
		} else {
			run.Count("stopped_in_front_end", 1)
			run.Label(tags...)
		}
	}
	switch ans.Outcome {
	case "files", "error":
		return nil
	}
	return []vlib.Violation{vlib.V(ans.Outcome+":"+ans.Sig, "%s (%s); mutations: %v", ans.Sig, ans.Msg, c.Mutations)}
}

func c04Check(c c04Case) []vlib.Violation {
	defer func() {
		if c04WorkerHandle != nil {
			c04WorkerHandle.stop()
			c04WorkerHandle = nil
		}
	}()
	return c04Judge(nil, c, 15*time.Second)
}

func TestC04(t *testing.T) {
	if os.Getenv("VERIF_WORKER") == "1" {
		t.Skip("worker process")
	}
	run := vlib.Begin(t, "C04")
	defer run.Finish(t)
	run.Describe(
		"Each rapid case is one cog run executed in a WORKER subprocess: a schema model rendered in one of the three input formats and then damaged by 0-4 structural mutations (JSON Schema / OpenAPI: a random node replaced by one of ~60 hostile fragments — enum without type / with null / mixed, array without items, tuple items, type arrays, empty oneOf / anyOf / allOf, dangling / self / external $ref, additionalProperties true, constants and defaults of the wrong type, non-string discriminators — or deleted, nulled, retyped, or two definitions turned into an alias cycle; CUE: hostile definitions appended and referenced — alias cycles, closed lists, null, bottom, mixed enums, open structs, recursive lists), optional allowed_objects (existing / missing names), an optional transformation file (rules aimed at existing and missing objects / fields with well- and ill-typed arguments, retype_object creating reference cycles), optional veneers (builder / option rules with missing selectors, argument lists of the wrong length, rules chained on each other), every output flag, a random subset of the seven languages. Oracle: the run returns files or an error. A recovered panic, a dead worker (fatal error such as stack overflow) or a hang (no answer within the watchdog, reproduced alone with 2x the budget; SIGQUIT dump) is a violation, identified by (normalised message, first cog stack frame). The search continues behind listed signatures. Non-trivial: the front ends built an IR (or the run crashed).",
		"byte-level native fuzzing is not part of the quick tier",
		"a watchdog hit that does not reproduce alone is counted, not reported",
	)
	if vlib.RunReplay(t, run, c04Check) {
		return
	}
	timeout := 30 * time.Second
	defer func() {
		if c04WorkerHandle != nil {
			c04WorkerHandle.stop()
			c04WorkerHandle = nil
		}
	}()
	rapid.Check(t, func(rt *rapid.T) {
		c := drawC04Case(rt)
		run.Label("input:"+string(c.Inputs[0].Format), fmt.Sprintf("mutations:%d", len(c.Mutations)))
		run.Label(prefixAll("language:", c.Languages)...)
		if len(c.Inputs[0].AllowedObjects) > 0 {
			run.Label("allowed_objects")
		}
		if len(c.Inputs[0].Transforms) > 0 {
			run.Label("transformations")
		}
		if len(c.Config.Veneers) > 0 {
			run.Label("veneers")
		}
		if len(c.Mutations) > 0 {
			run.Sample(map[string]any{"format": c.Inputs[0].Format, "mutations": c.Mutations, "allowed_objects": c.Inputs[0].AllowedObjects, "transformations": c.Inputs[0].Transforms, "veneers": c.Config.Veneers, "languages": c.Languages})
		}
		if vs := c04Judge(run, c, timeout); len(vs) > 0 {
			vlib.Fail(rt, run.Judge(c, vs))
		}
	})
}
